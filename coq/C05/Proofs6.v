(* C05 lemmas, part 6: what the pinned zeus / pyswarms conversions get right for EVERY reachable
   call (rows, priors, weights, completeness) -- only the log-likelihood is mispaired. *)
From Coq Require Import ZArith List Bool Arith Lia.
From PAFCommon Require Import Lists.
From PAFC05 Require Import Model Proofs1 Proofs2.
Import ListNotations.

Lemma every_concat_length {A} step : forall k (l : list (list A)),
  length (concat (every step k l)) <= length (concat l).
Proof.
  intros k l; revert k; induction l as [|x l IH]; intros k; simpl; auto.
  rewrite app_length. destruct k; simpl.
  - rewrite app_length. specialize (IH (step - 1)). lia.
  - specialize (IH k). lia.
Qed.

Lemma skipn_concat_length {A} n : forall (l : list (list A)), length (concat (skipn n l)) <= length (concat l).
Proof.
  induction n as [|n IH]; intros l; simpl; auto. destruct l as [|x l]; simpl; auto.
  rewrite app_length. specialize (IH l). lia.
Qed.

Lemma every_from_concat_length {A} start step (l : list (list A)) :
  length (concat (every_from start step l)) <= length (concat l).
Proof.
  unfold every_from. etransitivity; [apply every_concat_length | apply skipn_concat_length].
Qed.

Lemma concat_length_Forall2 {A B} (l : list (list A)) (m : list (list B)) :
  Forall2 (fun a b => length a = length b) l m -> length (concat l) = length (concat m).
Proof. induction 1; simpl; auto. rewrite !app_length. lia. Qed.

Lemma map2_length_min {A B C} (f : A -> B -> C) : forall l m, length (map2 f l m) = Nat.min (length l) (length m).
Proof. induction l as [|x l IH]; intros [|y m]; simpl; auto. Qed.

Section Pinned.
  Variable V : Type.
  Variables (sub : V -> V -> V) (neghalf : V -> V) (one : V).
  Variable prior : list V -> V.

  (* zeus, pinned call, any discard / thin: every thinned row is returned once, in order, with its own
     prior and weight 1 *)
  Lemma zeus_pinned_rows paths chain logp discard thin out :
    Forall (rows_ok V paths) chain ->
    Forall2 (fun step lp => length step = length lp) chain logp ->
    zeus_convert V sub one prior false paths chain logp discard thin = Some out ->
    Forall (half_faithful V prior one) out
    /\ map (s_vec V) out = concat (every_from discard thin chain).
  Proof.
    intros Hok Hshape. unfold zeus_convert. destruct (Nat.eqb thin 0); [discriminate|].
    intros H; injection H as <-.
    set (rows := concat (every_from discard thin chain)).
    assert (Hrows : rows_ok V paths rows).
    { apply rows_ok_concat. rewrite Forall_forall in *. intros x Hx. apply Hok. eapply every_from_incl; eauto. }
    assert (Hlen : length (map2 sub (concat logp) (map prior rows)) = length rows).
    { rewrite map2_length_min, map_length.
      pose proof (every_from_concat_length discard thin chain) as H1. fold rows in H1.
      rewrite (concat_length_Forall2 _ _ Hshape) in H1. lia. }
    split.
    - apply from_lists_half; auto.
      + apply zip_all_map_r; reflexivity.
      + unfold ones. clear. induction (length _); simpl; constructor; auto.
    - apply from_lists_rows_all; auto.
      + apply map_length.
      + unfold ones. rewrite repeat_length. exact Hlen.
  Qed.

  (* pyswarms, pinned code, any swarm: one sample per iteration, its parameters are that iteration's
     first particle, weight 1 *)
  Lemma heads_length (pos : list (list (list V))) firsts :
    heads V pos = Some firsts -> length firsts = length pos /\ length pos <= length (concat pos).
  Proof.
    revert firsts; induction pos as [|it pos IH]; intros firsts; simpl.
    - intros H; injection H as <-; auto.
    - destruct it as [|p rest]; [discriminate|]. destruct (heads V pos) as [h|]; [|discriminate].
      intros H; injection H as <-. destruct (IH h eq_refl) as [H1 H2]. simpl. rewrite app_length. split; lia.
  Qed.

  Lemma pyswarms_pinned_rows paths pos cost out firsts :
    Forall (rows_ok V paths) pos ->
    length cost = length pos ->
    heads V pos = Some firsts ->
    pyswarms_convert V sub neghalf one prior paths pos cost = Some out ->
    map (s_vec V) out = firsts /\ Forall (fun s => s_w s = one) out.
  Proof.
    intros Hok Hcost Hh. unfold pyswarms_convert. rewrite Hh. intros H; injection H as <-.
    destruct (heads_length pos firsts Hh) as [Hf Hc].
    assert (Hrows : rows_ok V paths firsts).
    { clear -Hh Hok. revert firsts Hh. induction pos as [|it pos IH]; intros firsts Hh; simpl in Hh.
      - injection Hh as <-; constructor.
      - destruct it as [|p rest]; [discriminate|]. destruct (heads V pos) as [h|] eqn:E; [|discriminate].
        injection Hh as <-. inversion Hok as [|? ? Hit Hok']; subst. inversion Hit; subst.
        constructor; auto. apply IH; auto. }
    set (lps := map prior (concat pos)). set (lls := map2 sub (map neghalf cost) lps).
    assert (Hl : length lls = length firsts).
    { unfold lls, lps. rewrite map2_length_min, !map_length. lia. }
    split.
    - (* from_lists over firsts / lls / lps (longer) / ones: rows complete because lls, ws have the rows' length *)
      clear -Hrows Hl Hf Hc. revert Hl. unfold ones. generalize lls. intros l Hl.
      assert (Hp : length firsts <= length lps) by (unfold lps; rewrite map_length; lia).
      revert Hp. generalize lps. rewrite Hl. clear Hf Hc.
      revert l Hl. induction firsts as [|f firsts IH]; intros l Hl ps Hp; simpl; [destruct l; reflexivity|].
      destruct l as [|x l]; [discriminate|]. destruct ps as [|q ps]; [simpl in Hp; lia|]. simpl.
      inversion Hrows as [|? ? Hr Hrows']; subst.
      unfold s_vec at 1; simpl. rewrite combine_snd by exact Hr. f_equal.
      apply IH; auto. simpl in Hp; lia.
    - rewrite Forall_forall. intros s Hs. apply from_lists_weight_in in Hs. unfold ones in Hs.
      apply repeat_spec in Hs. exact Hs.
  Qed.
End Pinned.

(* the repaired PySwarms conversion: personal bests with their own costs *)
Section PbestFixed.
  Variable V : Type.
  Variables (add sub : V -> V -> V) (neghalf : V -> V) (one : V).
  Variable prior : list V -> V.
  Variable L : list V -> V.
  Variable nonneg : V -> Prop.
  Hypothesis sub_add : forall a b, sub (add a b) b = a.
  Hypothesis one_nonneg : nonneg one.

  Lemma pyswarms_pbest_pairing paths rows cost out :
    rows_ok V paths rows ->
    Forall2 (fun x c => neghalf c = add (L x) (prior x)) rows cost ->
    pyswarms_pbest_convert V sub neghalf one prior paths rows cost = Some out ->
    Forall (faithful V prior L nonneg) out /\ map (s_vec V) out = rows.
  Proof.
    intros Hok Hc. unfold pyswarms_pbest_convert. intros H; injection H as <-.
    apply (post_rows_faithful V add sub one prior L nonneg sub_add one_nonneg); auto.
    unfold post_contract. clear Hok. induction Hc; simpl; constructor; auto.
  Qed.
End PbestFixed.
