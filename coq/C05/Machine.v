(* C05, class "state carried between two uses of one object": the Samples object returned by a search, as a
   state machine.

   State of the object: (model.all_paths, sample_list) and the cache `_instance` (SamplesInterface.instance stores
   the first answer of max_log_likelihood() and hands it out ever after).  The instance is represented, as everywhere
   in C05, by the parameter vector handed to instance_from_vector (None = the call raises).

   Uses: `instance` (cached), `max_log_likelihood(as_instance=False)` (never cached), the position of
   `max_log_likelihood_sample`, and the derivations that return another Samples object which is then used instead:
     samples + other                          -> built by __init__        : fresh cache
     samples_above_weight_threshold_from(t)   -> built by __init__        : fresh cache
     copy(samples)                            -> __copy__                 : keeps `_instance`
     with_paths / without_paths               -> __copy__, then model and kwargs reduced : keeps `_instance`
   A `policy` says which derivations keep the cache; `code_policy` is the code that exists, `fixed_policy` the proposed
   repair (proposed_fixes/C05-samples-copy-keeps-instance.diff: __copy__ forgets `_instance`). *)
From Coq Require Import ZArith List Bool Arith Lia.
From PAFC05 Require Import Model.
Import ListNotations.

Section Machine.
  Variable V : Type.
  Variable ltb : V -> V -> bool.

  Definition sstate := (list (list path) * list (sample V))%type.

  (* what a fresh object answers: the vector of the first strict maximum, columns in id order *)
  Definition answer (s : sstate) : option (list V) :=
    match max_ll_sample V ltb (snd s) with
    | Some b => vector_for V (fst s) (@s_kw V b)
    | None => None
    end.

  Inductive derive :=
  | DAdd (other : list (sample V))
  | DThreshold (keepw : V -> bool)
  | DWithPaths (keep : path -> bool)
  | DCopy.

  Definition restrict (keep : path -> bool) (s : sample V) : sample V :=
    @mkS V (@s_ll V s) (@s_lp V s) (@s_w V s) (filter (fun kv => keep (fst kv)) (@s_kw V s)).
  Definition nonempty {A} (l : list A) : bool := match l with [] => false | _ => true end.

  Definition apply_derive (d : derive) (s : sstate) : sstate :=
    match d with
    | DAdd o => (fst s, snd s ++ o)
    | DThreshold t => (fst s, filter (fun x => t (@s_w V x)) (snd s))
    | DWithPaths keep => (filter nonempty (map (filter keep) (fst s)), map (restrict keep) (snd s))
    | DCopy => s
    end.

  Inductive op := OInstance | OVector | OIndex | ODerive (d : derive).
  Inductive reply := RVec (v : option (list V)) | RIdx (i : option nat) | RDerived.

  Definition policy := derive -> bool.
  Definition code_policy : policy := fun d => match d with DWithPaths _ => true | DCopy => true | _ => false end.
  Definition fixed_policy : policy := fun _ => false.

  Fixpoint run (p : policy) (s : sstate) (cache : option (list V)) (ops : list op) : list reply :=
    match ops with
    | [] => []
    | OInstance :: r =>
        match cache with
        | Some v => RVec (Some v) :: run p s cache r
        | None => RVec (answer s) :: run p s (answer s) r
        end
    | OVector :: r => RVec (answer s) :: run p s cache r
    | OIndex :: r => RIdx (max_ll_index V ltb (snd s)) :: run p s cache r
    | ODerive d :: r => RDerived :: run p (apply_derive d s) (if p d then cache else None) r
    end.

  (* every use answered by a fresh object holding the current model and sample list *)
  Fixpoint expected (s : sstate) (ops : list op) : list reply :=
    match ops with
    | [] => []
    | OInstance :: r => RVec (answer s) :: expected s r
    | OVector :: r => RVec (answer s) :: expected s r
    | OIndex :: r => RIdx (max_ll_index V ltb (snd s)) :: expected s r
    | ODerive d :: r => RDerived :: expected (apply_derive d s) r
    end.

  Definition preserves (d : derive) : Prop := forall s, answer (apply_derive d s) = answer s.

  (* a policy is sound on a history when it keeps the cache only across derivations that cannot change the answer *)
  Fixpoint sound_on (p : policy) (ops : list op) : Prop :=
    match ops with
    | [] => True
    | ODerive d :: r => (p d = true -> preserves d) /\ sound_on p r
    | _ :: r => sound_on p r
    end.

  Lemma run_expected_inv : forall p ops s cache,
    sound_on p ops -> (forall v, cache = Some v -> answer s = Some v) ->
    run p s cache ops = expected s ops.
  Proof.
    intros p ops; induction ops as [|o r IH]; intros s cache Hs Hc; simpl; [reflexivity|].
    destruct o; simpl in Hs.
    - destruct cache as [v|].
      + rewrite (Hc v eq_refl). f_equal. apply IH; auto.
      + f_equal. apply IH; auto.
    - f_equal. apply IH; auto.
    - f_equal. apply IH; auto.
    - destruct Hs as [Hd Hr]. f_equal. apply IH; auto.
      intros v Hv. destruct (p d) eqn:Hp; [|discriminate].
      rewrite (Hd eq_refl s). apply Hc; exact Hv.
  Qed.

  Lemma samples_history_independent : forall p ops s,
    sound_on p ops -> run p s None ops = expected s ops.
  Proof. intros; apply run_expected_inv; auto; intros; discriminate. Qed.

  Lemma sound_fixed : forall ops, sound_on fixed_policy ops.
  Proof. induction ops as [|o r IH]; simpl; auto. destruct o; auto. split; auto. intros; discriminate. Qed.

  Lemma samples_history_fixed : forall ops s, run fixed_policy s None ops = expected s ops.
  Proof. intros; apply samples_history_independent; apply sound_fixed. Qed.

  (* the code that exists: independent of the history as long as no with_paths / without_paths derivation is used *)
  Fixpoint no_reduction (ops : list op) : Prop :=
    match ops with
    | [] => True
    | ODerive (DWithPaths _) :: _ => False
    | _ :: r => no_reduction r
    end.

  Lemma sound_code : forall ops, no_reduction ops -> sound_on code_policy ops.
  Proof.
    induction ops as [|o r IH]; simpl; auto. destruct o; auto.
    destruct d; simpl; intros H; try contradiction; split; auto; try (intros; discriminate).
    intros _ s; reflexivity.
  Qed.

  Lemma samples_history_code_partial : forall ops s,
    no_reduction ops -> run code_policy s None ops = expected s ops.
  Proof. intros; apply samples_history_independent; apply sound_code; auto. Qed.

  (* the last use of any history under a sound policy is the fresh answer for the current state *)
  Fixpoint final_state (s : sstate) (ops : list op) : sstate :=
    match ops with
    | [] => s
    | ODerive d :: r => final_state (apply_derive d s) r
    | _ :: r => final_state s r
    end.

  Lemma expected_app : forall a b s, expected s (a ++ b) = expected s a ++ expected (final_state s a) b.
  Proof.
    induction a as [|o r IH]; intros b s; simpl; [reflexivity|].
    destruct o; simpl; rewrite IH; reflexivity.
  Qed.

  Lemma sound_on_app : forall p a b, sound_on p a -> sound_on p b -> sound_on p (a ++ b).
  Proof.
    induction a as [|o r IH]; intros b Ha Hb; simpl in *; auto.
    destruct o; auto. destruct Ha; split; auto.
  Qed.

  Lemma samples_last_instance : forall p before s,
    sound_on p before ->
    run p s None (before ++ [OInstance]) = expected s before ++ [RVec (answer (final_state s before))].
  Proof.
    intros p before s H.
    rewrite samples_history_independent by (apply sound_on_app; simpl; auto).
    rewrite expected_app. reflexivity.
  Qed.
End Machine.

(* ---------- the pinned code is not history independent: witness over Z ---------- *)
Local Open Scope Z_scope.
Definition m_groups : list (list path) := [[1]; [2]].
Definition m_samples : list (sample Z) := [@mkS Z 5 0 1 [(1, 10); (2, 20)]; @mkS Z 9 0 1 [(1, 11); (2, 21)]].
Definition m_ops : list (op Z) := [OInstance Z; ODerive Z (DWithPaths Z (fun p => Z.eqb p 1)); OInstance Z].

Lemma m_code_run : run Z Z.ltb (code_policy Z) (m_groups, m_samples) None m_ops
                   = [RVec Z (Some [11; 21]); RDerived Z; RVec Z (Some [11; 21])].
Proof. vm_compute. reflexivity. Qed.
Lemma m_expected : expected Z Z.ltb (m_groups, m_samples) m_ops
                   = [RVec Z (Some [11; 21]); RDerived Z; RVec Z (Some [11])].
Proof. vm_compute. reflexivity. Qed.

Lemma samples_copy_keeps_instance_refuted :
  exists (ops : list (op Z)) (s : sstate Z),
    run Z Z.ltb (code_policy Z) s None ops <> expected Z Z.ltb s ops.
Proof.
  exists m_ops, (m_groups, m_samples). rewrite m_code_run, m_expected. intro H; discriminate H.
Qed.
