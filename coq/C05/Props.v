From Coq Require Import ZArith List.
From PAFC05 Require Import Model Proofs.
Import ListNotations.

Theorem C05_placeholder : forall V paths (lls lps ws : list V), from_lists V paths [] lls lps ws = [].
Proof. exact from_lists_nil_rows. Qed.
