(* C05 property theorems: statements only, each closed by `exact`.

   Vocabulary (Model.v / Proofs1.v / Proofs2.v):
     faithful V prior L nonneg s  :=  s_ll s = L (s_vec s) /\ s_lp s = prior (s_vec s) /\ nonneg (s_w s)
                                     -- the sample carries the likelihood and prior of its own parameters
     s_vec s                      :=  the parameter values of the sample's kwargs, in column order
     rows_ok paths rows           :=  every parameter row has one value per column
     mcmc_contract / post_contract / logl_contract / pyswarms_contract : what the third-party sampler
                                     guarantees about its own arrays (hypotheses, not verified)
   All theorems quantify over every number type with exact arithmetic ((a + b) - b = a). *)
From Coq Require Import ZArith List Sorting.Sorted.
From PAFC05 Require Import Model Proofs1 Proofs2 Proofs3 Proofs4 Proofs5 Proofs6 Machine.
Import ListNotations.

(* ---------- Sample.from_lists: the i-th sample is the i-th entry of every list ---------- *)
Theorem C05_from_lists_pairing :
  forall (V : Type) (prior L : list V -> V) (nonneg : V -> Prop) (paths : list path) (rows : list (list V))
         (lls lps ws : list V),
    rows_ok V paths rows ->
    zip_all (fun r l => l = L r) rows lls ->
    zip_all (fun r p => p = prior r) rows lps ->
    Forall nonneg ws ->
    Forall (faithful V prior L nonneg) (from_lists V paths rows lls lps ws).
Proof. exact from_lists_faithful. Qed.

Theorem C05_from_lists_complete :
  forall (V : Type) (paths : list path) (rows : list (list V)) (lls lps ws : list V),
    rows_ok V paths rows ->
    length lls = length rows -> length lps = length rows -> length ws = length rows ->
    map (s_vec V) (from_lists V paths rows lls lps ws) = rows.
Proof. exact from_lists_rows_all. Qed.

(* ---------- nested samplers ---------- *)
Theorem C05_dynesty_pairing :
  forall (V : Type) (sub : V -> V -> V) (prior : list V -> V) (wexp : V -> V) (L : list V -> V) (nonneg : V -> Prop),
    (forall x : V, nonneg (wexp x)) ->
    forall (paths : list path) (rows : list (list V)) (logl logwt logz : list V) (out : list (sample V)),
      rows_ok V paths rows ->
      logl_contract L rows logl ->
      dynesty_convert V sub prior wexp paths rows logl logwt logz = Some out ->
      Forall (faithful V prior L nonneg) out /\ (length logwt = length rows -> map (s_vec V) out = rows).
Proof. exact dynesty_pairing. Qed.

Theorem C05_nautilus_pairing :
  forall (V : Type) (prior : list V -> V) (wexp : V -> V) (L : list V -> V) (nonneg : V -> Prop),
    (forall x : V, nonneg (wexp x)) ->
    forall (paths : list path) (rows : list (list V)) (logl logw : list V) (out : list (sample V)),
      rows_ok V paths rows ->
      logl_contract L rows logl ->
      nautilus_convert V prior wexp paths rows logl logw = Some out ->
      Forall (faithful V prior L nonneg) out /\ (length logw = length rows -> map (s_vec V) out = rows).
Proof. exact nautilus_pairing. Qed.

Theorem C05_ultranest_pairing :
  forall (V : Type) (prior L : list V -> V) (nonneg : V -> Prop) (paths : list path) (rows : list (list V))
         (logl weights : list V) (out : list (sample V)),
    rows_ok V paths rows ->
    logl_contract L rows logl ->
    Forall nonneg weights ->
    ultranest_convert V prior paths rows logl weights = Some out ->
    Forall (faithful V prior L nonneg) out /\ (length weights = length rows -> map (s_vec V) out = rows).
Proof. exact ultranest_pairing. Qed.

(* ---------- maximum-likelihood searches ---------- *)
Theorem C05_drawer_pairing :
  forall (V : Type) (add sub : V -> V -> V) (one : V) (prior L : list V -> V) (nonneg : V -> Prop),
    (forall a b : V, sub (add a b) b = a) -> nonneg one ->
    forall (paths : list path) (rows : list (list V)) (post : list V) (out : list (sample V)),
      rows_ok V paths rows ->
      post_contract add prior L rows post ->
      drawer_convert V sub one prior paths rows post = Some out ->
      Forall (faithful V prior L nonneg) out /\ map (s_vec V) out = rows.
Proof. exact drawer_pairing. Qed.

Theorem C05_bfgs_pairing :
  forall (V : Type) (add sub : V -> V -> V) (one : V) (prior L : list V -> V) (nonneg : V -> Prop),
    (forall a b : V, sub (add a b) b = a) -> nonneg one ->
    forall (paths : list path) (x : list V) (post : V) (out : list (sample V)),
      length x = length paths ->
      post = add (L x) (prior x) ->
      bfgs_convert V sub one prior paths x post = Some out ->
      Forall (faithful V prior L nonneg) out /\ map (s_vec V) out = [x].
Proof. exact bfgs_pairing. Qed.

Theorem C05_bfgs_history_pairing :
  forall (V : Type) (one : V) (prior L : list V -> V) (nonneg : V -> Prop),
    nonneg one ->
    forall (paths : list path) (hist : list (list V)) (hist_ll : list V) (out : list (sample V)),
      rows_ok V paths hist ->
      logl_contract L hist hist_ll ->
      bfgs_vis_convert V one prior paths hist hist_ll = Some out ->
      Forall (faithful V prior L nonneg) out /\ map (s_vec V) out = hist.
Proof. exact bfgs_vis_pairing. Qed.

(* ---------- emcee: the full statement holds for the log-prob call /repo has since 97df212 (C05_emcee_pairing);
   the `_legacy_` theorems are the record of the call pinned before (refutation witness, and what it got right) ---------- *)
(* emcee_pairing_statement aligned := for every exact arithmetic, chain, log-prob array satisfying
   the sampler contract, discard and thin: every sample of emcee_convert aligned ... is faithful *)
Theorem C05_emcee_pairing : emcee_pairing_statement true.
Proof. exact emcee_fixed_holds. Qed.

Theorem C05_emcee_pairing_legacy_refuted : ~ emcee_pairing_statement false.
Proof. exact emcee_pinned_refuted. Qed.

Theorem C05_emcee_complete :
  forall (V : Type) (add sub : V -> V -> V) (one : V) (prior L : list V -> V) (nonneg : V -> Prop),
    (forall a b : V, sub (add a b) b = a) -> nonneg one ->
    forall (paths : list path) (chain : list (list (list V))) (logp : list (list V)) (discard thin : nat)
           (out : list (sample V)),
      Forall (rows_ok V paths) chain ->
      mcmc_contract add prior L chain logp ->
      emcee_convert V sub one prior true paths chain logp discard thin = Some out ->
      Forall (faithful V prior L nonneg) out /\
      map (s_vec V) out = concat (every_from (discard + thin - 1) thin chain).
Proof. exact emcee_aligned_pairing. Qed.

(* pinned call: priors, weights and rows are right (only the log-likelihood is mispaired) *)
Theorem C05_emcee_pairing_legacy_partial :
  forall (V : Type) (sub : V -> V -> V) (one : V) (prior : list V -> V) (paths : list path)
         (chain : list (list (list V))) (logp : list (list V)) (discard thin : nat) (out : list (sample V)),
    Forall (rows_ok V paths) chain ->
    emcee_convert V sub one prior false paths chain logp discard thin = Some out ->
    Forall (half_faithful V prior one) out /\
    (exists k : nat, map (s_vec V) out = firstn k (concat (every_from (discard + thin - 1) thin chain))).
Proof. exact emcee_pinned_partial. Qed.

(* ---------- zeus ---------- *)
Theorem C05_zeus_pairing_fixed : zeus_pairing_statement true.
Proof. exact zeus_fixed_holds. Qed.

Theorem C05_zeus_pairing_refuted : ~ zeus_pairing_statement false.
Proof. exact zeus_pinned_refuted. Qed.

(* pinned call, EVERY discard / thin: each thinned row is returned once, in order, with its own prior
   and weight 1 (only the log-likelihood is mispaired) *)
Theorem C05_zeus_pairing_partial :
  forall (V : Type) (sub : V -> V -> V) (one : V) (prior : list V -> V) (paths : list path)
         (chain : list (list (list V))) (logp : list (list V)) (discard thin : nat) (out : list (sample V)),
    Forall (rows_ok V paths) chain ->
    Forall2 (fun (step : list (list V)) (lp : list V) => length step = length lp) chain logp ->
    zeus_convert V sub one prior false paths chain logp discard thin = Some out ->
    Forall (half_faithful V prior one) out /\
    map (s_vec V) out = concat (every_from discard thin chain).
Proof. exact zeus_pinned_rows. Qed.

(* ---------- pyswarms ---------- *)
Theorem C05_pyswarms_pairing_legacy_refuted : ~ pyswarms_pairing_statement.
Proof. exact pyswarms_refuted. Qed.

(* the conversion /repo has since fe260fe (FPyswarmsPbest in the correspondence): the particles' personal bests,
   under pyswarms' contract pbest_cost[i] = cost(pbest_pos[i]).  The `_legacy_` theorems below are the record of the
   conversion pinned before (particle 0 of each iteration + best-cost history). *)
Theorem C05_pyswarms_pairing :
  forall (V : Type) (add sub : V -> V -> V) (neghalf : V -> V) (one : V) (prior L : list V -> V) (nonneg : V -> Prop),
    (forall a b : V, sub (add a b) b = a) -> nonneg one ->
    forall (paths : list path) (rows : list (list V)) (cost : list V) (out : list (sample V)),
      rows_ok V paths rows ->
      Forall2 (fun x c => neghalf c = add (L x) (prior x)) rows cost ->
      pyswarms_pbest_convert V sub neghalf one prior paths rows cost = Some out ->
      Forall (faithful V prior L nonneg) out /\ map (s_vec V) out = rows.
Proof. exact pyswarms_pbest_pairing. Qed.

(* guard excluding the defect: a swarm of one particle whose best-cost history is that particle's cost *)
Theorem C05_pyswarms_single_particle_legacy_partial :
  forall (V : Type) (add sub : V -> V -> V) (neghalf : V -> V) (one : V) (prior L : list V -> V) (nonneg : V -> Prop),
    (forall a b : V, sub (add a b) b = a) -> nonneg one ->
    forall (paths : list path) (xs : list (list V)) (cost : list V) (out : list (sample V)),
      rows_ok V paths xs ->
      Forall2 (fun x c => neghalf c = add (L x) (prior x)) xs cost ->
      pyswarms_convert V sub neghalf one prior paths (map (fun x => [x]) xs) cost = Some out ->
      Forall (faithful V prior L nonneg) out /\ map (s_vec V) out = xs.
Proof. exact pyswarms_single_particle. Qed.

(* pinned code, EVERY swarm: one sample per iteration, its parameters are the first particle of that
   iteration, weight 1 (log-likelihood and log-prior belong to other particles) *)
Theorem C05_pyswarms_rows_legacy_partial :
  forall (V : Type) (sub : V -> V -> V) (neghalf : V -> V) (one : V) (prior : list V -> V) (paths : list path)
         (pos : list (list (list V))) (cost : list V) (out : list (sample V)) (firsts : list (list V)),
    Forall (rows_ok V paths) pos ->
    length cost = length pos ->
    heads V pos = Some firsts ->
    pyswarms_convert V sub neghalf one prior paths pos cost = Some out ->
    map (s_vec V) out = firsts /\ Forall (fun s : sample V => s_w s = one) out.
Proof. exact pyswarms_pinned_rows. Qed.

(* ---------- initializer: likelihoods stay with the point they were computed for ---------- *)
(* samples_from_model (rounds of min(remaining, n_cores) draws, pool results zipped with the drawn
   vectors by position, rejected draws dropped) returns total_points triples, each of them one of the
   draws together with that draw's own figure of merit ... *)
Theorem C05_initializer_pairing :
  forall (V : Type) (fuel ncores total : nat) (draws : list (draw V)) (out : list (kept V)) (rest : list (draw V)),
    init_run V fuel ncores total draws [] = Some (out, rest) ->
    length out = total /\
    (forall (u p : list V) (f : V), In (u, p, f) out -> In (u, p, Some f) draws).
Proof. exact init_run_pairs. Qed.

(* ... namely exactly the successful draws of the consumed prefix, in generation order *)
Theorem C05_initializer_is_filter :
  forall (V : Type) (fuel ncores total : nat) (draws : list (draw V)) (out : list (kept V)) (rest : list (draw V)),
    init_run V fuel ncores total draws [] = Some (out, rest) ->
    exists n : nat, rest = skipn n draws /\ out = kept_of V (firstn n draws).
Proof. exact init_run_is_filter. Qed.

(* ---------- best fit ---------- *)
Theorem C05_best_is_a_sample :
  forall (V : Type) (ltb : V -> V -> bool) (l : list (sample V)) (b : sample V),
    max_ll_sample V ltb l = Some b -> In b l.
Proof. exact max_sample_in. Qed.

Theorem C05_best_is_max :
  forall (V : Type) (ltb : V -> V -> bool),
    (forall a : V, ltb a a = false) ->
    (forall a b c : V, ltb a b = true -> ltb b c = true -> ltb a c = true) ->
    forall (l : list (sample V)) (b : sample V),
      max_ll_sample V ltb l = Some b ->
      forall s : sample V, In s l -> ltb (s_ll b) (s_ll s) = false.
Proof. exact max_sample_max. Qed.

Theorem C05_best_exists :
  forall (V : Type) (ltb : V -> V -> bool) (l : list (sample V)),
    l <> [] -> exists b : sample V, max_ll_sample V ltb l = Some b.
Proof. exact max_sample_some. Qed.

Theorem C05_best_is_first_maximum :
  forall (V : Type) (ltb : V -> V -> bool),
    (forall a b c : V, ltb a b = true -> ltb b c = true -> ltb a c = true) ->
    (forall a b c : V, ltb a c = true -> ltb a b = true \/ ltb b c = true) ->
    forall (l : list (sample V)) (i : nat) (b : sample V),
      max_ll_index V ltb l = Some i ->
      max_ll_sample V ltb l = Some b ->
      forall (j : nat) (x : sample V), j < i -> nth_error l j = Some x -> ltb (s_ll x) (s_ll b) = true.
Proof. exact max_index_first. Qed.

Theorem C05_best_index :
  forall (V : Type) (ltb : V -> V -> bool) (l : list (sample V)) (i : nat),
    max_ll_index V ltb l = Some i -> nth_error l i = max_ll_sample V ltb l.
Proof. exact max_index_sample. Qed.

(* ---------- columns keyed by unique prior path in id order; the best-fit vector ---------- *)
Theorem C05_columns_in_id_order :
  forall pp : list (path * nat), StronglySorted lt (column_ids pp).
Proof. exact column_ids_sorted. Qed.

Theorem C05_columns_complete :
  forall (pp : list (path * nat)) (k : nat), In k (column_ids pp) <-> In k (map snd pp).
Proof. exact column_ids_complete. Qed.

Theorem C05_columns_aligned :
  forall pp : list (path * nat),
    Forall2 (fun (p : path) (g : list path) => In p g) (unique_prior_paths pp) (all_paths pp).
Proof. exact paths_aligned. Qed.

(* the vector handed to instance_from_vector for any sample built by from_lists (in particular
   the maximising one) is that sample's own parameter row, which is a row of the sampler *)
Theorem C05_best_vector :
  forall (V : Type) (pp : list (path * nat)) (rows : list (list V)) (lls lps ws : list V) (s : sample V),
    NoDup (map fst pp) ->
    rows_ok V (unique_prior_paths pp) rows ->
    In s (from_lists V (unique_prior_paths pp) rows lls lps ws) ->
    vector_for V (all_paths pp) (s_kw s) = Some (s_vec V s) /\ In (s_vec V s) rows.
Proof. exact best_vector_is_row. Qed.

(* ---------- ONE Samples object used several times (Machine.v): `instance` is cached in `_instance`; derived objects
   (samples + other, weight threshold, copy, with_paths / without_paths) are used afterwards.  A policy says which
   derivations keep the parent's cache.  Every answer of every history is the answer of a fresh object holding the
   current model and sample list, for every policy that keeps the cache only where the answer cannot change ---------- *)
Theorem C05_samples_history_independent :
  forall (V : Type) (ltb : V -> V -> bool) (p : policy V) (ops : list (op V)) (s : sstate V),
    sound_on V ltb p ops -> run V ltb p s None ops = expected V ltb s ops.
Proof. exact samples_history_independent. Qed.

(* the proposed repair (__copy__ forgets `_instance`): unconditionally *)
Theorem C05_samples_history_fixed_policy :
  forall (V : Type) (ltb : V -> V -> bool) (ops : list (op V)) (s : sstate V),
    run V ltb (fixed_policy V) s None ops = expected V ltb s ops.
Proof. exact samples_history_fixed. Qed.

(* the code that exists: as long as no with_paths / without_paths derivation occurs in the history *)
Theorem C05_samples_history_code_partial :
  forall (V : Type) (ltb : V -> V -> bool) (ops : list (op V)) (s : sstate V),
    no_reduction V ops -> run V ltb (code_policy V) s None ops = expected V ltb s ops.
Proof. exact samples_history_code_partial. Qed.

(* whatever was done before, the instance asked last is the best-fit vector of the object's current state *)
Theorem C05_samples_last_instance :
  forall (V : Type) (ltb : V -> V -> bool) (p : policy V) (before : list (op V)) (s : sstate V),
    sound_on V ltb p before ->
    run V ltb p s None (before ++ [OInstance V]) =
    expected V ltb s before ++ [RVec V (answer V ltb (final_state V s before))].
Proof. exact samples_last_instance. Qed.

(* the code that exists is NOT history independent: read `instance`, reduce with with_paths, read `instance` again *)
Theorem C05_samples_copy_keeps_instance_refuted :
  exists (ops : list (op Z)) (s : sstate Z),
    run Z Z.ltb (code_policy Z) s None ops <> expected Z Z.ltb s ops.
Proof. exact samples_copy_keeps_instance_refuted. Qed.

Print Assumptions C05_from_lists_pairing.
Print Assumptions C05_dynesty_pairing.
Print Assumptions C05_emcee_pairing.
Print Assumptions C05_emcee_pairing_legacy_refuted.
Print Assumptions C05_pyswarms_pairing_legacy_refuted.
Print Assumptions C05_best_is_first_maximum.
Print Assumptions C05_best_vector.
Print Assumptions C05_initializer_pairing.
Print Assumptions C05_samples_history_independent.
Print Assumptions C05_samples_history_fixed_policy.
Print Assumptions C05_samples_history_code_partial.
Print Assumptions C05_samples_last_instance.
Print Assumptions C05_samples_copy_keeps_instance_refuted.
