(* C05 lemmas, part 5: AbstractInitializer.samples_from_model keeps exactly the successful draws of
   the prefix of the draw stream it consumed, each with its own figure of merit, in order. *)
From Coq Require Import ZArith List Bool Arith Lia.
From PAFC05 Require Import Model.
Import ListNotations.

Section Init.
  Variable V : Type.
  Notation draw := (draw V).
  Notation kept := (kept V).

  Lemma batch_kept_eq (batch : list draw) : batch_kept V batch = kept_of V batch.
  Proof.
    unfold batch_kept, kept_of. induction batch as [|[[u p] o] batch IH]; simpl; auto.
    rewrite IH. destruct o; reflexivity.
  Qed.

  Lemma kept_of_app (a b : list draw) : kept_of V (a ++ b) = kept_of V a ++ kept_of V b.
  Proof. unfold kept_of. apply flat_map_app. Qed.

  Lemma kept_of_length (l : list draw) : length (kept_of V l) <= length l.
  Proof.
    unfold kept_of. induction l as [|[[u p] o] l IH]; simpl; auto. destruct o; simpl; lia.
  Qed.

  Lemma firstn_skipn_add {A} (l : list A) n m : firstn n l ++ firstn m (skipn n l) = firstn (n + m) l.
  Proof.
    revert l; induction n as [|n IH]; intros l; simpl; auto. destruct l as [|x l]; simpl.
    - rewrite firstn_nil. reflexivity.
    - f_equal. apply IH.
  Qed.

  Lemma skipn_skipn {A} (l : list A) n m : skipn m (skipn n l) = skipn (n + m) l.
  Proof.
    revert l; induction n as [|n IH]; intros l; simpl; auto. destruct l as [|x l]; simpl; auto.
    destruct m; reflexivity.
  Qed.

  Lemma init_run_spec : forall fuel ncores total (draws : list draw) acc out rest,
    init_run V fuel ncores total draws acc = Some (out, rest) ->
    exists n, rest = skipn n draws
              /\ out = acc ++ kept_of V (firstn n draws)
              /\ total <= length out
              /\ (length acc <= total -> length out = total).
  Proof.
    induction fuel as [|fuel IH]; intros ncores total draws acc out rest H; simpl in H; [discriminate|].
    destruct (Nat.leb_spec total (length acc)) as [Hle|Hlt].
    - injection H as <- <-. exists 0. simpl. rewrite app_nil_r. repeat split; auto. lia.
    - set (b := Nat.min (total - length acc) ncores) in *.
      destruct (Nat.eqb_spec b 0) as [|Hb]; [discriminate|].
      destruct (Nat.ltb_spec (length draws) b) as [|Hlen]; [discriminate|].
      apply IH in H. destruct H as [n [Hrest [Hout [Htot Hexact]]]].
      exists (b + n). rewrite batch_kept_eq in Hout, Hexact.
      repeat split.
      + rewrite Hrest. apply skipn_skipn.
      + rewrite Hout. rewrite <- app_assoc. f_equal. rewrite <- kept_of_app. f_equal. apply firstn_skipn_add.
      + exact Htot.
      + intros _. apply Hexact. rewrite app_length.
        pose proof (kept_of_length (firstn b draws)) as Hk. rewrite firstn_length in Hk.
        assert (b <= total - length acc) by (unfold b; lia). lia.
  Qed.

  (* every returned (unit vector, parameters, figure of merit) triple is one of the draws with that
     very figure of merit: likelihoods are never attached to another point *)
  Lemma init_run_pairs fuel ncores total (draws : list draw) out rest :
    init_run V fuel ncores total draws [] = Some (out, rest) ->
    length out = total /\
    forall u p f, In (u, p, f) out -> In (u, p, Some f) draws.
  Proof.
    intros H. apply init_run_spec in H. destruct H as [n [_ [Hout [_ Hexact]]]]. simpl in *.
    split; [apply Hexact; lia|].
    intros u p f Hin. subst out. unfold kept_of in Hin. apply in_flat_map in Hin.
    destruct Hin as [[[u' p'] o] [Hd Hk]]. destruct o as [f'|]; simpl in Hk; [|contradiction].
    destruct Hk as [Hk|[]]. injection Hk as -> -> ->.
    rewrite <- (firstn_skipn n draws). apply in_or_app; left; exact Hd.
  Qed.

  Lemma init_run_is_filter fuel ncores total (draws : list draw) out rest :
    init_run V fuel ncores total draws [] = Some (out, rest) ->
    exists n, rest = skipn n draws /\ out = kept_of V (firstn n draws).
  Proof.
    intros H. apply init_run_spec in H. destruct H as [n [Hr [Ho _]]]. exists n; auto.
  Qed.
End Init.
