(* C05 lemmas, part 2: the pairing statement of every conversion, proved for all sampler states
   under the sampler contract -- or refuted by a concrete sampler state where the pinned code
   violates it. *)
From Coq Require Import ZArith List Bool Arith Lia.
From PAFCommon Require Import Lists.
From PAFC05 Require Import Model Proofs1.
Import ListNotations.

(* ---------- sampler contracts ---------- *)
(* ensemble MCMC: the stored log-probability of walker w at step s is likelihood + prior there *)
Definition mcmc_contract {V} (add : V -> V -> V) (prior L : list V -> V)
           (chain : list (list (list V))) (logp : list (list V)) : Prop :=
  Forall2 (Forall2 (fun x p => p = add (L x) (prior x))) chain logp.
(* a list of points with their log-posteriors *)
Definition post_contract {V} (add : V -> V -> V) (prior L : list V -> V) (rows : list (list V)) (post : list V) : Prop :=
  Forall2 (fun x p => p = add (L x) (prior x)) rows post.
(* nested samplers: logl[i] is the likelihood of samples[i] *)
Definition logl_contract {V} (L : list V -> V) (rows : list (list V)) (logl : list V) : Prop :=
  Forall2 (fun x l => l = L x) rows logl.
(* particle swarm: cost_history[t] is the cost -2*(likelihood + prior) of a particle visited up to
   iteration t (the running minimum is one of them), one entry per iteration *)
Definition pyswarms_contract {V} (add : V -> V -> V) (neghalf : V -> V) (prior L : list V -> V)
           (pos : list (list (list V))) (cost : list V) : Prop :=
  length cost = length pos /\
  forall t c, nth_error cost t = Some c ->
              exists x, In x (concat (firstn (S t) pos)) /\ neghalf c = add (L x) (prior x).

Section Pairing.
  Variable V : Type.
  Variables (add sub : V -> V -> V) (neghalf : V -> V) (one : V).
  Variable prior : list V -> V.
  Variable wexp : V -> V.
  Variable L : list V -> V.
  Variable nonneg : V -> Prop.
  Hypothesis sub_add : forall a b, sub (add a b) b = a.
  Hypothesis one_nonneg : nonneg one.
  Hypothesis exp_nonneg : forall x, nonneg (wexp x).

  Notation faithful := (faithful V prior L nonneg).
  Notation rows_ok := (rows_ok V).

  Lemma post_to_ll rows post :
    post_contract add prior L rows post ->
    zip_all (fun r l => l = L r) rows (map2 sub post (map prior rows)).
  Proof. induction 1 as [|x p rows post Hp H IH]; simpl; auto. split; auto. subst p; apply sub_add. Qed.

  Lemma post_to_ll_length rows post :
    post_contract add prior L rows post -> length (map2 sub post (map prior rows)) = length rows.
  Proof. induction 1; simpl; auto. Qed.

  Lemma priors_zip rows : zip_all (fun r p => p = prior r) rows (map prior rows).
  Proof. apply zip_all_map_r; reflexivity. Qed.

  Lemma ones_nonneg n : Forall nonneg (ones V one n).
  Proof. unfold ones; induction n; simpl; constructor; auto. Qed.
  Lemma ones_one n : Forall (fun w => w = one) (ones V one n).
  Proof. unfold ones; induction n; simpl; constructor; auto. Qed.
  Lemma ones_length n : length (ones V one n) = n.
  Proof. apply repeat_length. Qed.

  Lemma thinned_rows_ok paths (chain : list (list (list V))) start thin :
    Forall (rows_ok paths) chain -> rows_ok paths (concat (every_from start thin chain)).
  Proof.
    intros H. apply rows_ok_concat. rewrite Forall_forall in *. intros x Hx. apply H.
    eapply every_from_incl; eauto.
  Qed.

  (* ----- generic: rows with their log-posteriors (Drawer, BFGS, repaired emcee / zeus) ----- *)
  Lemma post_rows_faithful paths rows post :
    rows_ok paths rows -> post_contract add prior L rows post ->
    let lps := map prior rows in
    let lls := map2 sub post lps in
    Forall faithful (from_lists V paths rows lls lps (ones V one (length lls)))
    /\ map (s_vec V) (from_lists V paths rows lls lps (ones V one (length lls))) = rows.
  Proof.
    intros Hok Hc lps lls. split.
    - apply from_lists_faithful; auto.
      + apply post_to_ll; auto.
      + apply priors_zip.
      + apply ones_nonneg.
    - apply from_lists_rows_all; auto.
      + apply post_to_ll_length; auto.
      + unfold lps; apply map_length.
      + rewrite ones_length. apply post_to_ll_length; auto.
  Qed.

  (* ----- emcee, repaired call (aligned = true) ----- *)
  Lemma emcee_aligned_pairing paths chain logp discard thin out :
    Forall (rows_ok paths) chain ->
    mcmc_contract add prior L chain logp ->
    emcee_convert V sub one prior true paths chain logp discard thin = Some out ->
    Forall faithful out /\ map (s_vec V) out = concat (every_from (discard + thin - 1) thin chain).
  Proof.
    intros Hok Hc. unfold emcee_convert. destruct (Nat.eqb thin 0); [discriminate|].
    intros H; injection H as <-.
    apply post_rows_faithful.
    - apply thinned_rows_ok; auto.
    - unfold post_contract. apply concat_Forall2. apply every_from_Forall2. exact Hc.
  Qed.

  (* ----- emcee, pinned call: what still holds ----- *)
  Lemma emcee_pinned_partial paths chain logp discard thin out :
    Forall (rows_ok paths) chain ->
    emcee_convert V sub one prior false paths chain logp discard thin = Some out ->
    Forall (half_faithful V prior one) out
    /\ exists k, map (s_vec V) out = firstn k (concat (every_from (discard + thin - 1) thin chain)).
  Proof.
    intros Hok. unfold emcee_convert. destruct (Nat.eqb thin 0); [discriminate|].
    intros H; injection H as <-. split.
    - apply from_lists_half.
      + apply thinned_rows_ok; auto.
      + apply priors_zip.
      + apply ones_one.
    - apply from_lists_rows_prefix. apply thinned_rows_ok; auto.
  Qed.

  (* ----- zeus ----- *)
  Lemma zeus_aligned_pairing paths chain logp discard thin out :
    Forall (rows_ok paths) chain ->
    mcmc_contract add prior L chain logp ->
    zeus_convert V sub one prior true paths chain logp discard thin = Some out ->
    Forall faithful out /\ map (s_vec V) out = concat (every_from discard thin chain).
  Proof.
    intros Hok Hc. unfold zeus_convert. destruct (Nat.eqb thin 0); [discriminate|].
    intros H; injection H as <-.
    apply post_rows_faithful.
    - apply thinned_rows_ok; auto.
    - unfold post_contract. apply concat_Forall2. apply every_from_Forall2. exact Hc.
  Qed.

  Lemma zeus_pinned_partial paths chain logp discard thin out :
    Forall (rows_ok paths) chain ->
    zeus_convert V sub one prior false paths chain logp discard thin = Some out ->
    Forall (half_faithful V prior one) out
    /\ exists k, map (s_vec V) out = firstn k (concat (every_from discard thin chain)).
  Proof.
    intros Hok. unfold zeus_convert. destruct (Nat.eqb thin 0); [discriminate|].
    intros H; injection H as <-. split.
    - apply from_lists_half.
      + apply thinned_rows_ok; auto.
      + apply priors_zip.
      + apply ones_one.
    - apply from_lists_rows_prefix. apply thinned_rows_ok; auto.
  Qed.

  (* with nothing discarded and no thinning the pinned zeus call is aligned *)
  Lemma every_one {A} (l : list A) : every 1 0 l = l.
  Proof. induction l; simpl; auto. f_equal; auto. Qed.
  Lemma zeus_pinned_no_burn_in paths chain logp out :
    Forall (rows_ok paths) chain ->
    mcmc_contract add prior L chain logp ->
    zeus_convert V sub one prior false paths chain logp 0 1 = Some out ->
    Forall faithful out /\ map (s_vec V) out = concat chain.
  Proof.
    intros Hok Hc. unfold zeus_convert; simpl. unfold every_from; simpl. rewrite every_one.
    intros H; injection H as <-.
    apply post_rows_faithful.
    - apply rows_ok_concat; auto.
    - unfold post_contract. apply concat_Forall2. exact Hc.
  Qed.

  (* ----- nested samplers ----- *)
  Lemma map_nonneg {A} (f : A -> V) (l : list A) : (forall x, nonneg (f x)) -> Forall nonneg (map f l).
  Proof. intros H; induction l; simpl; constructor; auto. Qed.

  Lemma dynesty_pairing paths rows logl logwt logz out :
    rows_ok paths rows -> logl_contract L rows logl ->
    dynesty_convert V sub prior wexp paths rows logl logwt logz = Some out ->
    Forall faithful out /\ (length logwt = length rows -> map (s_vec V) out = rows).
  Proof.
    intros Hok Hc. unfold dynesty_convert. destruct (last_opt logz) as [lz|]; [|discriminate].
    intros H; injection H as <-. split.
    - apply from_lists_faithful; auto.
      + apply Forall2_zip_all. exact Hc.
      + apply priors_zip.
      + apply map_nonneg. intros; apply exp_nonneg.
    - intros Hlen. apply from_lists_rows_all; auto.
      + symmetry; eapply Forall2_length; eauto.
      + apply map_length.
      + rewrite map_length; auto.
  Qed.

  Lemma nautilus_pairing paths rows logl logw out :
    rows_ok paths rows -> logl_contract L rows logl ->
    nautilus_convert V prior wexp paths rows logl logw = Some out ->
    Forall faithful out /\ (length logw = length rows -> map (s_vec V) out = rows).
  Proof.
    intros Hok Hc. unfold nautilus_convert. intros H; injection H as <-. split.
    - apply from_lists_faithful; auto.
      + apply Forall2_zip_all. exact Hc.
      + apply priors_zip.
      + apply map_nonneg. intros; apply exp_nonneg.
    - intros Hlen. apply from_lists_rows_all; auto.
      + symmetry; eapply Forall2_length; eauto.
      + apply map_length.
      + rewrite map_length; auto.
  Qed.

  Lemma ultranest_pairing paths rows logl weights out :
    rows_ok paths rows -> logl_contract L rows logl -> Forall nonneg weights ->
    ultranest_convert V prior paths rows logl weights = Some out ->
    Forall faithful out /\ (length weights = length rows -> map (s_vec V) out = rows).
  Proof.
    intros Hok Hc Hw. unfold ultranest_convert. intros H; injection H as <-. split.
    - apply from_lists_faithful; auto.
      + apply Forall2_zip_all. exact Hc.
      + apply priors_zip.
    - intros Hlen. apply from_lists_rows_all; auto.
      + symmetry; eapply Forall2_length; eauto.
      + apply map_length.
  Qed.

  (* ----- Drawer ----- *)
  Lemma drawer_pairing paths rows post out :
    rows_ok paths rows -> post_contract add prior L rows post ->
    drawer_convert V sub one prior paths rows post = Some out ->
    Forall faithful out /\ map (s_vec V) out = rows.
  Proof.
    intros Hok Hc. unfold drawer_convert. intros H; injection H as <-.
    apply post_rows_faithful; auto.
  Qed.

  (* ----- BFGS / LBFGS ----- *)
  Lemma bfgs_pairing paths x post out :
    length x = length paths -> post = add (L x) (prior x) ->
    bfgs_convert V sub one prior paths x post = Some out ->
    Forall faithful out /\ map (s_vec V) out = [x].
  Proof.
    intros Hx Hp. unfold bfgs_convert. intros H; injection H as <-.
    apply (post_rows_faithful paths [x] [post]).
    - constructor; auto.
    - unfold post_contract; repeat constructor; auto.
  Qed.

  Lemma bfgs_vis_pairing paths hist hist_ll out :
    rows_ok paths hist -> logl_contract L hist hist_ll ->
    bfgs_vis_convert V one prior paths hist hist_ll = Some out ->
    Forall faithful out /\ map (s_vec V) out = hist.
  Proof.
    intros Hok Hc. unfold bfgs_vis_convert. intros H; injection H as <-. split.
    - apply from_lists_faithful; auto.
      + apply Forall2_zip_all. exact Hc.
      + apply priors_zip.
      + apply ones_nonneg.
    - apply from_lists_rows_all; auto.
      + symmetry; eapply Forall2_length; eauto.
      + apply map_length.
      + rewrite ones_length. symmetry; eapply Forall2_length; eauto.
  Qed.

  (* ----- PySwarms: what holds for the pinned code, and the guard under which it is faithful ----- *)
  Lemma heads_singletons (xs : list (list V)) : heads V (map (fun x => [x]) xs) = Some xs.
  Proof. induction xs as [|x xs IH]; simpl; auto. rewrite IH; reflexivity. Qed.
  Lemma concat_singletons (xs : list (list V)) : concat (map (fun x => [x]) xs) = xs.
  Proof. induction xs as [|x xs IH]; simpl; auto. f_equal; auto. Qed.

  (* swarm of one particle whose cost history is the cost of that particle at every iteration *)
  Lemma pyswarms_single_particle paths xs cost out :
    rows_ok paths xs ->
    Forall2 (fun x c => neghalf c = add (L x) (prior x)) xs cost ->
    pyswarms_convert V sub neghalf one prior paths (map (fun x => [x]) xs) cost = Some out ->
    Forall faithful out /\ map (s_vec V) out = xs.
  Proof.
    intros Hok Hc. unfold pyswarms_convert. rewrite heads_singletons, concat_singletons.
    intros H; injection H as <-.
    apply post_rows_faithful; auto.
    unfold post_contract. clear Hok. induction Hc; simpl; constructor; auto.
  Qed.

  Lemma heads_in (pos : list (list (list V))) firsts :
    heads V pos = Some firsts -> Forall2 (fun it f => exists rest, it = f :: rest) pos firsts.
  Proof.
    revert firsts; induction pos as [|it pos IH]; intros firsts; simpl.
    - intros H; injection H as <-; constructor.
    - destruct it as [|p rest]; [discriminate|]. destruct (heads V pos) as [h|]; [|discriminate].
      intros H; injection H as <-. constructor; eauto.
  Qed.

  Lemma pyswarms_pinned_partial paths pos cost out :
    Forall (rows_ok paths) pos ->
    pyswarms_convert V sub neghalf one prior paths pos cost = Some out ->
    Forall (fun s => s_w s = one /\ exists it, In it pos /\ exists rest, it = s_vec V s :: rest) out
    /\ length out <= length pos.
  Proof.
    intros Hok. unfold pyswarms_convert. destruct (heads V pos) as [firsts|] eqn:Hh; [|discriminate].
    intros H; injection H as <-.
    apply heads_in in Hh.
    assert (Hf : rows_ok paths firsts).
    { clear -Hh Hok. induction Hh as [|it f pos firsts [rest ->] H IH]; [constructor|].
      inversion Hok as [|? ? Hit Hok']; subst. inversion Hit; subst. constructor; auto. apply IH; auto. }
    set (lps := map prior (concat pos)). set (lls := map2 sub (map neghalf cost) lps).
    split.
    - rewrite Forall_forall. intros s Hs.
      destruct (from_lists_keys V paths firsts lls lps (ones V one (length lls)) s Hf Hs) as [r [Hr [Hkw _]]].
      split.
      + apply from_lists_weight_in in Hs. unfold ones in Hs. apply repeat_spec in Hs. exact Hs.
      + assert (Hv : s_vec V s = r).
        { unfold s_vec. rewrite Hkw. apply combine_snd. unfold Proofs1.rows_ok in Hf. rewrite Forall_forall in Hf; auto. }
        rewrite Hv. clear -Hh Hr. induction Hh as [|it f pos firsts [rest ->] H IH]; [contradiction|].
        destruct Hr as [<-|Hr].
        * exists (f :: rest); split; [left; reflexivity | eauto].
        * destruct (IH Hr) as [it [Hit Hrest]]. exists it; split; [right; auto | auto].
    - rewrite (Forall2_length _ _ _ Hh). apply from_lists_length_le.
  Qed.
End Pairing.

Lemma post_def (V : Type) (add : V -> V -> V) (s : sample V) : s_post V add s = add (s_ll s) (s_lp s).
Proof. reflexivity. Qed.

(* ================= the statements, quantified over every exact arithmetic ================= *)

Definition emcee_pairing_statement (aligned : bool) : Prop :=
  forall (V : Type) (add sub : V -> V -> V) (one : V) (prior L : list V -> V) (nonneg : V -> Prop),
    (forall a b, sub (add a b) b = a) -> nonneg one ->
    forall paths chain logp discard thin out,
      Forall (rows_ok V paths) chain ->
      mcmc_contract add prior L chain logp ->
      emcee_convert V sub one prior aligned paths chain logp discard thin = Some out ->
      Forall (faithful V prior L nonneg) out.

Definition zeus_pairing_statement (aligned : bool) : Prop :=
  forall (V : Type) (add sub : V -> V -> V) (one : V) (prior L : list V -> V) (nonneg : V -> Prop),
    (forall a b, sub (add a b) b = a) -> nonneg one ->
    forall paths chain logp discard thin out,
      Forall (rows_ok V paths) chain ->
      mcmc_contract add prior L chain logp ->
      zeus_convert V sub one prior aligned paths chain logp discard thin = Some out ->
      Forall (faithful V prior L nonneg) out.

Definition pyswarms_pairing_statement : Prop :=
  forall (V : Type) (add sub : V -> V -> V) (neghalf : V -> V) (one : V) (prior L : list V -> V) (nonneg : V -> Prop),
    (forall a b, sub (add a b) b = a) -> nonneg one ->
    forall paths pos cost out,
      Forall (rows_ok V paths) pos ->
      pyswarms_contract add neghalf prior L pos cost ->
      pyswarms_convert V sub neghalf one prior paths pos cost = Some out ->
      Forall (faithful V prior L nonneg) out.

Lemma emcee_fixed_holds : emcee_pairing_statement true.
Proof.
  intros V add sub one prior L nonneg Hsa H1 paths chain logp discard thin out Hok Hc Hconv.
  eapply emcee_aligned_pairing; eauto.
Qed.

Lemma zeus_fixed_holds : zeus_pairing_statement true.
Proof.
  intros V add sub one prior L nonneg Hsa H1 paths chain logp discard thin out Hok Hc Hconv.
  eapply zeus_aligned_pairing; eauto.
Qed.

(* ---------- refutations over Z: likelihood = first coordinate, flat prior ---------- *)
Definition zL (v : list Z) : Z := hd 0%Z v.
Definition zprior (_ : list Z) : Z := 0%Z.
Definition znonneg (z : Z) : Prop := (0 <= z)%Z.
Definition zneghalf (c : Z) : Z := (- (c / 2))%Z.

(* three steps of one walker at 10, 20, 30; discard 1, thin 1 *)
Definition w_chain : list (list (list Z)) := [[[10]]; [[20]]; [[30]]]%Z.
Definition w_logp : list (list Z) := [[10]; [20]; [30]]%Z.

Lemma w_contract : mcmc_contract Z.add zprior zL w_chain w_logp.
Proof. unfold mcmc_contract, w_chain, w_logp. repeat constructor. Qed.
Lemma w_rows_ok : Forall (rows_ok Z [1%Z]) w_chain.
Proof. unfold w_chain, rows_ok. repeat constructor. Qed.

Lemma emcee_pinned_refuted : ~ emcee_pairing_statement false.
Proof.
  intros H.
  specialize (H Z Z.add Z.sub 1%Z zprior zL znonneg (fun a b => Z.add_simpl_r a b) ltac:(unfold znonneg; lia)
                [1%Z] w_chain w_logp 1 1 _ w_rows_ok w_contract eq_refl).
  vm_compute in H. inversion H as [|s l Hs Hl]; subst. destruct Hs as [Hll _]. discriminate Hll.
Qed.

Lemma zeus_pinned_refuted : ~ zeus_pairing_statement false.
Proof.
  intros H.
  specialize (H Z Z.add Z.sub 1%Z zprior zL znonneg (fun a b => Z.add_simpl_r a b) ltac:(unfold znonneg; lia)
                [1%Z] w_chain w_logp 1 1 _ w_rows_ok w_contract eq_refl).
  vm_compute in H. inversion H as [|s l Hs Hl]; subst. destruct Hs as [Hll _]. discriminate Hll.
Qed.

(* one iteration, two particles at 1 and 5 (costs -2 and -10): best-cost history [-10] *)
Definition w_pos : list (list (list Z)) := [[[1]; [5]]]%Z.
Definition w_cost : list Z := [-10]%Z.

Lemma w_pyswarms_contract : pyswarms_contract Z.add zneghalf zprior zL w_pos w_cost.
Proof.
  split; [reflexivity|]. intros t c Ht. destruct t as [|t]; simpl in Ht.
  - injection Ht as <-. exists [5%Z]. split; [simpl; auto | reflexivity].
  - destruct t; discriminate.
Qed.

Lemma pyswarms_refuted : ~ pyswarms_pairing_statement.
Proof.
  intros H.
  specialize (H Z Z.add Z.sub zneghalf 1%Z zprior zL znonneg (fun a b => Z.add_simpl_r a b) ltac:(unfold znonneg; lia)
                [1%Z] w_pos w_cost _ ltac:(unfold w_pos, rows_ok; repeat constructor) w_pyswarms_contract eq_refl).
  vm_compute in H. inversion H as [|s l Hs Hl]; subst. destruct Hs as [Hll _]. discriminate Hll.
Qed.
