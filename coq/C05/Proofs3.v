(* C05 lemmas, part 3: best fit (first strict maximum), the parameter vector rebuilt from the best
   sample's kwargs, columns keyed by unique prior path in id order. *)
From Coq Require Import ZArith List Bool Arith Lia Sorting.Sorted Permutation.
From PAFC05 Require Import Model Proofs1.
Import ListNotations.

(* =============== Samples.max_log_likelihood_sample =============== *)
Section Best.
  Variable V : Type.
  Variable ltb : V -> V -> bool.
  Hypothesis ltb_irrefl : forall a, ltb a a = false.
  Hypothesis ltb_trans : forall a b c, ltb a b = true -> ltb b c = true -> ltb a c = true.

  Notation sample := (sample V).
  Notation max_ll_from := (max_ll_from V ltb).
  Notation max_ll_sample := (max_ll_sample V ltb).

  Lemma max_from_in cur l : max_ll_from cur l = cur \/ In (max_ll_from cur l) l.
  Proof.
    revert cur; induction l as [|s l IH]; intros cur; simpl; auto.
    destruct (IH (if ltb (s_ll cur) (s_ll s) then s else cur)) as [H|H]; auto.
    destruct (ltb (s_ll cur) (s_ll s)); rewrite H; auto.
  Qed.

  (* the running best never decreases *)
  Lemma max_from_ge_cur cur l : ltb (s_ll (max_ll_from cur l)) (s_ll cur) = false.
  Proof.
    revert cur; induction l as [|s l IH]; intros cur; simpl; [apply ltb_irrefl|].
    destruct (ltb (s_ll cur) (s_ll s)) eqn:E; [|apply IH].
    destruct (ltb (s_ll (max_ll_from s l)) (s_ll cur)) eqn:F; auto.
    pose proof (ltb_trans _ _ _ F E) as G. rewrite IH in G. discriminate.
  Qed.

  Lemma max_from_max cur l s : In s l -> ltb (s_ll (max_ll_from cur l)) (s_ll s) = false.
  Proof.
    revert cur; induction l as [|x l IH]; intros cur Hin; simpl; [contradiction|].
    destruct Hin as [<-|Hin]; [|apply IH; auto].
    destruct (ltb (s_ll cur) (s_ll x)) eqn:E; [apply max_from_ge_cur|].
    destruct (ltb (s_ll (max_ll_from cur l)) (s_ll x)) eqn:F; auto.
    destruct (ltb (s_ll (max_ll_from cur l)) (s_ll cur)) eqn:G.
    - rewrite max_from_ge_cur in G; discriminate.
    - (* best >= cur, cur >= x, best < x : impossible in a strict weak order only; here we have
         best < x directly contradicting the walk only when cur < x, so use the fold structure *)
      clear IH. revert cur E F G. induction l as [|y l IHl]; intros cur E F G; simpl in *.
      + rewrite E in F; discriminate.
      + destruct (ltb (s_ll cur) (s_ll y)) eqn:Ey.
        * destruct (ltb (s_ll y) (s_ll x)) eqn:Eyx.
          -- pose proof (ltb_trans _ _ _ Ey Eyx) as C. rewrite E in C; discriminate.
          -- eapply IHl; eauto. apply max_from_ge_cur.
        * eapply IHl; eauto.
  Qed.

  Lemma max_sample_in l b : max_ll_sample l = Some b -> In b l.
  Proof.
    destruct l as [|s l]; simpl; [discriminate|]. intros H; injection H as <-.
    destruct (max_from_in s l); [left; auto | right; auto].
  Qed.

  (* no sample has a strictly larger log-likelihood than the reported best *)
  Lemma max_sample_max l b : max_ll_sample l = Some b -> forall s, In s l -> ltb (s_ll b) (s_ll s) = false.
  Proof.
    destruct l as [|x l]; simpl; [discriminate|]. intros H; injection H as <-. intros s [<-|Hin].
    - apply max_from_ge_cur.
    - apply max_from_max; auto.
  Qed.

  Lemma max_sample_some l : l <> [] -> exists b, max_ll_sample l = Some b.
  Proof. destruct l; [congruence|]. simpl; eauto. Qed.

  (* index and sample walk together *)
  Lemma max_idx_from_spec : forall l ci cur i pre,
    nth_error pre ci = Some cur -> length pre = i ->
    nth_error (pre ++ l) (max_ll_idx_from V ltb ci cur i l) = Some (max_ll_from cur l)
    /\ max_ll_idx_from V ltb ci cur i l < length (pre ++ l).
  Proof.
    induction l as [|s l IH]; intros ci cur i pre Hc Hlen; simpl.
    - rewrite app_nil_r. split; auto. apply nth_error_Some; congruence.
    - destruct (ltb (s_ll cur) (s_ll s)) eqn:E.
      + specialize (IH i s (S i) (pre ++ [s])). rewrite <- app_assoc in IH. simpl in IH. apply IH.
        * rewrite nth_error_app2 by lia. rewrite Hlen, Nat.sub_diag. reflexivity.
        * rewrite app_length; simpl; lia.
      + specialize (IH ci cur (S i) (pre ++ [s])). rewrite <- app_assoc in IH. simpl in IH. apply IH.
        * rewrite nth_error_app1; auto. apply nth_error_Some; congruence.
        * rewrite app_length; simpl; lia.
  Qed.

  Lemma max_index_sample l i : max_ll_index V ltb l = Some i -> nth_error l i = max_ll_sample l.
  Proof.
    destruct l as [|s l]; simpl; [discriminate|]. intros H; injection H as <-.
    destruct (max_idx_from_spec l 0 s 1 [s] eq_refl eq_refl) as [H _]. exact H.
  Qed.

  (* "first": in a strict weak order every sample before the reported one is strictly smaller *)
  Hypothesis ltb_negtrans : forall a b c, ltb a c = true -> ltb a b = true \/ ltb b c = true.

  Lemma max_idx_from_first : forall l ci cur i pre,
    nth_error pre ci = Some cur -> length pre = i ->
    (forall j x, j < ci -> nth_error pre j = Some x -> ltb (s_ll x) (s_ll cur) = true) ->
    (forall j x, ci < j -> nth_error pre j = Some x -> ltb (s_ll cur) (s_ll x) = false) ->
    forall j x, j < max_ll_idx_from V ltb ci cur i l -> nth_error (pre ++ l) j = Some x ->
                ltb (s_ll x) (s_ll (max_ll_from cur l)) = true.
  Proof.
    induction l as [|s l IH]; intros ci cur i pre Hc Hlen Hbefore Hafter j x Hj Hx; simpl in *.
    - rewrite app_nil_r in Hx. eauto.
    - assert (Hci : ci < i) by (rewrite <- Hlen; apply nth_error_Some; congruence).
      destruct (ltb (s_ll cur) (s_ll s)) eqn:E.
      + apply (IH i s (S i) (pre ++ [s])) with (j := j); auto.
        * rewrite nth_error_app2 by lia. rewrite Hlen, Nat.sub_diag. reflexivity.
        * rewrite app_length; simpl; lia.
        * intros j' x' Hj' Hx'. rewrite nth_error_app1 in Hx' by lia.
          destruct (Nat.lt_trichotomy j' ci) as [Hlt|[Heq|Hgt]].
          -- eapply ltb_trans; [eapply Hbefore; eauto | exact E].
          -- subst j'. rewrite Hc in Hx'. injection Hx' as <-. exact E.
          -- destruct (ltb_negtrans _ (s_ll x') _ E) as [C|C]; auto.
             rewrite (Hafter j' x' Hgt Hx') in C. discriminate.
        * intros j' x' Hj' Hx'. exfalso. assert (nth_error (pre ++ [s]) j' <> None) by congruence.
          apply nth_error_Some in H. rewrite app_length in H; simpl in H. lia.
        * rewrite <- app_assoc. exact Hx.
      + apply (IH ci cur (S i) (pre ++ [s])) with (j := j); auto.
        * rewrite nth_error_app1; auto. lia.
        * rewrite app_length; simpl; lia.
        * intros j' x' Hj' Hx'. rewrite nth_error_app1 in Hx' by lia. eauto.
        * intros j' x' Hj' Hx'.
          destruct (Nat.lt_ge_cases j' i) as [Hlt|Hge].
          -- rewrite nth_error_app1 in Hx' by lia. eauto.
          -- rewrite nth_error_app2 in Hx' by lia. destruct (j' - length pre) as [|k] eqn:Ek; simpl in Hx'.
             ++ injection Hx' as <-. exact E.
             ++ destruct k; discriminate.
        * rewrite <- app_assoc. exact Hx.
  Qed.

  Lemma max_index_first l i b :
    max_ll_index V ltb l = Some i -> max_ll_sample l = Some b ->
    forall j x, j < i -> nth_error l j = Some x -> ltb (s_ll x) (s_ll b) = true.
  Proof.
    destruct l as [|s l]; simpl; [discriminate|]. intros H Hb; injection H as <-; injection Hb as <-.
    intros j x Hj Hx.
    apply (max_idx_from_first l 0 s 1 [s] eq_refl eq_refl) with (j := j); auto.
    - intros; lia.
    - intros j' x' Hj' Hx'. destruct j' as [|[|j']]; simpl in Hx'; try discriminate; lia.
  Qed.
End Best.

(* =============== the vector rebuilt from kwargs =============== *)
Section Vector.
  Variable V : Type.

  Lemma kw_get_combine_notin (paths : list path) (r : list V) k :
    ~ In k paths -> kw_get V (combine paths r) k = None.
  Proof.
    revert r; induction paths as [|p paths IH]; intros [|x r] Hn; simpl; auto.
    destruct (Z.eqb_spec k p) as [->|_]; [exfalso; apply Hn; left; auto|]. apply IH. intros H; apply Hn; right; auto.
  Qed.

  Lemma kw_get_combine_nth (paths : list path) (r : list V) i p x :
    NoDup paths -> nth_error paths i = Some p -> nth_error r i = Some x ->
    kw_get V (combine paths r) p = Some x.
  Proof.
    revert r i; induction paths as [|q paths IH]; intros r i Hnd Hp Hx; [destruct i; discriminate|].
    destruct r as [|y r]; [destruct i; discriminate|]. inversion Hnd as [|? ? Hq Hnd']; subst.
    destruct i as [|i]; simpl in *.
    - injection Hp as <-; injection Hx as <-. rewrite Z.eqb_refl. reflexivity.
    - destruct (Z.eqb_spec p q) as [->|_].
      + exfalso. apply Hq. eapply nth_error_In; eauto.
      + eapply IH; eauto.
  Qed.

  (* a group none of whose other members is a key: the lookup finds the group's own key *)
  Lemma first_found_group (kw : list (path * V)) (g : list path) p x :
    In p g -> kw_get V kw p = Some x ->
    (forall q, In q g -> q <> p -> kw_get V kw q = None) ->
    first_found V kw g = Some x.
  Proof.
    induction g as [|q g IH]; intros Hin Hp Hother; [contradiction|]. simpl.
    destruct (Z.eq_dec q p) as [->|Hne].
    - rewrite Hp. reflexivity.
    - rewrite (Hother q (or_introl eq_refl) Hne). apply IH; auto.
      + destruct Hin; [congruence | auto].
      + intros q' Hq'; apply Hother; right; auto.
  Qed.

  Lemma vector_for_Forall2 (kw : list (path * V)) groups xs :
    Forall2 (fun g x => first_found V kw g = Some x) groups xs -> vector_for V groups kw = Some xs.
  Proof. induction 1 as [|g x groups xs Hg H IH]; simpl; auto. rewrite Hg, IH. reflexivity. Qed.

  Lemma Forall2_of_nth {A B} (P : A -> B -> Prop) : forall (l : list A) (m : list B),
    length l = length m ->
    (forall i a b, nth_error l i = Some a -> nth_error m i = Some b -> P a b) -> Forall2 P l m.
  Proof.
    induction l as [|a l IH]; intros [|b m] Hlen H; simpl in Hlen; try discriminate; constructor.
    - apply (H 0); reflexivity.
    - apply IH; [lia|]. intros i; apply (H (S i)).
  Qed.

  Lemma Forall2_nth {A B} (P : A -> B -> Prop) (l : list A) (m : list B) i a b :
    Forall2 P l m -> nth_error l i = Some a -> nth_error m i = Some b -> P a b.
  Proof.
    intros H; revert i; induction H as [|x y l m Hxy H IH]; intros [|i] Ha Hb; simpl in *; try discriminate.
    - injection Ha as <-; injection Hb as <-; auto.
    - eauto.
  Qed.

  Lemma NoDup_app_r {A} (a b : list A) : NoDup (a ++ b) -> NoDup b.
  Proof. induction a as [|x a IH]; simpl; auto. intros H; inversion H; auto. Qed.

  (* no path belongs to two groups *)
  Lemma groups_disjoint (groups : list (list path)) : NoDup (concat groups) ->
    forall i j g h q, nth_error groups i = Some g -> nth_error groups j = Some h -> In q g -> In q h -> i = j.
  Proof.
    induction groups as [|g0 groups IH]; intros Hnd i j g h q Hi Hj Hg Hh; [destruct i; discriminate|].
    simpl in Hnd.
    assert (Hsplit : forall x, In x g0 -> In x (concat groups) -> False).
    { clear -Hnd. induction g0 as [|a g0 IHg]; intros x Hx Hc; [contradiction|]. simpl in Hnd.
      inversion Hnd as [|? ? Ha Hnd']; subst. destruct Hx as [->|Hx].
      - apply Ha. apply in_or_app; right; auto.
      - eapply IHg; eauto. }
    assert (Hin : forall k l x, nth_error groups k = Some l -> In x l -> In x (concat groups)).
    { clear. induction groups as [|l0 groups IH]; intros k l x Hk Hx; [destruct k; discriminate|]. simpl.
      apply in_or_app. destruct k as [|k]; simpl in Hk; [injection Hk as ->; left; auto | right; eauto]. }
    destruct i as [|i], j as [|j]; simpl in Hi, Hj; auto.
    - injection Hi as ->. exfalso. eapply Hsplit; eauto.
    - injection Hj as ->. exfalso. eapply Hsplit; eauto.
    - f_equal. eapply IH; eauto. eapply NoDup_app_r; eauto.
  Qed.

  (* columns: paths[i] is one of groups[i]; rebuilding the vector from dict(zip(paths, row))
     through the groups gives the row back *)
  Lemma vector_for_spec (groups : list (list path)) (paths : list path) (r : list V) :
    Forall2 (fun p g => In p g) paths groups ->
    NoDup (concat groups) ->
    length r = length paths ->
    vector_for V groups (combine paths r) = Some r.
  Proof.
    intros HF Hnd Hlen.
    pose proof (Forall2_length _ _ _ HF) as Hlen2.
    assert (Hpaths : NoDup paths).
    { apply NoDup_nth_error. intros i j Hi Hij.
      destruct (nth_error paths i) as [p|] eqn:Hp; [|apply nth_error_None in Hp; lia].
      symmetry in Hij.
      destruct (nth_error groups i) as [g|] eqn:Hg; [|apply nth_error_None in Hg; lia].
      assert (Hj : j < length groups) by (rewrite <- Hlen2; apply nth_error_Some; congruence).
      destruct (nth_error groups j) as [h|] eqn:Hh; [|apply nth_error_None in Hh; lia].
      eapply (groups_disjoint groups Hnd i j g h p); eauto.
      - eapply (Forall2_nth _ paths groups i); eauto.
      - eapply (Forall2_nth _ paths groups j); eauto. }
    apply vector_for_Forall2. apply Forall2_of_nth; [lia|].
    intros i g x Hg Hx.
    destruct (nth_error paths i) as [p|] eqn:Hp.
    2:{ apply nth_error_None in Hp. assert (i < length r) by (apply nth_error_Some; congruence). lia. }
    apply first_found_group with (p := p).
    - eapply (Forall2_nth _ paths groups i); eauto.
    - eapply kw_get_combine_nth; eauto.
    - intros q Hq Hne. apply kw_get_combine_notin. intros Hin.
      apply In_nth_error in Hin as [j Hj].
      assert (Hjl : j < length groups) by (rewrite <- Hlen2; apply nth_error_Some; congruence).
      destruct (nth_error groups j) as [h|] eqn:Hh; [|apply nth_error_None in Hh; lia].
      assert (i = j).
      { eapply (groups_disjoint groups Hnd i j g h q); eauto. eapply (Forall2_nth _ paths groups j); eauto. }
      subst j. rewrite Hp in Hj. congruence.
  Qed.
End Vector.
