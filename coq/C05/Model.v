(* C05 model: conversion of sampler-internal arrays to Sample lists, column keying, best fit.
   Executable definitions only; proofs are in Proofs*.v.

   The conversion functions are generic in the number type V (Section variables); the
   correspondence instantiates V with binary64 (PrimFloat, bit exact), the theorems assume the
   algebraic laws of exact arithmetic (Section hypotheses in Proofs.v).

   One function per anchored conversion, written as the code is written (defects included):
     Sample.from_lists                              -> from_lists
     Emcee.samples_via_internal_from                -> emcee_convert   (aligned=true: code since 97df212; false: before)
     Zeus.samples_via_internal_from                 -> zeus_convert    (flag aligned=false: code as pinned)
     AbstractDynesty.samples_via_internal_from      -> dynesty_convert
     Nautilus.samples_via_internal_from             -> nautilus_convert
     UltraNest.samples_via_internal_from            -> ultranest_convert
     AbstractBFGS.samples_via_internal_from         -> bfgs_convert / bfgs_vis_convert
     Drawer.samples_from                            -> drawer_convert
     AbstractPySwarms.samples_via_internal_from     -> pyswarms_pbest_convert (code since fe260fe; pyswarms_convert = before)
     model.unique_prior_paths / model.all_paths     -> unique_prior_paths / all_paths
     Samples.max_log_likelihood_sample              -> max_ll_index / max_ll_sample
     Samples.max_log_likelihood(as_instance=False)  -> vector_for (all_paths pp) (kwargs of the best sample) *)
From Coq Require Import ZArith List Bool Arith.
From Coq Require Import Floats.PrimFloat.
From PAFCommon Require Import PyFloat Lists.
Import ListNotations.

(* ---------- list helpers (Python slicing) ---------- *)

(* l[0::step] with a countdown k until the next kept element *)
Fixpoint every {A} (step k : nat) (l : list A) : list A :=
  match l with
  | [] => []
  | x :: r => match k with
              | O => x :: every step (step - 1) r
              | S k' => every step k' r
              end
  end.
(* l[start::step], step >= 1 *)
Definition every_from {A} (start step : nat) (l : list A) : list A := every step 0 (skipn start l).

(* Python index normalisation of a slice bound for a list of length n *)
Definition norm_bound (n i : Z) : Z :=
  if (i <? 0)%Z then Z.max (i + n) 0 else Z.min i n.
(* l[a:b] *)
Definition py_slice {A} (l : list A) (a b : Z) : list A :=
  let n := Z.of_nat (length l) in
  let a' := norm_bound n a in
  let b' := norm_bound n b in
  if (a' <? b')%Z then firstn (Z.to_nat (b' - a')) (skipn (Z.to_nat a') l) else [].

Fixpoint last_opt {A} (l : list A) : option A :=
  match l with
  | [] => None
  | [x] => Some x
  | _ :: r => last_opt r
  end.

(* ---------- paths: model.path_priors_tuples is a list of (path, prior id) ---------- *)

Definition path := Z.

Section Dict.
  Context {A : Type}.
  (* insertion sort by key, stable (Python sorted(..., key=id)) *)
  Fixpoint insert_by_id (x : nat * A) (l : list (nat * A)) : list (nat * A) :=
    match l with
    | [] => [x]
    | y :: r => if Nat.ltb (fst x) (fst y) then x :: l else y :: insert_by_id x r
    end.
  Fixpoint sort_by_id (l : list (nat * A)) : list (nat * A) :=
    match l with
    | [] => []
    | x :: r => insert_by_id x (sort_by_id r)
    end.
  (* dict[k] = f(old value or None): keeps the position of the first insertion *)
  Fixpoint dict_upd (f : option A -> A) (d : list (nat * A)) (k : nat) : list (nat * A) :=
    match d with
    | [] => [(k, f None)]
    | (k', v) :: r => if Nat.eqb k k' then (k', f (Some v)) :: r else (k', v) :: dict_upd f r k
    end.
End Dict.

(* {prior: item for item in path_priors_tuples}: last path of a prior wins, first position kept *)
Definition unique_dict (pp : list (path * nat)) : list (nat * path) :=
  fold_left (fun d (it : path * nat) => dict_upd (fun _ => fst it) d (snd it)) pp [].
Definition unique_prior_paths (pp : list (path * nat)) : list path :=
  map snd (sort_by_id (unique_dict pp)).

(* defaultdict(tuple): prior_paths_dict[prior] += (path,) *)
Definition all_dict (pp : list (path * nat)) : list (nat * list path) :=
  fold_left (fun d (it : path * nat) =>
               dict_upd (fun o => match o with None => [fst it] | Some l => l ++ [fst it] end) d (snd it)) pp [].
Definition all_paths (pp : list (path * nat)) : list (list path) :=
  map snd (sort_by_id (all_dict pp)).
(* ids of the columns, in column order *)
Definition column_ids (pp : list (path * nat)) : list nat := map fst (sort_by_id (unique_dict pp)).

(* ---------- samples ---------- *)

Section Conv.
  Variable V : Type.
  Variables (add sub : V -> V -> V).
  Variable neghalf : V -> V.          (* -0.5 * x *)
  Variable one : V.
  Variable ltb : V -> V -> bool.      (* Python `<` *)
  Variable prior : list V -> V.       (* sum(model.log_prior_list_from_vector(vector)) *)
  Variable wexp : V -> V.             (* numpy.exp *)

  Record sample := mkS { s_ll : V; s_lp : V; s_w : V; s_kw : list (path * V) }.

  Definition s_post (s : sample) : V := add (s_ll s) (s_lp s).     (* Sample.log_posterior *)
  Definition s_vec (s : sample) : list V := map snd (s_kw s).

  (* Sample.from_lists: zip of the four lists; kwargs = dict(zip(paths, params)) *)
  Fixpoint from_lists (paths : list path) (rows : list (list V)) (lls lps ws : list V) : list sample :=
    match rows, lls, lps, ws with
    | r :: rows', l :: lls', p :: lps', w :: ws' =>
        mkS l p w (combine paths r) :: from_lists paths rows' lls' lps' ws'
    | _, _, _, _ => []
    end.

  Definition ones (n : nat) : list V := repeat one n.

  (* ---- emcee ---- get_chain(discard, thin, flat=True) = chain[discard+thin-1::thin] flattened;
     the log-probabilities are `get_log_prob(flat=True)[-n-1:-1]` (pinned code) or
     `get_log_prob(discard, thin, flat=True)` (aligned = true: the repaired call). *)
  Definition emcee_convert (aligned : bool) (paths : list path)
             (chain : list (list (list V))) (logp : list (list V)) (discard thin : nat) : option (list sample) :=
    if Nat.eqb thin 0 then None else
    let start := discard + thin - 1 in
    let rows := concat (every_from start thin chain) in
    let lps := map prior rows in
    let n := Z.of_nat (length rows) in
    let post := if aligned then concat (every_from start thin logp)
                else py_slice (concat logp) (- n - 1)%Z (-1)%Z in
    let lls := map2 sub post lps in
    Some (from_lists paths rows lls lps (ones (length lls))).

  (* ---- zeus ---- get_chain(discard, thin, flat=True) = chain[discard::thin] flattened; the
     log-probabilities are `get_log_prob(flat=True)` of the WHOLE chain (pinned code). *)
  Definition zeus_convert (aligned : bool) (paths : list path)
             (chain : list (list (list V))) (logp : list (list V)) (discard thin : nat) : option (list sample) :=
    if Nat.eqb thin 0 then None else
    let rows := concat (every_from discard thin chain) in
    let lps := map prior rows in
    let post := if aligned then concat (every_from discard thin logp) else concat logp in
    let lls := map2 sub post lps in
    Some (from_lists paths rows lls lps (ones (length lls))).

  (* ---- dynesty ---- weights exp(logwt - logz[-1]) *)
  Definition dynesty_convert (paths : list path) (rows : list (list V)) (logl logwt logz : list V)
    : option (list sample) :=
    match last_opt logz with
    | None => None
    | Some lz => Some (from_lists paths rows logl (map prior rows) (map (fun lw => wexp (sub lw lz)) logwt))
    end.

  Definition nautilus_convert (paths : list path) (rows : list (list V)) (logl logw : list V) : option (list sample) :=
    Some (from_lists paths rows logl (map prior rows) (map wexp logw)).

  Definition ultranest_convert (paths : list path) (rows : list (list V)) (logl weights : list V) : option (list sample) :=
    Some (from_lists paths rows logl (map prior rows) weights).

  (* ---- BFGS / LBFGS ---- *)
  Definition bfgs_convert (paths : list path) (x : list V) (post : V) : option (list sample) :=
    let lps := map prior [x] in
    let lls := map2 sub [post] lps in
    Some (from_lists paths [x] lls lps (ones (length lls))).
  Definition bfgs_vis_convert (paths : list path) (hist : list (list V)) (hist_ll : list V) : option (list sample) :=
    Some (from_lists paths hist hist_ll (map prior hist) (ones (length hist_ll))).

  (* ---- Drawer ---- *)
  Definition drawer_convert (paths : list path) (rows : list (list V)) (post : list V) : option (list sample) :=
    let lps := map prior rows in
    let lls := map2 sub post lps in
    Some (from_lists paths rows lls lps (ones (length lls))).

  (* ---- PySwarms, LEGACY conversion (before fe260fe) ---- parameters = first particle of every iteration;
     log-posteriors = -0.5 * best-cost history; log-priors = priors of ALL particles, flattened *)
  Fixpoint heads (pos : list (list (list V))) : option (list (list V)) :=
    match pos with
    | [] => Some []
    | [] :: _ => None                                   (* IndexError *)
    | (p :: _) :: r => match heads r with Some h => Some (p :: h) | None => None end
    end.
  Definition pyswarms_convert (paths : list path) (pos : list (list (list V))) (cost : list V) : option (list sample) :=
    match heads pos with
    | None => None
    | Some firsts =>
        let lpost := map neghalf cost in
        let lps := map prior (concat pos) in
        let lls := map2 sub lpost lps in
        Some (from_lists paths firsts lls lps (ones (length lls)))
    end.

  (* ---- PySwarms, current conversion (fe260fe): the samples are the particles' personal bests, each stored
     by pyswarms with its own cost ---- *)
  Definition pyswarms_pbest_convert (paths : list path) (pbest_pos : list (list V)) (pbest_cost : list V)
    : option (list sample) :=
    let lps := map prior pbest_pos in
    let lls := map2 sub (map neghalf pbest_cost) lps in
    Some (from_lists paths pbest_pos lls lps (ones (length lls))).

  (* ---- best fit ---- *)
  (* Samples.max_log_likelihood_sample: replace when strictly greater *)
  Fixpoint max_ll_from (cur : sample) (l : list sample) : sample :=
    match l with
    | [] => cur
    | s :: r => max_ll_from (if ltb (s_ll cur) (s_ll s) then s else cur) r
    end.
  Definition max_ll_sample (l : list sample) : option sample :=
    match l with [] => None | s :: r => Some (max_ll_from s r) end.
  (* the same walk, returning the position *)
  Fixpoint max_ll_idx_from (ci : nat) (cur : sample) (i : nat) (l : list sample) : nat :=
    match l with
    | [] => ci
    | s :: r => if ltb (s_ll cur) (s_ll s) then max_ll_idx_from i s (S i) r else max_ll_idx_from ci cur (S i) r
    end.
  Definition max_ll_index (l : list sample) : option nat :=
    match l with [] => None | s :: r => Some (max_ll_idx_from 0 s 1 r) end.

  (* Sample.parameter_lists_for_paths: per column the first of its paths found in kwargs *)
  Fixpoint kw_get (kw : list (path * V)) (k : path) : option V :=
    match kw with
    | [] => None
    | (k', v) :: r => if Z.eqb k k' then Some v else kw_get r k
    end.
  Fixpoint first_found (kw : list (path * V)) (keys : list path) : option V :=
    match keys with
    | [] => None
    | k :: r => match kw_get kw k with Some v => Some v | None => first_found kw r end
    end.
  Fixpoint vector_for (groups : list (list path)) (kw : list (path * V)) : option (list V) :=   (* None = KeyError *)
    match groups with
    | [] => Some []
    | g :: r => match first_found kw g, vector_for r kw with
                | Some v, Some vs => Some (v :: vs)
                | _, _ => None
                end
    end.
End Conv.

Arguments mkS {V}.
Arguments s_ll {V}. Arguments s_lp {V}. Arguments s_w {V}. Arguments s_kw {V}.

(* ================= binary64 instance used by the correspondence ================= *)

Definition fneghalf (x : float) : float := ((-0x1p-1)%float * x)%float.

Fixpoint tab_lookup {K} (eqb : K -> K -> bool) (t : list (K * float)) (k : K) : float :=
  match t with
  | [] => nan
  | (k', v) :: r => if eqb k k' then v else tab_lookup eqb r k
  end.

Section FInst.
  Variable ptab : list (list float * float).     (* prior sums, from the prior objects *)
  Variable etab : list (float * float).          (* numpy.exp values *)
  Definition fprior := tab_lookup flist_eqb ptab.
  Definition fexp := tab_lookup fbits_eqb etab.
  Definition fsample := sample float.
  Definition f_emcee := emcee_convert float PrimFloat.sub 0x1p+0%float fprior.
  Definition f_zeus := zeus_convert float PrimFloat.sub 0x1p+0%float fprior.
  Definition f_dynesty := dynesty_convert float PrimFloat.sub fprior fexp.
  Definition f_nautilus := nautilus_convert float fprior fexp.
  Definition f_ultranest := ultranest_convert float fprior.
  Definition f_bfgs := bfgs_convert float PrimFloat.sub 0x1p+0%float fprior.
  Definition f_bfgs_vis := bfgs_vis_convert float 0x1p+0%float fprior.
  Definition f_drawer := drawer_convert float PrimFloat.sub 0x1p+0%float fprior.
  Definition f_pyswarms := pyswarms_convert float PrimFloat.sub fneghalf 0x1p+0%float fprior.
  Definition f_pyswarms_pbest := pyswarms_pbest_convert float PrimFloat.sub fneghalf 0x1p+0%float fprior.
End FInst.

(* int(3.0 * max(times)), int(max(times) / 2.0) *)
Definition mcmc_discard (tmax : float) : Z := ftruncZ (0x1.8p+1 * tmax)%float.
Definition mcmc_thin (tmax : float) : Z := ftruncZ (tmax / 0x1p+1)%float.

Inductive fstate :=
| FFromLists (rows : list (list float)) (lls lps ws : list float)
| FEmcee (aligned : bool) (chain : list (list (list float))) (logp : list (list float)) (tmax : float)
| FZeus (aligned : bool) (chain : list (list (list float))) (logp : list (list float)) (tmax : float)
| FDynesty (rows : list (list float)) (logl logwt logz : list float)
| FNautilus (rows : list (list float)) (logl logw : list float)
| FUltranest (rows : list (list float)) (logl weights : list float)
| FBfgs (x : list float) (post : float)
| FBfgsVis (hist : list (list float)) (hist_ll : list float)
| FDrawer (rows : list (list float)) (post : list float)
| FPyswarms (pos : list (list (list float))) (cost : list float)
| FPyswarmsPbest (pbest_pos : list (list float)) (pbest_cost : list float).

Definition convert_state (ptab : list (list float * float)) (etab : list (float * float))
           (paths : list path) (st : fstate) : option (list fsample) :=
  match st with
  | FFromLists rows lls lps ws => Some (from_lists float paths rows lls lps ws)
  | FEmcee al chain logp tmax =>
      let d := mcmc_discard tmax in let t := mcmc_thin tmax in
      if (d <? 0)%Z || (t <? 0)%Z then None
      else f_emcee ptab al paths chain logp (Z.to_nat d) (Z.to_nat t)
  | FZeus al chain logp tmax =>
      let d := mcmc_discard tmax in let t := mcmc_thin tmax in
      if (d <? 0)%Z || (t <? 0)%Z then None
      else f_zeus ptab al paths chain logp (Z.to_nat d) (Z.to_nat t)
  | FDynesty rows logl logwt logz => f_dynesty ptab etab paths rows logl logwt logz
  | FNautilus rows logl logw => f_nautilus ptab etab paths rows logl logw
  | FUltranest rows logl ws => f_ultranest ptab paths rows logl ws
  | FBfgs x post => f_bfgs ptab paths x post
  | FBfgsVis hist hl => f_bfgs_vis ptab paths hist hl
  | FDrawer rows post => f_drawer ptab paths rows post
  | FPyswarms pos cost => f_pyswarms ptab paths pos cost
  | FPyswarmsPbest rows cost => f_pyswarms_pbest ptab paths rows cost
  end.

(* what the harness observes on the returned Samples object *)
Record observed := mkObs {
  o_samples : list fsample;                 (* sample_list: ll, lp, weight, kwargs in dict order *)
  o_posts : list float;                     (* Sample.log_posterior of every sample *)
  o_best : option nat;                      (* position of max_log_likelihood_sample *)
  o_vec : option (list float);              (* max_log_likelihood(as_instance=False) *)
  o_rows : option (list (list float));      (* Samples.parameter_lists *)
  o_ll : option float                       (* summary / result log_likelihood *)
}.
Inductive outcome := ORaised | OOk (o : observed).

Fixpoint all_some {A} (l : list (option A)) : option (list A) :=
  match l with
  | [] => Some []
  | None :: _ => None
  | Some x :: r => match all_some r with Some xs => Some (x :: xs) | None => None end
  end.

Definition observe (pp : list (path * nat)) (l : list fsample) : observed :=
  let groups := all_paths pp in
  let best := max_ll_sample float PrimFloat.ltb l in
  mkObs l
        (map (s_post float PrimFloat.add) l)
        (max_ll_index float PrimFloat.ltb l)
        (match best with Some b => vector_for float groups (s_kw b) | None => None end)
        (all_some (map (fun s => vector_for float groups (s_kw s)) l))
        (match best with Some b => Some (s_ll b) | None => None end).

Definition model_outcome (pp : list (path * nat)) (ptab : list (list float * float)) (etab : list (float * float))
           (st : fstate) : outcome :=
  match convert_state ptab etab (unique_prior_paths pp) st with
  | None => ORaised
  | Some l => OOk (observe pp l)
  end.

(* ---------- comparison (bit exact) ---------- *)
Fixpoint list_eqb {A} (eqb : A -> A -> bool) (a b : list A) : bool :=
  match a, b with
  | [], [] => true
  | x :: a', y :: b' => eqb x y && list_eqb eqb a' b'
  | _, _ => false
  end.
Definition opt_eqb {A} (eqb : A -> A -> bool) (a b : option A) : bool :=
  match a, b with Some x, Some y => eqb x y | None, None => true | _, _ => false end.
Definition kw_eqb (a b : path * float) : bool := Z.eqb (fst a) (fst b) && fbits_eqb (snd a) (snd b).
Definition sample_eqb (a b : fsample) : bool :=
  fbits_eqb (s_ll a) (s_ll b) && fbits_eqb (s_lp a) (s_lp b) && fbits_eqb (s_w a) (s_w b)
  && list_eqb kw_eqb (s_kw a) (s_kw b).
Definition observed_eqb (a b : observed) : bool :=
  list_eqb sample_eqb (o_samples a) (o_samples b)
  && flist_eqb (o_posts a) (o_posts b)
  && opt_eqb Nat.eqb (o_best a) (o_best b)
  && opt_eqb flist_eqb (o_vec a) (o_vec b)
  && opt_eqb (list_eqb flist_eqb) (o_rows a) (o_rows b)
  && opt_eqb fbits_eqb (o_ll a) (o_ll b).
Definition outcome_eqb (a b : outcome) : bool :=
  match a, b with
  | ORaised, ORaised => true
  | OOk x, OOk y => observed_eqb x y
  | _, _ => false
  end.

(* ---------- AbstractInitializer.samples_from_model ----------
   `draws` is the stream of points the initializer generates, in generation order: (unit vector,
   physical vector, what figure_of_metric returns for it: Some fom, or None for a FitException /
   NaN / value below -1e98).  Every round draws min(remaining, n_cores) points, evaluates them
   through the pool (results in input order), zips the results with the drawn vectors BY POSITION
   and keeps the triples whose result is not None. *)
Section Init.
  Variable V : Type.
  Definition draw := (list V * list V * option V)%type.
  Definition kept := (list V * list V * V)%type.
  Definition keep_of (d : draw) : list kept :=
    match d with (u, p, Some f) => [(u, p, f)] | (_, _, None) => [] end.
  Definition kept_of (l : list draw) : list kept := flat_map keep_of l.
  (* zip(pool.map(fom, batch), units_, params_) filtered on `is not None` *)
  Definition batch_kept (batch : list draw) : list kept :=
    flat_map (fun rup : option V * (list V * list V) =>
                match rup with (Some f, (u, p)) => [(u, p, f)] | (None, _) => [] end)
             (combine (map (fun d : draw => snd d) batch) (map (fun d : draw => fst d) batch)).
  Fixpoint init_run (fuel ncores total : nat) (draws : list draw) (acc : list kept)
    : option (list kept * list draw) :=
    match fuel with
    | O => None
    | S fuel' =>
        if Nat.leb total (length acc) then Some (acc, draws)
        else
          let b := Nat.min (total - length acc) ncores in
          if Nat.eqb b 0 then None                               (* n_cores = 0 never terminates *)
          else if Nat.ltb (length draws) b then None             (* the recorded stream is exhausted *)
          else init_run fuel' ncores total (skipn b draws) (acc ++ batch_kept (firstn b draws))
    end.
End Init.

(* ---------- correspondence cases ---------- *)
Inductive case :=
| Case (pp : list (path * nat))                    (* model.path_priors_tuples (path id, prior id rank) *)
       (cols : list nat)                           (* prior ids of model.priors_ordered_by_id *)
       (ptab : list (list float * float)) (etab : list (float * float))
       (st : fstate) (expected : outcome)
| CaseInit (ncores total : nat) (draws : list (draw float))          (* every point the initializer drew *)
           (units params : list (list float)) (foms : list float).   (* what samples_from_model returned *)

Definition kept_eqb (a : kept float) (u p : list float) (f : float) : bool :=
  match a with (u', p', f') => flist_eqb u' u && flist_eqb p' p && fbits_eqb f' f end.
Fixpoint kept_list_eqb (l : list (kept float)) (us ps : list (list float)) (fs : list float) : bool :=
  match l, us, ps, fs with
  | [], [], [], [] => true
  | a :: l', u :: us', p :: ps', f :: fs' => kept_eqb a u p f && kept_list_eqb l' us' ps' fs'
  | _, _, _, _ => false
  end.

Definition check_case (c : case) : bool :=
  match c with
  | Case pp cols ptab etab st e =>
      list_eqb Nat.eqb (column_ids pp) cols && outcome_eqb (model_outcome pp ptab etab st) e
  | CaseInit ncores total draws us ps fs =>
      match init_run float (S (length draws)) ncores total draws [] with
      | Some (out, rest) => kept_list_eqb out us ps fs
                            && match rest with [] => true | _ => false end   (* no draw beyond the last round *)
      | None => false
      end
  end.
