(* C05 lemmas, part 1: list helpers, Sample.from_lists, the pairing theorems of every conversion. *)
From Coq Require Import ZArith List Bool Arith Lia.
From PAFCommon Require Import Lists.
From PAFC05 Require Import Model.
Import ListNotations.

(* ---------- zip-shaped hypotheses: a relation on the common prefix of two lists ---------- *)
Fixpoint zip_all {A B} (P : A -> B -> Prop) (l : list A) (m : list B) : Prop :=
  match l, m with
  | x :: l', y :: m' => P x y /\ zip_all P l' m'
  | _, _ => True
  end.

Lemma Forall2_zip_all {A B} (P : A -> B -> Prop) l m : Forall2 P l m -> zip_all P l m.
Proof. induction 1; simpl; auto. Qed.

Lemma Forall2_length {A B} (P : A -> B -> Prop) l m : Forall2 P l m -> length l = length m.
Proof. induction 1; simpl; auto. Qed.

Lemma zip_all_map_r {A B} (P : A -> B -> Prop) (f : A -> B) l :
  (forall x, P x (f x)) -> zip_all P l (map f l).
Proof. intros H; induction l; simpl; auto. Qed.

Lemma zip_all_firstn_r {A B} (P : A -> B -> Prop) l m k : zip_all P l m -> zip_all P l (firstn k m).
Proof.
  revert m k; induction l as [|x l IH]; intros [|y m] [|k]; simpl; auto.
  intros [H1 H2]; split; auto.
Qed.

(* ---------- every / every_from / concat preserve pointwise relations ---------- *)
Lemma every_Forall2 {A B} (P : A -> B -> Prop) step : forall k l m,
  Forall2 P l m -> Forall2 P (every step k l) (every step k m).
Proof.
  intros k l m H; revert k; induction H as [|x y l m Hxy H IH]; intros k; simpl; [constructor|].
  destruct k; [constructor; auto | apply IH].
Qed.

Lemma skipn_Forall2 {A B} (P : A -> B -> Prop) n : forall l m,
  Forall2 P l m -> Forall2 P (skipn n l) (skipn n m).
Proof.
  induction n as [|n IH]; intros l m H; simpl; auto.
  destruct H; [constructor | apply IH; auto].
Qed.

Lemma every_from_Forall2 {A B} (P : A -> B -> Prop) start step l m :
  Forall2 P l m -> Forall2 P (every_from start step l) (every_from start step m).
Proof. intros H; unfold every_from; apply every_Forall2, skipn_Forall2, H. Qed.

Lemma concat_Forall2 {A B} (P : A -> B -> Prop) l m :
  Forall2 (Forall2 P) l m -> Forall2 P (concat l) (concat m).
Proof.
  induction 1 as [|x y l m Hxy H IH]; simpl; [constructor|].
  induction Hxy; simpl; auto.
Qed.

Lemma every_incl {A} step : forall k (l : list A) x, In x (every step k l) -> In x l.
Proof.
  intros k l; revert k; induction l as [|y l IH]; intros k x; simpl; auto.
  destruct k; simpl; [intros [H|H]; eauto | eauto].
Qed.

Lemma every_from_incl {A} start step (l : list A) x : In x (every_from start step l) -> In x l.
Proof.
  unfold every_from; intros H. apply every_incl in H.
  rewrite <- (firstn_skipn start l). apply in_or_app; auto.
Qed.

Lemma map2_length_le {A B C} (f : A -> B -> C) : forall l m, length (map2 f l m) <= length m.
Proof. induction l as [|x l IH]; intros [|y m]; simpl; try lia. specialize (IH m); lia. Qed.

(* ---------- Sample.from_lists ---------- *)
Section FromLists.
  Variable V : Type.
  Variable prior : list V -> V.
  Variable L : list V -> V.            (* the likelihood of a parameter vector *)
  Variable nonneg : V -> Prop.

  Definition rows_ok (paths : list path) (rows : list (list V)) : Prop :=
    Forall (fun r => length r = length paths) rows.

  (* "faithful": the sample carries the likelihood and the prior of its own parameters,
     and a non-negative weight *)
  Definition faithful (s : sample V) : Prop :=
    s_ll s = L (s_vec V s) /\ s_lp s = prior (s_vec V s) /\ nonneg (s_w s).

  Lemma combine_snd (paths : list path) (r : list V) :
    length r = length paths -> map snd (combine paths r) = r.
  Proof.
    revert r; induction paths as [|p paths IH]; intros [|x r]; simpl; intros H; try discriminate; auto.
    f_equal; apply IH; lia.
  Qed.
  Lemma combine_fst (paths : list path) (r : list V) :
    length r = length paths -> map fst (combine paths r) = paths.
  Proof.
    revert r; induction paths as [|p paths IH]; intros [|x r]; simpl; intros H; try discriminate; auto.
    f_equal; apply IH; lia.
  Qed.

  (* the i-th sample is built from the i-th entry of every list, nothing else *)
  Lemma from_lists_faithful : forall paths rows lls lps ws,
    rows_ok paths rows ->
    zip_all (fun r l => l = L r) rows lls ->
    zip_all (fun r p => p = prior r) rows lps ->
    Forall nonneg ws ->
    Forall faithful (from_lists V paths rows lls lps ws).
  Proof.
    intros paths rows; induction rows as [|r rows IH]; intros lls lps ws Hok Hl Hp Hw; simpl; [constructor|].
    destruct lls as [|l lls]; [constructor|]. destruct lps as [|p lps]; [constructor|].
    destruct ws as [|w ws]; [constructor|].
    inversion Hok as [|? ? Hr Hok']; subst. destruct Hl as [Hl1 Hl2]. destruct Hp as [Hp1 Hp2].
    inversion Hw as [|? ? Hw1 Hw2]; subst.
    constructor.
    - unfold faithful, s_vec; simpl. rewrite combine_snd by exact Hr. auto.
    - apply IH; auto.
  Qed.

  (* only the prior / weight / row part (what survives a wrong log-likelihood list) *)
  Definition half_faithful (w0 : V) (s : sample V) : Prop :=
    s_lp s = prior (s_vec V s) /\ s_w s = w0.

  Lemma from_lists_half : forall w0 paths rows lls lps ws,
    rows_ok paths rows ->
    zip_all (fun r p => p = prior r) rows lps ->
    Forall (fun w => w = w0) ws ->
    Forall (half_faithful w0) (from_lists V paths rows lls lps ws).
  Proof.
    intros w0 paths rows; induction rows as [|r rows IH]; intros lls lps ws Hok Hp Hw; simpl; [constructor|].
    destruct lls as [|l lls]; [constructor|]. destruct lps as [|p lps]; [constructor|].
    destruct ws as [|w ws]; [constructor|].
    inversion Hok as [|? ? Hr Hok']; subst. destruct Hp as [Hp1 Hp2].
    inversion Hw as [|? ? Hw1 Hw2]; subst.
    constructor.
    - unfold half_faithful, s_vec; simpl. rewrite combine_snd by exact Hr. auto.
    - apply IH; auto.
  Qed.

  (* nothing is dropped or reordered when the four lists have one length; in general the
     rows of the output are a prefix of the rows of the input *)
  Lemma from_lists_rows_prefix : forall paths rows lls lps ws,
    rows_ok paths rows ->
    exists k, map (s_vec V) (from_lists V paths rows lls lps ws) = firstn k rows.
  Proof.
    intros paths rows; induction rows as [|r rows IH]; intros lls lps ws Hok; simpl; [exists 0; reflexivity|].
    destruct lls as [|l lls]; [exists 0; reflexivity|]. destruct lps as [|p lps]; [exists 0; reflexivity|].
    destruct ws as [|w ws]; [exists 0; reflexivity|].
    inversion Hok as [|? ? Hr Hok']; subst.
    destruct (IH lls lps ws Hok') as [k Hk]. exists (S k). simpl. unfold s_vec at 1; simpl.
    rewrite combine_snd by exact Hr. f_equal. exact Hk.
  Qed.

  Lemma from_lists_rows_all : forall paths rows lls lps ws,
    rows_ok paths rows ->
    length lls = length rows -> length lps = length rows -> length ws = length rows ->
    map (s_vec V) (from_lists V paths rows lls lps ws) = rows.
  Proof.
    intros paths rows; induction rows as [|r rows IH]; intros lls lps ws Hok H1 H2 H3; simpl; [reflexivity|].
    destruct lls as [|l lls]; [discriminate|]. destruct lps as [|p lps]; [discriminate|].
    destruct ws as [|w ws]; [discriminate|].
    inversion Hok as [|? ? Hr Hok']; subst. simpl in *.
    unfold s_vec at 1; simpl. rewrite combine_snd by exact Hr. f_equal. apply IH; auto; lia.
  Qed.

  Lemma from_lists_keys : forall paths rows lls lps ws s,
    rows_ok paths rows ->
    In s (from_lists V paths rows lls lps ws) ->
    exists r, In r rows /\ s_kw s = combine paths r /\ map fst (s_kw s) = paths.
  Proof.
    intros paths rows; induction rows as [|r rows IH]; intros lls lps ws s Hok Hin; simpl in Hin; [contradiction|].
    destruct lls as [|l lls]; [contradiction|]. destruct lps as [|p lps]; [contradiction|].
    destruct ws as [|w ws]; [contradiction|].
    inversion Hok as [|? ? Hr Hok']; subst.
    destruct Hin as [Hs|Hin].
    - subst s; simpl. exists r; repeat split; simpl; auto. apply combine_fst; exact Hr.
    - destruct (IH lls lps ws s Hok' Hin) as [r' [H1 H2]]. exists r'; split; simpl; auto.
  Qed.

  Lemma from_lists_weight_in : forall paths rows lls lps ws s,
    In s (from_lists V paths rows lls lps ws) -> In (s_w s) ws.
  Proof.
    intros paths rows; induction rows as [|r rows IH]; intros lls lps ws s Hin; simpl in Hin; [contradiction|].
    destruct lls as [|l lls]; [contradiction|]. destruct lps as [|p lps]; [contradiction|].
    destruct ws as [|w ws]; [contradiction|].
    destruct Hin as [<-|Hin]; [left; reflexivity | right; eapply IH; eauto].
  Qed.

  Lemma from_lists_length_le : forall paths rows lls lps ws,
    length (from_lists V paths rows lls lps ws) <= length rows.
  Proof.
    intros paths rows; induction rows as [|r rows IH]; intros lls lps ws; simpl; [lia|].
    destruct lls; [simpl; lia|]. destruct lps; [simpl; lia|]. destruct ws; [simpl; lia|]. simpl.
    specialize (IH lls lps ws). lia.
  Qed.

  Lemma rows_ok_concat paths (ll : list (list (list V))) :
    Forall (rows_ok paths) ll -> rows_ok paths (concat ll).
  Proof.
    induction 1 as [|x l Hx H IH]; simpl; [constructor|]. apply Forall_app; split; auto.
  Qed.

  Lemma rows_ok_incl paths (a b : list (list V)) : (forall x, In x a -> In x b) -> rows_ok paths b -> rows_ok paths a.
  Proof. unfold rows_ok; rewrite !Forall_forall; intros H Hb x Hx; auto. Qed.
End FromLists.
