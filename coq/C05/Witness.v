(* Non-vacuity examples and refutation witnesses for C05 (all by computation). *)
From Coq Require Import ZArith List Bool Arith Lia.
From PAFC05 Require Import Model Proofs1 Proofs2 Proofs3 Proofs4 Proofs5 Proofs6 Machine.
Import ListNotations.
Open Scope Z_scope.

(* exact arithmetic instance used below: Z, likelihood = first coordinate, flat prior *)
Example z_sub_add : forall a b : Z, a + b - b = a.
Proof. intros; lia. Qed.
Example z_ltb_laws :
  (forall a, Z.ltb a a = false) /\
  (forall a b c, Z.ltb a b = true -> Z.ltb b c = true -> Z.ltb a c = true) /\
  (forall a b c, Z.ltb a c = true -> Z.ltb a b = true \/ Z.ltb b c = true).
Proof.
  repeat split; intros.
  - apply Z.ltb_irrefl.
  - apply Z.ltb_lt in H, H0. apply Z.ltb_lt. lia.
  - apply Z.ltb_lt in H. destruct (Z.ltb_spec a b); auto. right. apply Z.ltb_lt. lia.
Qed.

(* a model with a shared prior and ids that are not in walk order:
   walk order: path 1 -> prior 2, path 2 -> prior 0, path 3 -> prior 2 (shared), path 4 -> prior 1 *)
Definition w_pp : list (path * nat) := [(1, 2%nat); (2, 0%nat); (3, 2%nat); (4, 1%nat)].
Example w_pp_columns : column_ids w_pp = [0%nat; 1%nat; 2%nat]
                       /\ unique_prior_paths w_pp = [2; 4; 3]
                       /\ all_paths w_pp = [[2]; [4]; [1; 3]].
Proof. vm_compute. auto. Qed.
Example w_pp_nodup : NoDup (map fst w_pp).
Proof. unfold w_pp; simpl. repeat constructor; simpl; intuition; discriminate. Qed.

(* contract + conversion + best fit on a small dynesty state *)
Definition w_rows : list (list Z) := [[3; 0; 7]; [9; 1; 2]; [5; 5; 5]].
Example w_dynesty :
  dynesty_convert Z Z.sub zprior (fun x => x * x) (unique_prior_paths w_pp) w_rows [3; 9; 5] [0; 1; 2] [4; 6]
  = Some [mkS 3 0 36 [(2, 3); (4, 0); (3, 7)]; mkS 9 0 25 [(2, 9); (4, 1); (3, 2)]; mkS 5 0 16 [(2, 5); (4, 5); (3, 5)]].
Proof. vm_compute. reflexivity. Qed.
Example w_dynesty_contract : logl_contract zL w_rows [3; 9; 5] /\ rows_ok Z (unique_prior_paths w_pp) w_rows.
Proof. split; [unfold logl_contract, w_rows | unfold rows_ok, w_rows]; repeat constructor. Qed.
Example w_best :
  max_ll_index Z Z.ltb [mkS 3 0 1 []; mkS 9 0 1 [(2, 9)]; mkS 9 0 1 [(2, 8)]; mkS 5 0 1 []] = Some 1%nat
  /\ max_ll_sample Z Z.ltb [mkS 3 0 1 []; mkS 9 0 1 [(2, 9)]; mkS 9 0 1 [(2, 8)]; mkS 5 0 1 []] = Some (mkS 9 0 1 [(2, 9)]).
Proof. vm_compute. auto. Qed.
Example w_vector : vector_for Z (all_paths w_pp) [(2, 9); (4, 1); (3, 2)] = Some [9; 1; 2].
Proof. vm_compute. reflexivity. Qed.

(* the repaired emcee call on the refutation state: faithful *)
Example w_emcee_fixed :
  emcee_convert Z Z.sub 1 zprior true [1] w_chain w_logp 1 1 = Some [mkS 20 0 1 [(1, 20)]; mkS 30 0 1 [(1, 30)]].
Proof. vm_compute. reflexivity. Qed.
(* the pinned call on the same state: the sample at 20 carries the log-probability of 10 *)
Example w_emcee_pinned :
  emcee_convert Z Z.sub 1 zprior false [1] w_chain w_logp 1 1 = Some [mkS 10 0 1 [(1, 20)]; mkS 20 0 1 [(1, 30)]].
Proof. vm_compute. reflexivity. Qed.
Example w_zeus_pinned :
  zeus_convert Z Z.sub 1 zprior false [1] w_chain w_logp 1 1 = Some [mkS 10 0 1 [(1, 20)]; mkS 20 0 1 [(1, 30)]].
Proof. vm_compute. reflexivity. Qed.
(* emcee slicing: chain[discard+thin-1::thin] *)
Example w_every_from : every_from 3 2 [0; 1; 2; 3; 4; 5; 6; 7; 8] = [3; 5; 7].
Proof. vm_compute. reflexivity. Qed.
Example w_py_slice : py_slice [0; 1; 2; 3; 4; 5] (-4) (-1) = [2; 3; 4] /\ py_slice [0; 1; 2] (-4) (-1) = [0; 1].
Proof. vm_compute. auto. Qed.

(* pyswarms: particle 0 at 1 (likelihood 1) is reported with the swarm's best cost (likelihood 5);
   the cost history of the witness is the running minimum of -2 * (L + prior) *)
Example w_pyswarms_pinned :
  pyswarms_convert Z Z.sub zneghalf 1 zprior [1] w_pos w_cost = Some [mkS 5 0 1 [(1, 1)]].
Proof. vm_compute. reflexivity. Qed.
Example w_pyswarms_running_min :
  w_cost = [Z.min (-2 * (zL [1] + zprior [1])) (-2 * (zL [5] + zprior [5]))].
Proof. vm_compute. reflexivity. Qed.
(* the single-particle guard is satisfiable *)
Example w_pyswarms_single :
  pyswarms_convert Z Z.sub zneghalf 1 zprior [1] (map (fun x => [x]) [[4]; [6]]) [-8; -12]
  = Some [mkS 4 0 1 [(1, 4)]; mkS 6 0 1 [(1, 6)]].
Proof. vm_compute. reflexivity. Qed.

(* the remaining conversions on states satisfying their contracts *)
Example w_drawer :
  post_contract Z.add zprior zL [[4; 1]; [7; 2]] [4; 7]
  /\ drawer_convert Z Z.sub 1 zprior [1; 2] [[4; 1]; [7; 2]] [4; 7]
     = Some [mkS 4 0 1 [(1, 4); (2, 1)]; mkS 7 0 1 [(1, 7); (2, 2)]].
Proof. split; [unfold post_contract; repeat constructor | vm_compute; reflexivity]. Qed.
Example w_bfgs :
  bfgs_convert Z Z.sub 1 zprior [1; 2] [4; 1] (zL [4; 1] + zprior [4; 1]) = Some [mkS 4 0 1 [(1, 4); (2, 1)]].
Proof. vm_compute. reflexivity. Qed.
Example w_bfgs_history :
  logl_contract zL [[4; 1]; [7; 2]] [4; 7]
  /\ bfgs_vis_convert Z 1 zprior [1; 2] [[4; 1]; [7; 2]] [4; 7]
     = Some [mkS 4 0 1 [(1, 4); (2, 1)]; mkS 7 0 1 [(1, 7); (2, 2)]].
Proof. split; [unfold logl_contract; repeat constructor | vm_compute; reflexivity]. Qed.
Example w_nautilus_ultranest :
  nautilus_convert Z zprior (fun x => x * x) [1] [[4]; [7]] [4; 7] [-1; 2] = Some [mkS 4 0 1 [(1, 4)]; mkS 7 0 4 [(1, 7)]]
  /\ ultranest_convert Z zprior [1] [[4]; [7]] [4; 7] [0; 3] = Some [mkS 4 0 0 [(1, 4)]; mkS 7 0 3 [(1, 7)]]
  /\ Forall znonneg [0; 3].
Proof. repeat split; try (vm_compute; reflexivity). unfold znonneg; repeat constructor; lia. Qed.
(* Sample.from_lists truncates to the shortest list (zip); the hypotheses of C05_from_lists_pairing
   are about the common prefix *)
Example w_from_lists_truncates :
  from_lists Z [1] [[4]; [7]; [9]] [4; 7] [0; 0; 0] [1; 1; 1] = [mkS 4 0 1 [(1, 4)]; mkS 7 0 1 [(1, 7)]]
  /\ zip_all (fun r l => l = zL r) [[4]; [7]; [9]] [4; 7].
Proof. split; [vm_compute; reflexivity | simpl; auto]. Qed.
(* every sample of the refutation state violates only the likelihood clause *)
Example w_emcee_partial_holds :
  Forall (half_faithful Z zprior 1) [mkS 10 0 1 [(1, 20)]; mkS 20 0 1 [(1, 30)]].
Proof. repeat constructor. Qed.

(* initializer: 2 cores, 3 points wanted; draws 2 and 4 are rejected.  Rounds: (d1,d2) (d3,d4) (d5) *)
Definition w_draws : list (draw Z) :=
  [([1], [10], Some 100); ([2], [20], None); ([3], [30], Some 300); ([4], [40], None); ([5], [50], Some 500); ([6], [60], Some 600)].
Example w_init_run :
  init_run Z 10 2 3 w_draws [] = Some ([([1], [10], 100); ([3], [30], 300); ([5], [50], 500)], [([6], [60], Some 600)]).
Proof. vm_compute. reflexivity. Qed.
(* the hypotheses of the all-swarm / all-thinning partial theorems hold on the refutation states *)
Example w_pyswarms_heads : heads Z w_pos = Some [[1]] /\ List.length w_cost = List.length w_pos.
Proof. vm_compute. auto. Qed.
Example w_zeus_shape : Forall2 (fun (step : list (list Z)) (lp : list Z) => List.length step = List.length lp) w_chain w_logp.
Proof. unfold w_chain, w_logp. repeat constructor. Qed.

(* the repaired PySwarms conversion on the refutation swarm: personal bests 1 (cost -2) and 5 (cost -10) *)
Example w_pyswarms_pbest :
  pyswarms_pbest_convert Z Z.sub zneghalf 1 zprior [1] [[1]; [5]] [-2; -10] = Some [mkS 1 0 1 [(1, 1)]; mkS 5 0 1 [(1, 5)]]
  /\ Forall2 (fun x c => zneghalf c = zL x + zprior x) [[1]; [5]] [-2; -10].
Proof. split; [vm_compute; reflexivity | repeat constructor]. Qed.

(* ---- Machine.v: non-vacuity.  A history with every kind of use; `sound_on` holds for the code's policy when no
   reduction occurs, and the run is not trivial (the cached answer is handed out, the derived objects answer anew) *)
Definition wm_ops : list (op Z) :=
  [OInstance Z; OIndex Z; ODerive Z (DCopy Z); OInstance Z;
   ODerive Z (DAdd Z [@mkS Z 12 0 1 [(1, 13); (2, 23)]]); OInstance Z; OVector Z;
   ODerive Z (DThreshold Z (fun w => Z.ltb 0 w)); OInstance Z; OIndex Z].
Example wm_no_reduction : no_reduction Z wm_ops.
Proof. simpl. exact I. Qed.
Example wm_sound : sound_on Z Z.ltb (code_policy Z) wm_ops.
Proof. apply sound_code. exact wm_no_reduction. Qed.
Example wm_run :
  run Z Z.ltb (code_policy Z) (m_groups, m_samples) None wm_ops
  = [RVec Z (Some [11; 21]); RIdx Z (Some 1%nat); RDerived Z; RVec Z (Some [11; 21]); RDerived Z;
     RVec Z (Some [13; 23]); RVec Z (Some [13; 23]); RDerived Z; RVec Z (Some [13; 23]); RIdx Z (Some 2%nat)].
Proof. vm_compute. reflexivity. Qed.
Example wm_fixed_on_refutation_history :
  run Z Z.ltb (fixed_policy Z) (m_groups, m_samples) None m_ops = expected Z Z.ltb (m_groups, m_samples) m_ops.
Proof. vm_compute. reflexivity. Qed.
