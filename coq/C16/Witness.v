(* Non-vacuity examples for C16: concrete states meeting the theorems' hypotheses. *)
From Coq Require Import ZArith QArith List Permutation String.
From PAFCommon Require Import PyFloat PyNum Lists.
From PAFC16 Require Import Gen Lib Machine Model Proofs Proofs2 Proofs3.
Import ListNotations.

Example grid_2_3_has_9_cells : List.length (grid_lists_Q 2 3) = 9%nat.
Proof. vm_compute. reflexivity. Qed.

Example grid_rowmajor_2_2 : map (map Qred) (grid_lists_Q 2 2) = [[0; 0]; [0; 1 # 2]; [1 # 2; 0]; [1 # 2; 1 # 2]].
Proof. vm_compute. reflexivity. Qed.

Example builder_shuffled :
  rb_run 3 [(2%Z, "c"%string); (0%Z, "a"%string); (1%Z, "b"%string)] = [Some "a"%string; Some "b"%string; Some "c"%string].
Proof. vm_compute. reflexivity. Qed.

Example shuffled_is_permutation :
  Permutation [(2%Z, 30%Z); (0%Z, 10%Z); (1%Z, 20%Z)] (numbered [10%Z; 20%Z; 30%Z]).
Proof. unfold numbered; simpl. apply (Permutation_app_comm [(2%Z, 30%Z)] [(0%Z, 10%Z); (1%Z, 20%Z)]). Qed.

Example tiling_hypotheses_hold : (1 <= 4)%Z /\ (1 # 2) < 3.
Proof. split; [discriminate | reflexivity]. Qed.

(* --- non-vacuity of the theorems added for "which entry belongs to which cell" --- *)
Example digits_of_job_5_in_2x3 : digits 3 2 5 = [1%nat; 2%nat] /\ mdigits [2%nat; 3%nat; 2%nat] 7 = [1%nat; 0%nat; 1%nat].
Proof. vm_compute. split; reflexivity. Qed.

Example kth_is_digits_hypotheses : (1 <= 3)%Z /\ (5 < Z.to_nat 3 ^ 2)%nat.
Proof. split; [discriminate|vm_compute; repeat constructor]. Qed.

Example job_5_of_3x3_is_cell_1_2 :
  map (fun p => (Qred (fst p), Qred (snd p))) (nth 5 (cells_Q 3 [(0, 3); (10, 13)]) []) = [(1, 2); (12, 13)].
Proof. vm_compute. reflexivity. Qed.

Example sens_cell_2_of_4 : Qred (fst (sens_cell1_Q 1 4 2)) = 1 # 2 /\ Qred (snd (sens_cell1_Q 1 4 2)) = 3 # 4.
Proof. vm_compute. split; reflexivity. Qed.

(* limit_scale 2 widens the cell by half a step on each side; limit_scale 4 on 2 steps is clamped to [0, 1] *)
Example sens_cell_scaled : Qred (fst (sens_cell1_Q 2 4 2)) = 3 # 8 /\ Qred (snd (sens_cell1_Q 2 4 2)) = 7 # 8
  /\ Qred (fst (sens_cell1_Q 4 2 0)) = 0 /\ Qred (snd (sens_cell1_Q 4 2 0)) = 1.
Proof. vm_compute. repeat split; reflexivity. Qed.

Example sens_collect_shuffled :
  map snd (sens_collect [(2%Z, "c"%string); (0%Z, "a"%string); (1%Z, "b"%string)]) = ["a"%string; "b"%string; "c"%string].
Proof. vm_compute. reflexivity. Qed.

(* re-delivery: job 1 delivered twice, the later token is reported; the hypothesis of C16_kth_latest_wins holds *)
Example builder_redelivery :
  rb_run 2 ([(1%Z, 10%Z)] ++ (1%Z, 20%Z) :: [(0%Z, 5%Z)]) = [Some 5%Z; Some 20%Z] /\ ~ In 1%Z (map fst [(0%Z, 5%Z)]).
Proof. split; [vm_compute; reflexivity|simpl; intros [H|[]]; discriminate]. Qed.

(* C16_kth_partial's NoDup guard is needed as stated for its first conjunct: with a re-delivery the EARLIER
   result of job 1 is in the arrivals but is not the one reported *)
Example kth_partial_without_nodup_refuted :
  exists (arrivals : list (Z * Z)) (r : Z), In (1%Z, r) arrivals /\ nth 1 (rb_run 2 arrivals) None <> Some r.
Proof. exists [(1%Z, 10%Z); (1%Z, 20%Z)], 10%Z. split; [left; reflexivity|vm_compute; discriminate]. Qed.

Example results_paths_example : rb_results 3 [(2%Z, 7%Z); (0%Z, 9%Z)] = [Some (9%Z, 0%Z); None; Some (7%Z, 2%Z)].
Proof. vm_compute. reflexivity. Qed.

Example progress_example : rb_progress 3 [] [(2%Z, tt); (0%Z, tt)] = [[false; false; true]; [true; false; true]].
Proof. vm_compute. reflexivity. Qed.

(* --- one object, several uses --- a coarse 1-D pass, a 2-D pass, then a refinement of the 1-D grid: the machine
   of the code that exists answers 2, 4 and 4 cells; a cache keyed by the dimension count answers 2 for the
   refinement (the witness of C16_cache_by_dimension_refuted), a cache keyed by (d, n) is sound *)
Example history_sizes :
  map out_size (gs_run_Q code_policy 2 [OCells [(0, 4)]; OCells [(0, 4); (1, 2)]; OSetSteps 4%Z; OCells [(0, 4)]]) = [2; 4; 4]%nat
  /\ map out_size (gs_run_Q ByDim 2 [OCells [(0, 4)]; OCells [(0, 4); (1, 2)]; OSetSteps 4%Z; OCells [(0, 4)]]) = [2; 4; 2]%nat
  /\ map out_size (gs_run_Q ByDimSteps 2 [OCells [(0, 4)]; OSetSteps 4%Z; OCells [(0, 4)]; OSetSteps 2%Z; OCells [(0, 4)]]) = [2; 4; 2]%nat.
Proof. vm_compute. repeat split; reflexivity. Qed.

Example history_hypotheses : sound code_policy /\ sound ByDimSteps /\ ~ sound ByDim /\ (1 <= 4)%Z.
Proof. repeat split; [left; reflexivity | right; reflexivity | intros [H|H]; discriminate H | discriminate]. Qed.

Example sens_history_sizes :
  map out_size (sens_run_Q code_policy [2%Z] [OLists 1; OSetSteps [3%Z; 2%Z]; OCells 1; OSetSteps [4%Z]; OLists 1]) = [2; 6; 4]%nat.
Proof. vm_compute. reflexivity. Qed.
