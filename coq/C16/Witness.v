(* Non-vacuity examples for C16: concrete states meeting the theorems' hypotheses. *)
From Coq Require Import ZArith QArith List Permutation String.
From PAFCommon Require Import PyFloat PyNum Lists.
From PAFC16 Require Import Gen Model Proofs.
Import ListNotations.

Example grid_2_3_has_9_cells : List.length (grid_lists_Q 2 3) = 9%nat.
Proof. vm_compute. reflexivity. Qed.

Example grid_rowmajor_2_2 : map (map Qred) (grid_lists_Q 2 2) = [[0; 0]; [0; 1 # 2]; [1 # 2; 0]; [1 # 2; 1 # 2]].
Proof. vm_compute. reflexivity. Qed.

Example builder_shuffled :
  rb_run 3 [(2%Z, "c"%string); (0%Z, "a"%string); (1%Z, "b"%string)] = [Some "a"%string; Some "b"%string; Some "c"%string].
Proof. vm_compute. reflexivity. Qed.

Example shuffled_is_permutation :
  Permutation [(2%Z, 30%Z); (0%Z, 10%Z); (1%Z, 20%Z)] (numbered [10%Z; 20%Z; 30%Z]).
Proof. unfold numbered; simpl. apply (Permutation_app_comm [(2%Z, 30%Z)] [(0%Z, 10%Z); (1%Z, 20%Z)]). Qed.

Example tiling_hypotheses_hold : (1 <= 4)%Z /\ (1 # 2) < 3.
Proof. split; [discriminate | reflexivity]. Qed.
