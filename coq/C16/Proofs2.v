(* C16 lemmas, part 2: which list entry belongs to which cell (row-major order tied to the grid),
   multi-dimensional tiling, reported limits, sensitivity cells, positional results. *)
From Coq Require Import ZArith QArith Qround Qfield List Bool Lia Lqa Permutation PeanoNat.
From Coq Require Import Floats.PrimFloat.
From PAFCommon Require Import PyFloat PyNum Lists.
From PAFC16 Require Import Gen Lib Model Proofs.
Import ListNotations.

(* ---------- row-major order of the grid-search lattice ---------- *)

Lemma column_Q_nth (centre : bool) (n : Z) (i : nat) : (1 <= n)%Z -> (i < Z.to_nat n)%nat ->
  nth i (column_Q centre (gs_step_size_Q n)) 0 = ml_value_Q (gs_step_size_Q n) (Z.of_nat i) centre.
Proof.
  intros Hn Hi. unfold column_Q.
  rewrite (nth_map_in (fun v => ml_value_Q (gs_step_size_Q n) v centre) _ i 0%Z 0)
    by (rewrite zrange_length, count_Q by exact Hn; exact Hi).
  rewrite zrange_nth by (rewrite count_Q by exact Hn; exact Hi). reflexivity.
Qed.

(* the k-th job of a grid search over d priors with n steps has, in dimension i, the (digit i of k)-th
   lattice value: the k-th entry of make_lists IS the multi-index of k in row-major order *)
Lemma grid_nth_Q (d : nat) (n : Z) (k : nat) : (1 <= n)%Z -> (k < Z.to_nat n ^ d)%nat ->
  nth k (grid_lists_Q d n) [] =
  map (fun i => ml_value_Q (gs_step_size_Q n) (Z.of_nat i) false) (digits (Z.to_nat n) d k).
Proof.
  intros Hn Hk. unfold grid_lists_Q, make_lists_Q. rewrite map_repeat.
  pose proof (column_Q_length false n Hn) as L.
  rewrite (cart_nth_digits 0) by (rewrite L; exact Hk).
  rewrite L. apply map_ext_in. intros i Hi.
  apply column_Q_nth; [exact Hn|]. exact (digits_lt _ _ _ _ Hk Hi).
Qed.

Lemma ml_value_frac_Q (n k : Z) : (1 <= n)%Z ->
  ml_value_Q (gs_step_size_Q n) k false == inject_Z k / inject_Z n.
Proof.
  intro Hn. unfold ml_value_Q, gs_step_size_Q. field. apply inject_Z_nonzero; lia.
Qed.

(* distinct job numbers are distinct multi-indices *)
Lemma digits_injective (n d k k' : nat) : (k < n ^ d)%nat -> (k' < n ^ d)%nat ->
  digits n d k = digits n d k' -> k = k'.
Proof.
  intros H H' E. apply (mdigits_injective (repeat n d)); rewrite ?prod_repeat; assumption.
Qed.

(* ---------- multi-dimensional tiling: job k's cell in dimension i is the (digit i of k)-th 1-D cell ---------- *)
Lemma cells_nth_Q (n : Z) (priors : list (Q * Q)) (k : nat) : (1 <= n)%Z -> (k < Z.to_nat n ^ length priors)%nat ->
  nth k (cells_Q n priors) [] =
  map2 (fun p i => cell1_Q n p (Z.of_nat i)) priors (digits (Z.to_nat n) (length priors) k).
Proof.
  intros Hn Hk. unfold cells_Q.
  rewrite (nth_map_in (map2 (cell_Q n) priors) _ k [] []) by (rewrite grid_count_Q by exact Hn; exact Hk).
  rewrite grid_nth_Q by assumption. rewrite map2_map_r. reflexivity.
Qed.

(* ---------- reported limits are those of the cells fitted ---------- *)
(* GridSearchResult recomputes upper limits / centres from the lower limits with its own step 1/side;
   physical values are prior.value_for(unit) = lo + unit * (hi - lo) for a uniform prior (the rounding
   of value_for to 14 decimals is outside this exact statement) *)
Lemma reported_limits_Q (n : Z) (lo hi : Q) (k : Z) : (1 <= n)%Z ->
  let v := ml_value_Q (gs_step_size_Q n) k false in
  let u := gsr_upper_Q v (gsr_step_size_Q n) in
  lo + v * (hi - lo) == fst (cell1_Q n (lo, hi) k) /\
  lo + u * (hi - lo) == snd (cell1_Q n (lo, hi) k) /\
  lo + gsr_centre_Q v u * (hi - lo) == (fst (cell1_Q n (lo, hi) k) + snd (cell1_Q n (lo, hi) k)) / inject_Z 2 /\
  u == inject_Z (k + 1) / inject_Z n.
Proof.
  intro Hn. cbv zeta.
  assert (NZ : ~ inject_Z n == 0) by (apply inject_Z_nonzero; lia).
  rewrite cell1_lower_Q, cell1_upper_Q by exact Hn.
  unfold gsr_centre_Q, gsr_upper_Q, gsr_step_size_Q, ml_value_Q, gs_step_size_Q.
  rewrite inject_Z_plus. repeat split; field; exact NZ.
Qed.

(* ---------- sensitivity cells ---------- *)
Lemma Qmax_r (a b : Q) : a <= b -> Qmax a b == b.
Proof. intro H. unfold Qmax. destruct (Qlt_le_dec a b); [reflexivity|apply Qle_antisym; assumption]. Qed.
Lemma Qmin_r (a b : Q) : b <= a -> Qmin a b == b.
Proof. intro H. unfold Qmin. destruct (Qlt_le_dec b a); [reflexivity|apply Qle_antisym; assumption]. Qed.
Lemma Qmax_lb (a b : Q) : a <= Qmax a b /\ b <= Qmax a b.
Proof. unfold Qmax. destruct (Qlt_le_dec a b); split; lra. Qed.
Lemma Qmin_ub (a b : Q) : Qmin a b <= a /\ Qmin a b <= b.
Proof. unfold Qmin. destruct (Qlt_le_dec b a); split; lra. Qed.
Lemma Qmax_cases (a b : Q) : Qmax a b == a \/ Qmax a b == b.
Proof. unfold Qmax. destruct (Qlt_le_dec a b); [right|left]; reflexivity. Qed.
Lemma Qmin_cases (a b : Q) : Qmin a b == a \/ Qmin a b == b.
Proof. unfold Qmin. destruct (Qlt_le_dec b a); [right|left]; reflexivity. Qed.

Lemma Qdiv_le_compat (a b c : Q) : 0 < c -> a <= b -> a / c <= b / c.
Proof.
  intros Hc Hab. unfold Qdiv. apply Qmult_le_compat_r; [exact Hab|apply Qlt_le_weak, Qinv_lt_0_compat; exact Hc].
Qed.

(* with limit_scale = 1 the clamps are inactive and cell k of a dimension with n steps is [k/n, (k+1)/n] *)
Lemma sens_cell1_exact_Q (n k : Z) : (1 <= n)%Z -> (0 <= k < n)%Z ->
  fst (sens_cell1_Q 1 n k) == inject_Z k / inject_Z n /\ snd (sens_cell1_Q 1 n k) == inject_Z (k + 1) / inject_Z n.
Proof.
  intros Hn Hk.
  assert (NZ : ~ inject_Z n == 0) by (apply inject_Z_nonzero; lia).
  assert (P : 0 < inject_Z n) by (change 0 with (inject_Z 0); rewrite <- Zlt_Qlt; lia).
  assert (K0 : 0 <= inject_Z k / inject_Z n).
  { setoid_replace 0 with (inject_Z 0 / inject_Z n) by (field; exact NZ). apply Qdiv_le_compat; [exact P|]. rewrite <- Zle_Qle. lia. }
  assert (K1 : inject_Z (k + 1) / inject_Z n <= 1).
  { setoid_replace 1 with (inject_Z n / inject_Z n) by (field; exact NZ). apply Qdiv_le_compat; [exact P|]. rewrite <- Zle_Qle. lia. }
  unfold sens_cell1_Q, sens_unit_lower_Q, sens_unit_upper_Q; cbn [fst snd].
  assert (EL : ml_value_Q (sens_step_size_Q n) k true - sens_half_step_Q 1 (sens_step_size_Q n) == inject_Z k / inject_Z n).
  { unfold ml_value_Q, sens_half_step_Q, sens_step_size_Q. field. exact NZ. }
  assert (EU : ml_value_Q (sens_step_size_Q n) k true + sens_half_step_Q 1 (sens_step_size_Q n) == inject_Z (k + 1) / inject_Z n).
  { unfold ml_value_Q, sens_half_step_Q, sens_step_size_Q. rewrite inject_Z_plus. field. exact NZ. }
  split.
  - rewrite Qmax_r; [exact EL|]. rewrite EL. exact K0.
  - rewrite Qmin_r; [exact EU|]. rewrite EU. exact K1.
Qed.

(* sensitivity mapping obeys the same rules: mapped through a uniform prior (lo, hi), sensitivity cell k
   is exactly grid-search cell k *)
Lemma sens_same_cells_Q (n k : Z) (lo hi : Q) : (1 <= n)%Z -> (0 <= k < n)%Z ->
  lo + fst (sens_cell1_Q 1 n k) * (hi - lo) == fst (cell1_Q n (lo, hi) k) /\
  lo + snd (sens_cell1_Q 1 n k) * (hi - lo) == snd (cell1_Q n (lo, hi) k).
Proof.
  intros Hn Hk. destruct (sens_cell1_exact_Q n k Hn Hk) as [A B].
  rewrite A, B, cell1_lower_Q, cell1_upper_Q by exact Hn. split; reflexivity.
Qed.

(* any limit_scale >= 0: the scaled cell stays inside the unit interval and contains the cell centre *)
Lemma sens_cell1_bounds_Q (ls : Q) (n k : Z) : 0 <= ls -> (1 <= n)%Z -> (0 <= k < n)%Z ->
  let c := ml_value_Q (sens_step_size_Q n) k true in
  0 <= fst (sens_cell1_Q ls n k) /\ fst (sens_cell1_Q ls n k) <= c /\
  c <= snd (sens_cell1_Q ls n k) /\ snd (sens_cell1_Q ls n k) <= 1.
Proof.
  intros Hls Hn Hk. cbv zeta.
  assert (NZ : ~ inject_Z n == 0) by (apply inject_Z_nonzero; lia).
  assert (P : 0 < inject_Z n) by (change 0 with (inject_Z 0); rewrite <- Zlt_Qlt; lia).
  assert (S : 0 < sens_step_size_Q n).
  { unfold sens_step_size_Q. setoid_replace (inject_Z 1 / inject_Z n) with (/ inject_Z n) by (field; exact NZ).
    apply Qinv_lt_0_compat. exact P. }
  assert (H0 : 0 <= sens_half_step_Q ls (sens_step_size_Q n)).
  { unfold sens_half_step_Q. setoid_replace (ls * sens_step_size_Q n / inject_Z 2) with (ls * sens_step_size_Q n * (1 # 2)) by field.
    apply Qmult_le_0_compat; [apply Qmult_le_0_compat; [exact Hls|apply Qlt_le_weak; exact S]|discriminate]. }
  assert (C : ml_value_Q (sens_step_size_Q n) k true == (inject_Z k + (1 # 2)) / inject_Z n).
  { unfold ml_value_Q, sens_step_size_Q. field. exact NZ. }
  assert (C0 : 0 <= ml_value_Q (sens_step_size_Q n) k true).
  { rewrite C. setoid_replace 0 with (inject_Z 0 / inject_Z n) by (field; exact NZ). apply Qdiv_le_compat; [exact P|].
    assert (inject_Z 0 <= inject_Z k) by (rewrite <- Zle_Qle; lia). lra. }
  assert (C1 : ml_value_Q (sens_step_size_Q n) k true <= 1).
  { rewrite C. setoid_replace 1 with (inject_Z n / inject_Z n) by (field; exact NZ). apply Qdiv_le_compat; [exact P|].
    assert (inject_Z (k + 1) <= inject_Z n) by (rewrite <- Zle_Qle; lia). rewrite inject_Z_plus in H. change (inject_Z 1) with 1 in H. lra. }
  unfold sens_cell1_Q, sens_unit_lower_Q, sens_unit_upper_Q; cbn [fst snd].
  set (c := ml_value_Q (sens_step_size_Q n) k true) in *. set (h := sens_half_step_Q ls (sens_step_size_Q n)) in *.
  change (Qmake 0 1) with 0. change (Qmake 1 1) with 1.
  destruct (Qmax_lb 0 (c - h)) as [A1 A2]. destruct (Qmin_ub 1 (c + h)) as [B1 B2].
  destruct (Qmax_cases 0 (c - h)) as [E|E]; destruct (Qmin_cases 1 (c + h)) as [F|F]; rewrite ?E, ?F; repeat split; lra.
Qed.

(* row-major order of the sensitivity lattice with per-dimension step counts (mixed radix) *)
Lemma sens_column_nth (n : Z) (i : nat) : (1 <= n)%Z -> (i < Z.to_nat n)%nat ->
  nth i (column_Q true (sens_step_size_Q n)) 0 = ml_value_Q (sens_step_size_Q n) (Z.of_nat i) true.
Proof. exact (column_Q_nth true n i). Qed.

Lemma sens_lengths (ns : list Z) : Forall (fun n => (1 <= n)%Z) ns ->
  map (@length Q) (map (column_Q true) (map sens_step_size_Q ns)) = map Z.to_nat ns.
Proof.
  intro H. rewrite !map_map. apply map_ext_in. intros n Hin. rewrite Forall_forall in H.
  unfold column_Q. rewrite map_length, zrange_length, sens_count_Q; auto.
Qed.

Lemma sens_nth_Q (ns : list Z) (k : nat) : Forall (fun n => (1 <= n)%Z) ns -> (k < prod (map Z.to_nat ns))%nat ->
  nth k (sens_lists_Q ns) [] =
  map2 (fun n i => ml_value_Q (sens_step_size_Q n) (Z.of_nat i) true) ns (mdigits (map Z.to_nat ns) k).
Proof.
  intros H Hk. unfold sens_lists_Q, make_lists_Q.
  rewrite (cart_nth_mdigits 0) by (rewrite sens_lengths by exact H; exact Hk).
  rewrite sens_lengths by exact H. rewrite !map2_map_l.
  apply (map2_ext_bound _ _ Z.to_nat).
  - apply mdigits_bound. exact Hk.
  - intros n i Hin Hi. rewrite Forall_forall in H. apply sens_column_nth; auto.
Qed.

(* ---------- positional results ---------- *)
Local Close Scope Q_scope.
Section Positional.
  Context {R : Type}.

  Lemma numbered_from_sorted (rs : list R) : forall s,
    sorted_by_number (combine (map Z.of_nat (seq s (length rs))) rs).
  Proof.
    induction rs as [|r rs IH]; intro s; simpl; [constructor|].
    destruct rs as [|r' rs']; simpl; [constructor|].
    constructor; [simpl; lia|]. exact (IH (S s)).
  Qed.

  Lemma numbered_sorted (rs : list R) : sorted_by_number (numbered rs).
  Proof. exact (numbered_from_sorted rs 0). Qed.

  Lemma numbered_snd (rs : list R) : map snd (numbered rs) = rs.
  Proof.
    unfold numbered. generalize 0. induction rs as [|r rs IH]; intro s; simpl; [reflexivity|]. rewrite IH. reflexivity.
  Qed.

  (* Sensitivity.run: whatever the completion order, entry k of the collected results is job k's result *)
  Lemma sens_collect_positional (rs : list R) (arrivals : list (Z * R)) :
    Permutation arrivals (numbered rs) -> map snd (sens_collect arrivals) = rs.
  Proof.
    intro P. destruct (sens_collect_sorted arrivals) as [S P'].
    assert (E : sens_collect arrivals = numbered rs).
    { apply sorted_unique; [exact S|apply numbered_sorted| |].
      - apply (Permutation_NoDup (l := map fst (numbered rs))); [|apply numbered_nodup].
        apply Permutation_map. eapply Permutation_trans; [apply Permutation_sym; exact P|exact P'].
      - eapply Permutation_trans; [apply Permutation_sym; exact P'|exact P]. }
    rewrite E. apply numbered_snd.
  Qed.

  Lemma rb_lookup_app (k : Z) (l1 l2 : list (Z * R)) :
    rb_lookup k (l1 ++ l2) = match rb_lookup k l1 with Some x => Some x | None => rb_lookup k l2 end.
  Proof.
    induction l1 as [|[j x] l1 IH]; simpl; [reflexivity|]. destruct (Z.eqb j k); [reflexivity|exact IH].
  Qed.

  (* re-delivery: the LATEST result delivered for job k is the one reported (dict assignment) *)
  Lemma rb_latest (total : nat) (before after : list (Z * R)) (k : nat) (r : R) :
    k < total -> ~ In (Z.of_nat k) (map fst after) ->
    nth k (rb_run total (before ++ (Z.of_nat k, r) :: after)) None = Some r.
  Proof.
    intros Hk Hn. unfold rb_run, rb_summaries.
    rewrite nth_map_seq by exact Hk. rewrite rb_lookup_fold.
    rewrite rev_app_distr. simpl. rewrite <- app_assoc. rewrite rb_lookup_app.
    rewrite rb_lookup_none by (rewrite map_rev; intro I; apply Hn; apply in_rev; exact I).
    simpl. rewrite Z.eqb_refl. reflexivity.
  Qed.

  (* ResultBuilder.results pairs slot k with job k's paths *)
  Lemma rb_results_nth (total : nat) (arrivals : list (Z * R)) (k : nat) : k < total ->
    nth k (rb_results total arrivals) None = option_map (fun r => (r, Z.of_nat k)) (nth k (rb_run total arrivals) None).
  Proof.
    intro Hk. unfold rb_results, rb_run, rb_summaries.
    assert (G : forall (f : nat -> option R) s n j, j < n ->
              nth j (map2 (fun o i => option_map (fun r => (r, Z.of_nat i)) o) (map f (seq s n)) (seq s n)) None =
              option_map (fun r => (r, Z.of_nat (s + j))) (nth j (map f (seq s n)) None)).
    { intros f s n. revert s. induction n as [|n IH]; intros s j Hj; [lia|]. simpl.
      destruct j as [|j]; [rewrite Nat.add_0_r; reflexivity|].
      rewrite IH by lia. replace (S s + j) with (s + S j) by lia. reflexivity. }
    rewrite (G _ 0 total k Hk). reflexivity.
  Qed.
End Positional.

Lemma mixed_radix_ok (ns : list nat) (k : nat) : k < prod ns ->
  Forall2 (fun i n => i < n) (mdigits ns k) ns /\ undigits ns (mdigits ns k) = k.
Proof. intro H. split; [apply mdigits_bound|apply undigits_mdigits]; exact H. Qed.
