(* C16 list lemmas that do not need rationals: mixed-radix digits of a job number and the
   row-major order of `cart`; uniqueness of a list sorted by distinct keys. *)
From Coq Require Import ZArith List Bool Lia Permutation PeanoNat.
From PAFCommon Require Import Lists.
Import ListNotations.

Definition prod (ns : list nat) : nat := fold_right Nat.mul 1 ns.

(* big-endian mixed-radix digits of k: the multi-index of job k in row-major order over a grid with
   ns[i] steps in dimension i (first dimension slowest) *)
Fixpoint mdigits (ns : list nat) (k : nat) : list nat :=
  match ns with
  | [] => []
  | _ :: rest => (k / prod rest) :: mdigits rest (k mod prod rest)
  end.

Definition digits (n d k : nat) : list nat := mdigits (repeat n d) k.

Lemma mdigits_length (ns : list nat) : forall k, length (mdigits ns k) = length ns.
Proof. induction ns as [|n rest IH]; intro k; simpl; [reflexivity|]. rewrite IH. reflexivity. Qed.

Lemma prod_pos (ns : list nat) : Forall (fun n => 0 < n) ns -> 0 < prod ns.
Proof. induction 1 as [|n rest Hn _ IH]; simpl; [lia|]. apply Nat.mul_pos_pos; assumption. Qed.

Lemma prod_zero_or_pos (ns : list nat) (k : nat) : k < prod ns -> 0 < prod ns.
Proof. lia. Qed.

(* every digit is below its radix *)
Lemma mdigits_bound (ns : list nat) : forall k, k < prod ns ->
  Forall2 (fun i n => i < n) (mdigits ns k) ns.
Proof.
  induction ns as [|n rest IH]; intros k Hk; simpl; [constructor|].
  simpl in Hk.
  assert (P : 0 < prod rest) by (destruct (prod rest); [lia|lia]).
  constructor.
  - apply Nat.div_lt_upper_bound; lia.
  - apply IH. apply Nat.mod_upper_bound. lia.
Qed.

(* the digits determine the job number: k = sum_i digit_i * prod(ns[i+1..]) *)
Fixpoint undigits (ns ds : list nat) : nat :=
  match ns, ds with
  | _ :: rest, i :: ds' => i * prod rest + undigits rest ds'
  | _, _ => 0
  end.

Lemma undigits_mdigits (ns : list nat) : forall k, k < prod ns -> undigits ns (mdigits ns k) = k.
Proof.
  induction ns as [|n rest IH]; intros k Hk; simpl in *; [lia|].
  assert (P : 0 < prod rest) by (destruct (prod rest); [lia|lia]).
  rewrite IH by (apply Nat.mod_upper_bound; lia).
  rewrite (Nat.div_mod k (prod rest)) at 3 by lia. lia.
Qed.

Lemma mdigits_injective (ns : list nat) (k k' : nat) :
  k < prod ns -> k' < prod ns -> mdigits ns k = mdigits ns k' -> k = k'.
Proof.
  intros H H' E. rewrite <- (undigits_mdigits ns k H), <- (undigits_mdigits ns k' H'), E. reflexivity.
Qed.

(* row-major order of the lattice: entry k of `cart cols` is made of the (digit i of k)-th value of column i *)
Lemma cart_nth_mdigits {A} (da : A) (cols : list (list A)) : forall k,
  k < prod (map (@length A) cols) ->
  nth k (cart cols) [] = map2 (fun col i => nth i col da) cols (mdigits (map (@length A) cols) k).
Proof.
  induction cols as [|c rest IH]; intros k Hk.
  - simpl in *. assert (k = 0) by lia. subst. reflexivity.
  - cbn [map mdigits map2]. cbn [map prod fold_right] in Hk. fold (prod (map (@length A) rest)) in Hk.
    set (m := prod (map (@length A) rest)) in *.
    assert (P : 0 < m) by (destruct m; [lia|lia]).
    assert (L : length (cart rest) = m) by (unfold m, prod; apply cart_length).
    pose proof (cart_row_major c rest (k / m) (k mod m) da) as RM. rewrite L in RM.
    replace (k / m * m + k mod m) with k in RM by (rewrite (Nat.div_mod k m) at 1 by lia; lia).
    rewrite RM.
    + f_equal. apply IH. apply Nat.mod_upper_bound. lia.
    + apply Nat.div_lt_upper_bound; lia.
    + apply Nat.mod_upper_bound. lia.
Qed.

Lemma map2_repeat_l {A B C} (f : A -> B -> C) (x : A) (l : list B) :
  map2 f (repeat x (length l)) l = map (f x) l.
Proof. induction l as [|b l IH]; simpl; [reflexivity|]. rewrite IH. reflexivity. Qed.

Lemma prod_repeat (n d : nat) : prod (repeat n d) = n ^ d.
Proof. apply fold_mul_repeat. Qed.

Lemma digits_length (n d k : nat) : length (digits n d k) = d.
Proof. unfold digits. rewrite mdigits_length, repeat_length. reflexivity. Qed.

Lemma cart_nth_digits {A} (da : A) (col : list A) (d k : nat) :
  k < length col ^ d ->
  nth k (cart (repeat col d)) [] = map (fun i => nth i col da) (digits (length col) d k).
Proof.
  intro Hk.
  rewrite (cart_nth_mdigits da) by (rewrite map_repeat, prod_repeat; exact Hk).
  rewrite map_repeat. fold (digits (length col) d k).
  rewrite <- (digits_length (length col) d k) at 1.
  apply map2_repeat_l.
Qed.

Lemma map2_map_l {A A' B C} (g : A -> A') (f : A' -> B -> C) (l : list A) (m : list B) :
  map2 f (map g l) m = map2 (fun a b => f (g a) b) l m.
Proof. revert m. induction l as [|a l IH]; intros [|b m]; simpl; try reflexivity. rewrite IH. reflexivity. Qed.

Lemma map2_map_r {A B B' C} (g : B -> B') (f : A -> B' -> C) (l : list A) (m : list B) :
  map2 f l (map g m) = map2 (fun a b => f a (g b)) l m.
Proof. revert m. induction l as [|a l IH]; intros [|b m]; simpl; try reflexivity. rewrite IH. reflexivity. Qed.

Lemma map2_ext_in {A B C} (f g : A -> B -> C) (l : list A) (m : list B) :
  (forall a b, In a l -> In b m -> f a b = g a b) -> map2 f l m = map2 g l m.
Proof.
  revert m. induction l as [|a l IH]; intros [|b m] H; simpl; try reflexivity.
  rewrite H by (left; reflexivity). rewrite IH; [reflexivity|]. intros; apply H; right; assumption.
Qed.

(* ---------- a list sorted by distinct keys is determined by its set of elements ---------- *)
Section Sorted.
  Context {R : Type}.
  Inductive sorted_by_number : list (Z * R) -> Prop :=
  | sbn_nil : sorted_by_number []
  | sbn_one x : sorted_by_number [x]
  | sbn_cons x y l : (fst x <= fst y)%Z -> sorted_by_number (y :: l) -> sorted_by_number (x :: y :: l).

  Lemma sorted_tail x l : sorted_by_number (x :: l) -> sorted_by_number l.
  Proof. inversion 1; subst; [constructor|assumption]. Qed.

  Lemma sorted_head_le x l : sorted_by_number (x :: l) -> forall y, In y l -> (fst x <= fst y)%Z.
  Proof.
    revert x. induction l as [|z l IH]; intros x S y Hy; [contradiction|].
    inversion S as [| |? ? ? Hxz Sz]; subst.
    destruct Hy as [->|Hy]; [exact Hxz|].
    specialize (IH z Sz y Hy). lia.
  Qed.

  Lemma sorted_unique (l1 : list (Z * R)) : forall l2,
    sorted_by_number l1 -> sorted_by_number l2 -> NoDup (map fst l1) -> Permutation l1 l2 -> l1 = l2.
  Proof.
    induction l1 as [|x l1 IH]; intros l2 S1 S2 ND P.
    - apply Permutation_nil in P. subst. reflexivity.
    - destruct l2 as [|y l2]; [apply Permutation_sym, Permutation_nil in P; discriminate|].
      assert (E : x = y).
      { assert (Hx : In x (y :: l2)) by (apply (Permutation_in _ P); left; reflexivity).
        assert (Hy : In y (x :: l1)) by (apply (Permutation_in _ (Permutation_sym P)); left; reflexivity).
        destruct Hx as [Hx|Hx]; [symmetry; exact Hx|].
        destruct Hy as [Hy|Hy]; [exact Hy|].
        exfalso.
        pose proof (sorted_head_le y l2 S2 x Hx) as A.
        pose proof (sorted_head_le x l1 S1 y Hy) as B.
        assert (F : fst x = fst y) by lia.
        inversion ND as [|? ? Hnot _]; subst. apply Hnot. rewrite F. apply in_map. exact Hy. }
      subst y. f_equal. apply IH.
      + apply (sorted_tail x). exact S1.
      + apply (sorted_tail x). exact S2.
      + inversion ND; assumption.
      + apply (Permutation_cons_inv P).
  Qed.
End Sorted.

Lemma digits_lt (n d : nat) : forall k i, k < n ^ d -> In i (digits n d k) -> i < n.
Proof.
  unfold digits. induction d as [|d IH]; intros k i Hk Hin; simpl in *; [contradiction|].
  rewrite prod_repeat in *.
  assert (P : 0 < n ^ d) by (destruct (n ^ d); [lia|lia]).
  destruct Hin as [<-|Hin].
  - apply Nat.div_lt_upper_bound; lia.
  - apply (IH (k mod n ^ d)); [apply Nat.mod_upper_bound; lia | exact Hin].
Qed.

(* pointwise equality of map2 on (column, digit) pairs whose digit is below the column's radix *)
Lemma map2_ext_bound {A C} (f g : A -> nat -> C) (rad : A -> nat) (l : list A) : forall (m : list nat),
  Forall2 (fun i n => i < n) m (map rad l) ->
  (forall a i, In a l -> i < rad a -> f a i = g a i) -> map2 f l m = map2 g l m.
Proof.
  induction l as [|a l IH]; intros m F H; simpl in *; [destruct m; reflexivity|].
  inversion F as [|i n m' ns' Hi F' E1 E2]; subst. simpl.
  rewrite H by (auto). rewrite (IH m' F'); [reflexivity|]. intros; apply H; auto.
Qed.
