(* C16: one GridSearch / Sensitivity object used several times -- instantiation of Machine.v *)
From Coq Require Import ZArith QArith List Bool Lia.
From PAFCommon Require Import PyFloat PyNum Lists.
From PAFC16 Require Import Gen Lib Machine Model Proofs.
Import ListNotations.

Lemma zlist_eqb_spec : forall a b, zlist_eqb a b = true <-> a = b.
Proof.
  induction a as [|x a IH]; destruct b as [|y b]; simpl; split; intro H; try reflexivity; try discriminate.
  - apply andb_true_iff in H. destruct H as [H1 H2]. apply Z.eqb_eq in H1. apply IH in H2. subst. reflexivity.
  - injection H as -> ->. apply andb_true_iff. split; [apply Z.eqb_refl | apply IH; reflexivity].
Qed.

Lemma gs_history_independent_Q : forall (p : policy) (n0 : Z) ops, sound p -> gs_run_Q p n0 ops = gs_expected_Q n0 ops.
Proof. intros p n0 ops Hp. unfold gs_run_Q, gs_expected_Q. apply history_independent; [exact Z.eqb_eq | exact Hp]. Qed.

Lemma code_policy_sound : sound code_policy.
Proof. left. reflexivity. Qed.

Lemma gs_code_history_Q : forall (n0 : Z) ops, gs_run_Q code_policy n0 ops = gs_expected_Q n0 ops.
Proof. intros. apply gs_history_independent_Q. exact code_policy_sound. Qed.

(* the last use of any history: its cells are those of a grid search with the attributes set last *)
Lemma gs_last_cells_Q : forall (n0 n : Z) before (priors : list (Q * Q)),
  gs_run_Q code_policy n0 (before ++ [OSetSteps n; OCells priors]) =
  gs_run_Q code_policy n0 before ++ [RCells (cells_Q n priors)].
Proof.
  intros. unfold gs_run_Q.
  rewrite (last_use_fresh Z _ _ _ Z.eqb Z.eqb_eq _ gs_dim gs_cells_of_Q code_policy n0 n before (OCells priors) code_policy_sound).
  reflexivity.
Qed.

Lemma gs_last_lists_Q : forall (n0 n : Z) before (d : nat),
  gs_run_Q code_policy n0 (before ++ [OSetSteps n; OLists d]) =
  gs_run_Q code_policy n0 before ++ [RLists (grid_lists_Q d n)].
Proof.
  intros. unfold gs_run_Q.
  rewrite (last_use_fresh Z _ _ _ Z.eqb Z.eqb_eq _ gs_dim gs_cells_of_Q code_policy n0 n before (OLists d) code_policy_sound).
  reflexivity.
Qed.

Lemma sens_history_independent_Q : forall (p : policy) ns0 ops, sound p -> sens_run_Q p ns0 ops = sens_expected_Q ns0 ops.
Proof. intros p ns0 ops Hp. unfold sens_run_Q, sens_expected_Q. apply history_independent; [exact zlist_eqb_spec | exact Hp]. Qed.

Lemma sens_last_cells_Q : forall ns0 ns before (ls : Q),
  sens_run_Q code_policy ns0 (before ++ [OSetSteps ns; OCells ls]) =
  sens_run_Q code_policy ns0 before ++ [RCells (sens_cell_units_Q ls ns)].
Proof.
  intros. unfold sens_run_Q.
  rewrite (last_use_fresh (list Z) _ _ _ zlist_eqb zlist_eqb_spec _ sens_dim sens_units_of_Q code_policy ns0 ns before (OCells ls) code_policy_sound).
  reflexivity.
Qed.

Lemma sens_last_lists_Q : forall ns0 ns before (d : nat),
  sens_run_Q code_policy ns0 (before ++ [OSetSteps ns; OLists d]) =
  sens_run_Q code_policy ns0 before ++ [RLists (sens_lists_Q ns)].
Proof.
  intros. unfold sens_run_Q.
  rewrite (last_use_fresh (list Z) _ _ _ zlist_eqb zlist_eqb_spec _ sens_dim sens_units_of_Q code_policy ns0 ns before (OLists d) code_policy_sound).
  reflexivity.
Qed.

(* number of cells of the last use: n^d whatever came before *)
Definition out_size {V C} (o : @out V C) : nat := match o with RLists l => length l | RCells l => length l end.

Lemma gs_last_count_Q : forall (n0 n : Z) before (priors : list (Q * Q)), (1 <= n)%Z ->
  map out_size (gs_run_Q code_policy n0 (before ++ [OSetSteps n; OCells priors])) =
  map out_size (gs_run_Q code_policy n0 before) ++ [(Z.to_nat n ^ length priors)%nat].
Proof.
  intros n0 n before priors Hn. rewrite gs_last_cells_Q, map_app. simpl. f_equal. f_equal.
  unfold cells_Q. rewrite map_length. apply grid_count_Q. exact Hn.
Qed.

(* a cache keyed by the number of dimensions only is NOT history independent: coarse pass then refinement *)
Lemma gs_by_dim_refuted_Q : exists (n0 : Z) ops, gs_run_Q ByDim n0 ops <> gs_expected_Q n0 ops.
Proof.
  exists 2%Z, [OLists 1; OSetSteps 4%Z; OLists 1]. intro H.
  apply (f_equal (map out_size)) in H. vm_compute in H. discriminate H.
Qed.
