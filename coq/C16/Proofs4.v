(* C16: sharing patterns -- the reported shape has one entry per DISTINCT prior and is the shape of the lattice
   that is enumerated (Sensitivity.shape vs Sensitivity._lists; GridSearch over set(grid_priors)) *)
From Coq Require Import ZArith List Bool Lia.
From PAFCommon Require Import PyFloat PyNum Lists.
From PAFC16 Require Import Gen Lib Machine Model Proofs.
Import ListNotations.

Lemma zmem_In (x : Z) (l : list Z) : zmem x l = true <-> In x l.
Proof.
  induction l as [|y r IH]; simpl; [split; [discriminate | tauto]|].
  rewrite orb_true_iff, IH, Z.eqb_eq. split; intros [H|H]; auto.
Qed.

Lemma zdedup_In (x : Z) (l : list Z) : In x (zdedup l) <-> In x l.
Proof.
  induction l as [|y r IH]; simpl; [tauto|].
  destruct (zmem y r) eqn:E.
  - rewrite IH. split; [auto|]. intros [H|H]; [subst; apply zmem_In; exact E | exact H].
  - simpl. rewrite IH. tauto.
Qed.

Lemma zdedup_NoDup (l : list Z) : NoDup (zdedup l).
Proof.
  induction l as [|y r IH]; simpl; [constructor|].
  destruct (zmem y r) eqn:E; [exact IH|].
  constructor; [|exact IH]. rewrite zdedup_In. intro H. apply zmem_In in H. congruence.
Qed.

Lemma zdedup_length_le (l : list Z) : (length (zdedup l) <= length l)%nat.
Proof. induction l as [|y r IH]; simpl; [lia|]. destruct (zmem y r); simpl; lia. Qed.

Lemma zdedup_length_lt (l : list Z) : ~ NoDup l -> (length (zdedup l) < length l)%nat.
Proof.
  induction l as [|y r IH]; simpl; intro H; [exfalso; apply H; constructor|].
  destruct (zmem y r) eqn:E.
  - pose proof (zdedup_length_le r). lia.
  - simpl. apply -> Nat.succ_lt_mono. apply IH. intro Hr. apply H. constructor; [|exact Hr].
    intro Hin. apply zmem_In in Hin. congruence.
Qed.

Lemma slot_ids_In (i : Z) (slots : list (option Z)) : In i (slot_ids slots) <-> In (Some i) slots.
Proof.
  induction slots as [|[j|] r IH]; simpl; [tauto| |].
  - rewrite IH. split; intros [H|H]; auto; left; congruence.
  - rewrite IH. split; [auto|]. intros [H|H]; [discriminate | exact H].
Qed.

(* the distinct priors: no prior twice, exactly the priors held by some attribute *)
Lemma distinct_priors_spec (slots : list (option Z)) :
  NoDup (distinct_priors slots) /\ forall i, In i (distinct_priors slots) <-> In (Some i) slots.
Proof.
  split; [apply zdedup_NoDup|]. intro i. unfold distinct_priors. rewrite zdedup_In. apply slot_ids_In.
Qed.

Definition steps_ok (st : steps) (slots : list (option Z)) : Prop :=
  match st with
  | StepsInt n => (1 <= n)%Z
  | StepsTuple ns => Forall (fun n => (1 <= n)%Z) ns /\ length ns = prior_count slots
  end.

Lemma sens_model_steps_shape (st : steps) (slots : list (option Z)) :
  steps_ok st slots -> sens_model_steps st slots = sens_shape st slots.
Proof.
  destruct st as [n|ns]; simpl; [reflexivity|]. intros [_ Hl]. rewrite <- Hl. apply firstn_all.
Qed.

Lemma sens_shape_ok (st : steps) (slots : list (option Z)) :
  steps_ok st slots -> Forall (fun n => (1 <= n)%Z) (sens_shape st slots).
Proof.
  destruct st as [n|ns]; simpl; [|tauto]. intro H. apply Forall_forall. intros x Hx.
  apply repeat_spec in Hx. subst. exact H.
Qed.

(* Sensitivity.shape describes the lattice Sensitivity._lists enumerates: one entry per distinct prior, the
   lattice IS the lattice of that shape, its size is the product of the shape and every point has d coordinates *)
Lemma sens_shape_lattice (st : steps) (slots : list (option Z)) : steps_ok st slots ->
  length (sens_shape st slots) = prior_count slots
  /\ sens_model_lists_Q st slots = sens_lists_Q (sens_shape st slots)
  /\ length (sens_model_lists_Q st slots) = fold_right Nat.mul 1%nat (map Z.to_nat (sens_shape st slots))
  /\ (forall row, In row (sens_model_lists_Q st slots) -> length row = prior_count slots).
Proof.
  intro H. assert (Hlen : length (sens_shape st slots) = prior_count slots).
  { destruct st as [n|ns]; simpl in *; [apply repeat_length | tauto]. }
  unfold sens_model_lists_Q. rewrite (sens_model_steps_shape st slots H).
  split; [exact Hlen|]. split; [reflexivity|]. split.
  - apply sens_count_lists_Q. apply sens_shape_ok. exact H.
  - intros row Hin. unfold sens_lists_Q, make_lists_Q in Hin. apply cart_row_length in Hin.
    rewrite !map_length in Hin. lia.
Qed.

(* the number of dimensions never exceeds the number of attributes holding a prior, and is strictly smaller
   exactly when a prior is shared *)
Lemma prior_count_le (slots : list (option Z)) : (prior_count slots <= length (slot_ids slots))%nat.
Proof. apply zdedup_length_le. Qed.

Lemma prior_count_shared (slots : list (option Z)) :
  ~ NoDup (slot_ids slots) -> (prior_count slots < length (slot_ids slots))%nat.
Proof. apply zdedup_length_lt. Qed.

(* a shape with one entry per ATTRIBUTE holding a prior is not the shape of the lattice as soon as a prior is shared *)
Lemma per_attribute_shape_wrong (n : Z) (slots : list (option Z)) : ~ NoDup (slot_ids slots) ->
  length (sens_shape_per_attribute (StepsInt n) slots) <> prior_count slots.
Proof. intro H. simpl. rewrite repeat_length. pose proof (prior_count_shared slots H). lia. Qed.

(* GridSearch: naming a grid prior twice does not add a dimension; shape, lattice size and row length use the same d *)
Lemma gs_shape_lattice (n : Z) (ids : list Z) : (1 <= n)%Z ->
  NoDup (zdedup ids) /\ (forall i, In i (zdedup ids) <-> In i ids)
  /\ length (gs_shape n ids) = gs_dimensions ids
  /\ length (grid_lists_Q (gs_dimensions ids) n) = (Z.to_nat n ^ gs_dimensions ids)%nat
  /\ (forall row, In row (grid_lists_Q (gs_dimensions ids) n) -> length row = gs_dimensions ids).
Proof.
  intro H. split; [apply zdedup_NoDup|]. split; [intro i; apply zdedup_In|].
  split; [apply repeat_length|]. split; [apply grid_count_Q; exact H|]. intros row Hin. eapply grid_rows_Q; eauto.
Qed.
