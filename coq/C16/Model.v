(* C16 model: grid-search lattice, cells, result builder, shape -- over the GENERATED
   leaf formulas of Gen.v.  Executable definitions only; proofs are in Proofs.v. *)
From Coq Require Import ZArith QArith List Bool.
From Coq Require Import Floats.PrimFloat.
From PAFCommon Require Import PyFloat PyNum Lists.
From PAFC16 Require Import Gen Lib Machine.
Import ListNotations.

(* make_lists(len steps, tuple steps, centre_steps) *)
Definition column_F (centre : bool) (s : float) : list float :=
  map (fun v => ml_value_F s v centre) (zrange (ml_count_F s)).
Definition column_Q (centre : bool) (s : Q) : list Q :=
  map (fun v => ml_value_Q s v centre) (zrange (ml_count_Q s)).
Definition make_lists_F (steps : list float) (centre : bool) := cart (map (column_F centre) steps).
Definition make_lists_Q (steps : list Q) (centre : bool) := cart (map (column_Q centre) steps).

(* GridSearch.make_lists: d grid priors, n steps, centre_steps = False *)
Definition grid_lists_F (d : nat) (n : Z) := make_lists_F (repeat (gs_step_size_F n) d) false.
Definition grid_lists_Q (d : nat) (n : Z) := make_lists_Q (repeat (gs_step_size_Q n) d) false.

(* Sensitivity._lists: per-dimension step counts, centre_steps = True *)
Definition sens_lists_F (ns : list Z) := make_lists_F (map sens_step_size_F ns) true.
Definition sens_lists_Q (ns : list Z) := make_lists_Q (map sens_step_size_Q ns) true.

(* Sensitivity._perturb_models: unit-cube limits (before prior.value_for) of every cell, in job order;
   dimension i pairs the i-th lattice coordinate with the i-th half step (zip pinned by the translator) *)
Definition sens_halves_F (ls : float) (ns : list Z) := map (fun n => sens_half_step_F ls (sens_step_size_F n)) ns.
Definition sens_halves_Q (ls : Q) (ns : list Z) := map (fun n => sens_half_step_Q ls (sens_step_size_Q n)) ns.
Definition sens_cell_units_F (ls : float) (ns : list Z) : list (list (float * float)) :=
  map (fun row => map2 (fun c h => (sens_unit_lower_F c h, sens_unit_upper_F c h)) row (sens_halves_F ls ns)) (sens_lists_F ns).
Definition sens_cell_units_Q (ls : Q) (ns : list Z) : list (list (Q * Q)) :=
  map (fun row => map2 (fun c h => (sens_unit_lower_Q c h, sens_unit_upper_Q c h)) row (sens_halves_Q ls ns)) (sens_lists_Q ns).
(* k-th sensitivity cell of one dimension with n steps, in the unit interval *)
Definition sens_cell1_Q (ls : Q) (n k : Z) : Q * Q :=
  let s := sens_step_size_Q n in
  (sens_unit_lower_Q (ml_value_Q s k true) (sens_half_step_Q ls s), sens_unit_upper_Q (ml_value_Q s k true) (sens_half_step_Q ls s)).

(* GridSearch.make_arguments for one grid prior (lo, hi) and one lattice value *)
Definition cell_F (n : Z) (lohi : float * float) (value : float) : float * float :=
  let w := prior_width_F (fst lohi) (snd lohi) in
  (ma_lower_F (fst lohi) w value, ma_upper_F (fst lohi) w value (gs_step_size_F n)).
Definition cell_Q (n : Z) (lohi : Q * Q) (value : Q) : Q * Q :=
  let w := prior_width_Q (fst lohi) (snd lohi) in
  (ma_lower_Q (fst lohi) w value, ma_upper_Q (fst lohi) w value (gs_step_size_Q n)).

(* all cells of a grid search, in job order *)
Definition cells_F (n : Z) (priors : list (float * float)) : list (list (float * float)) :=
  map (map2 (cell_F n) priors) (grid_lists_F (length priors) n).
Definition cells_Q (n : Z) (priors : list (Q * Q)) : list (list (Q * Q)) :=
  map (map2 (cell_Q n) priors) (grid_lists_Q (length priors) n).

(* k-th cell of one dimension in exact arithmetic *)
Definition cell1_Q (n : Z) (lohi : Q * Q) (k : Z) : Q * Q :=
  cell_Q n lohi (ml_value_Q (gs_step_size_Q n) k false).

(* ---------- the grid-search / sensitivity OBJECT used several times (Machine.v) ----------
   GridSearch: step count n : Z; a use is applied to the limits of the grid priors; the lattice is
   GridSearch.make_lists, the cells are make_arguments with the LIVE step size over that lattice.
   `code_policy`: the code that exists builds the lattice on every call (no cache). *)
Definition code_policy : policy := NoCache.
Definition gs_cells_of_F (n : Z) (priors : list (float * float)) (lat : list (list float)) := map (map2 (cell_F n) priors) lat.
Definition gs_cells_of_Q (n : Z) (priors : list (Q * Q)) (lat : list (list Q)) := map (map2 (cell_Q n) priors) lat.
Definition gs_dim {P : Type} (_ : Z) (priors : list P) : nat := length priors.
Definition gs_run_F (p : policy) (n0 : Z) (ops : list (@op Z (list (float * float)))) : list (@out float (float * float)) :=
  run Z _ _ _ Z.eqb (fun d n => grid_lists_F d n) gs_dim gs_cells_of_F p (init Z float n0) ops.
Definition gs_run_Q (p : policy) (n0 : Z) (ops : list (@op Z (list (Q * Q)))) : list (@out Q (Q * Q)) :=
  run Z _ _ _ Z.eqb (fun d n => grid_lists_Q d n) gs_dim gs_cells_of_Q p (init Z Q n0) ops.
Definition gs_expected_Q (n0 : Z) (ops : list (@op Z (list (Q * Q)))) : list (@out Q (Q * Q)) :=
  expected Z _ _ _ (fun d n => grid_lists_Q d n) gs_dim gs_cells_of_Q n0 ops.
(* Sensitivity: per-dimension step counts ns; a use is applied to a limit scale *)
Fixpoint zlist_eqb (a b : list Z) : bool :=
  match a, b with
  | [], [] => true
  | x :: a', y :: b' => Z.eqb x y && zlist_eqb a' b'
  | _, _ => false
  end.
Definition sens_units_of_F (ns : list Z) (ls : float) (lat : list (list float)) : list (list (float * float)) :=
  map (fun row => map2 (fun c h => (sens_unit_lower_F c h, sens_unit_upper_F c h)) row (sens_halves_F ls ns)) lat.
Definition sens_units_of_Q (ns : list Z) (ls : Q) (lat : list (list Q)) : list (list (Q * Q)) :=
  map (fun row => map2 (fun c h => (sens_unit_lower_Q c h, sens_unit_upper_Q c h)) row (sens_halves_Q ls ns)) lat.
Definition sens_dim {P : Type} (ns : list Z) (_ : P) : nat := length ns.
Definition sens_run_F (p : policy) (ns0 : list Z) (ops : list (@op (list Z) float)) : list (@out float (float * float)) :=
  run (list Z) _ _ _ zlist_eqb (fun _ ns => sens_lists_F ns) sens_dim sens_units_of_F p (init (list Z) float ns0) ops.
Definition sens_run_Q (p : policy) (ns0 : list Z) (ops : list (@op (list Z) Q)) : list (@out Q (Q * Q)) :=
  run (list Z) _ _ _ zlist_eqb (fun _ ns => sens_lists_Q ns) sens_dim sens_units_of_Q p (init (list Z) Q ns0) ops.
Definition sens_expected_Q (ns0 : list Z) (ops : list (@op (list Z) Q)) : list (@out Q (Q * Q)) :=
  expected (list Z) _ _ _ (fun _ ns => sens_lists_Q ns) sens_dim sens_units_of_Q ns0 ops.

(* ResultBuilder: a dict keyed by job number; sample_summaries reads range(len(lists)) *)
Section Builder.
  Context {R : Type}.
  Definition rb_state := list (Z * R).
  Fixpoint rb_lookup (k : Z) (st : rb_state) : option R :=
    match st with
    | [] => None
    | (j, r) :: st' => if Z.eqb j k then Some r else rb_lookup k st'
    end.
  (* dict assignment: latest binding wins *)
  Definition rb_add (st : rb_state) (jr : Z * R) : rb_state := jr :: st.
  Definition rb_summaries (total : nat) (st : rb_state) : list (option R) :=
    map (fun k => rb_lookup (Z.of_nat k) st) (seq 0 total).
  Definition rb_run (total : nat) (arrivals : list (Z * R)) : list (option R) :=
    rb_summaries total (fold_left rb_add arrivals []).
  (* ResultBuilder.results: zip(sample_summaries, paths); the k-th path is the k-th job's *)
  Definition rb_results (total : nat) (arrivals : list (Z * R)) : list (option (R * Z)) :=
    map2 (fun o k => option_map (fun r => (r, Z.of_nat k)) o) (rb_run total arrivals) (seq 0 total).
  (* what an observer sees after each arrival while the search is running: filled slots *)
  Definition is_some (o : option R) : bool := match o with Some _ => true | None => false end.
  Fixpoint rb_progress (total : nat) (st : rb_state) (arrivals : list (Z * R)) : list (list bool) :=
    match arrivals with
    | [] => []
    | a :: rest => map is_some (rb_summaries total (rb_add st a)) :: rb_progress total (rb_add st a) rest
    end.
End Builder.

(* Sensitivity.run: `results = sorted(results)` after every arrival; JobResult orders by number *)
Fixpoint insert_by_number {R} (x : Z * R) (l : list (Z * R)) : list (Z * R) :=
  match l with
  | [] => [x]
  | y :: l' => if Z.ltb (fst x) (fst y) then x :: l else y :: insert_by_number x l'
  end.
Definition sens_collect {R} (arrivals : list (Z * R)) : list (Z * R) :=
  fold_left (fun acc x => insert_by_number x acc) arrivals [].

(* GridSearchResult: no_steps = len(lower_limits_lists), no_dimensions = len(first) *)
Definition result_shape_F (pw : float -> float -> float) (no_steps no_dims : Z) : list Z :=
  repeat (gsr_shape_elem_F pw no_steps no_dims) (Z.to_nat no_dims).
Definition result_shape_Q (pw : Q -> Q -> Q) (no_steps no_dims : Z) : list Z :=
  repeat (gsr_shape_elem_Q pw no_steps no_dims) (Z.to_nat no_dims).
Definition result_upper_F (pw : float -> float -> float) (no_steps no_dims : Z) (lower : list (list float)) :=
  let s := gsr_step_size_F (gsr_side_length_F pw no_steps no_dims) in
  map (map (fun l => gsr_upper_F l s)) lower.
Definition result_centres_F (pw : float -> float -> float) (no_steps no_dims : Z) (lower : list (list float)) :=
  map2 (map2 (fun l u => gsr_centre_F l u)) lower (result_upper_F pw no_steps no_dims lower).

(* finite pow oracle table supplied by the harness: ((base, exponent), value) *)
Fixpoint pow_table (t : list (float * float * float)) (a b : float) : float :=
  match t with
  | [] => nan
  | (x, y, v) :: t' => if fbits_eqb x a && fbits_eqb y b then v else pow_table t' a b
  end.

(* the float count statement on a finite range, as a boolean sweep *)
Definition count_ok_F (n : Z) : bool := Z.eqb (ml_count_F (gs_step_size_F n)) n.
Definition count_sweep_F (k : nat) : bool := pow2_forall count_ok_F k 1.

(* ---------- correspondence cases: abstract input + what the implementation returned ---------- *)
Definition pair_eqb (a b : float * float) : bool := fbits_eqb (fst a) (fst b) && fbits_eqb (snd a) (snd b).
Fixpoint list_eqb {A} (eqb : A -> A -> bool) (a b : list A) : bool :=
  match a, b with
  | [], [] => true
  | x :: a', y :: b' => eqb x y && list_eqb eqb a' b'
  | _, _ => false
  end.
Definition opt_eqb {A} (eqb : A -> A -> bool) (a b : option A) : bool :=
  match a, b with Some x, Some y => eqb x y | None, None => true | _, _ => false end.

Inductive case :=
| CLists (n : Z) (d : nat) (centre : bool) (expected : list (list float))
| CGridLists (n : Z) (d : nat) (expected : list (list float))
| CCount (n : Z) (expected : Z)
| CCells (n : Z) (priors : list (float * float)) (expected : list (list (float * float)))
| CResult (pt : list (float * float * float)) (lower : list (list float))
          (shape : list Z) (side : Z) (step : float) (upper centres : list (list float))
| CBuilder (total : nat) (arrivals : list (Z * Z)) (expected : list (option Z)) (results : list (option (Z * Z)))
| CProgress (total : nat) (arrivals : list Z) (expected : list (list bool))
| CSensCells (ls : float) (ns : list Z) (expected : list (list (float * float)))
| CSensLists (ns : list Z) (expected : list (list float)) (shape : list Z)
| CSensSorted (arrivals : list Z) (expected : list Z)
(* one object, several uses: every answer of the history, in order *)
| CHistory (n0 : Z) (ops : list (@op Z (list (float * float)))) (expected : list (@out float (float * float)))
| CSensHistory (ns0 : list Z) (ops : list (@op (list Z) float)) (expected : list (@out float (float * float))).

Definition out_eqb (a b : @out float (float * float)) : bool :=
  match a, b with
  | RLists x, RLists y => list_eqb flist_eqb x y
  | RCells x, RCells y => list_eqb (list_eqb pair_eqb) x y
  | _, _ => false
  end.

Definition check_case (c : case) : bool :=
  match c with
  | CLists n d centre e => list_eqb flist_eqb (make_lists_F (repeat (gs_step_size_F n) d) centre) e
  | CGridLists n d e => list_eqb flist_eqb (grid_lists_F d n) e
  | CCount n e => Z.eqb (ml_count_F (gs_step_size_F n)) e
  | CCells n priors e => list_eqb (list_eqb pair_eqb) (cells_F n priors) e
  | CResult pt lower shape side step upper centres =>
      let pw := pow_table pt in
      let ns := Z.of_nat (length lower) in
      let nd := Z.of_nat (length (hd [] lower)) in
      list_eqb Z.eqb (result_shape_F pw ns nd) shape
      && Z.eqb (gsr_side_length_F pw ns nd) side
      && fbits_eqb (gsr_step_size_F (gsr_side_length_F pw ns nd)) step
      && list_eqb flist_eqb (result_upper_F pw ns nd lower) upper
      && list_eqb flist_eqb (result_centres_F pw ns nd lower) centres
  | CBuilder total arrivals e res =>
      list_eqb (opt_eqb Z.eqb) (rb_run total arrivals) e
      && list_eqb (opt_eqb (fun a b => Z.eqb (fst a) (fst b) && Z.eqb (snd a) (snd b))) (rb_results total arrivals) res
  | CProgress total arrivals e =>
      list_eqb (list_eqb Bool.eqb) (rb_progress total [] (map (fun k => (k, tt)) arrivals)) e
  | CSensCells ls ns e => list_eqb (list_eqb pair_eqb) (sens_cell_units_F ls ns) e
  | CSensLists ns e shape => list_eqb flist_eqb (sens_lists_F ns) e && list_eqb Z.eqb ns shape
  | CSensSorted arrivals e => list_eqb Z.eqb (map fst (sens_collect (map (fun k => (k, tt)) arrivals))) e
  | CHistory n0 ops e => list_eqb out_eqb (gs_run_F code_policy n0 ops) e
  | CSensHistory ns0 ops e => list_eqb out_eqb (sens_run_F code_policy ns0 ops) e
  end.
