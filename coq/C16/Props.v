(* C16 property theorems: statements only, each closed by `exact`. *)
From Coq Require Import ZArith QArith List Permutation.
From Coq Require Import Floats.PrimFloat.
From PAFCommon Require Import PyFloat PyNum Lists.
From PAFC16 Require Import Gen Lib Machine Model Proofs Proofs2 Proofs3.
Import ListNotations.

(* n^d cells, each with d coordinates (exact arithmetic, every d and n >= 1) *)
Theorem C16_count : forall (d : nat) (n : Z), (1 <= n)%Z ->
  length (grid_lists_Q d n) = (Z.to_nat n ^ d)%nat.
Proof. exact grid_count_Q. Qed.

Theorem C16_rows : forall (d : nat) (n : Z) (row : list Q), In row (grid_lists_Q d n) -> length row = d.
Proof. exact grid_rows_Q. Qed.

(* row-major order: job i*|rest|+j fits (i-th value of the first dimension, j-th cell of the rest) *)
Theorem C16_rowmajor : forall (A : Type) (c : list A) (rest : list (list A)) (i j : nat) (da : A),
  (i < length c)%nat -> (j < length (cart rest))%nat ->
  nth (i * length (cart rest) + j) (cart (c :: rest)) [] = nth i c da :: nth j (cart rest) [].
Proof. exact @cart_row_major. Qed.

(* row-major order tied to the grid: the k-th job's lattice point is the multi-index (base-n digits) of k,
   and distinct job numbers are distinct multi-indices *)
Theorem C16_kth_is_digits : forall (d : nat) (n : Z) (k : nat), (1 <= n)%Z -> (k < Z.to_nat n ^ d)%nat ->
  nth k (grid_lists_Q d n) [] =
  map (fun i => ml_value_Q (gs_step_size_Q n) (Z.of_nat i) false) (digits (Z.to_nat n) d k).
Proof. exact grid_nth_Q. Qed.

Theorem C16_lattice_value : forall n k : Z, (1 <= n)%Z ->
  ml_value_Q (gs_step_size_Q n) k false == inject_Z k / inject_Z n.
Proof. exact ml_value_frac_Q. Qed.

Theorem C16_digits_injective : forall n d k k' : nat, (k < n ^ d)%nat -> (k' < n ^ d)%nat ->
  digits n d k = digits n d k' -> k = k'.
Proof. exact digits_injective. Qed.

Theorem C16_digits_below_n : forall n d k i : nat, (k < n ^ d)%nat -> In i (digits n d k) -> (i < n)%nat.
Proof. exact digits_lt. Qed.

(* multi-dimensional tiling: the cell fitted by job k is, in dimension i, the (digit i of k)-th 1-D cell *)
Theorem C16_cells_of_job : forall (n : Z) (priors : list (Q * Q)) (k : nat),
  (1 <= n)%Z -> (k < Z.to_nat n ^ length priors)%nat ->
  nth k (cells_Q n priors) [] =
  map2 (fun p i => cell1_Q n p (Z.of_nat i)) priors (digits (Z.to_nat n) (length priors) k).
Proof. exact cells_nth_Q. Qed.

(* the limits / centres reported by GridSearchResult (recomputed from the lower limits with step 1/side and
   mapped through a uniform prior) are those of the cell fitted *)
Theorem C16_reported_limits : forall (n : Z) (lo hi : Q) (k : Z), (1 <= n)%Z ->
  let v := ml_value_Q (gs_step_size_Q n) k false in
  let u := gsr_upper_Q v (gsr_step_size_Q n) in
  lo + v * (hi - lo) == fst (cell1_Q n (lo, hi) k) /\
  lo + u * (hi - lo) == snd (cell1_Q n (lo, hi) k) /\
  lo + gsr_centre_Q v u * (hi - lo) == (fst (cell1_Q n (lo, hi) k) + snd (cell1_Q n (lo, hi) k)) / inject_Z 2 /\
  u == inject_Z (k + 1) / inject_Z n.
Proof. exact reported_limits_Q. Qed.

(* the cells of one grid dimension tile [lo, hi]: first starts at lo, last ends at hi,
   consecutive cells share their boundary, cells are non-empty and ordered *)
Theorem C16_tiling_first : forall (n : Z) (lo hi : Q), (1 <= n)%Z -> fst (cell1_Q n (lo, hi) 0) == lo.
Proof. exact cell1_first_Q. Qed.

Theorem C16_tiling_last : forall (n : Z) (lo hi : Q), (1 <= n)%Z -> snd (cell1_Q n (lo, hi) (n - 1)) == hi.
Proof. exact cell1_last_Q. Qed.

Theorem C16_tiling_contiguous : forall (n : Z) (lo hi : Q) (k : Z), (1 <= n)%Z ->
  snd (cell1_Q n (lo, hi) k) == fst (cell1_Q n (lo, hi) (k + 1)).
Proof. exact cell1_contiguous_Q. Qed.

Theorem C16_tiling_nonempty : forall (n : Z) (lo hi : Q) (k : Z), (1 <= n)%Z -> lo < hi ->
  fst (cell1_Q n (lo, hi) k) < snd (cell1_Q n (lo, hi) k).
Proof. exact cell1_nonempty_Q. Qed.

Theorem C16_tiling_disjoint : forall (n : Z) (lo hi : Q) (k k' : Z), (1 <= n)%Z -> lo < hi -> (k < k')%Z ->
  snd (cell1_Q n (lo, hi) k) <= fst (cell1_Q n (lo, hi) k').
Proof. exact cell1_ordered_Q. Qed.

(* results are stored by job number: every completion order gives the row-major list *)
Theorem C16_kth_any_order : forall (R : Type) (results : list R) (arrivals : list (Z * R)),
  Permutation arrivals (numbered results) -> rb_run (length results) arrivals = map Some results.
Proof. exact @rb_any_order. Qed.

Theorem C16_kth_partial : forall (R : Type) (total : nat) (arrivals : list (Z * R)) (k : nat) (r : R),
  NoDup (map fst arrivals) -> (k < total)%nat ->
  (In (Z.of_nat k, r) arrivals -> nth k (rb_run total arrivals) None = Some r) /\
  (~ In (Z.of_nat k) (map fst arrivals) -> nth k (rb_run total arrivals) None = None).
Proof. exact @rb_partial. Qed.

(* re-delivery of a job: the latest result delivered for job k is the one reported *)
Theorem C16_kth_latest_wins : forall (R : Type) (total : nat) (before after : list (Z * R)) (k : nat) (r : R),
  (k < total)%nat -> ~ In (Z.of_nat k) (map fst after) ->
  nth k (rb_run total (before ++ (Z.of_nat k, r) :: after)) None = Some r.
Proof. exact @rb_latest. Qed.

(* ResultBuilder.results pairs the k-th summary with the k-th job's paths *)
Theorem C16_results_paths : forall (R : Type) (total : nat) (arrivals : list (Z * R)) (k : nat), (k < total)%nat ->
  nth k (rb_results total arrivals) None = option_map (fun r => (r, Z.of_nat k)) (nth k (rb_run total arrivals) None).
Proof. exact @rb_results_nth. Qed.

(* sensitivity mapping: per-dimension step counts; results kept sorted by job number *)
Theorem C16_sensitivity_count : forall ns : list Z, Forall (fun n => (1 <= n)%Z) ns ->
  length (sens_lists_Q ns) = fold_right Nat.mul 1%nat (map Z.to_nat ns).
Proof. exact sens_count_lists_Q. Qed.

Theorem C16_sensitivity_sorted : forall (R : Type) (arrivals : list (Z * R)),
  sorted_by_number (sens_collect arrivals) /\ Permutation arrivals (sens_collect arrivals).
Proof. exact @sens_collect_sorted. Qed.

(* positional form: whatever the completion order, entry k of the collected results is job k's *)
Theorem C16_sensitivity_kth_any_order : forall (R : Type) (rs : list R) (arrivals : list (Z * R)),
  Permutation arrivals (numbered rs) -> map snd (sens_collect arrivals) = rs.
Proof. exact @sens_collect_positional. Qed.

(* row-major order with per-dimension step counts: job k's lattice point is the mixed-radix multi-index of k *)
Theorem C16_sensitivity_kth_is_digits : forall (ns : list Z) (k : nat),
  Forall (fun n => (1 <= n)%Z) ns -> (k < prod (map Z.to_nat ns))%nat ->
  nth k (sens_lists_Q ns) [] =
  map2 (fun n i => ml_value_Q (sens_step_size_Q n) (Z.of_nat i) true) ns (mdigits (map Z.to_nat ns) k).
Proof. exact sens_nth_Q. Qed.

Theorem C16_mixed_radix_digits : forall (ns : list nat) (k : nat), (k < prod ns)%nat ->
  Forall2 (fun i n => (i < n)%nat) (mdigits ns k) ns /\ undigits ns (mdigits ns k) = k.
Proof. exact mixed_radix_ok. Qed.

(* _perturb_models with limit_scale = 1: cell k of a dimension with n steps is [k/n, (k+1)/n] (clamps inactive),
   i.e. mapped through a uniform prior it is exactly grid-search cell k: the same tiling rules apply *)
Theorem C16_sensitivity_cell : forall n k : Z, (1 <= n)%Z -> (0 <= k < n)%Z ->
  fst (sens_cell1_Q 1 n k) == inject_Z k / inject_Z n /\ snd (sens_cell1_Q 1 n k) == inject_Z (k + 1) / inject_Z n.
Proof. exact sens_cell1_exact_Q. Qed.

Theorem C16_sensitivity_same_cells : forall (n k : Z) (lo hi : Q), (1 <= n)%Z -> (0 <= k < n)%Z ->
  lo + fst (sens_cell1_Q 1 n k) * (hi - lo) == fst (cell1_Q n (lo, hi) k) /\
  lo + snd (sens_cell1_Q 1 n k) * (hi - lo) == snd (cell1_Q n (lo, hi) k).
Proof. exact sens_same_cells_Q. Qed.

(* any limit_scale >= 0: the scaled cell stays inside [0, 1] and contains the centre the data were simulated at *)
Theorem C16_sensitivity_limit_scale : forall (ls : Q) (n k : Z), 0 <= ls -> (1 <= n)%Z -> (0 <= k < n)%Z ->
  let c := ml_value_Q (sens_step_size_Q n) k true in
  0 <= fst (sens_cell1_Q ls n k) /\ fst (sens_cell1_Q ls n k) <= c /\
  c <= snd (sens_cell1_Q ls n k) /\ snd (sens_cell1_Q ls n k) <= 1.
Proof. exact sens_cell1_bounds_Q. Qed.

(* the reported shape is (n,...,n) whenever the d-th root is computed to within 1/2 *)
Theorem C16_shape : forall (pw : Q -> Q -> Q) (n d : Z),
  inject_Z n - (1 # 2) < pw (inject_Z (n ^ d)) (inject_Z 1 / inject_Z d) ->
  pw (inject_Z (n ^ d)) (inject_Z 1 / inject_Z d) < inject_Z n + (1 # 2) ->
  result_shape_Q pw (n ^ d) d = repeat n (Z.to_nat d).
Proof. exact shape_Q. Qed.

(* binary64, finite range stated in the theorem: the code's own float formula yields n points *)
Theorem C16_count_float : forall n : Z, (1 <= n <= 131072)%Z -> ml_count_F (gs_step_size_F n) = n.
Proof. exact count_F. Qed.

(* ONE GridSearch / Sensitivity object used several times, number_of_steps changed between uses (Machine.v: the
   object is a state machine with an explicit lattice cache; the code that exists is `code_policy` = no cache):
   every answer of every history is the answer of a fresh object with the current attributes *)
Theorem C16_history_independent : forall (p : policy) (n0 : Z) (ops : list (@op Z (list (Q * Q)))),
  sound p -> gs_run_Q p n0 ops = gs_expected_Q n0 ops.
Proof. exact gs_history_independent_Q. Qed.

Theorem C16_history_code : forall (n0 : Z) (ops : list (@op Z (list (Q * Q)))),
  gs_run_Q code_policy n0 ops = gs_expected_Q n0 ops.
Proof. exact gs_code_history_Q. Qed.

(* the grid of the last use depends only on the current (n, limits): it is cells_Q n priors (to which C16_cells_of_job,
   the tiling theorems and C16_count apply), whatever was done with the object before *)
Theorem C16_history_last_cells : forall (n0 n : Z) (before : list (@op Z (list (Q * Q)))) (priors : list (Q * Q)),
  gs_run_Q code_policy n0 (before ++ [OSetSteps n; OCells priors]) =
  gs_run_Q code_policy n0 before ++ [RCells (cells_Q n priors)].
Proof. exact gs_last_cells_Q. Qed.

Theorem C16_history_last_lists : forall (n0 n : Z) (before : list (@op Z (list (Q * Q)))) (d : nat),
  gs_run_Q code_policy n0 (before ++ [OSetSteps n; OLists d]) =
  gs_run_Q code_policy n0 before ++ [RLists (grid_lists_Q d n)].
Proof. exact gs_last_lists_Q. Qed.

Theorem C16_history_last_count : forall (n0 n : Z) (before : list (@op Z (list (Q * Q)))) (priors : list (Q * Q)), (1 <= n)%Z ->
  map out_size (gs_run_Q code_policy n0 (before ++ [OSetSteps n; OCells priors])) =
  map out_size (gs_run_Q code_policy n0 before) ++ [(Z.to_nat n ^ length priors)%nat].
Proof. exact gs_last_count_Q. Qed.

Theorem C16_sensitivity_history_independent : forall (p : policy) (ns0 : list Z) (ops : list (@op (list Z) Q)),
  sound p -> sens_run_Q p ns0 ops = sens_expected_Q ns0 ops.
Proof. exact sens_history_independent_Q. Qed.

Theorem C16_sensitivity_history_last_cells : forall (ns0 ns : list Z) (before : list (@op (list Z) Q)) (ls : Q),
  sens_run_Q code_policy ns0 (before ++ [OSetSteps ns; OCells ls]) =
  sens_run_Q code_policy ns0 before ++ [RCells (sens_cell_units_Q ls ns)].
Proof. exact sens_last_cells_Q. Qed.

Theorem C16_sensitivity_history_last_lists : forall (ns0 ns : list Z) (before : list (@op (list Z) Q)) (d : nat),
  sens_run_Q code_policy ns0 (before ++ [OSetSteps ns; OLists d]) =
  sens_run_Q code_policy ns0 before ++ [RLists (sens_lists_Q ns)].
Proof. exact sens_last_lists_Q. Qed.

(* a lattice cache keyed by the number of dimensions alone breaks it (coarse pass, then refinement) *)
Theorem C16_cache_by_dimension_refuted : exists (n0 : Z) (ops : list (@op Z (list (Q * Q)))),
  gs_run_Q ByDim n0 ops <> gs_expected_Q n0 ops.
Proof. exact gs_by_dim_refuted_Q. Qed.

Print Assumptions C16_count.
Print Assumptions C16_tiling_contiguous.
Print Assumptions C16_kth_any_order.
Print Assumptions C16_shape.
Print Assumptions C16_count_float.
Print Assumptions C16_kth_is_digits.
Print Assumptions C16_cells_of_job.
Print Assumptions C16_reported_limits.
Print Assumptions C16_sensitivity_kth_any_order.
Print Assumptions C16_sensitivity_same_cells.
Print Assumptions C16_history_independent.
Print Assumptions C16_history_last_cells.
Print Assumptions C16_sensitivity_history_independent.
Print Assumptions C16_cache_by_dimension_refuted.
