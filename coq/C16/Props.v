(* C16 property theorems: statements only, each closed by `exact`. *)
From Coq Require Import ZArith QArith List Permutation.
From Coq Require Import Floats.PrimFloat.
From PAFCommon Require Import PyFloat PyNum Lists.
From PAFC16 Require Import Gen Model Proofs.
Import ListNotations.

(* n^d cells, each with d coordinates (exact arithmetic, every d and n >= 1) *)
Theorem C16_count : forall (d : nat) (n : Z), (1 <= n)%Z ->
  length (grid_lists_Q d n) = (Z.to_nat n ^ d)%nat.
Proof. exact grid_count_Q. Qed.

Theorem C16_rows : forall (d : nat) (n : Z) (row : list Q), In row (grid_lists_Q d n) -> length row = d.
Proof. exact grid_rows_Q. Qed.

(* row-major order: job i*|rest|+j fits (i-th value of the first dimension, j-th cell of the rest) *)
Theorem C16_rowmajor : forall (A : Type) (c : list A) (rest : list (list A)) (i j : nat) (da : A),
  (i < length c)%nat -> (j < length (cart rest))%nat ->
  nth (i * length (cart rest) + j) (cart (c :: rest)) [] = nth i c da :: nth j (cart rest) [].
Proof. exact @cart_row_major. Qed.

(* the cells of one grid dimension tile [lo, hi]: first starts at lo, last ends at hi,
   consecutive cells share their boundary, cells are non-empty and ordered *)
Theorem C16_tiling_first : forall (n : Z) (lo hi : Q), (1 <= n)%Z -> fst (cell1_Q n (lo, hi) 0) == lo.
Proof. exact cell1_first_Q. Qed.

Theorem C16_tiling_last : forall (n : Z) (lo hi : Q), (1 <= n)%Z -> snd (cell1_Q n (lo, hi) (n - 1)) == hi.
Proof. exact cell1_last_Q. Qed.

Theorem C16_tiling_contiguous : forall (n : Z) (lo hi : Q) (k : Z), (1 <= n)%Z ->
  snd (cell1_Q n (lo, hi) k) == fst (cell1_Q n (lo, hi) (k + 1)).
Proof. exact cell1_contiguous_Q. Qed.

Theorem C16_tiling_nonempty : forall (n : Z) (lo hi : Q) (k : Z), (1 <= n)%Z -> lo < hi ->
  fst (cell1_Q n (lo, hi) k) < snd (cell1_Q n (lo, hi) k).
Proof. exact cell1_nonempty_Q. Qed.

Theorem C16_tiling_disjoint : forall (n : Z) (lo hi : Q) (k k' : Z), (1 <= n)%Z -> lo < hi -> (k < k')%Z ->
  snd (cell1_Q n (lo, hi) k) <= fst (cell1_Q n (lo, hi) k').
Proof. exact cell1_ordered_Q. Qed.

(* results are stored by job number: every completion order gives the row-major list *)
Theorem C16_kth_any_order : forall (R : Type) (results : list R) (arrivals : list (Z * R)),
  Permutation arrivals (numbered results) -> rb_run (length results) arrivals = map Some results.
Proof. exact @rb_any_order. Qed.

Theorem C16_kth_partial : forall (R : Type) (total : nat) (arrivals : list (Z * R)) (k : nat) (r : R),
  NoDup (map fst arrivals) -> (k < total)%nat ->
  (In (Z.of_nat k, r) arrivals -> nth k (rb_run total arrivals) None = Some r) /\
  (~ In (Z.of_nat k) (map fst arrivals) -> nth k (rb_run total arrivals) None = None).
Proof. exact @rb_partial. Qed.

(* sensitivity mapping: per-dimension step counts; results kept sorted by job number *)
Theorem C16_sensitivity_count : forall ns : list Z, Forall (fun n => (1 <= n)%Z) ns ->
  length (sens_lists_Q ns) = fold_right Nat.mul 1%nat (map Z.to_nat ns).
Proof. exact sens_count_lists_Q. Qed.

Theorem C16_sensitivity_sorted : forall (R : Type) (arrivals : list (Z * R)),
  sorted_by_number (sens_collect arrivals) /\ Permutation arrivals (sens_collect arrivals).
Proof. exact @sens_collect_sorted. Qed.

(* the reported shape is (n,...,n) whenever the d-th root is computed to within 1/2 *)
Theorem C16_shape : forall (pw : Q -> Q -> Q) (n d : Z),
  inject_Z n - (1 # 2) < pw (inject_Z (n ^ d)) (inject_Z 1 / inject_Z d) ->
  pw (inject_Z (n ^ d)) (inject_Z 1 / inject_Z d) < inject_Z n + (1 # 2) ->
  result_shape_Q pw (n ^ d) d = repeat n (Z.to_nat d).
Proof. exact shape_Q. Qed.

(* binary64, finite range stated in the theorem: the code's own float formula yields n points *)
Theorem C16_count_float : forall n : Z, (1 <= n <= 131072)%Z -> ml_count_F (gs_step_size_F n) = n.
Proof. exact count_F. Qed.

Print Assumptions C16_count.
Print Assumptions C16_tiling_contiguous.
Print Assumptions C16_kth_any_order.
Print Assumptions C16_shape.
Print Assumptions C16_count_float.
