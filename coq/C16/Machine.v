(* C16: a grid-search / sensitivity OBJECT as a state machine.  The object carries public attributes that the
   user changes between uses (number_of_steps) and -- explicitly -- a cache of unit lattices, so that "the grid
   depends only on the current (n, d, limits), never on earlier uses" is a statement ABOUT the machine and not
   a consequence of having no state.  The code that exists has no cache: policy NoCache.  ByDimSteps is a sound
   memoisation (key = dimensions and step count); ByDim is the unsound one (key = dimensions only).
   Generic in: S (step count: Z for GridSearch, list Z for Sensitivity), X (what a use is applied to: the grid
   priors' limits / the limit scale), V (lattice coordinate), C (cell). *)
From Coq Require Import List Bool Arith.
Import ListNotations.

Section Machine.
  Variables S X V C : Type.
  Variable S_eqb : S -> S -> bool.
  Hypothesis S_eqb_spec : forall a b, S_eqb a b = true <-> a = b.
  (* the lattice the code builds for d dimensions with step count s (make_lists) *)
  Variable L : nat -> S -> list (list V).
  (* dimensions of a use, and the cells built from the LIVE step count, the use's priors and a lattice
     (make_arguments / _perturb_models read step_size when called) *)
  Variable dim : S -> X -> nat.
  Variable mk : S -> X -> list (list V) -> list (list C).

  Inductive policy := NoCache | ByDim | ByDimSteps.

  Inductive op :=
  | OSetSteps (s : S)          (* obj.number_of_steps = s *)
  | OLists (d : nat)           (* obj.make_lists(<d grid priors>) *)
  | OCells (x : X).            (* model_mappers / make_jobs / fit / _perturb_models on x *)

  Inductive out :=
  | RLists (l : list (list V))
  | RCells (l : list (list C)).

  Definition cache := list (nat * S * list (list V)).
  Record state := mkstate { st_steps : S; st_cache : cache }.
  Definition init (s : S) : state := mkstate s [].

  Fixpoint lookup (p : policy) (d : nat) (s : S) (c : cache) : option (list (list V)) :=
    match c with
    | [] => None
    | (d', s', l) :: c' =>
        let hit := match p with
                   | NoCache => false
                   | ByDim => Nat.eqb d' d
                   | ByDimSteps => Nat.eqb d' d && S_eqb s' s
                   end in
        if hit then Some l else lookup p d s c'
    end.

  Definition lattice (p : policy) (st : state) (d : nat) : state * list (list V) :=
    match lookup p d (st_steps st) (st_cache st) with
    | Some l => (st, l)
    | None =>
        let l := L d (st_steps st) in
        (match p with
         | NoCache => st
         | _ => mkstate (st_steps st) ((d, st_steps st, l) :: st_cache st)
         end, l)
    end.

  Definition step (p : policy) (st : state) (o : op) : state * option out :=
    match o with
    | OSetSteps s => (mkstate s (st_cache st), None)
    | OLists d => let (st', l) := lattice p st d in (st', Some (RLists l))
    | OCells x => let (st', l) := lattice p st (dim (st_steps st) x) in (st', Some (RCells (mk (st_steps st) x l)))
    end.

  Fixpoint run (p : policy) (st : state) (ops : list op) : list out :=
    match ops with
    | [] => []
    | o :: rest =>
        let (st', r) := step p st o in
        match r with Some r => r :: run p st' rest | None => run p st' rest end
    end.

  (* what FRESH objects answer: a function of the current step count and the use alone *)
  Definition fresh (s : S) (o : op) : option out :=
    match o with
    | OSetSteps _ => None
    | OLists d => Some (RLists (L d s))
    | OCells x => Some (RCells (mk s x (L (dim s x) s)))
    end.
  Fixpoint expected (s : S) (ops : list op) : list out :=
    match ops with
    | [] => []
    | OSetSteps s' :: rest => expected s' rest
    | o :: rest => match fresh s o with Some r => r :: expected s rest | None => expected s rest end
    end.

  Definition cache_valid (c : cache) : Prop := forall d s l, In (d, s, l) c -> l = L d s.
  Definition sound (p : policy) : Prop := p = NoCache \/ p = ByDimSteps.

  Lemma lookup_sound : forall p d s c l, sound p -> cache_valid c -> lookup p d s c = Some l -> l = L d s.
  Proof.
    intros p d s c l Hp. induction c as [|[[d' s'] l'] c IH]; simpl; intros Hv Hl; [discriminate|].
    assert (Hv' : cache_valid c) by (intros a b e Hin; apply Hv; right; exact Hin).
    destruct Hp as [-> | ->].
    - apply IH; assumption.
    - destruct (Nat.eqb d' d && S_eqb s' s) eqn:E.
      + apply andb_true_iff in E. destruct E as [E1 E2].
        apply Nat.eqb_eq in E1. apply S_eqb_spec in E2. subst.
        injection Hl as <-. apply Hv. left. reflexivity.
      + apply IH; assumption.
  Qed.

  Lemma lattice_sound : forall p st d, sound p -> cache_valid (st_cache st) ->
    snd (lattice p st d) = L d (st_steps st) /\
    st_steps (fst (lattice p st d)) = st_steps st /\ cache_valid (st_cache (fst (lattice p st d))).
  Proof.
    intros p st d Hp Hv. unfold lattice.
    destruct (lookup p d (st_steps st) (st_cache st)) as [l|] eqn:E; simpl.
    - split; [eapply lookup_sound; eassumption | split; [reflexivity | exact Hv]].
    - split; [reflexivity|]. destruct p; simpl; (split; [reflexivity|]); try exact Hv;
        intros a b e [Hin | Hin]; try (injection Hin as <- <- <-; reflexivity); apply Hv; exact Hin.
  Qed.

  Lemma run_expected_gen : forall p ops st, sound p -> cache_valid (st_cache st) ->
    run p st ops = expected (st_steps st) ops.
  Proof.
    intros p ops. induction ops as [|o rest IH]; intros st Hp Hv; [reflexivity|].
    destruct o as [s | d | x]; simpl.
    - apply (IH (mkstate s (st_cache st))); assumption.
    - destruct (lattice_sound p st d Hp Hv) as [H1 [H2 H3]].
      destruct (lattice p st d) as [st' l]; simpl in *. subst l. f_equal. rewrite <- H2. apply IH; assumption.
    - destruct (lattice_sound p st (dim (st_steps st) x) Hp Hv) as [H1 [H2 H3]].
      destruct (lattice p st (dim (st_steps st) x)) as [st' l]; simpl in *. subst l. f_equal.
      rewrite <- H2. apply IH; assumption.
  Qed.

  (* every use of one object, whatever came before, answers what a fresh object with the current attributes answers *)
  Theorem history_independent : forall p s0 ops, sound p -> run p (init s0) ops = expected s0 ops.
  Proof. intros p s0 ops Hp. apply (run_expected_gen p ops (init s0) Hp). intros d s l []. Qed.

  (* the last use of a history: only the attributes set last and the use itself matter *)
  Corollary last_use_fresh : forall p s0 s (before : list op) (o : op), sound p ->
    run p (init s0) (before ++ [OSetSteps s; o]) =
    run p (init s0) before ++ match fresh s o with Some r => [r] | None => [] end.
  Proof.
    intros p s0 s before o Hp. rewrite !history_independent by exact Hp.
    generalize s0. induction before as [|b rest IH]; intros s1; simpl.
    - destruct o; reflexivity.
    - destruct b; simpl; rewrite ?IH; reflexivity.
  Qed.
End Machine.

Arguments OSetSteps {S X}.
Arguments OLists {S X}.
Arguments OCells {S X}.
Arguments RLists {V C}.
Arguments RCells {V C}.
