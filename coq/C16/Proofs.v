(* C16 lemmas.  Everything is about the GENERATED formulas (Gen.v) through Model.v. *)
From Coq Require Import ZArith QArith Qround Qfield List Bool Lia Lqa Permutation.
From Coq Require Import Floats.PrimFloat.
From PAFCommon Require Import PyFloat PyNum Lists.
From PAFC16 Require Import Gen Lib Model.
Import ListNotations.

(* ---------- exact arithmetic: the count is n ---------- *)

Lemma count_Q (n : Z) : (1 <= n)%Z -> ml_count_Q (gs_step_size_Q n) = n.
Proof.
  intro Hn. unfold ml_count_Q, gs_step_size_Q.
  assert (E : inject_Z 1 / (inject_Z 1 / inject_Z n) == inject_Z n).
  { field; repeat split; try (apply inject_Z_nonzero; lia); try discriminate. }
  first [ rewrite (Qtrunc_comp _ _ E); apply Qtrunc_inject_Z
        | rewrite (Qround_half_even_comp _ _ E); apply Qround_half_even_inject_Z ].
Qed.

Lemma sens_count_Q (n : Z) : (1 <= n)%Z -> ml_count_Q (sens_step_size_Q n) = n.
Proof. exact (count_Q n). Qed.

Lemma column_Q_length (centre : bool) (n : Z) : (1 <= n)%Z -> length (column_Q centre (gs_step_size_Q n)) = Z.to_nat n.
Proof. intro H. unfold column_Q. rewrite map_length, zrange_length, count_Q; auto. Qed.

Lemma grid_count_Q (d : nat) (n : Z) : (1 <= n)%Z -> length (grid_lists_Q d n) = (Z.to_nat n ^ d)%nat.
Proof.
  intro Hn. unfold grid_lists_Q, make_lists_Q.
  rewrite cart_length, map_map, map_repeat, fold_mul_repeat, column_Q_length; auto.
Qed.

Lemma grid_rows_Q (d : nat) (n : Z) (row : list Q) : In row (grid_lists_Q d n) -> length row = d.
Proof.
  intro H. unfold grid_lists_Q, make_lists_Q in H. apply cart_row_length in H.
  rewrite map_length, repeat_length in H. exact H.
Qed.

Lemma sens_count_lists_Q (ns : list Z) : Forall (fun n => (1 <= n)%Z) ns ->
  length (sens_lists_Q ns) = fold_right Nat.mul 1%nat (map Z.to_nat ns).
Proof.
  intro H. unfold sens_lists_Q, make_lists_Q. rewrite cart_length, !map_map.
  f_equal. apply map_ext_in. intros n Hin. rewrite Forall_forall in H.
  unfold column_Q. rewrite map_length, zrange_length. rewrite sens_count_Q; auto.
Qed.

(* ---------- exact arithmetic: the cells tile [lo, hi] ---------- *)

Lemma cell1_lower_Q (n : Z) (lo hi : Q) (k : Z) : (1 <= n)%Z ->
  fst (cell1_Q n (lo, hi) k) == lo + (inject_Z k / inject_Z n) * (hi - lo).
Proof.
  intro Hn. unfold cell1_Q, cell_Q, ma_lower_Q, ml_value_Q, gs_step_size_Q, prior_width_Q; simpl.
  field. apply inject_Z_nonzero; lia.
Qed.

Lemma cell1_upper_Q (n : Z) (lo hi : Q) (k : Z) : (1 <= n)%Z ->
  snd (cell1_Q n (lo, hi) k) == lo + (inject_Z (k + 1) / inject_Z n) * (hi - lo).
Proof.
  intro Hn. unfold cell1_Q, cell_Q, ma_upper_Q, ml_value_Q, gs_step_size_Q, prior_width_Q; simpl.
  rewrite inject_Z_plus. field. apply inject_Z_nonzero; lia.
Qed.

Lemma cell1_contiguous_Q (n : Z) (lo hi : Q) (k : Z) : (1 <= n)%Z ->
  snd (cell1_Q n (lo, hi) k) == fst (cell1_Q n (lo, hi) (k + 1)).
Proof. intro Hn. rewrite cell1_upper_Q, cell1_lower_Q by exact Hn. reflexivity. Qed.

Lemma cell1_first_Q (n : Z) (lo hi : Q) : (1 <= n)%Z -> fst (cell1_Q n (lo, hi) 0) == lo.
Proof. intro Hn. rewrite cell1_lower_Q by exact Hn. field. apply inject_Z_nonzero; lia. Qed.

Lemma cell1_last_Q (n : Z) (lo hi : Q) : (1 <= n)%Z -> snd (cell1_Q n (lo, hi) (n - 1)) == hi.
Proof.
  intro Hn. rewrite cell1_upper_Q by exact Hn. replace (n - 1 + 1)%Z with n by lia.
  field. apply inject_Z_nonzero; lia.
Qed.

Lemma Qdiv_lt_compat (a b c : Q) : 0 < c -> a < b -> a / c < b / c.
Proof.
  intros Hc Hab. unfold Qdiv. apply Qmult_lt_compat_r; [apply Qinv_lt_0_compat; exact Hc | exact Hab].
Qed.

Lemma cell1_nonempty_Q (n : Z) (lo hi : Q) (k : Z) : (1 <= n)%Z -> lo < hi ->
  fst (cell1_Q n (lo, hi) k) < snd (cell1_Q n (lo, hi) k).
Proof.
  intros Hn Hw. rewrite cell1_upper_Q, cell1_lower_Q by exact Hn.
  assert (P : 0 < inject_Z n) by (change 0 with (inject_Z 0); rewrite <- Zlt_Qlt; lia).
  assert (S : inject_Z k / inject_Z n < inject_Z (k + 1) / inject_Z n).
  { apply Qdiv_lt_compat; [exact P|]. rewrite <- Zlt_Qlt. lia. }
  nra.
Qed.

(* cells do not overlap: a later cell starts no earlier than an earlier cell ends *)
Lemma cell1_ordered_Q (n : Z) (lo hi : Q) (k k' : Z) : (1 <= n)%Z -> lo < hi -> (k < k')%Z ->
  snd (cell1_Q n (lo, hi) k) <= fst (cell1_Q n (lo, hi) k').
Proof.
  intros Hn Hw Hk. rewrite cell1_upper_Q, cell1_lower_Q by exact Hn.
  assert (P : 0 < inject_Z n) by (change 0 with (inject_Z 0); rewrite <- Zlt_Qlt; lia).
  assert (S : inject_Z (k + 1) / inject_Z n <= inject_Z k' / inject_Z n).
  { unfold Qdiv. apply Qmult_le_compat_r; [rewrite <- Zle_Qle; lia | apply Qlt_le_weak, Qinv_lt_0_compat; exact P]. }
  nra.
Qed.

(* ---------- results are keyed by job number, whatever the completion order ---------- *)

Local Close Scope Q_scope.
Section BuilderProofs.
  Context {R : Type}.

  Lemma rb_lookup_fold (arr : list (Z * R)) (st : list (Z * R)) (k : Z) :
    rb_lookup k (fold_left rb_add arr st) = match rb_lookup k (rev arr) with Some r => Some r | None => rb_lookup k st end.
  Proof.
    revert st. induction arr as [|[j r] arr IH]; intro st; simpl; [reflexivity|].
    rewrite IH. clear IH.
    assert (L : forall l1 : list (Z * R), rb_lookup k (l1 ++ [(j, r)]) =
              match rb_lookup k l1 with Some x => Some x | None => if Z.eqb j k then Some r else None end).
    { induction l1 as [|[j' r'] l1 IHl]; simpl; [reflexivity|]. destruct (Z.eqb j' k); auto. }
    rewrite L. destruct (rb_lookup k (rev arr)); auto.
    unfold rb_add; simpl. destruct (Z.eqb j k); reflexivity.
  Qed.

  Lemma rb_lookup_in_nodup (l : list (Z * R)) (k : Z) (r : R) :
    NoDup (map fst l) -> In (k, r) l -> rb_lookup k l = Some r.
  Proof.
    induction l as [|[j x] l IH]; simpl; intros ND H; [contradiction|].
    inversion ND as [|? ? Hnot ND']; subst.
    destruct H as [E|H].
    - inversion E; subst. rewrite Z.eqb_refl. reflexivity.
    - destruct (Z.eqb_spec j k) as [->|_]; [|apply IH; auto].
      exfalso. apply Hnot. apply in_map_iff. exists (k, r). auto.
  Qed.

  Lemma rb_lookup_none (l : list (Z * R)) (k : Z) : ~ In k (map fst l) -> rb_lookup k l = None.
  Proof.
    induction l as [|[j x] l IH]; simpl; intro H; [reflexivity|].
    destruct (Z.eqb_spec j k) as [->|_]; [exfalso; apply H; auto | apply IH; intro; apply H; auto].
  Qed.


  Definition numbered (results : list R) : list (Z * R) :=
    combine (map Z.of_nat (seq 0 (length results))) results.

  Lemma numbered_fst (results : list R) : map fst (numbered results) = map Z.of_nat (seq 0 (length results)).
  Proof.
    unfold numbered. generalize 0%nat. induction results as [|r rs IH]; intro s; simpl; [reflexivity|].
    rewrite IH. reflexivity.
  Qed.

  Lemma numbered_nodup (results : list R) : NoDup (map fst (numbered results)).
  Proof.
    rewrite numbered_fst. apply FinFun.Injective_map_NoDup; [intros a b H; lia | apply seq_NoDup].
  Qed.

  Lemma numbered_in (results : list R) (k : nat) (d : R) : k < length results ->
    In (Z.of_nat k, nth k results d) (numbered results).
  Proof.
    intro H. unfold numbered.
    assert (G : forall s rs k, k < length rs -> In (Z.of_nat (s + k), nth k rs d) (combine (map Z.of_nat (seq s (length rs))) rs)).
    { intros s rs. revert s. induction rs as [|r rs IH]; intros s k0 Hk; simpl in *; [lia|].
      destruct k0 as [|k0]; [left; f_equal; f_equal; lia|].
      right. replace (s + S k0) with (S s + k0) by lia. apply IH. lia. }
    apply (G 0 results k H).
  Qed.

  (* every completion order (any permutation of the numbered results) yields the same,
     number-ordered, list of summaries *)
  Lemma rb_any_order (results : list R) (arrivals : list (Z * R)) :
    Permutation arrivals (numbered results) ->
    rb_run (length results) arrivals = map Some results.
  Proof.
    intro P. unfold rb_run, rb_summaries.
    apply nth_ext with (d := None) (d' := None); [rewrite !map_length, seq_length; reflexivity|].
    intros k Hk. rewrite map_length, seq_length in Hk.
    rewrite nth_map_seq by exact Hk. rewrite rb_lookup_fold.
    destruct results as [|r0 rs] eqn:ER; [simpl in Hk; lia|]. rewrite <- ER in *.
    rewrite (nth_map_in Some results k r0) by exact Hk.
    rewrite (rb_lookup_in_nodup (rev arrivals) (Z.of_nat k) (nth k results r0)); [reflexivity| |].
    - apply (Permutation_NoDup (l := map fst (numbered results))); [|apply numbered_nodup].
      apply Permutation_map. apply Permutation_sym. eapply Permutation_trans; [apply Permutation_sym, Permutation_rev|exact P].
    - apply in_rev. rewrite rev_involutive. apply (Permutation_in (l := numbered results)); [apply Permutation_sym; exact P|].
      apply numbered_in. exact Hk.
  Qed.

  (* while the grid search is running: after any set of arrivals with distinct numbers,
     slot k holds job k's result if it has arrived and a placeholder otherwise *)
  Lemma rb_partial (total : nat) (arrivals : list (Z * R)) (k : nat) (r : R) :
    NoDup (map fst arrivals) -> k < total ->
    (In (Z.of_nat k, r) arrivals -> nth k (rb_run total arrivals) None = Some r) /\
    (~ In (Z.of_nat k) (map fst arrivals) -> nth k (rb_run total arrivals) None = None).
  Proof.
    intros ND Hk. unfold rb_run, rb_summaries.
    rewrite nth_map_seq by exact Hk. rewrite rb_lookup_fold. split; intro H.
    - rewrite (rb_lookup_in_nodup (rev arrivals) (Z.of_nat k) r); auto.
      + rewrite map_rev. apply NoDup_rev. exact ND.
      + apply in_rev. rewrite rev_involutive. exact H.
    - rewrite rb_lookup_none; [reflexivity|]. rewrite map_rev. intro I. apply H. apply in_rev. exact I.
  Qed.
End BuilderProofs.

(* Sensitivity: re-sorting after every arrival leaves the results ordered by job number *)
(* `sorted_by_number` is defined in Lib.v *)
Lemma insert_sorted {R} (x : Z * R) (l : list (Z * R)) : sorted_by_number l -> sorted_by_number (insert_by_number x l).
Proof.
  induction 1 as [|y|y z l Hyz Hs IH]; simpl.
  - constructor.
  - destruct (Z.ltb_spec (fst x) (fst y)); constructor; try lia; constructor.
  - destruct (Z.ltb_spec (fst x) (fst y)).
    + constructor; [lia|]. constructor; assumption.
    + simpl in IH. destruct (Z.ltb_spec (fst x) (fst z)).
      * constructor; [lia|]. constructor; [lia|exact Hs].
      * constructor; [exact Hyz|exact IH].
Qed.

Lemma insert_perm {R} (x : Z * R) (l : list (Z * R)) : Permutation (x :: l) (insert_by_number x l).
Proof.
  induction l as [|y l IH]; simpl; [reflexivity|].
  destruct (Z.ltb (fst x) (fst y)); [reflexivity|].
  eapply Permutation_trans; [apply perm_swap|]. constructor. exact IH.
Qed.

Lemma sens_collect_sorted {R} (arrivals : list (Z * R)) :
  sorted_by_number (sens_collect arrivals) /\ Permutation arrivals (sens_collect arrivals).
Proof.
  unfold sens_collect.
  assert (G : forall acc, sorted_by_number acc ->
           sorted_by_number (fold_left (fun a x => insert_by_number x a) arrivals acc) /\
           Permutation (arrivals ++ acc) (fold_left (fun a x => insert_by_number x a) arrivals acc)).
  { induction arrivals as [|x xs IH]; intros acc Hs; simpl; [split; [exact Hs|reflexivity]|].
    destruct (IH (insert_by_number x acc) (insert_sorted x acc Hs)) as [S P]. split; [exact S|].
    eapply Permutation_trans; [|exact P].
    eapply Permutation_trans; [apply Permutation_middle|].
    apply Permutation_app_head. apply insert_perm. }
  destruct (G [] sbn_nil) as [S P]. split; [exact S|]. rewrite app_nil_r in P. exact P.
Qed.

Local Open Scope Q_scope.
(* ---------- the reported shape ---------- *)

Lemma side_length_Q (pw : Q -> Q -> Q) (n d : Z) :
  inject_Z n - (1 # 2) < pw (inject_Z (n ^ d)) (inject_Z 1 / inject_Z d) ->
  pw (inject_Z (n ^ d)) (inject_Z 1 / inject_Z d) < inject_Z n + (1 # 2) ->
  gsr_side_length_Q pw (n ^ d) d = n /\ gsr_shape_elem_Q pw (n ^ d) d = n.
Proof.
  intros H1 H2. unfold gsr_side_length_Q, gsr_shape_elem_Q.
  split; apply Qround_half_even_between; assumption.
Qed.

Lemma shape_Q (pw : Q -> Q -> Q) (n d : Z) :
  inject_Z n - (1 # 2) < pw (inject_Z (n ^ d)) (inject_Z 1 / inject_Z d) ->
  pw (inject_Z (n ^ d)) (inject_Z 1 / inject_Z d) < inject_Z n + (1 # 2) ->
  result_shape_Q pw (n ^ d) d = repeat n (Z.to_nat d).
Proof.
  intros H1 H2. unfold result_shape_Q. destruct (side_length_Q pw n d H1 H2) as [_ ->]. reflexivity.
Qed.

(* ---------- binary64: the count is n, on a stated finite range ---------- *)

Lemma count_sweep_ok : pow2_forall count_ok_F 17 1 = true.
Proof. vm_compute. reflexivity. Qed.

Lemma count_F (n : Z) : (1 <= n <= 131072)%Z -> ml_count_F (gs_step_size_F n) = n.
Proof.
  intro H.
  assert (B : count_ok_F n = true).
  { apply (pow2_forall_spec count_ok_F 17 1%Z count_sweep_ok). change (2 ^ Z.of_nat 17)%Z with 131072%Z. lia. }
  unfold count_ok_F in B. apply Z.eqb_eq in B. exact B.
Qed.
