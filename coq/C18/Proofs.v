(* C18 lemmas (see Props.v for the statements). *)
From Coq Require Import ZArith QArith Qcanon List Bool Arith Lia.
From PAFC18 Require Import Model.
Import ListNotations.

Lemma replace_nth_length {A} (i : nat) (x : A) (l : list A) : length (replace_nth i x l) = length l.
Proof. revert i. induction l as [|y l IH]; intros [|i]; simpl; auto. Qed.

Lemma replace_nth_other {A} (i j : nat) (x d : A) (l : list A) : i <> j -> nth j (replace_nth i x l) d = nth j l d.
Proof.
  revert i j. induction l as [|y l IH]; intros [|i] [|j] H; simpl; auto; try congruence.
Qed.
