(* C18 lemmas (see Props.v for the statements).
   Everything is parametric in the message group: a type G with a commutative group
   (gadd, gopp, gzero) and an action of Qc (gscale) -- the natural parameters of an
   exponential family.  The executed instance (Qc * Qc) satisfies the laws (n2_laws). *)
From Coq Require Import ZArith QArith Qcanon List Bool Arith Lia Permutation.
From PAFC18 Require Import Model.
Import ListNotations.
Local Close Scope Qc_scope.
Local Close Scope Q_scope.
Local Open Scope nat_scope.

(* ---------- generic list facts ---------- *)
Lemma replace_nth_length {A} (i : nat) (x : A) (l : list A) : length (replace_nth i x l) = length l.
Proof. revert i. induction l as [|y l IH]; intros [|i]; simpl; auto. Qed.

Lemma replace_nth_other {A} (i j : nat) (x d : A) (l : list A) : i <> j -> nth j (replace_nth i x l) d = nth j l d.
Proof. revert i j. induction l as [|y l IH]; intros [|i] [|j] H; simpl; auto; try congruence. Qed.

Lemma replace_nth_same {A} (i : nat) (x d : A) (l : list A) : i < length l -> nth i (replace_nth i x l) d = x.
Proof. revert i. induction l as [|y l IH]; intros [|i] H; simpl in *; try lia; auto. apply IH. lia. Qed.

Lemma replace_nth_split {A} (i : nat) (x : A) (l : list A) : i < length l ->
  replace_nth i x l = firstn i l ++ x :: skipn (S i) l.
Proof. revert i. induction l as [|y l IH]; intros [|i] H; simpl in *; try lia; auto. f_equal. apply IH. lia. Qed.

Lemma remove_nth_split {A} (i : nat) (l : list A) : remove_nth i l = firstn i l ++ skipn (S i) l.
Proof. revert i. induction l as [|y l IH]; intros [|i]; simpl; auto. f_equal. apply IH. Qed.

Lemma nth_split_at {A} (i : nat) (d : A) (l : list A) : i < length l ->
  l = firstn i l ++ nth i l d :: skipn (S i) l.
Proof. revert i. induction l as [|y l IH]; intros [|i] H; simpl in *; try lia; auto. f_equal. apply IH. lia. Qed.

Lemma remove_nth_map {A B} (f : A -> B) (i : nat) (l : list A) : remove_nth i (map f l) = map f (remove_nth i l).
Proof. revert i. induction l as [|y l IH]; intros [|i]; simpl; auto. f_equal. apply IH. Qed.

Lemma has_var_In (v : var) (l : list var) : has_var v l = true <-> In v l.
Proof.
  unfold has_var. rewrite existsb_exists. split.
  - intros [x [Hx E]]. apply Nat.eqb_eq in E. subst. exact Hx.
  - intro H. exists v. split; [exact H|apply Nat.eqb_refl].
Qed.

Lemma has_var_false (v : var) (l : list var) : has_var v l = false <-> ~ In v l.
Proof. rewrite <- has_var_In. destruct (has_var v l); split; congruence. Qed.

Lemma has_var_nodup (v : var) (l : list var) : has_var v (nodup Nat.eq_dec l) = has_var v l.
Proof.
  destruct (has_var v l) eqn:E.
  - apply has_var_In. apply nodup_In. apply has_var_In. exact E.
  - apply has_var_false. rewrite nodup_In. apply has_var_false. exact E.
Qed.

(* ---------- the laws ---------- *)
Record group_laws (G : Type) (gadd : G -> G -> G) (gopp : G -> G) (gzero : G) : Prop := {
  g_comm : forall x y, gadd x y = gadd y x;
  g_assoc : forall x y z, gadd x (gadd y z) = gadd (gadd x y) z;
  g_zero_l : forall x, gadd gzero x = x;
  g_opp_r : forall x, gadd x (gopp x) = gzero
}.
Record module_laws (G : Type) (gadd : G -> G -> G) (gscale : Qc -> G -> G) : Prop := {
  m_add_r : forall s x y, gscale s (gadd x y) = gadd (gscale s x) (gscale s y);
  m_add_l : forall s t x, gscale (s + t)%Qc x = gadd (gscale s x) (gscale t x);
  m_mul : forall s t x, gscale s (gscale t x) = gscale (s * t)%Qc x;
  m_one : forall x, gscale (Q2Qc 1) x = x
}.

Lemma n2_group : group_laws N2 n_add n_opp n_zero.
Proof.
  split; intros; unfold n_add, n_opp, n_zero; simpl;
    repeat match goal with x : N2 |- _ => destruct x end; simpl; f_equal; ring.
Qed.
Lemma n2_module : module_laws N2 n_add n_scale.
Proof.
  split; intros; unfold n_add, n_scale; simpl;
    repeat match goal with x : N2 |- _ => destruct x end; simpl; f_equal; ring.
Qed.

Section Laws.
  Variable G : Type.
  Variable gadd : G -> G -> G.
  Variable gopp : G -> G.
  Variable gzero : G.
  Variable gscale : Qc -> G -> G.
  Variable gvalid : G -> bool.
  Hypothesis GL : group_laws G gadd gopp gzero.
  Hypothesis ML : module_laws G gadd gscale.

  Notation mf := (mf G).
  Notation state := (state G).
  Notation get := (get G).
  Notation omul := (omul G gadd).
  Notation prod_at := (prod_at G gadd).
  Notation cavity := (cavity G gadd).
  Notation model_dist := (model_dist G gadd).
  Notation global := (global G gadd).
  Notation own := (own G).
  Notation keys := (keys G).
  Notation step := (step G gadd gopp gscale gvalid).
  Notation project := (project G gadd gopp gscale gvalid).
  Notation cand := (cand G gadd gopp gscale).
  Notation cand_valid := (cand_valid G gvalid).
  Notation new_msg := (new_msg G gadd gopp gscale gvalid).
  Notation update_factor_mf := (update_factor_mf G gadd gopp gscale gvalid).

  Lemma gadd_zero_r x : gadd x gzero = x.
  Proof. rewrite (g_comm _ _ _ _ GL). apply (g_zero_l _ _ _ _ GL). Qed.
  Lemma gadd_opp_l x : gadd (gopp x) x = gzero.
  Proof. rewrite (g_comm _ _ _ _ GL). apply (g_opp_r _ _ _ _ GL). Qed.
  Lemma gsub_add x c : gadd (gadd x (gopp c)) c = x.
  Proof. rewrite <- (g_assoc _ _ _ _ GL), gadd_opp_l. apply gadd_zero_r. Qed.

  (* ---------- omul / prod_at ---------- *)
  Lemma omul_none_r a : omul a None = a.
  Proof. destruct a; reflexivity. Qed.
  Lemma omul_comm a b : omul a b = omul b a.
  Proof. destruct a, b; simpl; auto. f_equal. apply (g_comm _ _ _ _ GL). Qed.
  Lemma omul_assoc a b c : omul a (omul b c) = omul (omul a b) c.
  Proof. destruct a, b, c; simpl; auto. f_equal. apply (g_assoc _ _ _ _ GL). Qed.

  Lemma prod_at_start v s ms : prod_at v s ms = omul s (prod_at v None ms).
  Proof.
    unfold Model.prod_at. revert s. induction ms as [|m ms IH]; intro s; simpl.
    - symmetry. apply omul_none_r.
    - rewrite IH. rewrite (IH (get v m)). apply eq_sym, omul_assoc.
  Qed.

  Lemma prod_at_cons v m ms : prod_at v None (m :: ms) = omul (get v m) (prod_at v None ms).
  Proof. unfold Model.prod_at at 1. simpl. apply prod_at_start. Qed.

  Lemma prod_at_app v a b : prod_at v None (a ++ b) = omul (prod_at v None a) (prod_at v None b).
  Proof.
    induction a as [|m a IH]; [reflexivity|].
    rewrite <- app_comm_cons, !prod_at_cons, IH. apply omul_assoc.
  Qed.

  (* the "product of the messages" is a plain right fold and does not depend on dict order *)
  Lemma prod_at_fold v ms : prod_at v None ms = fold_right omul None (map (get v) ms).
  Proof. induction ms as [|m ms IH]; [reflexivity|]. rewrite prod_at_cons, IH. reflexivity. Qed.

  Lemma prod_at_perm v ms ms' : Permutation ms ms' -> prod_at v None ms = prod_at v None ms'.
  Proof.
    induction 1 as [|m a b _ IH|m1 m2 a|a b c _ IH1 _ IH2].
    - reflexivity.
    - rewrite !prod_at_cons, IH. reflexivity.
    - rewrite !prod_at_cons, !omul_assoc, (omul_comm (get v m2)). reflexivity.
    - congruence.
  Qed.

  Lemma prod_at_none v ms : (forall m, In m ms -> get v m = None) -> prod_at v None ms = None.
  Proof.
    induction ms as [|m ms IH]; intro H; [reflexivity|].
    rewrite prod_at_cons, (H m (or_introl eq_refl)), IH; [reflexivity|].
    intros m' Hm. apply H. right. exact Hm.
  Qed.

  (* ---------- lookups ---------- *)
  Lemma get_in_keys v (m : mf) g : get v m = Some g -> In v (keys m).
  Proof.
    induction m as [|[w x] m IH]; simpl; [discriminate|].
    destruct (Nat.eqb w v) eqn:E; intro H.
    - left. apply Nat.eqb_eq. exact E.
    - right. apply IH. exact H.
  Qed.

  Lemma get_not_in_keys v (m : mf) : ~ In v (keys m) -> get v m = None.
  Proof.
    induction m as [|[w x] m IH]; simpl; intro H; [reflexivity|].
    destruct (Nat.eqb w v) eqn:E.
    - exfalso. apply H. left. apply Nat.eqb_eq. exact E.
    - apply IH. intro Hin. apply H. right. exact Hin.
  Qed.

  Lemma get_prod_ones v ks others :
    get v (prod_ones G gadd ks others) = if has_var v ks then prod_at v None others else None.
  Proof.
    unfold prod_ones. induction ks as [|w ks IH]; simpl; [reflexivity|].
    destruct (Nat.eqb v w) eqn:E.
    - apply Nat.eqb_eq in E. subst w. simpl.
      destruct (prod_at v None others) eqn:P; simpl.
      + rewrite Nat.eqb_refl. reflexivity.
      + rewrite IH. destruct (has_var v ks); reflexivity.
    - simpl. destruct (prod_at w None others); simpl; [|exact IH].
      rewrite Nat.eqb_sym, E. exact IH.
  Qed.

  Lemma get_map_values v (F : var -> G -> G) (m : mf) :
    get v (map (fun vn => (fst vn, F (fst vn) (snd vn))) m) = option_map (F v) (get v m).
  Proof.
    induction m as [|[w x] m IH]; simpl; [reflexivity|].
    destruct (Nat.eqb w v) eqn:E; [|exact IH].
    apply Nat.eqb_eq in E. subst. reflexivity.
  Qed.

  Lemma keys_map_values (F : var -> G -> G) (m : mf) :
    keys (map (fun vn => (fst vn, F (fst vn) (snd vn))) m) = keys m.
  Proof. unfold Model.keys. rewrite map_map. reflexivity. Qed.

  (* ---------- cavity, model distribution, global approximation ---------- *)
  Lemma cavity_get i st v :
    get v (cavity i st) = if has_var v (keys (own i st)) then prod_at v None (remove_nth i st) else None.
  Proof. unfold Model.cavity. apply get_prod_ones. Qed.

  Lemma cavity_get_own i st v m : get v (own i st) = Some m ->
    get v (cavity i st) = prod_at v None (remove_nth i st).
  Proof.
    intro H. rewrite cavity_get. apply get_in_keys in H. apply has_var_In in H. rewrite H. reflexivity.
  Qed.

  Lemma in_all_vars st m v : In m st -> In v (keys m) -> In v (all_vars G st).
  Proof.
    intros Hm Hv. unfold all_vars. apply nodup_In. apply in_concat.
    exists (keys m). split; [apply in_map; exact Hm|exact Hv].
  Qed.

  Lemma global_get st v : get v (global st) = prod_at v None st.
  Proof.
    unfold Model.global. rewrite get_prod_ones.
    destruct (has_var v (all_vars G st)) eqn:E; [reflexivity|].
    symmetry. apply prod_at_none. intros m Hm.
    apply get_not_in_keys. intro Hv. apply has_var_false in E. apply E.
    apply (in_all_vars st m v Hm Hv).
  Qed.

  Lemma model_dist_get i st v :
    get v (model_dist i st) =
    match get v (own i st) with Some m => omul (Some m) (get v (cavity i st)) | None => None end.
  Proof.
    unfold Model.model_dist, times_cavity.
    rewrite (get_map_values v (fun w x => match get w (cavity i st) with Some c => gadd x c | None => x end)).
    destruct (get v (own i st)); simpl; [|reflexivity].
    destruct (get v (cavity i st)); reflexivity.
  Qed.

  Lemma prod_at_split i st v : i < length st ->
    prod_at v None st = omul (get v (own i st)) (prod_at v None (remove_nth i st)).
  Proof.
    intro Hi. rewrite (nth_split_at i [] st Hi) at 1.
    rewrite prod_at_app, prod_at_cons, remove_nth_split, prod_at_app.
    unfold Model.own. rewrite !omul_assoc. f_equal. apply omul_comm.
  Qed.

  (* own message * cavity = model distribution = global approximation, on the factor's variables *)
  Theorem model_eq i st v m : i < length st -> get v (own i st) = Some m ->
    get v (model_dist i st) = omul (Some m) (get v (cavity i st))
    /\ get v (model_dist i st) = get v (global st).
  Proof.
    intros Hi Hm. rewrite model_dist_get, Hm. split; [reflexivity|].
    rewrite (cavity_get_own i st v m Hm), global_get, (prod_at_split i st v Hi), Hm. reflexivity.
  Qed.

  (* ---------- one update ---------- *)
  Lemma project_length i dl cavd last new st : length (project i dl cavd last new st) = length st.
  Proof. apply replace_nth_length. Qed.

  Lemma project_other i j dl cavd last new st : i <> j ->
    own j (project i dl cavd last new st) = own j st.
  Proof. intro H. unfold Model.own, Model.project. apply replace_nth_other. exact H. Qed.

  Lemma project_own i dl cavd last new st : i < length st ->
    own i (project i dl cavd last new st) = update_factor_mf dl cavd last new.
  Proof. intro H. unfold Model.own, Model.project. apply replace_nth_same. exact H. Qed.

  Lemma project_remove i dl cavd last new st :
    remove_nth i (project i dl cavd last new st) = remove_nth i st.
  Proof.
    unfold Model.project. generalize (update_factor_mf dl cavd last new). intro x.
    revert i. induction st as [|y st IH]; intros [|i]; simpl; auto. f_equal. apply IH.
  Qed.

  Lemma update_get dl cavd last new v :
    get v (update_factor_mf dl cavd last new) = option_map (new_msg dl cavd last v) (get v new).
  Proof. unfold Model.update_factor_mf. apply (get_map_values v (new_msg dl cavd last)). Qed.

  (* global approximation after an update of factor i, for a variable the new distribution mentions *)
  Lemma global_after i dl cavd last new st v nw : i < length st -> get v new = Some nw ->
    get v (global (project i dl cavd last new st)) =
    omul (Some (new_msg dl cavd last v nw)) (prod_at v None (remove_nth i st)).
  Proof.
    intros Hi Hn. rewrite global_get.
    rewrite (prod_at_split i _ v) by (rewrite project_length; exact Hi).
    rewrite project_own by exact Hi. rewrite update_get, Hn, project_remove. reflexivity.
  Qed.

  Theorem update_exact i dl new st v nw : i < length st ->
    is_full dl = true -> get v new = Some nw -> In v (keys (own i st)) ->
    gvalid (full_cand G gadd gopp nw (get v (cavity i st))) = true ->
    get v (global (step i dl new st)) = Some nw.
  Proof.
    intros Hi Hf Hn Hv Hvalid. unfold Model.step.
    rewrite (global_after i dl _ _ new st v nw Hi Hn).
    assert (Hc : get v (cavity i st) = prod_at v None (remove_nth i st)).
    { rewrite cavity_get. apply has_var_In in Hv. rewrite Hv. reflexivity. }
    unfold Model.new_msg, Model.cand, Model.cand_v, Model.cand_valid. rewrite Hf. simpl. rewrite Hvalid. simpl.
    rewrite <- Hc. destruct (get v (cavity i st)) as [c|]; simpl; [|reflexivity].
    f_equal. apply gsub_add.
  Qed.

  (* an improper projection keeps the variable's previous message, hence its global approximation *)
  Theorem update_invalid_keeps i dl new st v nw l : i < length st ->
    get v new = Some nw -> get v (own i st) = Some l ->
    cand_valid (cand dl (cavity i st) (own i st) v nw) = false ->
    get v (own i (step i dl new st)) = Some l
    /\ get v (global (step i dl new st)) = get v (global st).
  Proof.
    intros Hi Hn Hl Hbad. unfold Model.step. split.
    - rewrite project_own by exact Hi. rewrite update_get, Hn. simpl.
      unfold Model.new_msg. rewrite Hbad, Hl. reflexivity.
    - rewrite (global_after i dl _ _ new st v nw Hi Hn).
      unfold Model.new_msg. rewrite Hbad, Hl.
      rewrite global_get, (prod_at_split i st v Hi), Hl. reflexivity.
  Qed.

  Lemma gscale_split d x : gadd (gscale d x) (gscale (Q2Qc 1 - d)%Qc x) = x.
  Proof.
    rewrite <- (m_add_l _ _ _ ML). replace (d + (Q2Qc 1 - d))%Qc with (Q2Qc 1) by ring.
    apply (m_one _ _ _ ML).
  Qed.

  Lemma gscale_opp_add d c x : gadd (gadd x (gopp (gscale d c))) c = gadd x (gscale (Q2Qc 1 - d)%Qc c).
  Proof.
    rewrite <- (gscale_split d c) at 2.
    rewrite <- !(g_assoc _ _ _ _ GL). f_equal.
    rewrite (g_assoc _ _ _ _ GL), gadd_opp_l. apply (g_zero_l _ _ _ _ GL).
  Qed.

  (* a damped update moves the global approximation to  d * new + (1 - d) * old  *)
  Theorem update_damped i dl new st v nw l g : i < length st ->
    is_full dl = false -> get v new = Some nw -> get v (own i st) = Some l ->
    get v (global st) = Some g ->
    cand_valid (cand dl (cavity i st) (own i st) v nw) = true ->
    get v (global (step i dl new st)) =
    Some (gadd (gscale (delta_at dl v) nw) (gscale (Q2Qc 1 - delta_at dl v)%Qc g)).
  Proof.
    intros Hi Hf Hn Hl Hg Hok. unfold Model.step.
    rewrite (global_after i dl _ _ new st v nw Hi Hn).
    assert (Hc : get v (cavity i st) = prod_at v None (remove_nth i st)) by (apply (cavity_get_own i st v l Hl)).
    rewrite global_get, (prod_at_split i st v Hi), Hl, <- Hc in Hg.
    unfold Model.new_msg. rewrite Hok.
    unfold Model.cand, Model.cand_v. rewrite Hf. simpl. rewrite Hl, <- Hc.
    set (d := delta_at dl v).
    destruct (get v (cavity i st)) as [c|]; simpl in *; injection Hg as <-; f_equal.
    rewrite gscale_opp_add, (m_add_r _ _ _ ML).
    rewrite <- !(g_assoc _ _ _ _ GL). reflexivity.
  Qed.

  (* EPMeanFieldSubset.factor_approximation splits a rescaled variable's message as factor_dist = own^s and
     cavity = cavity * own^(1-s): their product is still own * cavity, so model_eq is untouched by the split *)
  Theorem rescale_split s o c : gadd (gscale s o) (gadd c (gscale (Q2Qc 1 - s)%Qc o)) = gadd o c.
  Proof.
    rewrite (g_comm _ _ _ _ GL c), (g_assoc _ _ _ _ GL), gscale_split. reflexivity.
  Qed.

  Lemma gscale_zero x : gscale (Q2Qc 0) x = gzero.
  Proof.
    assert (H : gadd (gscale (Q2Qc 0) x) (gscale (Q2Qc 0) x) = gscale (Q2Qc 0) x).
    { rewrite <- (m_add_l _ _ _ ML). f_equal; try ring. }
    rewrite <- (gadd_zero_r (gscale (Q2Qc 0) x)) at 1.
    rewrite <- (g_opp_r _ _ _ _ GL (gscale (Q2Qc 0) x)) at 1.
    rewrite (g_assoc _ _ _ _ GL), H. apply (g_opp_r _ _ _ _ GL).
  Qed.

  (* per-variable delta exactly 1: the damped formula IS the full projection new / cavity ... *)
  Lemma damped_one_is_full nw l cav :
    damped_cand G gadd gopp gscale (Q2Qc 1) nw (Some l) cav = full_cand G gadd gopp nw cav.
  Proof.
    unfold damped_cand, full_cand. replace (Q2Qc 1 - Q2Qc 1)%Qc with (Q2Qc 0) by ring.
    rewrite gscale_zero, gadd_zero_r, (m_one _ _ _ ML).
    destruct cav as [c|]; [rewrite (m_one _ _ _ ML)|]; reflexivity.
  Qed.
  (* ... and the repaired exponent handling (rescale) accepts it whenever new / cavity is a proper distribution *)
  Theorem pervar_delta_one_fixed ds cavd last v nw l :
    get v last = Some l -> qlookup v ds = Q2Qc 1 ->
    gvalid (full_cand G gadd gopp nw (get v cavd)) = true ->
    cand_v G gadd gopp gscale true (DPerVar ds) cavd last v nw = (full_cand G gadd gopp nw (get v cavd), true)
    /\ cand_valid (cand_v G gadd gopp gscale true (DPerVar ds) cavd last v nw) = true.
  Proof.
    intros Hl Hd Hv. unfold Model.cand_v. simpl. rewrite Hd, Hl, damped_one_is_full.
    assert (E : rescaled_exps_ok G (Q2Qc 1) (Some l) = true) by reflexivity.
    rewrite E. split; [reflexivity|]. unfold Model.cand_valid. simpl. exact Hv.
  Qed.

  Theorem update_exact_per_variable i dl new st v nw l g : i < length st ->
    is_full dl = false -> delta_at dl v = Q2Qc 1 ->
    get v new = Some nw -> get v (own i st) = Some l -> get v (global st) = Some g ->
    cand_valid (cand dl (cavity i st) (own i st) v nw) = true ->
    get v (global (step i dl new st)) = Some nw.
  Proof.
    intros Hi Hf Hd Hn Hl Hg Hok.
    rewrite (update_damped i dl new st v nw l g Hi Hf Hn Hl Hg Hok), Hd.
    replace (Q2Qc 1 - Q2Qc 1)%Qc with (Q2Qc 0) by ring.
    rewrite gscale_zero, gadd_zero_r, (m_one _ _ _ ML). reflexivity.
  Qed.

  (* the same for [cand], i.e. for the variant the code now has (switch code_pervar_delta_rescaled = true) *)
  Theorem pervar_delta_one_current ds cavd last v nw l :
    get v last = Some l -> qlookup v ds = Q2Qc 1 ->
    gvalid (full_cand G gadd gopp nw (get v cavd)) = true ->
    cand (DPerVar ds) cavd last v nw = (full_cand G gadd gopp nw (get v cavd), true)
    /\ cand_valid (cand (DPerVar ds) cavd last v nw) = true.
  Proof. exact (pervar_delta_one_fixed ds cavd last v nw l). Qed.

  (* ---------- sequences of updates ---------- *)
  Definition run_steps (steps : list (nat * delta * mf)) (st : state) : state :=
    fold_left (fun s x => step (fst (fst x)) (snd (fst x)) (snd x) s) steps st.

  Theorem untouched_factor steps st j :
    (forall x, In x steps -> fst (fst x) <> j) -> own j (run_steps steps st) = own j st.
  Proof.
    unfold run_steps. revert st. induction steps as [|x steps IH]; intros st H; simpl; [reflexivity|].
    rewrite IH by (intros y Hy; apply H; right; exact Hy).
    unfold Model.step. apply project_other. apply H. left. reflexivity.
  Qed.

  Lemma run_steps_length steps st : length (run_steps steps st) = length st.
  Proof.
    unfold run_steps. revert st. induction steps as [|x steps IH]; intro st; simpl; [reflexivity|].
    rewrite IH. unfold Model.step. apply project_length.
  Qed.

  (* the bookkeeping identities hold after every sequence of updates of every kind *)
  Theorem identities_after_any_sequence steps st i v m : i < length st ->
    get v (own i (run_steps steps st)) = Some m ->
    get v (model_dist i (run_steps steps st)) = omul (Some m) (get v (cavity i (run_steps steps st)))
    /\ get v (model_dist i (run_steps steps st)) = get v (global (run_steps steps st))
    /\ get v (global (run_steps steps st)) = fold_right omul None (map (get v) (run_steps steps st)).
  Proof.
    intros Hi Hm. rewrite <- (run_steps_length steps st) in Hi.
    destruct (model_eq i _ v m Hi Hm) as [A B]. repeat split; auto.
    rewrite global_get. apply prod_at_fold.
  Qed.
End Laws.
