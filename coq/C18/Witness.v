(* C18 witnesses: `_refuted` statements (the code as it stands violates the full statement),
   by vm_compute on the executed instance, and non-vacuity examples for the theorems. *)
From Coq Require Import ZArith QArith Qcanon List Bool Arith Lia.
From PAFC18 Require Import Model Proofs Proofs2 Machine.
Import ListNotations.
Local Close Scope Qc_scope.
Local Close Scope Q_scope.
Local Open Scope nat_scope.

Definition n2_eqb (a b : N2) : bool :=
  Qeq_bool (this (fst a)) (this (fst b)) && Qeq_bool (this (snd a)) (this (snd b)).
Lemma n2_eqb_refl a : n2_eqb a a = true.
Proof. unfold n2_eqb. rewrite !Qeq_bool_refl. reflexivity. Qed.
Lemma n2_neq a b : n2_eqb a b = false -> a <> b.
Proof. intros H E. subst. rewrite n2_eqb_refl in H. discriminate. Qed.
Definition differs (o : option N2) (p : N2) : bool :=
  match o with Some c => negb (n2_eqb c p) | None => true end.
Lemma differs_neq o p : differs o p = true -> o <> Some p.
Proof.
  destruct o as [c|]; simpl; intros H E; [|discriminate].
  injection E as ->. rewrite n2_eqb_refl in H. discriminate.
Qed.

Notation N x y := (nat_of (x%Q, y%Q)).
Notation ninit := (init_state N2 n_scale).
Notation nstep := (step N2 n_add n_opp n_scale n_valid).
Notation nget := (get N2).

(* ---- the user's prior N(0, 4) used twice inside ONE factor's model: the code counts 3
        (2 occurrences + the prior factor), each message is prior^(1/2), and the cavity of
        the analysis factor is prior^(1/2) (sigma 5.66), not the prior ---- *)
Definition w_priors : nmf := [(0, N 0 4)].
Lemma init_cavity_refuted_w :
  pf_ok [[0; 0]] [0] = true /\ 0 < length (graph_factors true [[0; 0]] [0])
  /\ In 0 (nth 0 (graph_factors true [[0; 0]] [0]) [])
  /\ nget 0 (n_cavity 0 (ninit true true [[0; 0]] [0] w_priors n_zero)) <> Some (prior_of N2 w_priors 0 n_zero).
Proof.
  repeat split; try (vm_compute; auto; lia).
  apply differs_neq. vm_compute. reflexivity.
Qed.
Theorem init_cavity_refuted :
  exists fs pf priors i v,
    pf_ok fs pf = true /\ i < length (graph_factors true fs pf) /\ In v (nth i (graph_factors true fs pf) [])
    /\ nget v (n_cavity i (ninit true true fs pf priors n_zero)) <> Some (prior_of N2 priors v n_zero).
Proof. exists [[0; 0]], [0], w_priors, 0, 0. exact init_cavity_refuted_w. Qed.
(* the same graph under the repaired count: the cavity is the prior *)
Example init_cavity_fixed_on_witness :
  differs (nget 0 (n_cavity 0 (ninit false true [[0; 0]] [0] w_priors n_zero))) (prior_of N2 w_priors 0 n_zero) = false.
Proof. vm_compute. reflexivity. Qed.

(* ---- include_prior_factors = False and a prior owned by a single factor: no cavity at all ---- *)
Theorem init_cavity_without_prior_factors_refuted :
  exists fs priors i v,
    i < length (graph_factors false fs []) /\ In v (nth i (graph_factors false fs []) [])
    /\ nget v (n_cavity i (ninit true false fs [] priors n_zero)) <> Some (prior_of N2 priors v n_zero).
Proof.
  exists [[0]], w_priors, 0, 0. repeat split; try (vm_compute; auto; lia).
  vm_compute. discriminate.
Qed.

Theorem init_cavity_without_prior_factors_current_refuted :
  exists fs priors i v,
    i < length (graph_factors false fs []) /\ In v (nth i (graph_factors false fs []) [])
    /\ nget v (n_cavity i (ninit code_counts_occurrences false fs [] priors n_zero)) <> Some (prior_of N2 priors v n_zero).
Proof.
  exists [[0]], w_priors, 0, 0. repeat split; try (vm_compute; auto; lia).
  vm_compute. discriminate.
Qed.
(* include_prior_factors = False but the prior is shared by two factors: the hypothesis of init_cavity_current holds *)
Example init_current_nonvacuous :
  2 <= length (filter (has_var 0) [[0; 1]; [0]])
  /\ differs (nget 0 (n_cavity 1 (ninit code_counts_occurrences false [[0; 1]; [0]] [] [(0, N 0 4); (1, N 1 2)] n_zero))) (N 0 4) = false.
Proof. split; vm_compute; [lia|reflexivity]. Qed.

(* ---- latest_result: two successful optimisations with results 1 then 2: the code returns 1 ---- *)
Definition h_ok (t : Z) : hentry N2 := {| h_success := true; h_updated := true; h_token := Some t; h_state := [] |}.
Theorem latest_result_refuted :
  exists h : list (hentry N2),
    latest_result N2 true h <>
    match latest_successful N2 h with Some k => Some (h_token (nth k h (h_ok 0))) | None => None end.
Proof. exists [h_ok 1; h_ok 2]. vm_compute. discriminate. Qed.
Example latest_result_partial_nonvacuous : length (filter (@h_success N2) [h_ok 1]) <= 1.
Proof. vm_compute. lia. Qed.

(* ---- per-variable damping with delta = 1 for a variable (DynamicUpdater gives the least shared
        variables delta0 * 1): the projection new/cavity is a proper distribution, but the message
        is not updated and the global approximation does not become the fitted distribution ---- *)
Definition w_state : nstate := [[(0, N 0 1); (1, N 1 2)]; [(1, N (1#2) 1); (2, N 2 (1#2))]; [(0, N (-1) 4)]].
Definition w_new : nmf := [(1, N (1#4) (1#2)); (2, N 1 (1#4))].
Theorem per_variable_delta_one_refuted :
  exists (st : nstate) i dl v nw,
    i < length st /\ In v (keys N2 (own N2 i st)) /\ is_pervar dl = true
    /\ delta_at dl v = Q2Qc 1
    /\ n_valid (full_cand N2 n_add n_opp nw (nget v (n_cavity i st))) = true
    /\ cand_valid N2 n_valid (cand_v N2 n_add n_opp n_scale false dl (n_cavity i st) (own N2 i st) v nw) = false
    /\ cand_valid N2 n_valid (cand_v N2 n_add n_opp n_scale true dl (n_cavity i st) (own N2 i st) v nw) = true.
Proof.
  exists w_state, 1, (dynamic_delta N2 (Q2Qc 1) w_state), 2, (N 1 (1#4)).
  repeat split; try (vm_compute; auto; lia).
Qed.
(* with a scalar delta = 1 the same update is exact (non-vacuity of update_exact) *)
Example update_exact_nonvacuous :
  1 < length w_state /\ is_full (DScalar (Q2Qc 1)) = true /\ nget 2 w_new = Some (N 1 (1#4))
  /\ In 2 (keys N2 (own N2 1 w_state))
  /\ n_valid (full_cand N2 n_add n_opp (N 1 (1#4)) (nget 2 (n_cavity 1 w_state))) = true
  /\ differs (nget 2 (n_global (nstep 1 (DScalar (Q2Qc 1)) w_new w_state))) (N 1 (1#4)) = false
  /\ differs (nget 1 (n_global (nstep 1 (DScalar (Q2Qc 1)) w_new w_state))) (N (1#4) (1#2)) = false.
Proof. repeat split; try (vm_compute; auto; lia). Qed.

(* damped: hypotheses of update_damped are satisfiable *)
Example update_damped_nonvacuous :
  is_full (DScalar (Q2Qc (1#2))) = false
  /\ cand_valid N2 n_valid (cand N2 n_add n_opp n_scale (DScalar (Q2Qc (1#2))) (n_cavity 1 w_state) (own N2 1 w_state) 1 (N (1#4) (1#2))) = true.
Proof. split; vm_compute; reflexivity. Qed.

(* an improper projection (new precision below the cavity precision): hypotheses of update_invalid_keeps *)
Example update_invalid_nonvacuous :
  cand_valid N2 n_valid (cand N2 n_add n_opp n_scale (DScalar (Q2Qc 1)) (n_cavity 1 w_state) (own N2 1 w_state) 1 (N (1#4) 4)) = false.
Proof. vm_compute. reflexivity. Qed.

(* ---- a stale approximation (ParallelEPOptimiser: all approximations are computed before the
        sweep's updates are applied): after factor 0 has been updated, projecting factor 1 against
        the cavity computed BEFORE that update does not make the global approximation equal the
        fitted distribution ---- *)
Definition w_new0 : nmf := [(0, N 0 (1#2)); (1, N 2 (1#2))].
Theorem stale_update_not_exact :
  exists (st : nstate) new0 new1 v nw,
    nget v new1 = Some nw /\
    let st1 := nstep 0 (DScalar (Q2Qc 1)) new0 st in
    let stale := n_project 1 (DScalar (Q2Qc 1)) (n_cavity 1 st) (own N2 1 st) new1 st1 in
    nget v (n_global (nstep 1 (DScalar (Q2Qc 1)) new1 st1)) = Some nw /\ nget v (n_global stale) <> Some nw.
Proof.
  exists w_state, w_new0, w_new, 1, (N (1#4) (1#2)). split; [reflexivity|]. split.
  - assert (H : differs (nget 1 (n_global (nstep 1 (DScalar (Q2Qc 1)) w_new (nstep 0 (DScalar (Q2Qc 1)) w_new0 w_state)))) (N (1#4) (1#2)) = false)
      by (vm_compute; reflexivity).
    destruct (nget 1 _) as [c|] eqn:E; [|discriminate]. simpl in H.
    apply negb_false_iff in H. unfold n2_eqb in H. apply andb_true_iff in H. destruct H as [H1 H2].
    apply Qeq_bool_iff in H1, H2. f_equal. destruct c as [c1 c2]. unfold nat_of. simpl in *. f_equal; apply Qc_is_canon; assumption.
  - apply differs_neq. vm_compute. reflexivity.
Qed.

(* ---- the executed run: a 2-sweep schedule with a failure and an early stop ---- *)
Example run_example :
  let sc := [[OFit true 10 [(0, N 0 (1#2)); (1, N 2 (1#2))]; OFit true 11 [(0, N 0 (1#4)); (1, N 2 (1#4))]];
             [ORaise; OFit true 21 w_new]; [OFit false 30 [(0, N 1 (1#4))]; OFit true 31 [(0, N 1 (1#8))]]] in
  let r := run N2 n_add n_opp n_scale n_valid 2 (DScalar (Q2Qc 1)) sc (Some (0, 2)) [0; 1; 2] w_state [] in
  map fst (snd r) = [0; 1; 2; 0]
  /\ map (fun e => h_success (snd e)) (snd r) = [true; false; false; true]
  /\ latest_result N2 true (history_of N2 0 (snd r)) = Some (Some 10%Z)
  /\ latest_result N2 false (history_of N2 0 (snd r)) = Some (Some 11%Z)
  /\ latest_successful N2 (history_of N2 0 (snd r)) = Some 1
  /\ latest_successful N2 (history_of N2 2 (snd r)) = None.
Proof. vm_compute. repeat split. Qed.

Example init_partial_nonvacuous :
  pf_ok [[0; 1]; [1; 2]] [2; 1; 0] = true /\ (forall f, In f [[0; 1]; [1; 2]] -> count_in 1 f <= 1).
Proof.
  split; [vm_compute; reflexivity|]. intros f [<-|[<-|[]]]; vm_compute; lia.
Qed.

(* ---- subset of a plated graph where factor 0 alone owns the plate-free variable 8 (batch of 2 out of 3):
        the hypotheses of sub_cavity_single_owner hold, and the code now reports own^(1/3) as its cavity ---- *)
Definition w_sub : nstate := [[(0, N 0 1); (2, N 1 2); (8, N 1 2)]; [(0, N (1#2) 1); (2, N 0 1)]].
Example subset_single_owner_nonvacuous :
  nget 8 (n_cavity 0 w_sub) = None
  /\ qclt (scale_in (2#3) [8] (own N2 0 w_sub) 8) (Q2Qc 1) = true
  /\ differs (nget 8 (sub_cavity (2#3) [8] 0 w_sub)) (n_scale (Q2Qc (1#3)) (N 1 2)) = false.
Proof. repeat split; vm_compute; reflexivity. Qed.

(* ---- Machine.v: non-vacuity ---- *)
(* a sound policy exists and the machine really answers: append, read, append (a failure), read, append, read *)
Definition e_fail : hentry N2 := {| h_success := false; h_updated := true; h_token := None; h_state := [] |}.
Example accessor_machine_runs :
  run_ops (hentry N2) (option nat) (latest_successful N2) nat (@length _) Nat.eqb (fresh_obj _ _ _)
          [Read _; Append _ (e_ok 1); Read _; Read _; Append _ e_fail; Read _; Append _ (e_ok 2); Read _]
  = [None; Some 0; Some 0; Some 0; Some 2].
Proof. vm_compute. reflexivity. Qed.
Example accessor_policy_sound_nonvacuous :
  sound_policy (hentry N2) (option nat) (latest_successful N2) nat (@length _) Nat.eqb.
Proof. apply length_key_sound. Qed.
(* run(1) then run(2) = run(3) on a concrete two-factor graph, and the run does produce entries *)
Definition w_st : nstate := in_state [[(0, ((1 # 1)%Q, (2 # 1)%Q))]; [(0, ((0 # 1)%Q, (1 # 1)%Q))]].
Definition w_sc : list (list ofit) :=
  [[@OFit N2 true 1%Z (in_mf [(0, ((1 # 1)%Q, (1 # 2)%Q))]); @OFit N2 true 2%Z (in_mf [(0, ((1 # 1)%Q, (1 # 4)%Q))]); @OFit N2 true 3%Z (in_mf [(0, ((2 # 1)%Q, (1 # 8)%Q))])];
   [@OFit N2 true 4%Z (in_mf [(0, ((0 # 1)%Q, (1 # 2)%Q))]); @ORaise N2; @OFit N2 true 5%Z (in_mf [(0, ((3 # 1)%Q, (1 # 16)%Q))])]].
Definition w_run (n : nat) st log := run N2 n_add n_opp n_scale n_valid n (DScalar (Q2Qc 1)) w_sc None [0; 1] st log.
Example run_twice_nonvacuous :
  length (snd (w_run 3 w_st [])) = 6
  /\ length (snd (w_run 1 w_st [])) = 2
  /\ map fst (snd (w_run 2 (fst (w_run 1 w_st [])) (snd (w_run 1 w_st [])))) = [0; 1; 0; 1; 0; 1].
Proof. vm_compute. repeat split; reflexivity. Qed.
