(* C18 lemmas, part 2: declarative initial state, history accessors, EPOptimiser.run. *)
From Coq Require Import ZArith QArith Qcanon List Bool Arith Lia Permutation.
From PAFC18 Require Import Model Proofs.
Import ListNotations.
Local Close Scope Qc_scope.
Local Close Scope Q_scope.
Local Open Scope nat_scope.

(* ---------- counting ---------- *)
Lemma filter_remove_nth_length {A} (p : A -> bool) (i : nat) (d : A) (l : list A) :
  i < length l -> p (nth i l d) = true ->
  S (length (filter p (remove_nth i l))) = length (filter p l).
Proof.
  revert i. induction l as [|x l IH]; intros [|i] Hi Hp; simpl in *; try lia.
  - rewrite Hp. reflexivity.
  - destruct (p x); simpl; rewrite <- (IH i) by (try lia; exact Hp); reflexivity.
Qed.

Lemma filter_app_length {A} (p : A -> bool) (a b : list A) :
  length (filter p (a ++ b)) = length (filter p a) + length (filter p b).
Proof. rewrite filter_app, app_length. reflexivity. Qed.

Lemma count_nodup_factors (v : var) (fs : list (list var)) :
  length (filter (has_var v) (map (nodup Nat.eq_dec) fs)) = length (filter (has_var v) fs).
Proof.
  induction fs as [|f fs IH]; simpl; [reflexivity|].
  rewrite has_var_nodup. destruct (has_var v f); simpl; rewrite IH; reflexivity.
Qed.

Lemma count_singletons (v : var) (pf : list var) :
  length (filter (has_var v) (map (fun w => [w]) pf)) = count_in v pf.
Proof.
  unfold count_in. induction pf as [|w pf IH]; simpl; [reflexivity|].
  rewrite orb_false_r. destruct (Nat.eqb v w); simpl; rewrite IH; reflexivity.
Qed.

Lemma nodupb_NoDup (l : list var) : nodupb l = true -> NoDup l.
Proof.
  induction l as [|x l IH]; simpl; intro H; [constructor|].
  apply andb_true_iff in H. destruct H as [H1 H2]. constructor; [|apply IH; exact H2].
  apply has_var_false. apply negb_true_iff. exact H1.
Qed.

Lemma count_in_notin (v : var) (l : list var) : ~ In v l -> count_in v l = 0.
Proof.
  unfold count_in. induction l as [|x l IH]; simpl; intro H; [reflexivity|].
  destruct (Nat.eqb v x) eqn:E.
  - apply Nat.eqb_eq in E. exfalso. apply H. left. congruence.
  - apply IH. tauto.
Qed.

Lemma count_in_nodup_in (v : var) (l : list var) : NoDup l -> In v l -> count_in v l = 1.
Proof.
  induction 1 as [|x l Hx Hn IH]; intro Hv; [destruct Hv|].
  unfold count_in in *. simpl. destruct (Nat.eqb v x) eqn:E.
  - apply Nat.eqb_eq in E. subst x. simpl. f_equal. apply (count_in_notin v l Hx).
  - apply IH. destruct Hv as [->|Hv]; [rewrite Nat.eqb_refl in E; discriminate|exact Hv].
Qed.

Lemma count_in_app (v : var) (a b : list var) : count_in v (a ++ b) = count_in v a + count_in v b.
Proof. unfold count_in. rewrite filter_app, app_length. reflexivity. Qed.

Lemma count_in_pos (v : var) (l : list var) : In v l -> 1 <= count_in v l.
Proof.
  unfold count_in. induction l as [|x l IH]; intro H; [destruct H|]. simpl.
  destruct (Nat.eqb v x) eqn:E; simpl; [lia|].
  apply IH. destruct H as [->|H]; [rewrite Nat.eqb_refl in E; discriminate|exact H].
Qed.

(* when no factor lists the prior twice, occurrences = factors *)
Lemma count_occurrences_no_dup (v : var) (fs : list (list var)) :
  (forall f, In f fs -> count_in v f <= 1) ->
  count_in v (concat fs) = length (filter (has_var v) fs).
Proof.
  induction fs as [|f fs IH]; intro H; [reflexivity|]. simpl.
  rewrite count_in_app, IH by (intros g Hg; apply H; right; exact Hg).
  assert (Hf := H f (or_introl eq_refl)).
  destruct (has_var v f) eqn:E; simpl.
  - apply has_var_In, count_in_pos in E. lia.
  - apply has_var_false, count_in_notin in E. lia.
Qed.

Lemma factors_with_var_pos (v : var) (fs : list (list var)) :
  In v (concat fs) -> 1 <= length (filter (has_var v) fs).
Proof.
  induction fs as [|f fs IH]; simpl; intro H; [destruct H|].
  apply in_app_or in H. destruct (has_var v f) eqn:E; simpl; [lia|].
  destruct H as [H|H]; [apply has_var_In in H; congruence|apply IH; exact H].
Qed.

Lemma forallb_has_var (l m : list var) : forallb (fun v => has_var v m) l = true -> forall v, In v l -> In v m.
Proof. intros H v Hv. rewrite forallb_forall in H. apply has_var_In. apply H. exact Hv. Qed.

(* ---------- Qc: k * (1/k) = 1 ---------- *)
Fixpoint qnat (k : nat) : Qc := match k with O => Q2Qc 0 | S k' => (Q2Qc 1 + qnat k')%Qc end.

Lemma qnat_inject (k : nat) : qnat k = Q2Qc (inject_Z (Z.of_nat k)).
Proof.
  induction k as [|k IH]; [reflexivity|].
  change (qnat (S k)) with (Q2Qc 1 + qnat k)%Qc. rewrite IH.
  apply Qc_is_canon. unfold Qcplus. cbn [this Q2Qc]. rewrite !Qred_correct.
  rewrite Nat2Z.inj_succ. unfold Z.succ. rewrite inject_Z_plus. ring.
Qed.

Lemma qnat_inv (k : nat) : 1 <= k -> (qnat k * Q2Qc (1 # Pos.of_nat k))%Qc = Q2Qc 1.
Proof.
  intro Hk. rewrite qnat_inject. apply Qc_is_canon. unfold Qcmult. cbn [this Q2Qc].
  rewrite !Qred_correct. unfold inject_Z, Qeq, Qmult. cbn [Qnum Qden].
  rewrite Pos.mul_1_l.
  assert (E : Z.pos (Pos.of_nat k) = Z.of_nat k).
  { destruct k as [|k]; [lia|]. rewrite <- Pos.of_nat_succ, Zpos_P_of_succ_nat, Nat2Z.inj_succ. reflexivity. }
  rewrite E. ring.
Qed.

Section Init.
  Variable G : Type.
  Variable gadd : G -> G -> G.
  Variable gopp : G -> G.
  Variable gzero : G.
  Variable gscale : Qc -> G -> G.
  Hypothesis GL : group_laws G gadd gopp gzero.
  Hypothesis ML : module_laws G gadd gscale.

  Notation mf := (mf G).
  Notation get := (get G).
  Notation omul := (omul G gadd).
  Notation prod_at := (prod_at G gadd).
  Notation cavity := (cavity G gadd).
  Notation own := (own G).
  Notation init_state := (init_state G gscale).
  Notation init_msg := (init_msg G gscale).

  Fixpoint ntimes (k : nat) (x : G) : option G :=
    match k with O => None | S k' => omul (Some x) (ntimes k' x) end.

  Lemma ntimes_scale k q x : 1 <= k -> ntimes k (gscale q x) = Some (gscale (qnat k * q)%Qc x).
  Proof.
    induction k as [|k IH]; intro Hk; [lia|].
    destruct k as [|k].
    - change (ntimes 1 (gscale q x)) with (Some (gscale q x)). f_equal. f_equal.
      change (qnat 1) with (Q2Qc 1 + Q2Qc 0)%Qc. rewrite Qcplus_0_r, Qcmult_1_l. reflexivity.
    - change (ntimes (S (S k)) (gscale q x)) with (omul (Some (gscale q x)) (ntimes (S k) (gscale q x))).
      rewrite IH by lia. unfold Model.omul. f_equal.
      rewrite <- (m_add_l _ _ _ ML). f_equal.
      change (qnat (S (S k))) with (Q2Qc 1 + qnat (S k))%Qc.
      rewrite Qcmult_plus_distr_l, Qcmult_1_l. reflexivity.
  Qed.

  Definition mk_mf (msg : var -> G) (f : list var) : mf := map (fun w => (w, msg w)) f.

  Lemma get_mk_mf msg f v : get v (mk_mf msg f) = if has_var v f then Some (msg v) else None.
  Proof.
    unfold mk_mf. induction f as [|w f IH]; simpl; [reflexivity|].
    rewrite (Nat.eqb_sym v w). destruct (Nat.eqb w v) eqn:E; simpl; [|exact IH].
    apply Nat.eqb_eq in E. subst. reflexivity.
  Qed.

  Lemma keys_mk_mf msg f : keys G (mk_mf msg f) = f.
  Proof. unfold mk_mf, keys. rewrite map_map. simpl. apply map_id. Qed.

  Lemma prod_at_mk msg v fs :
    prod_at v None (map (mk_mf msg) fs) = ntimes (length (filter (has_var v) fs)) (msg v).
  Proof.
    induction fs as [|f fs IH]; [reflexivity|].
    simpl map. rewrite (prod_at_cons G gadd gopp gzero GL), get_mk_mf, IH. simpl filter.
    destruct (has_var v f); [reflexivity|].
    destruct (ntimes _ _); reflexivity.
  Qed.

  (* the general statement: whenever the count used for the exponent is the number of graph
     factors that contain the prior, and that is at least 2, every cavity is the prior *)
  Lemma init_cavity_general occ include fs pf priors dflt i v :
    let gfs := graph_factors include fs pf in
    i < length gfs -> In v (nth i gfs []) ->
    prior_count occ include fs v = length (filter (has_var v) gfs) ->
    2 <= length (filter (has_var v) gfs) ->
    get v (cavity i (init_state occ include fs pf priors dflt)) = Some (prior_of G priors v dflt).
  Proof.
    intros gfs Hi Hv Hc H2.
    set (msg := init_msg occ include fs priors dflt).
    assert (Est : init_state occ include fs pf priors dflt = map (mk_mf msg) gfs) by reflexivity.
    rewrite Est. rewrite (cavity_get G gadd).
    assert (Eown : own i (map (mk_mf msg) gfs) = mk_mf msg (nth i gfs [])).
    { unfold Model.own. change (@nil (var * G)) with (mk_mf msg []). apply map_nth. }
    rewrite Eown, keys_mk_mf. apply has_var_In in Hv. rewrite Hv.
    rewrite remove_nth_map, prod_at_mk.
    pose proof (filter_remove_nth_length (has_var v) i [] gfs Hi Hv) as Hk.
    set (k := length (filter (has_var v) (remove_nth i gfs))) in *.
    assert (Hmsg : msg v = gscale (Q2Qc (1 # Pos.of_nat k)) (prior_of G priors v dflt)).
    { unfold msg, Model.init_msg. rewrite Hc, <- Hk.
      destruct (Nat.ltb 1 (S k)) eqn:E; [|apply Nat.ltb_ge in E; lia].
      replace (S k - 1) with k by lia. reflexivity. }
    rewrite Hmsg, ntimes_scale by lia. f_equal.
    rewrite qnat_inv by lia. apply (m_one _ _ _ ML).
  Qed.

  Lemma graph_count include fs pf v :
    length (filter (has_var v) (graph_factors include fs pf)) =
    length (filter (has_var v) fs) + (if include then count_in v pf else 0).
  Proof.
    unfold graph_factors. rewrite filter_app_length, count_nodup_factors.
    destruct include; [rewrite count_singletons|]; reflexivity.
  Qed.

  Lemma in_graph_in_concat include fs pf i v :
    (include = true -> pf_ok fs pf = true) ->
    i < length (graph_factors include fs pf) -> In v (nth i (graph_factors include fs pf) []) ->
    In v (concat fs).
  Proof.
    intros Hpf Hi Hv. assert (Hin : In (nth i (graph_factors include fs pf) []) (graph_factors include fs pf))
      by (apply nth_In; exact Hi).
    remember (nth i (graph_factors include fs pf) []) as f0 eqn:Ef0. clear Ef0 Hi.
    unfold graph_factors in Hin. apply in_app_or in Hin. destruct Hin as [Hin|Hin].
    - apply in_map_iff in Hin. destruct Hin as [f [Ef Hf]]. rewrite <- Ef in Hv.
      apply nodup_In in Hv. apply in_concat. exists f. split; assumption.
    - destruct include; [|destruct Hin]. specialize (Hpf eq_refl).
      apply in_map_iff in Hin. destruct Hin as [w [Ew Hw]]. rewrite <- Ew in Hv.
      destruct Hv as [<-|[]]. unfold pf_ok in Hpf. apply andb_true_iff in Hpf. destruct Hpf as [_ H3].
      apply (forallb_has_var pf (concat fs) H3). exact Hw.
  Qed.

  Lemma pf_count fs pf v : pf_ok fs pf = true -> In v (concat fs) -> count_in v pf = 1.
  Proof.
    intros H Hv. unfold pf_ok in H. apply andb_true_iff in H. destruct H as [H _].
    apply andb_true_iff in H. destruct H as [H1 H2].
    apply count_in_nodup_in; [apply nodupb_NoDup; exact H1|].
    apply (forallb_has_var (concat fs) pf H2). exact Hv.
  Qed.

  (* counting FACTORS (the documented meaning / proposed repair), with prior factors: every
     cavity of every factor for every variable is the user's prior, for every sharing pattern *)
  Theorem init_cavity_fixed fs pf priors dflt i v :
    pf_ok fs pf = true ->
    i < length (graph_factors true fs pf) -> In v (nth i (graph_factors true fs pf) []) ->
    get v (cavity i (init_state false true fs pf priors dflt)) = Some (prior_of G priors v dflt).
  Proof.
    intros Hpf Hi Hv.
    assert (Hc : In v (concat fs)) by (apply (in_graph_in_concat true fs pf i v (fun _ => Hpf) Hi Hv)).
    apply init_cavity_general; auto.
    - rewrite graph_count, (pf_count fs pf v Hpf Hc). unfold prior_count. reflexivity.
    - rewrite graph_count, (pf_count fs pf v Hpf Hc). apply factors_with_var_pos in Hc. lia.
  Qed.

  (* the code as it stands (counting occurrences): the statement holds for a variable that no
     factor lists twice and that either has a prior factor or is shared by two factors *)
  Theorem init_cavity_partial include fs pf priors dflt i v :
    (include = true -> pf_ok fs pf = true) ->
    i < length (graph_factors include fs pf) -> In v (nth i (graph_factors include fs pf) []) ->
    (forall f, In f fs -> count_in v f <= 1) ->
    (include = true \/ 2 <= length (filter (has_var v) fs)) ->
    get v (cavity i (init_state true include fs pf priors dflt)) = Some (prior_of G priors v dflt).
  Proof.
    intros Hpf Hi Hv Hnd Hsh.
    assert (Hc : In v (concat fs)) by (apply (in_graph_in_concat include fs pf i v Hpf Hi Hv)).
    apply init_cavity_general; auto.
    - rewrite graph_count. unfold prior_count. rewrite (count_occurrences_no_dup v fs Hnd).
      destruct include; [rewrite (pf_count fs pf v (Hpf eq_refl) Hc)|]; reflexivity.
    - rewrite graph_count. destruct include.
      + rewrite (pf_count fs pf v (Hpf eq_refl) Hc). apply factors_with_var_pos in Hc. lia.
      + destruct Hsh as [H|H]; [discriminate|lia].
  Qed.

  (* counting factors, with or without prior factors: what the code does now *)
  Theorem init_cavity_factors include fs pf priors dflt i v :
    (include = true -> pf_ok fs pf = true) ->
    i < length (graph_factors include fs pf) -> In v (nth i (graph_factors include fs pf) []) ->
    (include = true \/ 2 <= length (filter (has_var v) fs)) ->
    get v (cavity i (init_state false include fs pf priors dflt)) = Some (prior_of G priors v dflt).
  Proof.
    intros Hpf Hi Hv Hsh.
    assert (Hc : In v (concat fs)) by (apply (in_graph_in_concat include fs pf i v Hpf Hi Hv)).
    apply init_cavity_general; auto.
    - rewrite graph_count. unfold prior_count.
      destruct include; [rewrite (pf_count fs pf v (Hpf eq_refl) Hc)|]; reflexivity.
    - rewrite graph_count. destruct include.
      + rewrite (pf_count fs pf v (Hpf eq_refl) Hc). apply factors_with_var_pos in Hc. lia.
      + destruct Hsh as [H|H]; [discriminate|lia].
  Qed.

  Theorem init_cavity_current include fs pf priors dflt i v :
    (include = true -> pf_ok fs pf = true) ->
    i < length (graph_factors include fs pf) -> In v (nth i (graph_factors include fs pf) []) ->
    (include = true \/ 2 <= length (filter (has_var v) fs)) ->
    get v (cavity i (init_state code_counts_occurrences include fs pf priors dflt)) = Some (prior_of G priors v dflt).
  Proof. exact (init_cavity_factors include fs pf priors dflt i v). Qed.
End Init.

(* ---------- history accessors ---------- *)
Section History.
  Variable G : Type.
  Notation hentry := (hentry G).

  Lemma positions_app (p : hentry -> bool) k (a b : list hentry) :
    positions G p k (a ++ b) = positions G p k a ++ positions G p (k + length a) b.
  Proof.
    revert k. induction a as [|e a IH]; intro k; simpl.
    - rewrite Nat.add_0_r. reflexivity.
    - rewrite IH. replace (S k + length a) with (k + S (length a)) by lia.
      destruct (p e); reflexivity.
  Qed.

  Lemma last_opt_snoc {A} (l : list A) (x : A) : last_opt (l ++ [x]) = Some x.
  Proof. unfold last_opt. rewrite rev_unit. reflexivity. Qed.

  Definition latest_pos (p : hentry -> bool) (h : list hentry) : option nat := last_opt (positions G p 0 h).

  (* appending an entry: it becomes the latest iff it satisfies p *)
  Lemma latest_pos_snoc p h e :
    latest_pos p (h ++ [e]) = if p e then Some (length h) else latest_pos p h.
  Proof.
    unfold latest_pos. rewrite positions_app. simpl.
    destruct (p e); [apply last_opt_snoc|rewrite app_nil_r; reflexivity].
  Qed.

  (* "the most recent entry satisfying p": position k satisfies p and nothing after it does *)
  Theorem latest_pos_spec p h d :
    match latest_pos p h with
    | Some k => k < length h /\ p (nth k h d) = true /\ (forall j, k < j < length h -> p (nth j h d) = false)
    | None => forall j, j < length h -> p (nth j h d) = false
    end.
  Proof.
    induction h as [|e h IH] using rev_ind.
    - simpl. intros j Hj. lia.
    - rewrite latest_pos_snoc. destruct (p e) eqn:E.
      + rewrite app_length. simpl. repeat split; [lia| |intros j Hj; lia].
        rewrite app_nth2, Nat.sub_diag by lia. exact E.
      + destruct (latest_pos p h) as [k|].
        * destruct IH as [Hk [Hp Hafter]]. rewrite app_length. simpl. repeat split; [lia| |].
          { rewrite app_nth1 by lia. exact Hp. }
          intros j Hj. destruct (Nat.eq_dec j (length h)) as [->|Hne].
          { rewrite app_nth2, Nat.sub_diag by lia. exact E. }
          rewrite app_nth1 by lia. apply Hafter. lia.
        * intros j Hj. rewrite app_length in Hj. simpl in Hj.
          destruct (Nat.eq_dec j (length h)) as [->|Hne].
          { rewrite app_nth2, Nat.sub_diag by lia. exact E. }
          rewrite app_nth1 by lia. apply IH. lia.
  Qed.

  Lemma filter_snoc {A} (p : A -> bool) (l : list A) (x : A) :
    filter p (l ++ [x]) = if p x then filter p l ++ [x] else filter p l.
  Proof. rewrite filter_app. simpl. destruct (p x); [reflexivity|apply app_nil_r]. Qed.

  (* latest_result as documented ([-1]): the result of the most recent successful entry *)
  Theorem latest_result_last_spec h d :
    latest_result G false h =
    match latest_successful G h with Some k => Some (h_token (nth k h d)) | None => None end.
  Proof.
    unfold latest_result, latest_successful. fold (latest_pos h_success h).
    induction h as [|e h IH] using rev_ind; [reflexivity|].
    rewrite latest_pos_snoc, filter_snoc. destruct (h_success e) eqn:E.
    - rewrite map_app. simpl. rewrite last_opt_snoc. rewrite app_nth2, Nat.sub_diag by lia. reflexivity.
    - rewrite IH. destruct (latest_pos h_success h) as [k|] eqn:L; [|reflexivity].
      pose proof (latest_pos_spec h_success h d) as S. rewrite L in S. destruct S as [Hk _].
      rewrite app_nth1 by exact Hk. reflexivity.
  Qed.

  (* latest_result as coded ([0]) agrees with the documented meaning when at most one entry succeeded *)
  Theorem latest_result_first_partial h :
    length (filter h_success h) <= 1 -> latest_result G true h = latest_result G false h.
  Proof.
    unfold latest_result. intro H. destruct (filter h_success h) as [|x [|y l]]; simpl in *; try reflexivity; lia.
  Qed.

  Theorem latest_result_current_spec h d :
    latest_result G code_latest_result_first h =
    match latest_successful G h with Some k => Some (h_token (nth k h d)) | None => None end.
  Proof. exact (latest_result_last_spec h d). Qed.

  (* previous_successful / previous_update: the most recent entry satisfying p BEFORE the latest one *)
  Definition previous_pos (p : hentry -> bool) (h : list hentry) : option nat := last_but_one_opt (positions G p 0 h).

  Lemma last_but_one_snoc {A} (l : list A) (x : A) : last_but_one_opt (l ++ [x]) = last_opt l.
  Proof. unfold last_but_one_opt, last_opt. rewrite rev_unit. destruct (rev l); reflexivity. Qed.

  Lemma previous_pos_snoc p h e :
    previous_pos p (h ++ [e]) = if p e then latest_pos p h else previous_pos p h.
  Proof.
    unfold previous_pos, latest_pos. rewrite positions_app. simpl.
    destruct (p e); [apply last_but_one_snoc|rewrite app_nil_r; reflexivity].
  Qed.

  Theorem previous_pos_spec p h :
    previous_pos p h =
    match latest_pos p h with Some k => latest_pos p (firstn k h) | None => None end.
  Proof.
    induction h as [|e h IH] using rev_ind; [reflexivity|].
    rewrite previous_pos_snoc, latest_pos_snoc. destruct (p e) eqn:E.
    - rewrite firstn_app, Nat.sub_diag, firstn_all. simpl. rewrite app_nil_r. reflexivity.
    - rewrite IH. destruct (latest_pos p h) as [k|] eqn:L; [|reflexivity].
      pose proof (latest_pos_spec p h e) as S. rewrite L in S. destruct S as [Hk _].
      rewrite firstn_app. replace (k - length h) with 0 by lia. simpl. rewrite app_nil_r. reflexivity.
  Qed.

  Lemma all_some_spec {A} (l : list (option A)) :
    match all_some l with
    | Some r => map Some r = l
    | None => In None l
    end.
  Proof.
    induction l as [|[x|] l IH]; simpl; auto.
    destruct (all_some l); simpl; [rewrite IH; reflexivity|right; exact IH].
  Qed.

  Lemma history_of_snoc i j (e : hentry) log :
    history_of G i (log ++ [(j, e)]) = if Nat.eqb j i then history_of G i log ++ [e] else history_of G i log.
  Proof.
    unfold history_of. rewrite filter_app, map_app. simpl.
    destruct (Nat.eqb j i); simpl; [reflexivity|apply app_nil_r].
  Qed.
End History.

(* ---------- EPOptimiser.run: every recorded entry is one `project` of the visited factor ---------- *)
Section Run.
  Variable G : Type.
  Variable gadd : G -> G -> G.
  Variable gopp : G -> G.
  Variable gscale : Qc -> G -> G.
  Variable gvalid : G -> bool.
  Notation state := (state G).
  Notation hentry := (hentry G).
  Notation project := (project G gadd gopp gscale gvalid).
  Notation cavity := (cavity G gadd).
  Notation own := (own G).

  (* ext is a chain of updates leading from st to st' *)
  Fixpoint chain (dl : delta) (st : state) (ext : list (nat * hentry)) (st' : state) : Prop :=
    match ext with
    | [] => st' = st
    | (i, e) :: ext' =>
        (exists new, h_state e = project i dl (cavity i st) (own i st) new st)
        /\ chain dl (h_state e) ext' st'
    end.

  Lemma chain_app dl st a b mid st' : chain dl st a mid -> chain dl mid b st' -> chain dl st (a ++ b) st'.
  Proof.
    revert st. induction a as [|[i e] a IH]; intros st Ha Hb; simpl in *.
    - subst. exact Hb.
    - destruct Ha as [Hn Ha]. split; [exact Hn|]. apply IH; assumption.
  Qed.

  Lemma visit_is_project dl sc i st log :
    exists new, fst (visit G gadd gopp gscale gvalid dl sc i st log) = project i dl (cavity i st) (own i st) new st
                /\ h_state (snd (visit G gadd gopp gscale gvalid dl sc i st log)) =
                   fst (visit G gadd gopp gscale gvalid dl sc i st log).
  Proof.
    unfold visit.
    destruct (nth (visit_count G i log) (nth i sc []) ORaise) as [|s t n].
    - exists (model_dist G gadd i st). split; reflexivity.
    - exists n. split; reflexivity.
  Qed.

  Lemma sweep_chain dl sc stop order st log st' log' b :
    sweep G gadd gopp gscale gvalid dl sc stop order st log = (st', log', b) ->
    exists ext, log' = log ++ ext /\ chain dl st ext st' /\ map fst ext = firstn (length ext) order.
  Proof.
    revert st log. induction order as [|i order IH]; intros st log H; simpl in H.
    - injection H as <- <- _. exists []. rewrite app_nil_r. repeat split.
    - destruct (visit G gadd gopp gscale gvalid dl sc i st log) as [st1 e] eqn:V.
      destruct (visit_is_project dl sc i st log) as [new [P S]]. rewrite V in P, S. simpl in P, S.
      destruct (stops G stop i e (log ++ [(i, e)])).
      + injection H as <- <- _. exists [(i, e)]. split; [reflexivity|]. split; [|reflexivity].
        simpl. split; [exists new; rewrite S; exact P|symmetry; exact S].
      + destruct (IH st1 (log ++ [(i, e)]) H) as [ext [E [C F]]].
        exists ((i, e) :: ext). rewrite E, <- app_assoc. split; [reflexivity|]. split.
        * simpl. split; [exists new; rewrite S; exact P|rewrite S; exact C].
        * simpl. f_equal. exact F.
  Qed.

  Theorem run_chain n dl sc stop order st log st' log' :
    run G gadd gopp gscale gvalid n dl sc stop order st log = (st', log') ->
    exists ext, log' = log ++ ext /\ chain dl st ext st'.
  Proof.
    revert st log. induction n as [|n IH]; intros st log H; simpl in H.
    - injection H as <- <-. exists []. rewrite app_nil_r. split; reflexivity.
    - destruct (sweep G gadd gopp gscale gvalid dl sc stop order st log) as [[st1 log1] b] eqn:S.
      destruct (sweep_chain dl sc stop order st log st1 log1 b S) as [ext1 [E1 [C1 _]]].
      destruct b.
      + injection H as <- <-. exists ext1. split; assumption.
      + destruct (IH st1 log1 H) as [ext2 [E2 C2]].
        exists (ext1 ++ ext2). rewrite E2, E1, app_assoc. split; [reflexivity|].
        apply (chain_app dl st ext1 ext2 st1 st' C1 C2).
  Qed.

  (* hence: a recorded update leaves every other factor's message untouched *)
  Lemma chain_local dl st ext st' : chain dl st ext st' ->
    forall j, (forall x, In x ext -> fst x <> j) -> own j st' = own j st.
  Proof.
    revert st. induction ext as [|[i e] ext IH]; intros st H j Hj; simpl in H.
    - subst. reflexivity.
    - destruct H as [[new Hn] C].
      rewrite (IH _ C j) by (intros x Hx; apply Hj; right; exact Hx).
      rewrite Hn. unfold Model.own, Model.project. apply replace_nth_other.
      apply (Hj (i, e)). left. reflexivity.
  Qed.

  Lemma chain_split dl st a b st' : chain dl st (a ++ b) st' -> exists mid, chain dl st a mid /\ chain dl mid b st'.
  Proof.
    revert st. induction a as [|[i e] a IH]; intros st H; simpl in *.
    - exists st. split; [reflexivity|exact H].
    - destruct H as [Hn H]. destruct (IH _ H) as [mid [A B]]. exists mid. split; [split; assumption|exact B].
  Qed.

  (* the factor's message in the final approximation is the one recorded by its latest entry *)
  Theorem chain_latest_entry dl st a i e b st' :
    chain dl st (a ++ (i, e) :: b) st' -> (forall x, In x b -> fst x <> i) -> own i st' = own i (h_state e).
  Proof.
    intros H Hb. destruct (chain_split dl st a ((i, e) :: b) st' H) as [mid [_ C]].
    simpl in C. destruct C as [_ C]. apply (chain_local dl (h_state e) b st' C i Hb).
  Qed.

  (* what one visit records when the scripted optimiser returns (new, Status(success, result=token)) *)
  Lemma visit_fit dl sc i st log s t n :
    nth (visit_count G i log) (nth i sc []) ORaise = OFit s t n ->
    visit G gadd gopp gscale gvalid dl sc i st log =
    (step G gadd gopp gscale gvalid i dl n st,
     {| h_success := s && all_valid G gadd gopp gscale gvalid dl (cavity i st) (own i st) n;
        h_updated := updated_flag G gadd gopp gscale gvalid dl (cavity i st) (own i st) n;
        h_token := Some t;
        h_state := step G gadd gopp gscale gvalid i dl n st |}).
  Proof. intro H. unfold visit. rewrite H. reflexivity. Qed.

  (* a successful status implies every projection of the visit was proper *)
  Lemma visit_success_all_valid dl sc i st log s t n :
    nth (visit_count G i log) (nth i sc []) ORaise = OFit s t n ->
    h_success (snd (visit G gadd gopp gscale gvalid dl sc i st log)) = true ->
    s = true /\ all_valid G gadd gopp gscale gvalid dl (cavity i st) (own i st) n = true.
  Proof. intros H S. rewrite (visit_fit dl sc i st log s t n H) in S. simpl in S. apply andb_true_iff in S. exact S. Qed.
End Run.

Section RunExact.
  Variable G : Type.
  Variable gadd : G -> G -> G.
  Variable gopp : G -> G.
  Variable gzero : G.
  Variable gscale : Qc -> G -> G.
  Variable gvalid : G -> bool.
  Hypothesis GL : group_laws G gadd gopp gzero.

  Lemma all_valid_get dl cavd last (new : mf G) v nw :
    all_valid G gadd gopp gscale gvalid dl cavd last new = true -> get G v new = Some nw ->
    cand_valid G gvalid (cand G gadd gopp gscale dl cavd last v nw) = true.
  Proof.
    unfold all_valid. induction new as [|[w x] new IH]; simpl; [discriminate|].
    intros H Hg. apply andb_true_iff in H. destruct H as [H1 H2].
    destruct (Nat.eqb w v) eqn:E; [|apply IH; assumption].
    apply Nat.eqb_eq in E. subst w. injection Hg as <-. exact H1.
  Qed.

  (* inside EPOptimiser.run: a visit of factor i with delta >= 1 that is recorded as a success leaves the
     global approximation equal to the distribution the optimiser returned, on every variable of the factor *)
  Theorem visit_exact dl sc i st log s t n v nw :
    i < length st -> is_full dl = true ->
    nth (visit_count G i log) (nth i sc []) ORaise = OFit s t n ->
    h_success (snd (visit G gadd gopp gscale gvalid dl sc i st log)) = true ->
    get G v n = Some nw -> In v (keys G (own G i st)) ->
    get G v (global G gadd (h_state (snd (visit G gadd gopp gscale gvalid dl sc i st log)))) = Some nw
    /\ h_token (snd (visit G gadd gopp gscale gvalid dl sc i st log)) = Some t.
  Proof.
    intros Hi Hf Hs Hok Hn Hv.
    destruct (visit_success_all_valid G gadd gopp gscale gvalid dl sc i st log s t n Hs Hok) as [_ Hall].
    rewrite (visit_fit G gadd gopp gscale gvalid dl sc i st log s t n Hs). simpl. split; [|reflexivity].
    pose proof (all_valid_get dl _ _ n v nw Hall Hn) as Hc.
    unfold cand_valid, cand, cand_v in Hc. rewrite Hf in Hc. simpl in Hc.
    apply (update_exact G gadd gopp gzero gscale gvalid GL i dl n st v nw Hi Hf Hn Hv Hc).
  Qed.
End RunExact.

(* ---------- EPMeanFieldSubset as the code now is (switch code_subset_scalar_paths = true) ---------- *)
Lemma get_only_messages_map (v : var) (F : var * N2 -> option N2) (m : nmf) (o x : N2) :
  get N2 v m = Some o -> F (v, o) = Some x ->
  get N2 v (only_messages N2 (map (fun vm => (fst vm, F vm)) m)) = Some x.
Proof.
  induction m as [|[w g] m IH]; simpl; intros Hg HF; [discriminate|].
  destruct (Nat.eqb w v) eqn:E.
  - apply Nat.eqb_eq in E. subst w. injection Hg as ->. rewrite HF. simpl. rewrite Nat.eqb_refl. reflexivity.
  - destruct (F (w, g)); simpl; [rewrite E|]; apply IH; assumption.
Qed.

Theorem sub_cavity_single_owner (frac : Q) (scalars : list var) (i : nat) (sst : nstate) (v : var) (o : N2) :
  get N2 v (own N2 i sst) = Some o -> get N2 v (n_cavity i sst) = None ->
  qclt (scale_in frac scalars (own N2 i sst) v) (Q2Qc 1) = true ->
  get N2 v (sub_cavity frac scalars i sst) = Some (sub_rest (scale_in frac scalars (own N2 i sst) v) o).
Proof.
  intros Ho Hc Hs. unfold sub_cavity.
  apply (get_only_messages_map v _ (own N2 i sst) o); [exact Ho|].
  simpl. rewrite Hc, Hs. reflexivity.
Qed.
