(* C18, objects used twice.
   (1) A FactorHistory object whose accessor (latest_successful, previous_update, latest_result, ...) may be
       memoised: a state machine with an explicit cache policy (what the memo is keyed on).  For EVERY policy
       that is sound along an append-only history, every read after any interleaving of appends and reads
       returns what a fresh object holding the same history returns; the `cached_property` policy (a key that
       never changes) is refuted.
   (2) One EPOptimiser used twice: run(a) followed by run(b) on what the first call returned, with the same
       history, is one run of a + b sweeps (no callback stop); what the optimiser answers depends on the
       approximation and the history it is handed, not on how many calls produced them. *)
From Coq Require Import ZArith QArith Qcanon List Bool Arith Lia.
From PAFC18 Require Import Model.
Import ListNotations.
Local Close Scope Qc_scope.
Local Close Scope Q_scope.
Local Open Scope nat_scope.

Section AccessorMachine.
  Variable E : Type.            (* history entries (approximation, status) *)
  Variable A : Type.            (* answers of the accessor *)
  Variable f : list E -> A.     (* the accessor computed from scratch: a fresh object's answer *)
  Variable K : Type.            (* what a memo is keyed on *)
  Variable key : list E -> K.
  Variable keq : K -> K -> bool.

  Inductive op := Append (e : E) | Read.
  Record obj := { hist : list E; memo : option (K * A) }.
  Definition fresh_obj : obj := {| hist := []; memo := None |}.

  Definition read (o : obj) : obj * A :=
    let recompute := let a := f (hist o) in ({| hist := hist o; memo := Some (key (hist o), a) |}, a) in
    match memo o with
    | Some (k, a) => if keq k (key (hist o)) then (o, a) else recompute
    | None => recompute
    end.

  Fixpoint run_ops (o : obj) (ops : list op) : list A :=
    match ops with
    | [] => []
    | Append e :: r => run_ops {| hist := hist o ++ [e]; memo := memo o |} r
    | Read :: r => let '(o', a) := read o in a :: run_ops o' r
    end.

  (* the reference: no memo at all, every read recomputes from the current history *)
  Fixpoint ref_ops (h : list E) (ops : list op) : list A :=
    match ops with
    | [] => []
    | Append e :: r => ref_ops (h ++ [e]) r
    | Read :: r => f h :: ref_ops h r
    end.

  (* soundness of a policy along an append-only history: a key that did not change while the history grew
     guarantees an unchanged answer *)
  Definition sound_policy : Prop :=
    forall h ext, keq (key h) (key (h ++ ext)) = true -> f h = f (h ++ ext).

  Definition coherent (o : obj) : Prop :=
    match memo o with
    | Some (k, a) => exists h0 ext, hist o = h0 ++ ext /\ k = key h0 /\ a = f h0
    | None => True
    end.

  Lemma read_spec (S : sound_policy) (o : obj) :
    coherent o -> snd (read o) = f (hist o) /\ hist (fst (read o)) = hist o /\ coherent (fst (read o)).
  Proof.
    intros C. unfold read. destruct (memo o) as [[k a]|] eqn:M.
    - destruct (keq k (key (hist o))) eqn:Hk; simpl.
      + unfold coherent in C. rewrite M in C. destruct C as [h0 [ext [Hh [-> ->]]]].
        split; [|split; [reflexivity|]].
        * rewrite Hh. apply S. rewrite <- Hh. exact Hk.
        * unfold coherent. rewrite M. exists h0, ext. auto.
      + split; [reflexivity|split; [reflexivity|]].
        unfold coherent; simpl. exists (hist o), []. rewrite app_nil_r. auto.
    - simpl. split; [reflexivity|split; [reflexivity|]].
      unfold coherent; simpl. exists (hist o), []. rewrite app_nil_r. auto.
  Qed.

  Lemma run_ops_ref (S : sound_policy) (ops : list op) :
    forall o, coherent o -> run_ops o ops = ref_ops (hist o) ops.
  Proof.
    induction ops as [|x ops IH]; intros o C; simpl; [reflexivity|].
    destruct x as [e|].
    - rewrite IH; [reflexivity|].
      unfold coherent in *; simpl. destruct (memo o) as [[k a]|]; [|exact I].
      destruct C as [h0 [ext [Hh [Hk Ha]]]]. exists h0, (ext ++ [e]). rewrite Hh, app_assoc. auto.
    - destruct (read_spec S o C) as [Ha [Hh Hc]].
      destruct (read o) as [o' a] eqn:R. simpl in *. subst a. rewrite (IH o' Hc), Hh. reflexivity.
  Qed.

  (* every sound policy: the answers of one object over any history of appends and reads are those of fresh
     objects *)
  Theorem accessor_history_independent :
    sound_policy -> forall ops, run_ops fresh_obj ops = ref_ops [] ops.
  Proof. intros S ops. apply (run_ops_ref S ops fresh_obj). exact I. Qed.
End AccessorMachine.

(* a memo keyed on the number of entries is sound for EVERY accessor (the history is append-only) *)
Lemma length_key_sound (E A : Type) (f : list E -> A) :
  sound_policy E A f nat (@length E) Nat.eqb.
Proof.
  intros h ext H. apply Nat.eqb_eq in H. rewrite app_length in H.
  destruct ext as [|x ext]; [rewrite app_nil_r; reflexivity|]. simpl in H. lia.
Qed.

Lemma accessor_length_key (E A : Type) (f : list E -> A) (ops : list (op E)) :
  run_ops E A f nat (@length E) Nat.eqb (fresh_obj E A nat) ops = ref_ops E A f [] ops.
Proof. apply accessor_history_independent, length_key_sound. Qed.

(* no memo at all (the code as it stands: plain properties) is the always-miss policy *)
Lemma never_hit_sound (E A : Type) (f : list E -> A) :
  sound_policy E A f unit (fun _ => tt) (fun _ _ => false).
Proof. intros h ext H. discriminate. Qed.

(* cached_property: a key that never changes.  Refuted for latest_successful on the executed instance *)
Definition e_ok (t : Z) : hentry N2 := {| h_success := true; h_updated := true; h_token := Some t; h_state := [] |}.
Definition cached_ops : list (op (hentry N2)) := [Append _ (e_ok 1); Read _; Append _ (e_ok 2); Read _].

Lemma cached_property_refuted :
  exists ops : list (op (hentry N2)),
    run_ops (hentry N2) (option nat) (latest_successful N2) unit (fun _ => tt) (fun _ _ => true)
            (fresh_obj _ _ _) ops
    <> ref_ops (hentry N2) (option nat) (latest_successful N2) [] ops.
Proof. exists cached_ops. vm_compute. discriminate. Qed.

Lemma cached_result_refuted :
  exists ops : list (op (hentry N2)),
    run_ops (hentry N2) (option (option Z)) (latest_result N2 false) unit (fun _ => tt) (fun _ _ => true)
            (fresh_obj _ _ _) ops
    <> ref_ops (hentry N2) (option (option Z)) (latest_result N2 false) [] ops.
Proof. exists cached_ops. vm_compute. discriminate. Qed.

(* ---------- one optimiser used twice ---------- *)
Section Split.
  Variable G : Type.
  Variable gadd : G -> G -> G.
  Variable gopp : G -> G.
  Variable gscale : Qc -> G -> G.
  Variable gvalid : G -> bool.
  Notation sweep' := (sweep G gadd gopp gscale gvalid).
  Notation run' := (run G gadd gopp gscale gvalid).

  Lemma sweep_no_stop dl sc order : forall st log,
    snd (sweep' dl sc None order st log) = false.
  Proof.
    induction order as [|i order IH]; intros st log; simpl; [reflexivity|].
    destruct (visit G gadd gopp gscale gvalid dl sc i st log) as [st' e]. simpl. apply IH.
  Qed.

  Lemma run_split a b dl sc order : forall st log,
    run' (a + b) dl sc None order st log =
    run' b dl sc None order (fst (run' a dl sc None order st log)) (snd (run' a dl sc None order st log)).
  Proof.
    induction a as [|a IH]; intros st log; simpl; [reflexivity|].
    pose proof (sweep_no_stop dl sc order st log) as H.
    destruct (sweep' dl sc None order st log) as [[st' log'] stopped]. simpl in H. subst stopped.
    apply IH.
  Qed.

  (* the two calls may use different updaters: the second call is a run of its own from the returned state *)
  Lemma run_zero dl sc stop order st log : run' 0 dl sc stop order st log = (st, log).
  Proof. reflexivity. Qed.
End Split.
