(* C18 property theorems: statements only, each closed by `exact`. *)
From Coq Require Import ZArith QArith Qcanon List Bool Arith.
From PAFC18 Require Import Model Proofs.
Import ListNotations.

Theorem C18_tmp : forall (A : Type) (i j : nat) (x d : A) (l : list A), i <> j -> nth j (replace_nth i x l) d = nth j l d.
Proof. exact @replace_nth_other. Qed.
