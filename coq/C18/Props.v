(* C18 property theorems: statements only, each closed by `exact`.
   G, gadd, gopp, gzero, gscale: the message group (natural parameters) and its Qc-action;
   the laws are hypotheses of each theorem; C18_instance_* show that the executed instance
   (Normal natural parameters over Qc) satisfies them. *)
From Coq Require Import ZArith QArith Qcanon List Bool Arith Permutation.
From PAFC18 Require Import Model Proofs Proofs2 Machine Witness.
Import ListNotations.
Local Open Scope nat_scope.

Theorem C18_instance_group : group_laws N2 n_add n_opp n_zero.
Proof. exact n2_group. Qed.
Theorem C18_instance_module : module_laws N2 n_add n_scale.
Proof. exact n2_module. Qed.

(* every factor graph, every mean-field state, every factor i, every variable v of the factor:
   model distribution = own message * cavity, and = the global approximation *)
Theorem C18_model_eq :
  forall (G : Type) (gadd : G -> G -> G) (gopp : G -> G) (gzero : G), group_laws G gadd gopp gzero ->
  forall (i : nat) (st : state G) (v : var) (m : G), i < length st -> get G v (own G i st) = Some m ->
    get G v (model_dist G gadd i st) = omul G gadd (Some m) (get G v (cavity G gadd i st))
    /\ get G v (model_dist G gadd i st) = get G v (global G gadd st).
Proof. exact model_eq. Qed.

(* the cavity is the product of all OTHER factors' messages (absent when no other factor has v) *)
Theorem C18_cavity :
  forall (G : Type) (gadd : G -> G -> G) (i : nat) (st : state G) (v : var),
    get G v (cavity G gadd i st) =
    if has_var v (keys G (own G i st)) then prod_at G gadd v None (remove_nth i st) else None.
Proof. exact cavity_get. Qed.

(* the global approximation is the product of ALL factors' messages, for every variable *)
Theorem C18_global :
  forall (G : Type) (gadd : G -> G -> G) (gopp : G -> G) (gzero : G), group_laws G gadd gopp gzero ->
  forall (st : state G) (v : var), get G v (global G gadd st) = prod_at G gadd v None st.
Proof. exact global_get. Qed.

(* "product of the messages": a fold over the factors, independent of dict order *)
Theorem C18_product_fold :
  forall (G : Type) (gadd : G -> G -> G) (gopp : G -> G) (gzero : G), group_laws G gadd gopp gzero ->
  forall (v : var) (ms : list (mf G)), prod_at G gadd v None ms = fold_right (omul G gadd) None (map (get G v) ms).
Proof. exact prod_at_fold. Qed.
Theorem C18_product_order_free :
  forall (G : Type) (gadd : G -> G -> G) (gopp : G -> G) (gzero : G), group_laws G gadd gopp gzero ->
  forall (v : var) (ms ms' : list (mf G)), Permutation ms ms' -> prod_at G gadd v None ms = prod_at G gadd v None ms'.
Proof. exact prod_at_perm. Qed.

(* an update of factor i (any damping, any approximation handed in) changes only factor i *)
Theorem C18_update_local :
  forall (G : Type) (gadd : G -> G -> G) (gopp : G -> G) (gscale : Qc -> G -> G) (gvalid : G -> bool)
         (i j : nat) (dl : delta) (cavd last new : mf G) (st : state G),
    i <> j -> own G j (project G gadd gopp gscale gvalid i dl cavd last new st) = own G j st.
Proof. exact project_other. Qed.
Theorem C18_update_length :
  forall (G : Type) (gadd : G -> G -> G) (gopp : G -> G) (gscale : Qc -> G -> G) (gvalid : G -> bool)
         (i : nat) (dl : delta) (cavd last new : mf G) (st : state G),
    length (project G gadd gopp gscale gvalid i dl cavd last new st) = length st.
Proof. exact project_length. Qed.

(* a full update (delta >= 1) whose projection new/cavity is a proper distribution makes the
   global approximation equal the fitted distribution, variable by variable *)
Theorem C18_update_exact :
  forall (G : Type) (gadd : G -> G -> G) (gopp : G -> G) (gzero : G) (gscale : Qc -> G -> G) (gvalid : G -> bool),
  group_laws G gadd gopp gzero ->
  forall (i : nat) (dl : delta) (new : mf G) (st : state G) (v : var) (nw : G),
    i < length st -> is_full dl = true -> get G v new = Some nw -> In v (keys G (own G i st)) ->
    gvalid (full_cand G gadd gopp nw (get G v (cavity G gadd i st))) = true ->
    get G v (global G gadd (step G gadd gopp gscale gvalid i dl new st)) = Some nw.
Proof. exact update_exact. Qed.

(* a damped update moves the global approximation to d * new + (1 - d) * old *)
Theorem C18_update_damped :
  forall (G : Type) (gadd : G -> G -> G) (gopp : G -> G) (gzero : G) (gscale : Qc -> G -> G) (gvalid : G -> bool),
  group_laws G gadd gopp gzero -> module_laws G gadd gscale ->
  forall (i : nat) (dl : delta) (new : mf G) (st : state G) (v : var) (nw l g : G),
    i < length st -> is_full dl = false -> get G v new = Some nw -> get G v (own G i st) = Some l ->
    get G v (global G gadd st) = Some g ->
    cand_valid G gvalid (cand G gadd gopp gscale dl (cavity G gadd i st) (own G i st) v nw) = true ->
    get G v (global G gadd (step G gadd gopp gscale gvalid i dl new st)) =
    Some (gadd (gscale (delta_at dl v) nw) (gscale (Q2Qc 1 - delta_at dl v)%Qc g)).
Proof. exact update_damped. Qed.

(* an improper projection keeps that variable's message and global approximation *)
Theorem C18_update_invalid_keeps :
  forall (G : Type) (gadd : G -> G -> G) (gopp : G -> G) (gzero : G) (gscale : Qc -> G -> G) (gvalid : G -> bool),
  group_laws G gadd gopp gzero ->
  forall (i : nat) (dl : delta) (new : mf G) (st : state G) (v : var) (nw l : G),
    i < length st -> get G v new = Some nw -> get G v (own G i st) = Some l ->
    cand_valid G gvalid (cand G gadd gopp gscale dl (cavity G gadd i st) (own G i st) v nw) = false ->
    get G v (own G i (step G gadd gopp gscale gvalid i dl new st)) = Some l
    /\ get G v (global G gadd (step G gadd gopp gscale gvalid i dl new st)) = get G v (global G gadd st).
Proof. exact update_invalid_keeps. Qed.

(* per-variable damping as DynamicUpdater passes it, delta exactly 1 for a variable:
   - the exponent handling of the code as it was written (message ** 0.0) rejects a proper projection (refuted,
     witness: both variants evaluated on the same update);
   - the damped formula is the full projection, and the repaired exponent handling (MeanField.rescale) accepts it;
   - whenever the projection is accepted (whichever variant [cand] runs), the global approximation becomes the
     fitted distribution *)
Theorem C18_update_per_variable_delta_one_legacy_refuted :
  exists (st : state N2) i dl v nw,
    i < length st /\ In v (keys N2 (own N2 i st)) /\ is_pervar dl = true
    /\ delta_at dl v = Q2Qc 1
    /\ n_valid (full_cand N2 n_add n_opp nw (get N2 v (n_cavity i st))) = true
    /\ cand_valid N2 n_valid (cand_v N2 n_add n_opp n_scale false dl (n_cavity i st) (own N2 i st) v nw) = false
    /\ cand_valid N2 n_valid (cand_v N2 n_add n_opp n_scale true dl (n_cavity i st) (own N2 i st) v nw) = true.
Proof. exact per_variable_delta_one_refuted. Qed.
(* the code as it now is (eae3ef1): [cand] accepts a per-variable delta of exactly 1 and computes new / cavity *)
Theorem C18_update_per_variable_delta_one_current :
  forall (G : Type) (gadd : G -> G -> G) (gopp : G -> G) (gzero : G) (gscale : Qc -> G -> G) (gvalid : G -> bool),
  group_laws G gadd gopp gzero -> module_laws G gadd gscale ->
  forall (ds : list (var * Qc)) (cavd last : mf G) (v : var) (nw l : G),
    get G v last = Some l -> qlookup v ds = Q2Qc 1 ->
    gvalid (full_cand G gadd gopp nw (get G v cavd)) = true ->
    cand G gadd gopp gscale (DPerVar ds) cavd last v nw = (full_cand G gadd gopp nw (get G v cavd), true)
    /\ cand_valid G gvalid (cand G gadd gopp gscale (DPerVar ds) cavd last v nw) = true.
Proof. exact pervar_delta_one_current. Qed.
Theorem C18_update_per_variable_delta_one_fixed :
  forall (G : Type) (gadd : G -> G -> G) (gopp : G -> G) (gzero : G) (gscale : Qc -> G -> G) (gvalid : G -> bool),
  group_laws G gadd gopp gzero -> module_laws G gadd gscale ->
  forall (ds : list (var * Qc)) (cavd last : mf G) (v : var) (nw l : G),
    get G v last = Some l -> qlookup v ds = Q2Qc 1 ->
    gvalid (full_cand G gadd gopp nw (get G v cavd)) = true ->
    cand_v G gadd gopp gscale true (DPerVar ds) cavd last v nw = (full_cand G gadd gopp nw (get G v cavd), true)
    /\ cand_valid G gvalid (cand_v G gadd gopp gscale true (DPerVar ds) cavd last v nw) = true.
Proof. exact pervar_delta_one_fixed. Qed.
Theorem C18_update_exact_per_variable :
  forall (G : Type) (gadd : G -> G -> G) (gopp : G -> G) (gzero : G) (gscale : Qc -> G -> G) (gvalid : G -> bool),
  group_laws G gadd gopp gzero -> module_laws G gadd gscale ->
  forall (i : nat) (dl : delta) (new : mf G) (st : state G) (v : var) (nw l g : G),
    i < length st -> is_full dl = false -> delta_at dl v = Q2Qc 1 ->
    get G v new = Some nw -> get G v (own G i st) = Some l -> get G v (global G gadd st) = Some g ->
    cand_valid G gvalid (cand G gadd gopp gscale dl (cavity G gadd i st) (own G i st) v nw) = true ->
    get G v (global G gadd (step G gadd gopp gscale gvalid i dl new st)) = Some nw.
Proof. exact update_exact_per_variable. Qed.

(* every sequence of updates of every kind: untouched factors keep their message, and the
   identities hold in the state reached *)
Theorem C18_untouched_factor :
  forall (G : Type) (gadd : G -> G -> G) (gopp : G -> G) (gscale : Qc -> G -> G) (gvalid : G -> bool)
         (steps : list (nat * delta * mf G)) (st : state G) (j : nat),
    (forall x, In x steps -> fst (fst x) <> j) ->
    own G j (run_steps G gadd gopp gscale gvalid steps st) = own G j st.
Proof. exact untouched_factor. Qed.
Theorem C18_identities_after_any_sequence :
  forall (G : Type) (gadd : G -> G -> G) (gopp : G -> G) (gzero : G) (gscale : Qc -> G -> G) (gvalid : G -> bool),
  group_laws G gadd gopp gzero ->
  forall (steps : list (nat * delta * mf G)) (st : state G) (i : nat) (v : var) (m : G),
    i < length st ->
    get G v (own G i (run_steps G gadd gopp gscale gvalid steps st)) = Some m ->
    get G v (model_dist G gadd i (run_steps G gadd gopp gscale gvalid steps st)) =
      omul G gadd (Some m) (get G v (cavity G gadd i (run_steps G gadd gopp gscale gvalid steps st)))
    /\ get G v (model_dist G gadd i (run_steps G gadd gopp gscale gvalid steps st)) =
       get G v (global G gadd (run_steps G gadd gopp gscale gvalid steps st))
    /\ get G v (global G gadd (run_steps G gadd gopp gscale gvalid steps st)) =
       fold_right (omul G gadd) None (map (get G v) (run_steps G gadd gopp gscale gvalid steps st)).
Proof. exact identities_after_any_sequence. Qed.

(* EPOptimiser.run with any scripted optimisers: the log is extended by a chain of entries, each
   the projection of the visited factor against the CURRENT state; other factors are untouched *)
Theorem C18_run_chain :
  forall (G : Type) (gadd : G -> G -> G) (gopp : G -> G) (gscale : Qc -> G -> G) (gvalid : G -> bool)
         (n : nat) (dl : delta) (sc : list (list (outcome G))) (stop : option (nat * nat)) (order : list nat)
         (st : state G) (log : list (nat * hentry G)) (st' : state G) (log' : list (nat * hentry G)),
    run G gadd gopp gscale gvalid n dl sc stop order st log = (st', log') ->
    exists ext, log' = log ++ ext /\ chain G gadd gopp gscale gvalid dl st ext st'.
Proof. exact run_chain. Qed.
Theorem C18_run_local :
  forall (G : Type) (gadd : G -> G -> G) (gopp : G -> G) (gscale : Qc -> G -> G) (gvalid : G -> bool)
         (dl : delta) (st : state G) (ext : list (nat * hentry G)) (st' : state G),
    chain G gadd gopp gscale gvalid dl st ext st' ->
    forall j, (forall x, In x ext -> fst x <> j) -> own G j st' = own G j st.
Proof. exact chain_local. Qed.

(* ParallelEPOptimiser projects against approximations computed before the sweep: exactness fails *)
Theorem C18_stale_update_not_exact :
  exists (st : state N2) new0 new1 v nw,
    get N2 v new1 = Some nw /\
    let st1 := step N2 n_add n_opp n_scale n_valid 0 (DScalar (Q2Qc 1)) new0 st in
    let stale := n_project 1 (DScalar (Q2Qc 1)) (n_cavity 1 st) (own N2 1 st) new1 st1 in
    get N2 v (n_global (step N2 n_add n_opp n_scale n_valid 1 (DScalar (Q2Qc 1)) new1 st1)) = Some nw
    /\ get N2 v (n_global stale) <> Some nw.
Proof. exact stale_update_not_exact. Qed.

(* ---------- start of a declarative fit: cavity = user's prior ---------- *)
(* counting factors (documented meaning, proposed repair), prior factors included: full statement *)
Theorem C18_init_cavity_fixed :
  forall (G : Type) (gadd : G -> G -> G) (gopp : G -> G) (gzero : G) (gscale : Qc -> G -> G),
  group_laws G gadd gopp gzero -> module_laws G gadd gscale ->
  forall (fs : list (list var)) (pf : list var) (priors : mf G) (dflt : G) (i : nat) (v : var),
    pf_ok fs pf = true -> i < length (graph_factors true fs pf) -> In v (nth i (graph_factors true fs pf) []) ->
    get G v (cavity G gadd i (init_state G gscale false true fs pf priors dflt)) = Some (prior_of G priors v dflt).
Proof. exact init_cavity_fixed. Qed.
(* the code as it stands (counting occurrences): refuted in general ... *)
Theorem C18_init_cavity_legacy_refuted :
  exists fs pf priors i v,
    pf_ok fs pf = true /\ i < length (graph_factors true fs pf) /\ In v (nth i (graph_factors true fs pf) [])
    /\ get N2 v (n_cavity i (init_state N2 n_scale true true fs pf priors n_zero)) <> Some (prior_of N2 priors v n_zero).
Proof. exact init_cavity_refuted. Qed.
Theorem C18_init_cavity_without_prior_factors_legacy_refuted :
  exists fs priors i v,
    i < length (graph_factors false fs []) /\ In v (nth i (graph_factors false fs []) [])
    /\ get N2 v (n_cavity i (init_state N2 n_scale true false fs [] priors n_zero)) <> Some (prior_of N2 priors v n_zero).
Proof. exact init_cavity_without_prior_factors_refuted. Qed.
(* ... and proved for a variable no factor lists twice that has a prior factor or two owners *)
Theorem C18_init_cavity_legacy_partial :
  forall (G : Type) (gadd : G -> G -> G) (gopp : G -> G) (gzero : G) (gscale : Qc -> G -> G),
  group_laws G gadd gopp gzero -> module_laws G gadd gscale ->
  forall (include : bool) (fs : list (list var)) (pf : list var) (priors : mf G) (dflt : G) (i : nat) (v : var),
    (include = true -> pf_ok fs pf = true) ->
    i < length (graph_factors include fs pf) -> In v (nth i (graph_factors include fs pf) []) ->
    (forall f, In f fs -> count_in v f <= 1) ->
    (include = true \/ 2 <= length (filter (has_var v) fs)) ->
    get G v (cavity G gadd i (init_state G gscale true include fs pf priors dflt)) = Some (prior_of G priors v dflt).
Proof. exact init_cavity_partial. Qed.

(* what the code does NOW (the switch the correspondence runs): with or without prior factors, every cavity is
   the prior as soon as the variable has a prior factor or two owners ... *)
Theorem C18_init_cavity_current :
  forall (G : Type) (gadd : G -> G -> G) (gopp : G -> G) (gzero : G) (gscale : Qc -> G -> G),
  group_laws G gadd gopp gzero -> module_laws G gadd gscale ->
  forall (include : bool) (fs : list (list var)) (pf : list var) (priors : mf G) (dflt : G) (i : nat) (v : var),
    (include = true -> pf_ok fs pf = true) ->
    i < length (graph_factors include fs pf) -> In v (nth i (graph_factors include fs pf) []) ->
    (include = true \/ 2 <= length (filter (has_var v) fs)) ->
    get G v (cavity G gadd i (init_state G gscale code_counts_occurrences include fs pf priors dflt)) = Some (prior_of G priors v dflt).
Proof. exact init_cavity_current. Qed.
(* ... and without prior factors a prior owned by one factor has no cavity (known finding) *)
Theorem C18_init_cavity_without_prior_factors_current_refuted :
  exists fs priors i v,
    i < length (graph_factors false fs []) /\ In v (nth i (graph_factors false fs []) [])
    /\ get N2 v (n_cavity i (init_state N2 n_scale code_counts_occurrences false fs [] priors n_zero)) <> Some (prior_of N2 priors v n_zero).
Proof. exact init_cavity_without_prior_factors_current_refuted. Qed.

(* EPMeanFieldSubset: the rescaled split factor_dist = own^s, cavity = cavity * own^(1-s) has the same product *)
Theorem C18_subset_split :
  forall (G : Type) (gadd : G -> G -> G) (gopp : G -> G) (gzero : G) (gscale : Qc -> G -> G),
  group_laws G gadd gopp gzero -> module_laws G gadd gscale ->
  forall (s : Qc) (o c : G), gadd (gscale s o) (gadd c (gscale (Q2Qc 1 - s)%Qc o)) = gadd o c.
Proof. exact rescale_split. Qed.

(* the code as it now is (1d542b0): a rescaled variable that no other factor holds gets the held-back part
   own^(1-s) as its cavity (it used to raise KeyError), and a factor without plated variables is not rescaled *)
Theorem C18_subset_single_owner_current :
  forall (frac : Q) (scalars : list var) (i : nat) (sst : state N2) (v : var) (o : N2),
    get N2 v (own N2 i sst) = Some o -> get N2 v (n_cavity i sst) = None ->
    qclt (scale_in frac scalars (own N2 i sst) v) (Q2Qc 1) = true ->
    get N2 v (sub_cavity frac scalars i sst) = Some (sub_rest (scale_in frac scalars (own N2 i sst) v) o).
Proof. exact sub_cavity_single_owner. Qed.

(* EPOptimiser.run, tied to the scripted optimiser: a visit with delta >= 1 recorded as a success leaves the
   global approximation equal to the distribution the optimiser returned and records its result *)
Theorem C18_visit_exact :
  forall (G : Type) (gadd : G -> G -> G) (gopp : G -> G) (gzero : G) (gscale : Qc -> G -> G) (gvalid : G -> bool),
  group_laws G gadd gopp gzero ->
  forall (dl : delta) (sc : list (list (outcome G))) (i : nat) (st : state G) (log : list (nat * hentry G))
         (s : bool) (t : Z) (n : mf G) (v : var) (nw : G),
    i < length st -> is_full dl = true ->
    nth (visit_count G i log) (nth i sc []) ORaise = OFit s t n ->
    h_success (snd (visit G gadd gopp gscale gvalid dl sc i st log)) = true ->
    get G v n = Some nw -> In v (keys G (own G i st)) ->
    get G v (global G gadd (h_state (snd (visit G gadd gopp gscale gvalid dl sc i st log)))) = Some nw
    /\ h_token (snd (visit G gadd gopp gscale gvalid dl sc i st log)) = Some t.
Proof. exact visit_exact. Qed.
(* one sweep visits a prefix of the factor order, in order *)
Theorem C18_sweep_schedule :
  forall (G : Type) (gadd : G -> G -> G) (gopp : G -> G) (gscale : Qc -> G -> G) (gvalid : G -> bool)
         (dl : delta) (sc : list (list (outcome G))) (stop : option (nat * nat)) (order : list nat)
         (st : state G) (log : list (nat * hentry G)) (st' : state G) (log' : list (nat * hentry G)) (b : bool),
    sweep G gadd gopp gscale gvalid dl sc stop order st log = (st', log', b) ->
    exists ext, log' = log ++ ext /\ chain G gadd gopp gscale gvalid dl st ext st'
                /\ map fst ext = firstn (length ext) order.
Proof. exact sweep_chain. Qed.
(* the factor's message in the returned approximation is the one recorded by the factor's latest entry *)
Theorem C18_run_latest_entry :
  forall (G : Type) (gadd : G -> G -> G) (gopp : G -> G) (gscale : Qc -> G -> G) (gvalid : G -> bool)
         (dl : delta) (st : state G) (a : list (nat * hentry G)) (i : nat) (e : hentry G) (b : list (nat * hentry G)) (st' : state G),
    chain G gadd gopp gscale gvalid dl st (a ++ (i, e) :: b) st' -> (forall x, In x b -> fst x <> i) ->
    own G i st' = own G i (h_state e).
Proof. exact chain_latest_entry. Qed.

(* ---------- result accessors: the most recent entry per factor ---------- *)
(* the Model's accessors ARE latest_pos / previous_pos of the matching flag *)
Theorem C18_accessors_unfold :
  forall (G : Type) (h : list (hentry G)),
    latest_successful G h = latest_pos G h_success h /\ latest_update G h = latest_pos G h_updated h
    /\ previous_successful G h = previous_pos G h_success h /\ previous_update G h = previous_pos G h_updated h.
Proof. exact (fun G h => conj eq_refl (conj eq_refl (conj eq_refl eq_refl))). Qed.
(* previous_*: the most recent matching entry strictly before the latest one *)
Theorem C18_previous :
  forall (G : Type) (p : hentry G -> bool) (h : list (hentry G)),
    previous_pos G p h = match latest_pos G p h with Some k => latest_pos G p (firstn k h) | None => None end.
Proof. exact previous_pos_spec. Qed.
(* EPResult.latest_results / latest_for(hierarchical): all the results, or an exception iff one factor has none *)
Theorem C18_all_results :
  forall (A : Type) (l : list (option A)),
    match all_some l with Some r => map Some r = l | None => In None l end.
Proof. exact @all_some_spec. Qed.
(* latest_result as the code has it now *)
Theorem C18_latest_result_current :
  forall (G : Type) (h : list (hentry G)) (d : hentry G),
    latest_result G code_latest_result_first h =
    match latest_successful G h with Some k => Some (h_token (nth k h d)) | None => None end.
Proof. exact latest_result_current_spec. Qed.
Theorem C18_latest :
  forall (G : Type) (p : hentry G -> bool) (h : list (hentry G)) (d : hentry G),
    match latest_pos G p h with
    | Some k => k < length h /\ p (nth k h d) = true /\ (forall j, k < j < length h -> p (nth j h d) = false)
    | None => forall j, j < length h -> p (nth j h d) = false
    end.
Proof. exact latest_pos_spec. Qed.
Theorem C18_history_append_only :
  forall (G : Type) (i j : nat) (e : hentry G) (log : list (nat * hentry G)),
    history_of G i (log ++ [(j, e)]) = if Nat.eqb j i then history_of G i log ++ [e] else history_of G i log.
Proof. exact history_of_snoc. Qed.
(* latest_result with [-1] (docstring / proposed repair): result of the most recent success *)
Theorem C18_latest_result_fixed :
  forall (G : Type) (h : list (hentry G)) (d : hentry G),
    latest_result G false h =
    match latest_successful G h with Some k => Some (h_token (nth k h d)) | None => None end.
Proof. exact latest_result_last_spec. Qed.
(* latest_result with [0] (the code as it stands): refuted, and proved when at most one success *)
Theorem C18_latest_result_legacy_refuted :
  exists h : list (hentry N2),
    latest_result N2 true h <>
    match latest_successful N2 h with Some k => Some (h_token (nth k h (h_ok 0))) | None => None end.
Proof. exact latest_result_refuted. Qed.
Theorem C18_latest_result_legacy_partial :
  forall (G : Type) (h : list (hentry G)),
    length (filter h_success h) <= 1 -> latest_result G true h = latest_result G false h.
Proof. exact latest_result_first_partial. Qed.

Print Assumptions C18_model_eq.
Print Assumptions C18_update_exact.
Print Assumptions C18_update_damped.
Print Assumptions C18_init_cavity_fixed.
Print Assumptions C18_init_cavity_legacy_refuted.
Print Assumptions C18_run_chain.
Print Assumptions C18_latest.
Print Assumptions C18_stale_update_not_exact.
Print Assumptions C18_init_cavity_current.
Print Assumptions C18_visit_exact.
Print Assumptions C18_previous.

(* ---- objects used twice (Machine.v) ---- *)
(* a FactorHistory whose accessor f is memoised under ANY policy (key, keq) that is sound along an append-only
   history: after every interleaving of appends and reads, each read returns what a fresh object holding the
   same entries returns -- the answer depends on the current history only, not on earlier reads *)
Theorem C18_accessor_history_independent :
  forall (E A : Type) (f : list E -> A) (K : Type) (key : list E -> K) (keq : K -> K -> bool),
    sound_policy E A f K key keq ->
    forall ops : list (op E), run_ops E A f K key keq (fresh_obj E A K) ops = ref_ops E A f [] ops.
Proof. exact accessor_history_independent. Qed.
(* a memo keyed on the number of entries is sound for every accessor; so is no memo at all (the code as it stands) *)
Theorem C18_accessor_length_key_sound :
  forall (E A : Type) (f : list E -> A) (ops : list (op E)),
    run_ops E A f nat (@length E) Nat.eqb (fresh_obj E A nat) ops = ref_ops E A f [] ops.
Proof. exact accessor_length_key. Qed.
Theorem C18_accessor_no_memo_sound :
  forall (E A : Type) (f : list E -> A), sound_policy E A f unit (fun _ => tt) (fun _ _ => false).
Proof. exact never_hit_sound. Qed.
(* cached_property (a key that never changes) on latest_successful / latest_result: refuted *)
Theorem C18_accessor_cached_property_refuted :
  exists ops : list (op (hentry N2)),
    run_ops (hentry N2) (option nat) (latest_successful N2) unit (fun _ => tt) (fun _ _ => true)
            (fresh_obj _ _ _) ops
    <> ref_ops (hentry N2) (option nat) (latest_successful N2) [] ops.
Proof. exact cached_property_refuted. Qed.
Theorem C18_accessor_cached_result_refuted :
  exists ops : list (op (hentry N2)),
    run_ops (hentry N2) (option (option Z)) (latest_result N2 false) unit (fun _ => tt) (fun _ _ => true)
            (fresh_obj _ _ _) ops
    <> ref_ops (hentry N2) (option (option Z)) (latest_result N2 false) [] ops.
Proof. exact cached_result_refuted. Qed.
(* one EPOptimiser used twice: run(a) then run(b) on the returned approximation with the same history is one
   run of a + b sweeps (no callback stop), for every graph, state, damping, scripts and visiting order *)
Theorem C18_run_twice_is_one_run :
  forall (G : Type) (gadd : G -> G -> G) (gopp : G -> G) (gscale : Qc -> G -> G) (gvalid : G -> bool)
         (a b : nat) (dl : delta) (sc : list (list (outcome G))) (order : list nat)
         (st : state G) (log : list (nat * hentry G)),
    run G gadd gopp gscale gvalid (a + b) dl sc None order st log =
    run G gadd gopp gscale gvalid b dl sc None order
        (fst (run G gadd gopp gscale gvalid a dl sc None order st log))
        (snd (run G gadd gopp gscale gvalid a dl sc None order st log)).
Proof. exact run_split. Qed.

Print Assumptions C18_accessor_history_independent.
Print Assumptions C18_accessor_length_key_sound.
Print Assumptions C18_accessor_cached_property_refuted.
Print Assumptions C18_accessor_cached_result_refuted.
Print Assumptions C18_run_twice_is_one_run.
