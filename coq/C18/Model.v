(* C18 model: expectation-propagation bookkeeping.

   Messages live in the natural-parameter space of an exponential family: a type G with
   the product of densities as [gadd], the quotient as [gadd _ (gopp _)], the power m**s as
   [gscale s m] (AbstractMessage.__mul__/__truediv__/__pow__ act exactly like this on
   natural parameters), and [gvalid] = MessageInterface.is_valid.  A MeanField is an
   insertion-ordered dict variable -> message ([mf]); an EPMeanField is a dict
   factor -> MeanField, here the list [state] indexed by the position of the factor.
   The Python float 1.0 that MeanField.prod uses as the neutral element is [None].

   Executable definitions only; proofs are in Proofs.v.  The instance used for running the
   model is G = Qc * Qc (Normal natural parameters over canonical rationals). *)
From Coq Require Import ZArith QArith Qcanon Qabs List Bool Arith.
Import ListNotations.

Definition var := nat.

Definition qclt (a b : Qc) : bool :=
  match (this a ?= this b)%Q with Lt => true | _ => false end.

Fixpoint remove_nth {A} (i : nat) (l : list A) : list A :=
  match l, i with
  | [], _ => []
  | _ :: l', O => l'
  | x :: l', S i' => x :: remove_nth i' l'
  end.

Fixpoint replace_nth {A} (i : nat) (x : A) (l : list A) : list A :=
  match l, i with
  | [], _ => []
  | _ :: l', O => x :: l'
  | y :: l', S i' => y :: replace_nth i' x l'
  end.

Fixpoint qlookup (v : var) (ds : list (var * Qc)) : Qc :=
  match ds with
  | [] => Q2Qc 1
  | (w, d) :: ds' => if Nat.eqb w v then d else qlookup v ds'
  end.

(* how much a factor's message moves: a number (SimplerUpdater / FactorUpdater) or one
   number per variable (DynamicUpdater passes a MeanField of floats) *)
Inductive delta := DScalar (d : Qc) | DPerVar (ds : list (var * Qc)).

(* faithful-to-the-code switches for two PROPOSED repairs (proposed_fixes/C18-pervar-delta.diff and
   C18-subset-scalar-variables.diff); flip to true when the patch is applied *)
Definition code_pervar_delta_rescaled : bool := true.
Definition code_subset_scalar_paths : bool := true.

Section EP.
  Variable G : Type.
  Variable gadd : G -> G -> G.
  Variable gopp : G -> G.
  Variable gscale : Qc -> G -> G.
  Variable gvalid : G -> bool.

  Definition mf := list (var * G).
  Definition state := list mf.

  Fixpoint get (v : var) (m : mf) : option G :=
    match m with
    | [] => None
    | (w, g) :: m' => if Nat.eqb w v then Some g else get v m'
    end.
  Definition keys (m : mf) : list var := map fst m.

  (* a * b where either side may be the float 1.0 *)
  Definition omul (a b : option G) : option G :=
    match a, b with
    | Some x, Some y => Some (gadd x y)
    | Some x, None => Some x
    | None, _ => b
    end.

  (* utils.prod((other.get(v, 1.0) for other in others), start) = reduce(mul, ..., start) *)
  Definition prod_at (v : var) (start : option G) (ms : list mf) : option G :=
    fold_left (fun acc m => omul acc (get v m)) ms start.

  (* MeanField({k: m for k, m in dists if is_message(m)}) *)
  Fixpoint only_messages (l : list (var * option G)) : mf :=
    match l with
    | [] => []
    | (v, Some g) :: l' => (v, g) :: only_messages l'
    | (_, None) :: l' => only_messages l'
    end.

  (* MeanField({v: 1.0 for v in ks}).prod( *others ) *)
  Definition prod_ones (ks : list var) (others : list mf) : mf :=
    only_messages (map (fun v => (v, prod_at v None others)) ks).

  Definition own (i : nat) (st : state) : mf := nth i st [].

  (* EPMeanField.factor_approximation: cavity_dist, model_dist *)
  Definition cavity (i : nat) (st : state) : mf := prod_ones (keys (own i st)) (remove_nth i st).
  Definition times_cavity (cavd : mf) (vm : var * G) : var * G :=
    (fst vm, match get (fst vm) cavd with Some c => gadd (snd vm) c | None => snd vm end).
  Definition model_dist (i : nat) (st : state) : mf := map (times_cavity (cavity i st)) (own i st).

  (* EPMeanField.mean_field *)
  Definition all_vars (st : state) : list var := nodup Nat.eq_dec (concat (map keys st)).
  Definition global (st : state) : mf := prod_ones (all_vars st) st.

  (* ---------- MeanField.update_factor_mean_field ---------- *)
  Definition is_full (dl : delta) : bool :=
    match dl with DScalar d => negb (qclt d (Q2Qc 1)) | DPerVar _ => false end.
  Definition delta_at (dl : delta) (v : var) : Qc :=
    match dl with DScalar d => d | DPerVar ds => qlookup v ds end.

  (* self / cavity_dist *)
  Definition full_cand (nw : G) (cav : option G) : G :=
    match cav with Some c => gadd nw (gopp c) | None => nw end.
  (* (self ** d * last_dist ** (1 - d)) / cavity_dist ** d *)
  Definition damped_cand (d : Qc) (nw : G) (last cav : option G) : G :=
    let a := gscale d nw in
    let b := match last with Some l => gadd a (gscale (Q2Qc 1 - d) l) | None => a end in
    match cav with Some c => gadd b (gopp (gscale d c)) | None => b end.
  (* m ** s is a proper message only for s > 0 (s = 0 gives mean nan, s < 0 sigma nan) *)
  Definition damped_exps_ok (d : Qc) (last : option G) : bool :=
    qclt (Q2Qc 0) d && match last with Some _ => qclt (Q2Qc 0) (Q2Qc 1 - d) | None => true end.

  (* repaired per-variable damping (MeanField.rescale): an exponent of exactly 0 / 1 means "no message" /
     "the message itself"; in natural parameters that is still d * new + (1 - d) * last - d * cavity, only the
     exponents 0 and 1 stop being improper *)
  Definition rescaled_exps_ok (d : Qc) (last : option G) : bool :=
    negb (qclt d (Q2Qc 0)) && match last with Some _ => negb (qclt (Q2Qc 1 - d) (Q2Qc 0)) | None => true end.
  Definition is_pervar (dl : delta) : bool := match dl with DPerVar _ => true | DScalar _ => false end.
  Definition cand_v (resc : bool) (dl : delta) (cavd last : mf) (v : var) (nw : G) : G * bool :=
    if is_full dl then (full_cand nw (get v cavd), true)
    else let d := delta_at dl v in
         (damped_cand d nw (get v last) (get v cavd),
          if resc && is_pervar dl then rescaled_exps_ok d (get v last) else damped_exps_ok d (get v last)).
  Definition cand := cand_v code_pervar_delta_rescaled.
  Definition cand_valid (c : G * bool) : bool := snd c && gvalid (fst c).

  (* update_invalid: an invalid projection keeps the previous message of that variable *)
  Definition new_msg (dl : delta) (cavd last : mf) (v : var) (nw : G) : G :=
    let c := cand dl cavd last v nw in
    if cand_valid c then fst c else match get v last with Some l => l | None => fst c end.
  Definition final_valid (dl : delta) (cavd last : mf) (v : var) (nw : G) : bool :=
    let c := cand dl cavd last v nw in
    if cand_valid c then true else match get v last with Some l => gvalid l | None => false end.

  Definition update_factor_mf (dl : delta) (cavd last new : mf) : mf :=
    map (fun vn => (fst vn, new_msg dl cavd last (fst vn) (snd vn))) new.
  Definition all_valid (dl : delta) (cavd last new : mf) : bool :=
    forallb (fun vn => cand_valid (cand dl cavd last (fst vn) (snd vn))) new.
  Definition updated_flag (dl : delta) (cavd last new : mf) : bool :=
    all_valid dl cavd last new || existsb (fun vn => final_valid dl cavd last (fst vn) (snd vn)) new.

  (* EPMeanField.project_mean_field(new_dist, factor_approx, delta): the factor
     approximation (cavity, last) is whatever the caller hands in *)
  Definition project (i : nat) (dl : delta) (cavd last new : mf) (st : state) : state :=
    replace_nth i (update_factor_mf dl cavd last new) st.
  (* the sequential optimiser: approximation taken from the current state *)
  Definition step (i : nat) (dl : delta) (new : mf) (st : state) : state :=
    project i dl (cavity i st) (own i st) new st.

  (* DynamicUpdater.delta: d0 * (min message count / message count of the variable) *)
  Definition msg_count (st : state) (v : var) : nat :=
    length (filter (fun m => match get v m with Some _ => true | None => false end) st).
  Definition dynamic_delta (d0 : Qc) (st : state) : delta :=
    let vs := all_vars st in
    let mn := fold_right Nat.min (match vs with [] => O | v :: _ => msg_count st v end) (map (msg_count st) vs) in
    DPerVar (map (fun v => (v, (d0 * (Q2Qc (Z.of_nat mn # Pos.of_nat (msg_count st v))))%Qc)) vs).

  (* ---------- declarative graphs: initial messages ---------- *)
  (* model factors are given by the priors of their prior_model WITH multiplicity (one entry
     per path); [occ] = true is the code as it stands (Counter over prior_model.priors),
     [occ] = false counts each factor once (the documented meaning / proposed repair) *)
  Definition count_in (v : var) (l : list var) : nat := length (filter (Nat.eqb v) l).
  Definition has_var (v : var) (l : list var) : bool := existsb (Nat.eqb v) l.
  Definition prior_count (occ include : bool) (fs : list (list var)) (v : var) : nat :=
    (if occ then count_in v (concat fs) else length (filter (has_var v) fs))
    + (if include then 1 else 0).
  (* model factors, then one prior factor per distinct prior: [pf] lists the priors of the prior
     factors.  The real graph orders them by a reversed set iteration (sorted() over Prior objects,
     whose < builds an assertion); that position only fixes the default visiting order, which every
     case supplies explicitly, so [pf] is an input that must satisfy [pf_ok] *)
  Definition graph_factors (include : bool) (fs : list (list var)) (pf : list var) : list (list var) :=
    map (nodup Nat.eq_dec) fs ++ (if include then map (fun v => [v]) pf else []).
  Fixpoint nodupb (l : list var) : bool :=
    match l with [] => true | v :: l' => negb (has_var v l') && nodupb l' end.
  Definition pf_ok (fs : list (list var)) (pf : list var) : bool :=
    nodupb pf && forallb (fun v => has_var v pf) (concat fs) && forallb (fun v => has_var v (concat fs)) pf.
  Definition prior_of (priors : mf) (v : var) (dflt : G) : G :=
    match get v priors with Some g => g | None => dflt end.
  (* message_dict: prior.message ** (1 / (count - 1)) if count > 1 else prior.message *)
  Definition init_msg (occ include : bool) (fs : list (list var)) (priors : mf) (dflt : G) (v : var) : G :=
    let c := prior_count occ include fs v in
    if Nat.ltb 1 c then gscale (Q2Qc (1 # Pos.of_nat (c - 1))) (prior_of priors v dflt)
    else prior_of priors v dflt.
  (* EPMeanField.from_approx_dists(graph, message_dict) *)
  Definition init_state (occ include : bool) (fs : list (list var)) (pf : list var) (priors : mf) (dflt : G) : state :=
    map (fun f => map (fun v => (v, init_msg occ include fs priors dflt v)) f) (graph_factors include fs pf).

  (* ---------- EPOptimiser.run with scripted factor optimisers; EPHistory ---------- *)
  Inductive outcome :=
  | ORaise                                            (* optimise() raises ValueError *)
  | OFit (success : bool) (token : Z) (new : mf).     (* returns (new, Status(success, result=token)) *)

  Record hentry := { h_success : bool; h_updated : bool; h_token : option Z; h_state : state }.

  Definition visit_count (i : nat) (log : list (nat * hentry)) : nat :=
    length (filter (fun e => Nat.eqb (fst e) i) log).

  (* one factor visit of EPOptimiser.run: factor_approximation, factor_step, update_model_approx *)
  Definition visit (dl : delta) (scripts : list (list outcome)) (i : nat)
             (st : state) (log : list (nat * hentry)) : state * hentry :=
    let k := visit_count i log in
    let oc := nth k (nth i scripts []) ORaise in
    let cavd := cavity i st in
    let last := own i st in
    let '(new, succ_in, tok) :=
      match oc with
      | ORaise => (model_dist i st, false, None)
      | OFit s t n => (n, s, Some t)
      end in
    let st' := project i dl cavd last new st in
    (st', {| h_success := succ_in && all_valid dl cavd last new;
             h_updated := updated_flag dl cavd last new;
             h_token := tok; h_state := st' |}).

  (* the callback used by the harness: stop when factor sf has been recorded sk times and the
     sk-th status is a success (EPHistory.__call__ consults callbacks only on success) *)
  Definition stops (stop : option (nat * nat)) (i : nat) (e : hentry) (log' : list (nat * hentry)) : bool :=
    match stop with
    | Some (sf, sk) => h_success e && Nat.eqb i sf && Nat.eqb (visit_count i log') sk
    | None => false
    end.

  Fixpoint sweep (dl : delta) (scripts : list (list outcome)) (stop : option (nat * nat))
           (order : list nat) (st : state) (log : list (nat * hentry)) : state * list (nat * hentry) * bool :=
    match order with
    | [] => (st, log, false)
    | i :: order' =>
        let '(st', e) := visit dl scripts i st log in
        let log' := log ++ [(i, e)] in
        if stops stop i e log' then (st', log', true)
        else sweep dl scripts stop order' st' log'
    end.

  Fixpoint run (max_steps : nat) (dl : delta) (scripts : list (list outcome)) (stop : option (nat * nat))
           (order : list nat) (st : state) (log : list (nat * hentry)) : state * list (nat * hentry) :=
    match max_steps with
    | O => (st, log)
    | S n =>
        let '(st', log', stopped) := sweep dl scripts stop order st log in
        if stopped then (st', log') else run n dl scripts stop order st' log'
    end.

  (* FactorHistory *)
  Definition history_of (i : nat) (log : list (nat * hentry)) : list hentry :=
    map snd (filter (fun e => Nat.eqb (fst e) i) log).
  (* positions (in the factor's own history) of the entries satisfying p *)
  Fixpoint positions (p : hentry -> bool) (k : nat) (h : list hentry) : list nat :=
    match h with
    | [] => []
    | e :: h' => if p e then k :: positions p (S k) h' else positions p (S k) h'
    end.
  Definition last_opt {A} (l : list A) : option A :=
    match rev l with [] => None | x :: _ => Some x end.
  Definition last_but_one_opt {A} (l : list A) : option A :=
    match rev l with _ :: x :: _ => Some x | _ => None end.
  (* None = HistoryException *)
  Definition latest_successful (h : list hentry) : option nat := last_opt (positions h_success 0 h).
  Definition previous_successful (h : list hentry) : option nat := last_but_one_opt (positions h_success 0 h).
  Definition latest_update (h : list hentry) : option nat := last_opt (positions h_updated 0 h).
  Definition previous_update (h : list hentry) : option nat := last_but_one_opt (positions h_updated 0 h).
  (* [status.result for _, status in history if status][0] when [first] = true (the code as it
     stands), [-1] when [first] = false (what the docstring says / proposed repair) *)
  Definition latest_result (first : bool) (h : list hentry) : option (option Z) :=
    let rs := map h_token (filter h_success h) in
    if first then hd_error rs else last_opt rs.

  (* EPResult.latest_results / latest_for(HierarchicalFactor): a list, or an exception as
     soon as one of the factors has no successful entry *)
  Fixpoint all_some {A} (l : list (option A)) : option (list A) :=
    match l with
    | [] => Some []
    | None :: _ => None
    | Some x :: l' => match all_some l' with Some r => Some (x :: r) | None => None end
    end.
  Definition latest_results (first : bool) (factors : list nat) (log : list (nat * hentry)) : option (list (option Z)) :=
    all_some (map (fun i => latest_result first (history_of i log)) factors).
End EP.

Arguments ORaise {G}.
Arguments OFit {G} _ _ _.
Arguments h_success {G} _.
Arguments h_updated {G} _.
Arguments h_token {G} _.
Arguments h_state {G} _.

(* which variant the code in /repo currently is (flip when a proposed fix is applied) *)
Definition code_counts_occurrences : bool := false.
Definition code_latest_result_first : bool := false.

(* ---------- the executable instance: Normal natural parameters over Qc ---------- *)
Definition N2 := (Qc * Qc)%type.
Definition n_add (a b : N2) : N2 := ((fst a + fst b)%Qc, (snd a + snd b)%Qc).
Definition n_opp (a : N2) : N2 := ((- fst a)%Qc, (- snd a)%Qc).
Definition n_scale (s : Qc) (a : N2) : N2 := ((s * fst a)%Qc, (s * snd a)%Qc).
(* finite natural parameters and sigma = sqrt(-0.5/eta2) in [0, inf]: eta2 < 0 *)
Definition n_valid (a : N2) : bool := qclt (snd a) (Q2Qc 0).
Definition n_zero : N2 := (Q2Qc 0, Q2Qc 0).
(* NormalMessage.calc_natural_parameters(mu, sigma) *)
Definition nat_of (ms : Q * Q) : N2 :=
  let mu := Q2Qc (fst ms) in
  let prec := (/ (Q2Qc (snd ms) * Q2Qc (snd ms)))%Qc in
  ((mu * prec)%Qc, (- (prec / Q2Qc 2))%Qc).

Notation nmf := (mf N2).
Notation nstate := (state N2).
Definition n_cavity := cavity N2 n_add.
Definition n_model_dist := model_dist N2 n_add.
Definition n_global := global N2 n_add.
Definition n_project := project N2 n_add n_opp n_scale n_valid.
Definition n_all_valid := all_valid N2 n_add n_opp n_scale n_valid.
Definition n_updated_flag := updated_flag N2 n_add n_opp n_scale n_valid.

Definition in_mf (l : list (var * (Q * Q))) : nmf := map (fun vm => (fst vm, nat_of (snd vm))) l.
Definition in_state (l : list (list (var * (Q * Q)))) : nstate := map in_mf l.

(* ---------- comparison with observed binary64 natural parameters ---------- *)
Definition obs_mf := list (var * (Q * Q)).
(* magnitudes are integer upper bounds (cheap): ceil|e1| + ceil|e2| per message *)
Definition qceil_abs (q : Q) : Z := (Z.abs (Qnum q) / Zpos (Qden q) + 1)%Z.
Definition qabs_sum (a : N2) : Z := (qceil_abs (this (fst a)) + qceil_abs (this (snd a)))%Z.
Definition mf_mag (m : nmf) : Z := fold_right (fun vm acc => (qabs_sum (snd vm) + acc)%Z) 0%Z m.
Definition st_mag (st : nstate) : Z := fold_right (fun m acc => (mf_mag m + acc)%Z) 0%Z st.
(* labelled tolerance, PER VARIABLE: 2^-36 of (1 + the magnitudes of the messages of that variable that
   entered the computation so far).  Natural parameters of different variables never mix, so a wide
   variable (tiny eta) is not compared with the tolerance of a sharp one *)
Definition eps : Q := 1 # 68719476736.
Definition vmag := list (var * Z).
Fixpoint vm_get (v : var) (a : vmag) : Z :=
  match a with [] => 0%Z | (w, z) :: a' => if Nat.eqb w v then z else vm_get v a' end.
Fixpoint vm_add1 (v : var) (z : Z) (a : vmag) : vmag :=
  match a with
  | [] => [(v, z)]
  | (w, x) :: a' => if Nat.eqb w v then (w, (x + z)%Z) :: a' else (w, x) :: vm_add1 v z a'
  end.
Definition vm_add_mf (a : vmag) (m : nmf) : vmag :=
  fold_left (fun acc vm => vm_add1 (fst vm) (qabs_sum (snd vm)) acc) m a.
Definition vm_add_st (a : vmag) (st : nstate) : vmag := fold_left vm_add_mf st a.
Definition tolv (a : vmag) (v : var) : Q := eps * inject_Z (1 + vm_get v a).
Definition close (tol : Q) (a : N2) (b : Q * Q) : bool :=
  Qle_bool (Qabs (this (fst a) - fst b)) tol && Qle_bool (Qabs (this (snd a) - snd b)) tol.
Fixpoint oget (v : var) (m : obs_mf) : option (Q * Q) :=
  match m with
  | [] => None
  | (w, g) :: m' => if Nat.eqb w v then Some g else oget v m'
  end.
(* same key set (lengths equal, every model key observed) and values within the variable's tolerance *)
Definition mf_close (a : vmag) (m : nmf) (o : obs_mf) : bool :=
  Nat.eqb (length m) (length o)
  && forallb (fun vm => match oget (fst vm) o with Some b => close (tolv a (fst vm)) (snd vm) b | None => false end) m.
Fixpoint st_close (a : vmag) (st : nstate) (o : list obs_mf) : bool :=
  match st, o with
  | [], [] => true
  | m :: st', om :: o' => mf_close a m om && st_close a st' o'
  | _, _ => false
  end.

(* ---------- correspondence cases ---------- *)
Inductive rdelta :=
| RScalar (d : Q)                      (* project_mean_field(..., delta=d) *)
| RPerVar (ds : list (var * Q))        (* delta = MeanField of floats *)
| RDynamic (d0 : Q).                   (* DynamicUpdater(d0).update_model_approx *)

Definition delta_of (rd : rdelta) (st : nstate) : delta :=
  match rd with
  | RScalar d => DScalar (Q2Qc d)
  | RPerVar ds => DPerVar (map (fun vd => (fst vd, Q2Qc (snd vd))) ds)
  | RDynamic d0 => dynamic_delta N2 (Q2Qc d0) st
  end.

Record rstep := {
  r_factor : nat;
  r_delta : rdelta;
  r_barrier : bool;               (* remember the current state as the base of later stale approximations *)
  r_stale : bool;                 (* use the approximation computed at the last barrier (parallel optimiser) *)
  r_mode : nat;                   (* 0: project_mean_field (a new EPMeanField);  in place on the SAME object:
                                     1: update_factor_mean_field(f, new) -- the factor's mean field is replaced;
                                     2: update_factor_mean_field(f, new, index) / approx[index] = subset / update:
                                        the listed plate elements are overwritten, the others kept *)
  r_new : list (var * (Q * Q));   (* the optimiser's new model distribution, (mean, sigma) *)
  r_obs_cavity : obs_mf;          (* factor_approximation(f).cavity_dist *)
  r_obs_model : obs_mf;           (* factor_approximation(f).model_dist *)
  r_obs_msg : obs_mf;             (* the factor's mean field after the update *)
  r_obs_global : obs_mf;          (* EPMeanField.mean_field after the update *)
  r_obs_success : bool;
  r_obs_updated : bool
}.

(* replay of one step; [base] is the state at the last barrier (for stale approximations) *)
(* in-place write-back of plate elements: keys of [new] overwritten, the rest kept *)
Definition overwrite (last new : nmf) : nmf :=
  map (fun vm => (fst vm, match get N2 (fst vm) new with Some x => x | None => snd vm end)) last.

Definition raw_step (acc : nstate * nstate * vmag * bool) (s : rstep) : nstate * nstate * vmag * bool :=
  let '(st, base0, vm0, ok) := acc in
  let base := if r_barrier s then st else base0 in
  let src := if r_stale s then base else st in
  let i := r_factor s in
  let new := in_mf (r_new s) in
  let cavd := n_cavity i src in
  let last := own N2 i src in
  let dl := delta_of (r_delta s) st in
  let inplace := negb (Nat.eqb (r_mode s) O) in
  let st' := match r_mode s with
             | O => n_project i dl cavd last new st
             | S O => replace_nth i new st
             | _ => replace_nth i (overwrite (own N2 i st) new) st
             end in
  let tol := vm_add_mf (vm_add_mf vm0 new) (own N2 i st') in
  let good :=
    mf_close tol cavd (r_obs_cavity s)
    && mf_close tol (n_model_dist i src) (r_obs_model s)
    && mf_close tol (own N2 i st') (r_obs_msg s)
    && mf_close tol (n_global st') (r_obs_global s)
    && (inplace || Bool.eqb (n_all_valid dl cavd last new) (r_obs_success s))
    && (inplace || Bool.eqb (n_updated_flag dl cavd last new) (r_obs_updated s)) in
  (st', base, tol, ok && good).

(* ---------- EPMeanField.subset / EPMeanFieldSubset (stochastic EP on a batch of plate elements) ----------
   The subset keeps, of every factor's mean field, the selected plate elements and the whole message of a
   variable without the plate; such a variable gets rescale s = |batch| / |plate| < 1:
   factor_approximation reports  factor_dist = own^s,  cavity = cavity * own^(1-s)  (model unchanged), and
   project_mean_field tests the validity of a FULL projection on  new / (cavity * own^(1-s))  before
   multiplying own^(1-s) back. *)
Definition restrict (sel : list var) (st : nstate) : nstate :=
  map (filter (fun vm : var * N2 => has_var (fst vm) sel)) st.
Definition scale_of (frac : Q) (scalars : list var) (v : var) : Qc :=
  if has_var v scalars then Q2Qc frac else Q2Qc 1.
(* a factor without any plated variable is not rescaled (only reachable with the repaired subset()) *)
Definition scale_in (frac : Q) (scalars : list var) (m : nmf) (v : var) : Qc :=
  if existsb (fun vm : var * N2 => negb (has_var (fst vm) scalars)) m then scale_of frac scalars v else Q2Qc 1.
Definition sub_rest (s : Qc) (o : N2) : N2 := n_scale (Q2Qc 1 - s)%Qc o.
(* cavity_dist as EPMeanFieldSubset.factor_approximation reports it *)
Definition sub_cavity (frac : Q) (scalars : list var) (i : nat) (sst : nstate) : nmf :=
  let cavd := n_cavity i sst in
  only_messages N2 (map (fun vm =>
    let s := scale_in frac scalars (own N2 i sst) (fst vm) in
    (fst vm, match get N2 (fst vm) cavd with
             | Some c => Some (if qclt s (Q2Qc 1) then n_add c (sub_rest s (snd vm)) else c)
             | None => (* today: KeyError; repaired: the held-back part own^(1-s) is the whole cavity *)
                       if code_subset_scalar_paths && qclt s (Q2Qc 1) then Some (sub_rest s (snd vm)) else None
             end)) (own N2 i sst)).
Definition sub_msg (frac : Q) (scalars : list var) (dl : delta) (cavd last : nmf) (v : var) (nw : N2) : N2 * bool :=
  let c := cand N2 n_add n_opp n_scale dl cavd last v nw in
  let s := scale_in frac scalars last v in
  let chk := match get N2 v last with
             | Some o => if is_full dl && qclt s (Q2Qc 1) then n_add (fst c) (n_opp (sub_rest s o)) else fst c
             | None => fst c
             end in
  let ok := snd c && n_valid chk in
  ((if ok then fst c else match get N2 v last with Some o => o | None => fst c end), ok).
Definition sub_update (frac : Q) (scalars : list var) (dl : delta) (cavd last new : nmf) : nmf :=
  map (fun vn => (fst vn, fst (sub_msg frac scalars dl cavd last (fst vn) (snd vn)))) new.
Definition sub_all_valid (frac : Q) (scalars : list var) (dl : delta) (cavd last new : nmf) : bool :=
  forallb (fun vn => snd (sub_msg frac scalars dl cavd last (fst vn) (snd vn))) new.

Definition sub_step (frac : Q) (scalars : list var) (acc : nstate * vmag * bool) (s : rstep) : nstate * vmag * bool :=
  let '(sst, vm0, ok) := acc in
  let i := r_factor s in
  let new := in_mf (r_new s) in
  let cavd := n_cavity i sst in
  let last := own N2 i sst in
  let dl := delta_of (r_delta s) sst in
  let sst' := replace_nth i (sub_update frac scalars dl cavd last new) sst in
  let tol := vm_add_mf (vm_add_mf vm0 new) (own N2 i sst') in
  let good :=
    mf_close tol (sub_cavity frac scalars i sst) (r_obs_cavity s)
    && mf_close tol (n_model_dist i sst) (r_obs_model s)
    && mf_close tol (own N2 i sst') (r_obs_msg s)
    && mf_close tol (n_global sst') (r_obs_global s)
    && Bool.eqb (sub_all_valid frac scalars dl cavd last new) (r_obs_success s) in
  (sst', tol, ok && good).

(* approx.update(sub) / approx[index] = sub / approx.merge(index, sub): every factor's selected elements are written back *)
Fixpoint write_back (st sst : nstate) : nstate :=
  match st, sst with
  | m :: st', sm :: sst' => overwrite m sm :: write_back st' sst'
  | _, _ => st
  end.

Definition ofit := outcome N2.
Record obs_entry := {
  o_factor : nat; o_success : bool; o_updated : bool; o_token : option Z;
  o_msg : obs_mf;      (* the visited factor's mean field in the recorded approximation *)
  o_global : obs_mf    (* its EPMeanField.mean_field *)
}.
Record obs_access := {
  a_latest_successful : option nat; a_previous_successful : option nat;
  a_latest_update : option nat; a_previous_update : option nat;
  a_latest_result : option (option Z)
}.

Definition in_outcome (o : outcome (Q * Q)) : ofit :=
  match o with ORaise => ORaise | OFit s t n => OFit s t (in_mf n) end.

Definition opt_eqb {A} (eqb : A -> A -> bool) (a b : option A) : bool :=
  match a, b with Some x, Some y => eqb x y | None, None => true | _, _ => false end.
Fixpoint list_eqb {A} (eqb : A -> A -> bool) (a b : list A) : bool :=
  match a, b with
  | [], [] => true
  | x :: a', y :: b' => eqb x y && list_eqb eqb a' b'
  | _, _ => false
  end.

Fixpoint forall2b {A B} (p : A -> B -> bool) (a : list A) (b : list B) : bool :=
  match a, b with
  | [], [] => true
  | x :: a', y :: b' => p x y && forall2b p a' b'
  | _, _ => false
  end.

Fixpoint log_close (log : list (nat * hentry N2)) (o : list obs_entry) (vm0 : vmag) : bool :=
  match log, o with
  | [], [] => true
  | (i, e) :: log', oe :: o' =>
      let tol := vm_add_mf vm0 (own N2 i (h_state e)) in
      Nat.eqb i (o_factor oe)
      && Bool.eqb (h_success e) (o_success oe) && Bool.eqb (h_updated e) (o_updated oe)
      && opt_eqb Z.eqb (h_token e) (o_token oe)
      && mf_close tol (own N2 i (h_state e)) (o_msg oe)
      && mf_close tol (n_global (h_state e)) (o_global oe)
      && log_close log' o' tol
  | _, _ => false
  end.

Definition access_ok (h : list (hentry N2)) (a : obs_access) : bool :=
  opt_eqb Nat.eqb (latest_successful N2 h) (a_latest_successful a)
  && opt_eqb Nat.eqb (previous_successful N2 h) (a_previous_successful a)
  && opt_eqb Nat.eqb (latest_update N2 h) (a_latest_update a)
  && opt_eqb Nat.eqb (previous_update N2 h) (a_previous_update a)
  && opt_eqb (opt_eqb Z.eqb) (latest_result N2 code_latest_result_first h) (a_latest_result a).

Definition scripts_vm (a : vmag) (scripts : list (list ofit)) : vmag :=
  fold_left (fun acc l => fold_left (fun acc' o => match o with OFit _ _ n => vm_add_mf acc' n | ORaise => acc' end) l acc) scripts a.

Inductive case :=
(* an arbitrary factor graph with an arbitrary mean-field state, then a sequence of updates *)
| CRaw (init : list (list (var * (Q * Q))))
       (obs_state0 : list obs_mf) (obs_global0 : obs_mf)
       (steps : list rstep)
       (obs_final : list obs_mf)
(* a plated graph, the subset on a batch of plate elements, projections on the subset, write-back *)
| CSub (init : list (list (var * (Q * Q)))) (sel : list var) (frac : Q) (scalars : list var)
       (obs_sub0 : list obs_mf) (obs_subglobal0 : obs_mf)
       (steps : list rstep)
       (writeback : bool) (obs_final : list obs_mf) (obs_final_global : obs_mf)
(* a declarative graph: initial state, then EPOptimiser.run with scripted optimisers *)
| CDecl (priors : list (var * (Q * Q))) (model_factors : list (list var)) (include : bool) (pf : list var)
        (obs_state0 : list obs_mf) (obs_cavity0 : list obs_mf)
        (rd : rdelta) (order : list nat) (max_steps : nat) (stop : option (nat * nat))
        (scripts : list (list (outcome (Q * Q))))
        (obs_log : list obs_entry) (obs_final : list obs_mf)
        (obs_access : list obs_access)
        (groups : list (list nat))                       (* model factors + hierarchical groups *)
        (obs_groups : list (option (list (option Z)))).  (* EPResult.latest_results / latest_for *)

Definition check_case (c : case) : bool :=
  match c with
  | CRaw init o0 g0 steps ofin =>
      let st0 := in_state init in
      let vm0 := vm_add_st [] st0 in
      let '(stn, _, vmn, ok) := fold_left raw_step steps (st0, st0, vm0, true) in
      st_close vm0 st0 o0 && mf_close vm0 (n_global st0) g0 && ok && st_close vmn stn ofin
  | CSub init sel frac scalars o0 g0 steps wb ofin gfin =>
      let st0 := in_state init in
      let sst0 := restrict sel st0 in
      let vm0 := vm_add_st [] st0 in
      let '(sstn, vmn, ok) := fold_left (sub_step frac scalars) steps (sst0, vm0, true) in
      let stn := if wb then write_back st0 sstn else st0 in
      st_close vm0 sst0 o0 && mf_close vm0 (n_global sst0) g0 && ok
      && st_close vmn stn ofin && mf_close vmn (n_global stn) gfin
  | CDecl priors fs include pf o0 c0 rd order max_steps stop scripts olog ofin oacc groups ogroups =>
      let pri := in_mf priors in
      let st0 := init_state N2 n_scale code_counts_occurrences include fs pf pri n_zero in
      let vm0 := vm_add_mf (vm_add_st [] st0) pri in
      let sc := map (map in_outcome) scripts in
      let dl := delta_of rd st0 in
      let '(stn, log) := run N2 n_add n_opp n_scale n_valid max_steps dl sc stop order st0 [] in
      let vm1 := scripts_vm vm0 sc in
      (negb include || pf_ok fs pf)
      && st_close vm0 st0 o0
      && st_close vm0 (map (fun i => n_cavity i st0) (seq 0 (length st0))) c0
      && log_close log olog vm1
      && st_close (fold_left (fun a e => vm_add_mf a (own N2 (fst e) (h_state (snd e)))) log vm1) stn ofin
      && forall2b (fun i a => access_ok (history_of N2 i log) a) (seq 0 (length st0)) oacc
      && list_eqb (opt_eqb (list_eqb (opt_eqb Z.eqb)))
           (map (fun g => latest_results N2 code_latest_result_first g log) groups) ogroups
  end.
