(* Generic list / sorting lemmas used by C12 (candidates for coq/C01/Sorting.v). *)
From Coq Require Import List Bool Arith PeanoNat Lia Permutation Sorted.
From PAFC01 Require Import ModelTree Sorting.
Import ListNotations.

Section L.
  Context {A : Type} (key : A -> nat).

  (* two lists strictly sorted by the same key that are permutations of each other are equal *)
  Lemma sorted_perm_eq (l1 l2 : list A) :
    StronglySorted (lt_key key) l1 -> StronglySorted (lt_key key) l2 -> Permutation l1 l2 -> l1 = l2.
  Proof.
    revert l2. induction l1 as [|a l1 IH]; intros l2 S1 S2 P.
    - apply Permutation_nil in P. subst. reflexivity.
    - destruct l2 as [|b l2]; [apply Permutation_sym, Permutation_nil in P; discriminate|].
      inversion S1 as [|? ? S1' H1]; subst. inversion S2 as [|? ? S2' H2]; subst.
      rewrite Forall_forall in H1, H2.
      assert (E : a = b).
      { assert (Ia : In a (b :: l2)) by (apply (Permutation_in _ P); left; reflexivity).
        assert (Ib : In b (a :: l1)) by (apply (Permutation_in _ (Permutation_sym P)); left; reflexivity).
        destruct Ia as [->|Ia]; [reflexivity|]. destruct Ib as [->|Ib]; [reflexivity|].
        specialize (H1 b Ib). specialize (H2 a Ia). unfold lt_key in *. lia. }
      subst b. f_equal. apply IH; auto. apply (Permutation_cons_inv P).
  Qed.

  (* sorting is insensitive to the order of the input when keys are distinct *)
  Lemma sort_by_perm_eq (l1 l2 : list A) :
    Permutation l1 l2 -> NoDup (map key l1) -> sort_by key l1 = sort_by key l2.
  Proof.
    intros P ND. apply sorted_perm_eq.
    - apply sort_by_strict. exact ND.
    - apply sort_by_strict. apply (Permutation_NoDup (Permutation_map key P)). exact ND.
    - eapply Permutation_trans; [apply sort_by_perm|].
      eapply Permutation_trans; [exact P|]. apply Permutation_sym. apply sort_by_perm.
  Qed.

  Lemma sort_by_in (l : list A) (x : A) : In x (sort_by key l) <-> In x l.
  Proof.
    split; intro H.
    - apply (Permutation_in _ (sort_by_perm key l)). exact H.
    - apply (Permutation_in _ (Permutation_sym (sort_by_perm key l))). exact H.
  Qed.

  Lemma sort_by_length (l : list A) : length (sort_by key l) = length l.
  Proof. apply Permutation_length. apply sort_by_perm. Qed.
End L.

(* sorting commutes with a map that preserves the comparisons of keys *)
Section M.
  Context {A B : Type} (key : A -> nat) (key' : B -> nat) (f : A -> B).

  Lemma insert_by_map (x : A) (l : list A) :
    (forall y, In y l -> Nat.leb (key' (f x)) (key' (f y)) = Nat.leb (key x) (key y)) ->
    insert_by key' (f x) (map f l) = map f (insert_by key x l).
  Proof.
    induction l as [|y l IH]; intro H; simpl; [reflexivity|].
    rewrite (H y (or_introl eq_refl)). destruct (Nat.leb (key x) (key y)); [reflexivity|].
    simpl. f_equal. apply IH. intros z Hz. apply H. right. exact Hz.
  Qed.

  Lemma sort_by_map (l : list A) :
    (forall x y, In x l -> In y l -> Nat.leb (key' (f x)) (key' (f y)) = Nat.leb (key x) (key y)) ->
    sort_by key' (map f l) = map f (sort_by key l).
  Proof.
    induction l as [|x l IH]; intro H; simpl; [reflexivity|].
    rewrite IH by (intros a b Ha Hb; apply H; right; assumption).
    apply insert_by_map. intros y Hy. apply H; [left; reflexivity|right].
    apply (sort_by_in key l y). exact Hy.
  Qed.
End M.

Lemma strict_map_mono (f : nat -> nat) (l : list nat) :
  StronglySorted lt l -> (forall x y, In x l -> In y l -> x < y -> f x < f y) -> StronglySorted lt (map f l).
Proof.
  induction 1 as [|a l S IH Hall]; intro M; simpl; constructor.
  - apply IH. intros x y Hx Hy. apply M; right; assumption.
  - rewrite Forall_forall in *. intros z Hz. apply in_map_iff in Hz. destruct Hz as [w [<- Hw]].
    apply M; [left; reflexivity|right; exact Hw|apply Hall; exact Hw].
Qed.

Lemma map_ext_in_id {A} (f : A -> A) (l : list A) : (forall x, In x l -> f x = x) -> map f l = l.
Proof.
  induction l as [|a l IH]; intro H; simpl; [reflexivity|].
  rewrite (H a (or_introl eq_refl)). f_equal. apply IH. intros x Hx. apply H. right. exact Hx.
Qed.

Lemma flat_map_ext_in {A B} (f g : A -> list B) (l : list A) :
  (forall x, In x l -> f x = g x) -> flat_map f l = flat_map g l.
Proof.
  induction l as [|a l IH]; intro H; simpl; [reflexivity|].
  rewrite (H a (or_introl eq_refl)). f_equal. apply IH. intros x Hx. apply H. right. exact Hx.
Qed.

Lemma nth_firstn_lt {A} (l : list A) (d : A) : forall i k, i < k -> nth i (firstn k l) d = nth i l d.
Proof.
  induction l as [|a l IH]; intros i k H.
  - rewrite firstn_nil. reflexivity.
  - destruct k as [|k]; [lia|]. destruct i as [|i]; simpl; [reflexivity|]. apply IH. lia.
Qed.

(* a prefix of a duplicate-free list that contains every element is the whole list *)
Lemma nodup_prefix_cover (ids : list nat) : forall k, NoDup ids -> k <= length ids ->
  (forall q, In q ids -> In q (firstn k ids)) -> k = length ids.
Proof.
  induction ids as [|x ids IH]; intros k ND L C.
  - simpl in *. lia.
  - inversion ND as [|? ? Hnot ND']; subst. destruct k as [|k].
    + exfalso. apply (C x). left. reflexivity.
    + simpl. f_equal. apply IH; [exact ND'|simpl in L; lia|].
      intros q Hq. destruct (C q (or_intror Hq)) as [E|H]; [|exact H].
      subst q. contradiction.
Qed.
