(* C12 model: prior passing.  Builds on the ModelTree of C01.  Mirrors, one for one:
     AbstractPriorModel.mapper_from_prior_means (default / absolute / relative widths, config limits),
     AbstractPriorModel.mapper_from_uniform_floats, AbstractPriorModel.with_limits,
     AbstractPriorModel.replacing (mapper_from_partial_prior_arguments),
     AbstractPriorModel.copy_with_fixed_priors (transfer_classes),
     Model / Collection / TuplePrior / CompoundPrior .gaussian_prior_model_for_arguments   -> rebuild
     holder of path_for_prior(prior) (before a8a9b5b: prior_class_dict)                     -> holder_class (class_of)
     prior_tuple.name / path_for_prior(prior)[-2]                                           -> cfg_name
   The arithmetic leaves are the definitions of Gen.v (regenerated from /repo); the model is
   parametric in the value type and those leaves, and is instantiated with the binary64 leaves
   for the correspondence and with the exact-rational leaves for the arithmetic theorems.
   Faithful to the code that exists, defects included. *)
From Coq Require Import List String Bool Arith PeanoNat Ascii.
From Coq Require Import Floats.PrimFloat.
From PAFCommon Require Import PyFloat.
From PAFC01 Require Import ModelTree Model.
From PAFC12 Require Import Gen.
Import ListNotations.
Local Open Scope string_scope.
Local Open Scope list_scope.

Inductive family := FUniform | FGaussian | FLogUniform | FLogGaussian.

(* MessageException (negative sigma) | PriorException (limits) | IndexError | KeyError | TypeError | AttributeError *)
Inductive exn := EMessage | EPrior | EIndex | EKey | EType | EAttr.

Inductive res (A : Type) := Ok (a : A) | Exc (e : exn).
Arguments Ok {A}. Arguments Exc {A}.

(* ------------------------------------------------------------------------------------------ *)
(* structure: the recursive rebuild that substitutes priors by identity                         *)
(* ------------------------------------------------------------------------------------------ *)
Section Structure.
  Variable V : Type.
  Notation node := (node V).

  Definition is_const (n : node) : bool := match n with NConst _ => true | _ => false end.
  Definition member_pos (m : string * (nat * node)) : nat := fst (snd m).

  Section Rebuild.
    (* arguments: {old prior: new prior}; None = no entry (KeyError) *)
    Variable sigma : nat -> option nat.

    (* TuplePrior.gaussian_tuple_prior_for_arguments: prior members in attribute order ...
       (members defined by arithmetic, kept since 7acf0fe, are outside `wf` and not modelled) *)
    Fixpoint tuple_priors (ms : list (string * (nat * node))) : option (list (string * (nat * node))) :=
      match ms with
      | [] => Some []
      | (k, (i, NPrior p)) :: ms' =>
          match sigma p, tuple_priors ms' with
          | Some p', Some r => Some ((k, (i, NPrior p')) :: r)
          | _, _ => None
          end
      | _ :: ms' => tuple_priors ms'
      end.
    (* ... followed by the float members sorted by position; anything else is not copied *)
    Definition tuple_consts (ms : list (string * (nat * node))) : list (string * (nat * node)) :=
      sort_by member_pos (filter (fun m => is_const (snd (snd m))) ms).

    Fixpoint rebuild (n : node) : option node :=
      match n with
      | NPrior p => option_map NPrior (sigma p)                  (* Prior: arguments[self] *)
      | NConst v => Some (NConst v)
      | NTuple ms => option_map (fun ps => NTuple (ps ++ tuple_consts ms)) (tuple_priors ms)
      | NBin o ln rn l r =>                                      (* CompoundPrior: copy, new.left, new.right *)
          match rebuild l, rebuild r with
          | Some l', Some r' => Some (NBin o ln rn l' r')
          | _, _ => None
          end
      | NUn o nm c => option_map (NUn o nm) (rebuild c)          (* ModifiedPrior: copy, new.prior *)
      | NModel cls ctor attrs =>                                 (* Model: deep copy; tuple priors, direct priors,
                                                                    direct floats and child models re-set in place *)
          option_map (NModel cls ctor)
            ((fix go (a : list (string * node)) : option (list (string * node)) :=
                match a with
                | [] => Some []
                | (k, c) :: a' =>
                    match rebuild c, go a' with
                    | Some c', Some r => Some ((k, c') :: r)
                    | _, _ => None
                    end
                end) attrs)
      | NColl attrs =>                                           (* Collection: a NEW collection receiving the child
                                                                    models, the priors and the float constants *)
          option_map NColl
            ((fix go (a : list (string * node)) : option (list (string * node)) :=
                match a with
                | [] => Some []
                | (k, c) :: a' =>
                    match c with
                    | NTuple _ => go a'
                    | _ => match rebuild c, go a' with
                           | Some c', Some r => Some ((k, c') :: r)
                           | _, _ => None
                           end
                    end
                end) attrs)
      end.
  End Rebuild.

  (* ---- which configuration entry a prior is looked up under ---- *)
  Definition has_prior (q : nat) (n : node) : bool := existsb (Nat.eqb q) (map snd (walk V n)).

  (* prior_class_dict[prior]: every prior below a Model gets the Model's class, entries of child
     prior models (later children win) override; compound priors have cls = float; a Collection
     maps its direct priors to ModelInstance *)
  Fixpoint class_of (q : nat) (n : node) : option string :=
    match n with
    | NModel cls _ attrs =>
        match (fix go (a : list (string * node)) : option string :=
                 match a with
                 | [] => None
                 | (_, c) :: a' => match go a' with Some k => Some k | None => class_of q c end
                 end) attrs with
        | Some k => Some k
        | None => if has_prior q n then Some cls else None
        end
    | NBin _ _ _ _ _ | NUn _ _ _ => if has_prior q n then Some "float" else None   (* (legacy view; unary forms did not exist in its record) *)
    | NColl attrs =>
        if existsb (fun kc => match snd kc with NPrior p => Nat.eqb p q | _ => false end) attrs
        then Some "ModelInstance"
        else (fix go (a : list (string * node)) : option string :=
                match a with
                | [] => None
                | (_, c) :: a' => match go a' with Some k => Some k | None => class_of q c end
                end) attrs
    | _ => None
    end.

  (* Since a8a9b5b (proposed_fixes/C12-config-one-place.diff) class and name of the configuration lookup are taken from
     ONE place of the prior, its last path p: the class is that of the object holding the prior there
     (object_for_path(p[:-1]); the Model holding the tuple for a tuple member; ModelInstance for a Collection; float for
     an arithmetic prior).  own_place_class = false is the behaviour before the repair (class from prior_class_dict),
     kept for the legacy witness. *)
  Definition own_place_class : bool := true.

  (* ModifiedPrior.cls is `self.prior.cls`: defined (float) when the chain of unary forms ends in a CompoundPrior,
     an AttributeError when it ends in a Prior (a Prior has no `cls`) -- then hasattr(holder, "cls") is False and
     holder.prior_class_dict[prior] evaluates self.cls again and raises (finding C12 modified-prior-cls).
     Gen.modified_prior_cls_falls_back is read from the source of ModifiedPrior.cls on every run: true once the class
     falls back to float (proposed_fixes/C12-modified-prior-cls.diff); then every unary form has the class float *)
  Fixpoint un_has_cls (c : node) : bool :=
    match c with
    | NBin _ _ _ _ _ => true
    | NUn _ _ c' => un_has_cls c'
    | _ => false
    end.

  (* A Collection has no `cls`: for a prior it holds directly the class comes from collection.prior_class_dict[prior],
     which is computed over EVERY prior model below the collection; the entry of a unary form that holds a prior
     directly evaluates its `cls` -- so (before the repair) one -p anywhere below makes the lookup of the collection's
     own priors raise as well *)
  Fixpoint has_bare_un (n : node) : bool :=
    match n with
    | NUn _ _ c => is_prior V c || has_bare_un c
    | NBin _ _ _ l r => has_bare_un l || has_bare_un r
    | NModel _ _ attrs | NColl attrs =>
        (fix go (a : list (string * node)) : bool :=
           match a with [] => false | (_, c) :: a' => has_bare_un c || go a' end) attrs
    | _ => false
    end.

  Definition coll_own (n : node) : option string :=
    if negb modified_prior_cls_falls_back && has_bare_un n then None else Some "ModelInstance".

  Fixpoint holder_class (p : path) (n : node) : option string :=
    match p with
    | [] => None
    | k :: p' =>
        let own := match n with
                   | NModel cls _ _ => Some cls
                   | NColl _ => coll_own n
                   | NBin _ _ _ _ _ => Some "float"
                   | NUn _ _ c => if un_has_cls c || modified_prior_cls_falls_back then Some "float" else None
                   | _ => None
                   end in
        match p' with
        | [] => own
        | _ :: rest =>
            match n with
            | NModel _ _ attrs | NColl attrs =>
                (fix go (a : list (string * node)) : option string :=
                   match a with
                   | [] => None
                   | (k', c) :: a' =>
                       if String.eqb k k'
                       then match (match c with
                                   | NTuple _ => match rest with [] => own | _ => None end
                                   | _ => holder_class p' c
                                   end) with
                            | Some x => Some x
                            | None => go a'
                            end
                       else go a'
                   end) attrs
            | NBin _ ln rn l r =>
                let down (c : node) := match c with
                                       | NTuple _ => match rest with [] => own | _ => None end
                                       | _ => holder_class p' c
                                       end in
                if String.eqb k rn then down r else if String.eqb k ln then down l else None
            | NUn _ nm c =>
                if String.eqb k nm
                then match c with
                     | NTuple _ => match rest with [] => own | _ => None end
                     | _ => holder_class p' c
                     end
                else None
            | _ => None
            end
        end
    end.

  (* the name and path of the LAST place of a prior in the walk (unique_prior_tuples / path_for_prior) *)
  Definition last_path (q : nat) (n : node) : option path :=
    (fix find (l : list (nat * path)) : option path :=
       match l with
       | [] => None
       | (k, p) :: l' => if Nat.eqb k q then Some p else find l'
       end) (unique_priors V n).

  (* the class of the configuration lookup: the holder of the last place (before a8a9b5b: prior_class_dict[prior]) *)
  Definition lookup_class (q : nat) (n : node) : option string :=
    if own_place_class
    then match last_path q n with Some p => holder_class p n | None => None end
    else class_of q n.

  Definition is_digit (c : ascii) : bool :=
    let k := nat_of_ascii c in Nat.leb 48 k && Nat.leb k 57.
  Fixpoint all_digits (s : string) : bool :=
    match s with EmptyString => true | String c s' => is_digit c && all_digits s' end.
  Definition isdigit (s : string) : bool :=
    match s with EmptyString => false | _ => all_digits s end.

  (* name = prior_tuple.name; if name.isdigit() and the path has an enclosing attribute: name = path[-2] *)
  Definition cfg_name (p : path) : res string :=
    let name := last p "" in
    if isdigit name then
      match rev p with
      | _ :: prev :: _ => Ok prev
      | _ => Ok name
      end
    else Ok name.

  Fixpoint lookup_nat {B} (q : nat) (l : list (nat * B)) : option B :=
    match l with
    | [] => None
    | (k, v) :: l' => if Nat.eqb k q then Some v else lookup_nat q l'
    end.
End Structure.

Arguments lookup_nat {B}.

(* ------------------------------------------------------------------------------------------ *)
(* the passing modes                                                                            *)
(* ------------------------------------------------------------------------------------------ *)
Section Pass.
  Variable V : Type.
  Notation node := (node V).

  (* leaves (Gen.v) *)
  Variable abs_width : V -> V.                 (* a                               pm_abs_width *)
  Variable rel_width : V -> V -> V.            (* r * mean                        pm_rel_width *)
  Variable wm_rel : V -> V -> V.               (* self.value * mean               wm_relative  *)
  Variable wm_abs : V -> V.                    (* self.value                      wm_absolute  *)
  Variable uf_lo uf_hi : V -> V -> V.          (* floats[i] -/+ b                 uf_lower/uf_upper *)
  Variable pl_lo pl_hi : V -> V -> V.          (* max/min(limit, self.limit)      pl_lower/pl_upper *)
  Variable gl_mean gl_sigma : V -> V -> V.     (* (lo+hi)/2, hi-lo                gl_mean/gl_sigma *)
  Variable lu_lo lu_hi : V -> V.               (* max(1e-6, lo), hi               lu_lower/lu_upper *)
  Variable lu_bad : V -> bool.                 (* lower <= 0                      lu_bad_lower *)
  Variable bad_limits : V -> V -> bool.        (* lower >= upper                  prior_bad_limits *)
  Variable neg_sigma : V -> bool.              (* sigma < 0                       sigma_negative *)
  Variable ninf pinf : V.                      (* float("-inf"), float("inf") *)
  Variable half : V.                           (* RelativeWidthModifier(0.5): the default *)
  Variable bin : binop -> V -> V -> V.
  Variable un : unop -> V -> V.

  Inductive wmod := WAbs (v : V) | WRel (v : V).

  Record spec := {
    s_fam : family;
    s_lo : V; s_hi : V;               (* lower_limit, upper_limit *)
    s_mean : V; s_sigma : V;          (* GaussianPrior only *)
    s_wm : option wmod                (* prior.width_modifier *)
  }.

  Record centry := { ce_wm : option wmod; ce_lim : option (V * V) }.
  Definition config := list ((string * string) * centry).

  Fixpoint cfg_lookup (c : config) (cls name : string) : option centry :=
    match c with
    | [] => None
    | ((k1, k2), e) :: c' => if String.eqb k1 cls && String.eqb k2 name then Some e else cfg_lookup c' cls name
    end.

  Definition apply_wm (w : wmod) (m : V) : V :=
    match w with WAbs v => wm_abs v | WRel v => wm_rel v m end.

  (* old prior -> (identity of the new prior, the new prior) *)
  Definition arguments := list (nat * (nat * spec)).

  Definition sigma_of (a : arguments) (q : nat) : option nat := option_map fst (lookup_nat q a).

  Variable cfg : config.
  Variable specs : list (nat * spec).       (* the priors of the original model *)

  (* ---- mapper_from_prior_means ---- *)
  Definition derive_mean (a r : option V) (no_limits : bool) (n : node) (q : nat) (m : V) : res spec :=
    match lookup_class V q n with
    | None => Exc (if own_place_class then EAttr else EKey)   (* the holder has no class: ModifiedPrior over a Prior *)
    | Some cls =>
      match last_path V q n with
      | None => Exc EKey
      | Some p =>
        match cfg_name p with
        | Exc e => Exc e
        | Ok name =>
          match lookup_nat q specs with
          | None => Exc EKey
          | Some old =>
            let entry := cfg_lookup cfg cls name in
            let w := match s_wm old with
                     | Some w => w
                     | None => match entry with
                               | Some {| ce_wm := Some w |} => w
                               | _ => WRel half
                               end
                     end in
            match a, r with
            | Some _, Some _ => Exc EPrior
            | _, _ =>
              let width := match a, r with
                           | Some a', _ => abs_width a'
                           | None, Some r' => rel_width r' m
                           | None, None => apply_wm w m
                           end in
              let lim := if no_limits then (ninf, pinf)
                         else match entry with
                              | Some {| ce_lim := Some l |} => l
                              | _ => (s_lo old, s_hi old)
                              end in
              if neg_sigma width then Exc EMessage
              else if bad_limits (fst lim) (snd lim) then Exc EPrior
              else Ok {| s_fam := FGaussian; s_lo := fst lim; s_hi := snd lim;
                         s_mean := m; s_sigma := width; s_wm := s_wm old |}
            end
          end
        end
      end
    end.

  (* for prior_tuple, mean in zip(prior_tuples_ordered_by_id, means): the new prior keeps the id *)
  Fixpoint zip_derive (f : nat -> V -> res spec) (ids : list nat) (ms : list V) : res arguments :=
    match ids, ms with
    | q :: ids', m :: ms' =>
        match f q m with
        | Exc e => Exc e
        | Ok s => match zip_derive f ids' ms' with
                  | Exc e => Exc e
                  | Ok rest => Ok ((q, (q, s)) :: rest)
                  end
        end
    | _, _ => Ok []
    end.

  (* ---- mapper_from_uniform_floats: for i, prior_tuple in enumerate(...): floats[i] ---- *)
  Definition derive_bounded (b : V) (q : nat) (f : V) : res spec :=
    let lo := uf_lo f b in
    let hi := uf_hi f b in
    if bad_limits lo hi then Exc EPrior
    else Ok {| s_fam := FUniform; s_lo := lo; s_hi := hi; s_mean := lo; s_sigma := lo; s_wm := None |}.

  Fixpoint index_derive (f : nat -> V -> res spec) (ids : list nat) (ms : list V) : res arguments :=
    match ids with
    | [] => Ok []
    | q :: ids' =>
        match ms with
        | [] => Exc EIndex
        | m :: ms' =>
            match f q m with
            | Exc e => Exc e
            | Ok s => match index_derive f ids' ms' with
                      | Exc e => Exc e
                      | Ok rest => Ok ((q, (q, s)) :: rest)
                      end
            end
        end
    end.

  (* ---- with_limits: prior.with_limits(lo, hi), by prior family; the new priors are fresh
     objects created in id order (ids base, base+1, ...) ---- *)
  Definition derive_limits (q : nat) (l : V * V) : res spec :=
    match lookup_nat q specs with
    | None => Exc EKey
    | Some old =>
        match s_fam old with
        | FUniform =>                                         (* Prior.with_limits *)
            let lo := pl_lo (fst l) (s_lo old) in
            let hi := pl_hi (snd l) (s_hi old) in
            if bad_limits lo hi then Exc EPrior
            else Ok {| s_fam := FUniform; s_lo := lo; s_hi := hi; s_mean := lo; s_sigma := lo; s_wm := None |}
        | FGaussian =>                                        (* classmethod GaussianPrior.with_limits *)
            let m := gl_mean (fst l) (snd l) in
            let s := gl_sigma (fst l) (snd l) in
            if neg_sigma s then Exc EMessage
            else if bad_limits ninf pinf then Exc EPrior
            else Ok {| s_fam := FGaussian; s_lo := ninf; s_hi := pinf; s_mean := m; s_sigma := s; s_wm := None |}
        | FLogUniform =>                                      (* classmethod LogUniformPrior.with_limits *)
            let lo := lu_lo (fst l) in
            let hi := lu_hi (snd l) in
            if lu_bad lo then Exc EPrior
            else if bad_limits lo hi then Exc EPrior
            else Ok {| s_fam := FLogUniform; s_lo := lo; s_hi := hi; s_mean := lo; s_sigma := lo; s_wm := None |}
        | FLogGaussian =>                                     (* LogGaussianPrior.with_limits (d755794): same mean and sigma,
                                                                 limits intersected with the old ones *)
            let lo := pl_lo (fst l) (s_lo old) in
            let hi := pl_hi (snd l) (s_hi old) in
            if bad_limits lo hi then Exc EPrior
            else Ok {| s_fam := FLogGaussian; s_lo := lo; s_hi := hi; s_mean := lo; s_sigma := lo; s_wm := None |}
        end
    end.

  Fixpoint zip_limits (fresh : nat) (ids : list nat) (ls : list (V * V)) : res arguments :=
    match ids, ls with
    | q :: ids', l :: ls' =>
        match derive_limits q l with
        | Exc e => Exc e
        | Ok s => match zip_limits (S fresh) ids' ls' with
                  | Exc e => Exc e
                  | Ok rest => Ok ((q, (fresh, s)) :: rest)
                  end
        end
    | _, _ => Ok []
    end.

  (* ---- replacing: {**{prior: prior for prior in self.priors}, **arguments} ---- *)
  Definition replace_args (n : node) (m : arguments) : arguments :=
    m ++ flat_map (fun q => match lookup_nat q specs with Some s => [(q, (q, s))] | None => [] end)
                  (ordered_ids V n).

  Inductive mode :=
  | MMeans (a r : option V) (no_limits : bool) (means : list V)
  | MBounded (b : V) (floats : list V)
  | MLimits (fresh : nat) (limits : list (V * V))
  | MReplace (m : arguments).

  Definition mode_args (md : mode) (n : node) : res arguments :=
    match md with
    | MMeans a r nl means => zip_derive (derive_mean a r nl n) (ordered_ids V n) means
    | MBounded b floats => index_derive (derive_bounded b) (ordered_ids V n) floats
    | MLimits fresh ls => zip_limits fresh (ordered_ids V n) ls
    | MReplace m => Ok (replace_args n m)
    end.

  (* the priors of the new model in its own id order *)
  Definition new_specs (a : arguments) (n' : node) : list (nat * spec) :=
    flat_map (fun q' => match lookup_nat q' (map snd a) with Some s => [(q', s)] | None => [] end)
             (ordered_ids V n').

  Definition pass (md : mode) (n : node) : res (node * list (nat * spec)) :=
    match mode_args md n with
    | Exc e => Exc e
    | Ok a =>
        match rebuild V (sigma_of a) n with
        | None => Exc EKey
        | Some n' => Ok (n', new_specs a n')
        end
    end.

  (* ---- copy_with_fixed_priors(instance): transfer_classes over a deep copy; `vals` are the
     values the instance holds for the priors ---- *)
  Section Fixed.
    Variable vals : nat -> option V.

    Fixpoint fix_members (ms : list (string * (nat * node))) : option (list (string * (nat * node))) :=
      match ms with
      | [] => Some []
      | (k, (i, NPrior p)) :: ms' =>
          match vals p, fix_members ms' with
          | Some v, Some r => Some ((k, (i, NConst v)) :: r)
          | _, _ => None
          end
      | (k, (i, NConst v)) :: ms' => option_map (cons (k, (i, NConst v))) (fix_members ms')
      | _ :: ms' => fix_members ms'
      end.

    Fixpoint fix_tree (n : node) : option node :=
      match n with
      | NPrior p => option_map NConst (vals p)
      | NConst v => Some (NConst v)
      | NTuple ms => option_map (fun r => NTuple (sort_by (member_pos V) r)) (fix_members ms)   (* the realised tuple *)
      | NBin _ _ _ _ _ | NUn _ _ _ =>                                                      (* the realised float *)
          match inst V bin un vals n with IV v => Some (NConst v) | _ => None end
      | NModel cls ctor attrs =>
          option_map (NModel cls ctor)
            ((fix go (a : list (string * node)) : option (list (string * node)) :=
                match a with
                | [] => Some []
                | (k, c) :: a' =>
                    match fix_tree c, go a' with
                    | Some c', Some r => Some ((k, c') :: r)
                    | _, _ => None
                    end
                end) attrs)
      | NColl attrs =>
          option_map NColl
            ((fix go (a : list (string * node)) : option (list (string * node)) :=
                match a with
                | [] => Some []
                | (k, c) :: a' =>
                    match fix_tree c, go a' with
                    | Some c', Some r => Some ((k, c') :: r)
                    | _, _ => None
                    end
                end) attrs)
      end.
  End Fixed.

  Definition fixed (n : node) (vec : list V) : option node :=
    fix_tree (zip_args V (ordered_ids V n) vec) n.
End Pass.

Arguments WAbs {V}. Arguments WRel {V}.
Arguments MMeans {V}. Arguments MBounded {V}. Arguments MLimits {V}. Arguments MReplace {V}.

(* ------------------------------------------------------------------------------------------ *)
(* binary64 instance and correspondence cases                                                   *)
(* ------------------------------------------------------------------------------------------ *)
Definition fspec := spec float.
Definition fmode := mode float.

Definition fpass (cfg : config float) (specs : list (nat * fspec)) : fmode -> node float -> res (node float * list (nat * fspec)) :=
  pass float pm_abs_width_F pm_rel_width_F wm_relative_F wm_absolute_F uf_lower_F uf_upper_F pl_lower_F pl_upper_F
       gl_mean_F gl_sigma_F lu_lower_F lu_upper_F lu_bad_lower_F prior_bad_limits_F sigma_negative_F
       neg_infinity infinity 0x1p-1%float cfg specs.

Definition ffixed : node float -> list float -> option (node float) := fixed float fbin funop.

Definition family_eqb (a b : family) : bool :=
  match a, b with
  | FUniform, FUniform | FGaussian, FGaussian | FLogUniform, FLogUniform | FLogGaussian, FLogGaussian => true
  | _, _ => false
  end.

Definition wmod_eqb (a b : option (wmod float)) : bool :=
  match a, b with
  | None, None => true
  | Some (WAbs x), Some (WAbs y) | Some (WRel x), Some (WRel y) => fbits_eqb x y
  | _, _ => false
  end.

Definition spec_eqb (a b : fspec) : bool :=
  family_eqb (s_fam _ a) (s_fam _ b)
  && fbits_eqb (s_lo _ a) (s_lo _ b) && fbits_eqb (s_hi _ a) (s_hi _ b)
  && (match s_fam _ a with
      | FGaussian => fbits_eqb (s_mean _ a) (s_mean _ b) && fbits_eqb (s_sigma _ a) (s_sigma _ b)
      | _ => true
      end)
  && wmod_eqb (s_wm _ a) (s_wm _ b).

Definition binop_eqb (a b : binop) : bool :=
  match a, b with
  | OAdd, OAdd | OSub, OSub | OMul, OMul | ODiv, ODiv | OFloorDiv, OFloorDiv | OMod, OMod => true
  | _, _ => false
  end.

Fixpoint node_eqb (a b : node float) : bool :=
  match a, b with
  | NPrior p, NPrior q => Nat.eqb p q
  | NConst x, NConst y => fbits_eqb x y
  | NTuple xs, NTuple ys =>
      (fix go (xs ys : list (string * (nat * node float))) : bool :=
         match xs, ys with
         | [], [] => true
         | (k, (i, x)) :: xs', (l, (j, y)) :: ys' => String.eqb k l && Nat.eqb i j && node_eqb x y && go xs' ys'
         | _, _ => false
         end) xs ys
  | NBin o ln rn l r, NBin o' ln' rn' l' r' =>
      binop_eqb o o' && String.eqb ln ln' && String.eqb rn rn' && node_eqb l l' && node_eqb r r'
  | NUn o nm c, NUn o' nm' c' =>
      match o, o' with UNeg, UNeg | UAbs, UAbs => true | _, _ => false end && String.eqb nm nm' && node_eqb c c'
  | NModel c ct xs, NModel d dt ys =>
      String.eqb c d && list_eqb String.eqb ct dt &&
      (fix go (xs ys : list (string * node float)) : bool :=
         match xs, ys with
         | [], [] => true
         | (k, x) :: xs', (l, y) :: ys' => String.eqb k l && node_eqb x y && go xs' ys'
         | _, _ => false
         end) xs ys
  | NColl xs, NColl ys =>
      (fix go (xs ys : list (string * node float)) : bool :=
         match xs, ys with
         | [], [] => true
         | (k, x) :: xs', (l, y) :: ys' => String.eqb k l && node_eqb x y && go xs' ys'
         | _, _ => false
         end) xs ys
  | _, _ => false
  end.

Definition exn_eqb (a b : exn) : bool :=
  match a, b with
  | EMessage, EMessage | EPrior, EPrior | EIndex, EIndex | EKey, EKey | EType, EType | EAttr, EAttr => true
  | _, _ => false
  end.

Definition outcome := res (node float * list (nat * fspec)).

Definition outcome_eqb (a b : outcome) : bool :=
  match a, b with
  | Ok (n, s), Ok (n', s') =>
      node_eqb n n' && list_eqb (fun x y => Nat.eqb (fst x) (fst y) && spec_eqb (snd x) (snd y)) s s'
  | Exc e, Exc e' => exn_eqb e e'
  | _, _ => false
  end.

Inductive case :=
| CPass (tree : node float) (specs : list (nat * fspec)) (cfg : config float) (md : fmode)
        (out : outcome)                       (* the new model and its priors in id order, or the exception *)
        (paths : list path) (ids : list nat)  (* new_model.paths, ids of new_model.priors_ordered_by_id *)
| CFixed (tree : node float) (vec : list float) (out : option (node float)).

Definition check_case (c : case) : bool :=
  match c with
  | CPass tree specs cfg md out pths ids =>
      let got := fpass cfg specs md tree in
      outcome_eqb got out
      && match got with
         | Ok (n', _) => list_eqb path_eqb (ModelTree.paths float n') pths && list_eqb Nat.eqb (ordered_ids float n') ids
         | Exc _ => true
         end
  | CFixed tree vec out =>
      match ffixed tree vec, out with
      | Some a, Some b => node_eqb a b
      | None, None => true
      | _, _ => false
      end
  end.

(* short constructors for generated case files *)
Definition mk (f : family) (lo hi mean sigma : float) (w : option (wmod float)) : fspec :=
  Build_spec float f lo hi mean sigma w.
Definition mkc (w : option (wmod float)) (l : option (float * float)) : centry float := Build_centry float w l.
