(* C12: the arithmetic leaves bundled in one record, so that the property theorems can be stated once for
   every value type (binary64 leaves of Gen.v, exact-rational leaves of Gen.v). *)
From Coq Require Import List String Bool Arith PeanoNat Lia ZArith QArith.
From Coq Require Import Floats.PrimFloat.
From PAFCommon Require Import PyFloat PyNum.
From PAFC01 Require Import ModelTree Sorting.
From PAFC01 Require Proofs Proofs2.
From PAFC12 Require Import Gen Model Lib Proofs Proofs2 Proofs3 Proofs4 Proofs5.
Import ListNotations.
Local Close Scope Q_scope.
Local Open Scope string_scope.
Local Open Scope list_scope.

Record leaves (V : Type) := {
  l_abs_width : V -> V;  l_rel_width : V -> V -> V;  l_wm_rel : V -> V -> V;  l_wm_abs : V -> V;
  l_uf_lo : V -> V -> V;  l_uf_hi : V -> V -> V;  l_pl_lo : V -> V -> V;  l_pl_hi : V -> V -> V;
  l_gl_mean : V -> V -> V;  l_gl_sigma : V -> V -> V;  l_lu_lo : V -> V;  l_lu_hi : V -> V;
  l_lu_bad : V -> bool;  l_bad_limits : V -> V -> bool;  l_neg_sigma : V -> bool;
  l_ninf : V;  l_pinf : V;  l_half : V
}.

Section B.
  Variable V : Type.
  Variable L : leaves V.
  Variable cfg : config V.
  Variable specs : list (nat * spec V).
  Notation node := (node V).

  Definition lpass : mode V -> node -> res (node * list (nat * spec V)) :=
    pass V (l_abs_width V L) (l_rel_width V L) (l_wm_rel V L) (l_wm_abs V L) (l_uf_lo V L) (l_uf_hi V L)
         (l_pl_lo V L) (l_pl_hi V L) (l_gl_mean V L) (l_gl_sigma V L) (l_lu_lo V L) (l_lu_hi V L) (l_lu_bad V L)
         (l_bad_limits V L) (l_neg_sigma V L) (l_ninf V L) (l_pinf V L) (l_half V L) cfg specs.

  Definition lderive_mean : option V -> option V -> bool -> node -> nat -> V -> res (spec V) :=
    derive_mean V (l_abs_width V L) (l_rel_width V L) (l_wm_rel V L) (l_wm_abs V L) (l_bad_limits V L)
                (l_neg_sigma V L) (l_ninf V L) (l_pinf V L) (l_half V L) cfg specs.

  Definition lderive_bounded : V -> nat -> V -> res (spec V) :=
    derive_bounded V (l_uf_lo V L) (l_uf_hi V L) (l_bad_limits V L).

  Definition llimits_good : Prop := limits_good V (l_bad_limits V L) (l_ninf V L) (l_pinf V L) cfg specs.
  Definition lmodifiers_good (m : V) : Prop :=
    modifiers_good V (l_wm_rel V L) (l_wm_abs V L) (l_neg_sigma V L) (l_half V L) cfg specs m.

  Lemma l_structure_kept (md : mode V) (n n' : node) (sp : list (nat * spec V)) :
    wf V n -> keeps_ids V md -> lpass md n = Ok (n', sp) ->
    walk V n' = walk V n /\ paths V n' = paths V n /\ unique_prior_paths V n' = unique_prior_paths V n /\
    ordered_ids V n' = ordered_ids V n /\ prior_count V n' = prior_count V n.
  Proof. apply structure_kept. Qed.

  Lemma l_own_value (a r : option V) (nl : bool) (means : list V) (n n' : node) (sp : list (nat * spec V)) :
    wf V n -> lpass (MMeans a r nl means) n = Ok (n', sp) ->
    map fst sp = ordered_ids V n /\ prior_count V n <= List.length means /\
    forall i d dm, i < prior_count V n ->
      exists s, nth_error sp i = Some (nth i (ordered_ids V n) d, s) /\
                lderive_mean a r nl n (nth i (ordered_ids V n) d) (nth i means dm) = Ok s.
  Proof. apply own_value. Qed.

  Lemma l_own_value_bounded (b : V) (floats : list V) (n n' : node) (sp : list (nat * spec V)) :
    wf V n -> lpass (MBounded b floats) n = Ok (n', sp) ->
    map fst sp = ordered_ids V n /\ prior_count V n <= List.length floats /\
    forall i d dm, i < prior_count V n ->
      exists s, nth_error sp i = Some (nth i (ordered_ids V n) d, s) /\
                lderive_bounded b (nth i (ordered_ids V n) d) (nth i floats dm) = Ok s.
  Proof. apply own_value_bounded. Qed.

  Lemma l_derive_mean_shape (a r : option V) (nl : bool) (n : node) (q : nat) (m : V) (s : spec V) :
    lderive_mean a r nl n q m = Ok s ->
    s_fam V s = FGaussian /\ s_mean V s = m /\ l_neg_sigma V L (s_sigma V s) = false /\
    l_bad_limits V L (s_lo V s) (s_hi V s) = false /\
    (exists old, lookup_nat q specs = Some old /\ s_wm V s = s_wm V old) /\
    (forall x, a = Some x -> s_sigma V s = l_abs_width V L x) /\
    (forall x, a = None -> r = Some x -> s_sigma V s = l_rel_width V L x m) /\
    (nl = true -> s_lo V s = l_ninf V L /\ s_hi V s = l_pinf V L).
  Proof. apply derive_mean_shape. Qed.

  Lemma l_derive_bounded_shape (b : V) (q : nat) (f : V) (s : spec V) :
    lderive_bounded b q f = Ok s ->
    s_fam V s = FUniform /\ s_lo V s = l_uf_lo V L f b /\ s_hi V s = l_uf_hi V L f b /\
    l_bad_limits V L (s_lo V s) (s_hi V s) = false.
  Proof. apply derive_bounded_shape. Qed.

  Lemma l_width_nonneg (a r : option V) (nl : bool) (means : list V) (n n' : node) (sp : list (nat * spec V)) :
    wf V n -> lpass (MMeans a r nl means) n = Ok (n', sp) ->
    forall q s, In (q, s) sp ->
      s_fam V s = FGaussian /\ l_neg_sigma V L (s_sigma V s) = false /\ l_bad_limits V L (s_lo V s) (s_hi V s) = false.
  Proof. apply width_nonneg. Qed.

  Lemma l_total_means (a r : option V) (nl : bool) (means : list V) (n : node) :
    wf V n -> cls_ok V n -> is_pm V n = true -> specs_cover V specs n -> llimits_good ->
    prior_count V n <= List.length means ->
    (a = None \/ r = None) ->
    (forall x, a = Some x -> l_neg_sigma V L (l_abs_width V L x) = false) ->
    (forall x i dm, a = None -> r = Some x -> i < prior_count V n -> l_neg_sigma V L (l_rel_width V L x (nth i means dm)) = false) ->
    (forall i dm, a = None -> r = None -> i < prior_count V n -> lmodifiers_good (nth i means dm)) ->
    exists n' sp, lpass (MMeans a r nl means) n = Ok (n', sp).
  Proof. apply total_means_conditions. Qed.

  Lemma l_total_bounded (b : V) (floats : list V) (n : node) :
    wf V n -> prior_count V n <= List.length floats ->
    (forall i dm, i < prior_count V n -> l_bad_limits V L (l_uf_lo V L (nth i floats dm) b) (l_uf_hi V L (nth i floats dm) b) = false) ->
    exists n' sp, lpass (MBounded b floats) n = Ok (n', sp).
  Proof. apply total_bounded. Qed.

  Lemma l_limits_structure (fresh : nat) (ls : list (V * V)) (n n' : node) (sp : list (nat * spec V)) :
    wf V n -> lpass (MLimits fresh ls) n = Ok (n', sp) ->
    paths V n' = paths V n /\ prior_count V n' = prior_count V n /\
    ordered_ids V n' = seq fresh (prior_count V n) /\ prior_count V n <= List.length ls /\
    forall p i d, i < prior_count V n -> In (p, nth i (ordered_ids V n) d) (walk V n) -> In (p, fresh + i) (walk V n').
  Proof. apply limits_structure. Qed.

  Lemma l_replace_structure (m : arguments V) (n n' : node) (sp : list (nat * spec V)) :
    wf V n -> lpass (MReplace m) n = Ok (n', sp) ->
    walk V n' = map (fun pq => (fst pq, repl V m (snd pq))) (walk V n).
  Proof. apply replace_structure. Qed.

  Lemma l_replace_total (m : arguments V) (n : node) :
    wf V n -> specs_cover V specs n -> exists n' sp, lpass (MReplace m) n = Ok (n', sp).
  Proof. apply replace_total. Qed.

  Lemma l_instance_kept (bin : binop -> V -> V -> V) (un : unop -> V -> V) (md : mode V) (n n' : node) (sp : list (nat * spec V)) (args : nat -> option V) :
    wf V n -> keeps_ids V md -> lpass md n = Ok (n', sp) ->
    inst V bin un args n' = inst V bin un args n.
  Proof. apply instance_kept. Qed.
End B.

(* the two instances used: binary64 (correspondence) and exact rationals (arithmetic theorems) *)
Definition fleaves : leaves float :=
  Build_leaves float pm_abs_width_F pm_rel_width_F wm_relative_F wm_absolute_F uf_lower_F uf_upper_F pl_lower_F pl_upper_F
               gl_mean_F gl_sigma_F lu_lower_F lu_upper_F lu_bad_lower_F prior_bad_limits_F sigma_negative_F
               neg_infinity infinity 0x1p-1%float.

Definition qleaves (ninf pinf : Q) : leaves Q :=
  Build_leaves Q pm_abs_width_Q pm_rel_width_Q wm_relative_Q wm_absolute_Q uf_lower_Q uf_upper_Q pl_lower_Q pl_upper_Q
               gl_mean_Q gl_sigma_Q lu_lower_Q lu_upper_Q lu_bad_lower_Q prior_bad_limits_Q sigma_negative_Q
               ninf pinf (1 # 2)%Q.

Lemma fpass_is_lpass cfg specs : fpass cfg specs = lpass float fleaves cfg specs.
Proof. reflexivity. Qed.

Lemma qpass_is_lpass ninf pinf cfg specs : qpass ninf pinf cfg specs = lpass Q (qleaves ninf pinf) cfg specs.
Proof. reflexivity. Qed.

(* relative widths are never negative, whatever the sign of the value *)
Lemma relative_width_nonneg (r m : Q) : (0 <= r)%Q ->
  sigma_negative_Q (pm_rel_width_Q r m) = false /\ sigma_negative_Q (wm_relative_Q r m) = false.
Proof. intro Hr. split; [apply rel_width_nonneg|apply wm_relative_nonneg]; exact Hr. Qed.

Lemma rebuild_iff (V : Type) (sigma : nat -> option nat) (n : node V) : wf V n ->
  ((exists n', rebuild V sigma n = Some n') <-> (forall q, In q (prior_ids V n) -> sigma q <> None)).
Proof.
  intro W. split.
  - intros [n' E]. apply (rebuild_defined V sigma n W n' E).
  - apply rebuild_total. exact W.
Qed.

Lemma config_context (V : Type) (n : node V) (q : nat) : wf V n -> is_pm V n = true -> In q (prior_ids V n) ->
  (exists cls, class_of V q n = Some cls) /\ (exists p, last_path V q n = Some p /\ In (p, q) (walk V n)).
Proof.
  intros W P H. split.
  - destruct (class_of V q n) as [cls|] eqn:E; [exists cls; reflexivity|]. exfalso. apply (class_of_some V n W P q H E).
  - apply last_path_some. exact H.
Qed.
