(* C12: the rebuilt model builds the same instance from corresponding arguments (structure, classes,
   tuples, arithmetic, constants are all preserved). *)
From Coq Require Import List String Bool Arith PeanoNat Lia Permutation Sorted.
From PAFC01 Require Import ModelTree Sorting.
From PAFC01 Require Proofs Proofs2 Proofs8.
From PAFC12 Require Import Gen Model Lib Proofs.
Import ListNotations.
Local Open Scope string_scope.
Local Open Scope list_scope.

Section I.
  Variable V : Type.
  Variable bin : binop -> V -> V -> V.
  Variable un : unop -> V -> V.
  Notation node := (node V).
  Notation ival := (ival V).
  Notation node_ind' := (PAFC01.Proofs.node_ind' V).
  Variable sigma : nat -> option nat.

  Definition mval (args : nat -> option V) (m : string * (nat * node)) : nat * ival :=
    (fst (snd m), inst V bin un args (snd (snd m))).

  Definition is_prior_m (m : string * (nat * node)) : bool := is_prior V (snd (snd m)).
  Definition is_const_m (m : string * (nat * node)) : bool := is_const V (snd (snd m)).

  Lemma leaves_split (ms : list (string * (nat * node))) :
    Forall (fun m => is_leaf V (snd (snd m)) = true) ms ->
    Permutation (filter is_prior_m ms ++ filter is_const_m ms) ms.
  Proof.
    induction 1 as [|[k [i c]] ms Hc Hms IH]; [constructor|].
    destruct c as [p|v|?|? ? ? ? ?|? ? ?|? ? ?|?]; simpl in Hc; try discriminate; unfold is_prior_m, is_const_m in *; simpl.
    - constructor. exact IH.
    - eapply Permutation_trans; [apply Permutation_sym; apply Permutation_middle|]. constructor. exact IH.
  Qed.

  Lemma tuple_priors_vals (args args' : nat -> option V) (ms : list (string * (nat * node))) :
    Forall (fun m => is_leaf V (snd (snd m)) = true) ms ->
    (forall q, In q (map snd (walk_members V ms)) -> args' (sd sigma q) = args q) ->
    forall ps, tuple_priors V sigma ms = Some ps ->
    map (mval args') ps = map (mval args) (filter is_prior_m ms).
  Proof.
    induction 1 as [|[k [i c]] ms Hc Hms IH]; intros A ps E; simpl in E.
    - inversion E; subst. reflexivity.
    - assert (A' : forall q, In q (map snd (walk_members V ms)) -> args' (sd sigma q) = args q).
      { intros q Hq. apply A. unfold walk_members in *. simpl. rewrite map_app. apply in_or_app. right. exact Hq. }
      destruct c as [p|v|?|? ? ? ? ?|? ? ?|? ? ?|?]; simpl in Hc; try discriminate; unfold is_prior_m in *; simpl.
      + destruct (sigma p) as [p'|] eqn:Ep; [|discriminate].
        destruct (tuple_priors V sigma ms) as [r|] eqn:Er; [|discriminate].
        inversion E; subst. simpl. rewrite (IH A' r eq_refl). f_equal.
        unfold mval. simpl. f_equal.
        assert (X : args' p' = args p).
        { rewrite <- (A p); [unfold sd; rewrite Ep; reflexivity|]. unfold walk_members. simpl. left. reflexivity. }
        rewrite X. reflexivity.
      + apply IH; assumption.
  Qed.

  Lemma const_vals (args args' : nat -> option V) (ms : list (string * (nat * node))) :
    (forall m, In m ms -> is_const V (snd (snd m)) = true) -> map (mval args') ms = map (mval args) ms.
  Proof.
    intro H. apply map_ext_in. intros [k [i c]] Hm. specialize (H _ Hm). simpl in H.
    destruct c; try discriminate. reflexivity.
  Qed.

  Lemma inst_tuple_eq (args args' : nat -> option V) (ms ms' : list (string * (nat * node))) :
    NoDup (map (member_pos V) ms) ->
    Permutation (map (mval args') ms') (map (mval args) ms) ->
    inst V bin un args' (NTuple ms') = inst V bin un args (NTuple ms).
  Proof.
    intros ND P. rewrite !PAFC01.Proofs2.inst_tuple. f_equal. f_equal.
    unfold PAFC01.Proofs2.member_vals. symmetry.
    change (sort_by fst (map (mval args) ms) = sort_by fst (map (mval args') ms')).
    apply sort_by_perm_eq.
    - apply Permutation_sym. exact P.
    - rewrite map_map. exact ND.
  Qed.

  (* the rebuild keeps the kind of a node; in particular constants stay constants and nothing becomes one *)
  Lemma rebuild_is_const (n n' : node) : rebuild V sigma n = Some n' -> is_const V n' = is_const V n.
  Proof.
    destruct n; cbn [rebuild]; intro E.
    - destruct (sigma pid); inversion E; reflexivity.
    - inversion E; reflexivity.
    - destruct (tuple_priors V sigma members); inversion E; reflexivity.
    - destruct (rebuild V sigma n1); [|discriminate]. destruct (rebuild V sigma n2); inversion E; reflexivity.
    - destruct (rebuild V sigma n); inversion E; reflexivity.
    - match type of E with option_map _ ?X = _ => destruct X end; inversion E; reflexivity.
    - match type of E with option_map _ ?X = _ => destruct X end; inversion E; reflexivity.
  Qed.

  Lemma rebuild_inst (args args' : nat -> option V) : forall n, wf V n ->
    forall n', rebuild V sigma n = Some n' ->
    (forall q, In q (prior_ids V n) -> args' (sd sigma q) = args q) ->
    inst V bin un args' n' = inst V bin un args n.
  Proof.
    induction n as [p|v|ms _|o ln rn l r IHl IHr|uo unm uc IHc|cls ctor attrs IH|attrs IH] using node_ind'; intros W n' E A.
    - simpl in E. destruct (sigma p) as [p'|] eqn:Ep; [|discriminate]. inversion E; subst.
      cbn [inst]. rewrite <- (A p) by (left; reflexivity). unfold sd. rewrite Ep. reflexivity.
    - inversion E; subst. reflexivity.
    - destruct W as [Wl Wn]. cbn [rebuild] in E.
      destruct (tuple_priors V sigma ms) as [ps|] eqn:Eps; [|discriminate]. inversion E; subst.
      apply inst_tuple_eq; [exact Wn|].
      rewrite map_app.
      rewrite (tuple_priors_vals args args' ms Wl) with (ps := ps);
        [|intros q Hq; apply A; unfold prior_ids; rewrite walk_tuple; exact Hq|exact Eps].
      rewrite (const_vals args args' (tuple_consts V ms) (tuple_consts_const V ms)).
      rewrite <- map_app. apply Permutation_map.
      eapply Permutation_trans; [|apply (leaves_split ms Wl)].
      apply Permutation_app_head. unfold tuple_consts. apply sort_by_perm.
    - assert (W' := W). destruct W as [Wl [Wr _]]. cbn [rebuild] in E.
      destruct (rebuild V sigma l) as [l'|] eqn:El; [|discriminate].
      destruct (rebuild V sigma r) as [r'|] eqn:Er; [|discriminate].
      inversion E; subst. cbn [inst].
      rewrite (IHl Wl _ eq_refl) by (intros q Hq; apply A; apply (prior_ids_bin V _ _ _ _ _ q W'); left; exact Hq).
      rewrite (IHr Wr _ eq_refl) by (intros q Hq; apply A; apply (prior_ids_bin V _ _ _ _ _ q W'); right; exact Hq).
      reflexivity.
    - cbn [rebuild] in E. destruct (rebuild V sigma uc) as [c'|] eqn:Ec; [|discriminate]. inversion E; subst.
      assert (Hi : inst V bin un args' c' = inst V bin un args uc).
      { apply (IHc W _ eq_refl). intros q Hq. apply A. rewrite prior_ids_un. exact Hq. }
      assert (Hk := rebuild_is_const uc c' Ec).
      destruct (is_const V uc) eqn:K.
      + destruct uc; try discriminate K. destruct c'; try discriminate Hk. reflexivity.
      + rewrite (PAFC01.Proofs8.inst_un V bin un args' uo unm c' Hk), (PAFC01.Proofs8.inst_un V bin un args uo unm uc K), Hi.
        reflexivity.
    - rewrite rebuild_model in E. destruct (rebuild_attrs V sigma attrs) as [a'|] eqn:Ea; [|discriminate].
      inversion E; subst. apply wf_model in W.
      unfold prior_ids in A. rewrite walk_model in A.
      cbn [inst]. rewrite !PAFC01.Proofs.inst_attrs_map.
      assert (X : map (fun kv => (fst kv, inst V bin un args' (snd kv))) a' = map (fun kv => (fst kv, inst V bin un args (snd kv))) attrs).
      { clear E. revert a' Ea. induction attrs as [|[k c] a IHa]; intros a' Ea; simpl in Ea.
        - inversion Ea; subst. reflexivity.
        - inversion IH as [|? ? IHc IHrest]; subst. inversion W as [|? ? Wc Wrest]; subst.
          simpl in Wc.
          destruct (rebuild V sigma c) as [c'|] eqn:Ec; [|discriminate].
          destruct (rebuild_attrs V sigma a) as [r|] eqn:Er; [|discriminate].
          inversion Ea; subst. simpl. f_equal.
          + f_equal. apply (IHc Wc _ Ec). intros q Hq. apply A. apply prior_ids_cons. left. exact Hq.
          + apply IHa; auto. intros q Hq. apply A. apply prior_ids_cons. right. exact Hq. }
      rewrite X. reflexivity.
    - rewrite rebuild_coll in E. destruct (rebuild_items V sigma attrs) as [a'|] eqn:Ea; [|discriminate].
      inversion E; subst. apply wf_coll in W.
      unfold prior_ids in A. rewrite walk_coll in A.
      cbn [inst]. rewrite !PAFC01.Proofs.inst_attrs_map. f_equal.
      clear E. revert a' Ea. induction attrs as [|[k c] a IHa]; intros a' Ea.
      + inversion Ea; subst. reflexivity.
      + inversion IH as [|? ? IHc IHrest]; subst. inversion W as [|? ? [Wc Wt] Wrest]; subst.
        simpl in Wc, Wt.
        rewrite rebuild_items_cons in Ea. rewrite Wt in Ea.
        destruct (rebuild V sigma c) as [c'|] eqn:Ec; [|discriminate].
        destruct (rebuild_items V sigma a) as [r|] eqn:Er; [|discriminate].
        inversion Ea; subst. simpl. f_equal.
        * f_equal. apply (IHc Wc _ Ec). intros q Hq. apply A. apply prior_ids_cons. left. exact Hq.
        * apply IHa; auto. intros q Hq. apply A. apply prior_ids_cons. right. exact Hq.
  Qed.
End I.
