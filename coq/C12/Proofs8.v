(* C12: the priors produced by with_limits and replacing (what the new model carries at each parameter),
   totality of with_limits, and the witness of the configuration mix-up for shared priors. *)
From Coq Require Import List String Bool Arith PeanoNat Lia.
From PAFC01 Require Import ModelTree Sorting.
From PAFC01 Require Proofs Proofs2.
From PAFC12 Require Import Gen Model Lib Proofs Proofs2 Proofs3 Proofs4.
Import ListNotations.
Local Open Scope string_scope.
Local Open Scope list_scope.

Section L.
  Variable V : Type.
  Notation node := (node V).
  Variable abs_width : V -> V.
  Variable rel_width wm_rel : V -> V -> V.
  Variable wm_abs : V -> V.
  Variable uf_lo uf_hi pl_lo pl_hi gl_mean gl_sigma : V -> V -> V.
  Variable lu_lo lu_hi : V -> V.
  Variable lu_bad : V -> bool.
  Variable bad_limits : V -> V -> bool.
  Variable neg_sigma : V -> bool.
  Variable ninf pinf half : V.
  Variable cfg : config V.
  Variable specs : list (nat * spec V).

  Notation DL := (derive_limits V pl_lo pl_hi gl_mean gl_sigma lu_lo lu_hi lu_bad bad_limits neg_sigma ninf pinf specs).
  Notation ZL := (zip_limits V pl_lo pl_hi gl_mean gl_sigma lu_lo lu_hi lu_bad bad_limits neg_sigma ninf pinf specs).
  Notation PASS := (pass V abs_width rel_width wm_rel wm_abs uf_lo uf_hi pl_lo pl_hi gl_mean gl_sigma lu_lo lu_hi
                         lu_bad bad_limits neg_sigma ninf pinf half cfg specs).
  Notation ZSPEC := (zip_limits_spec V pl_lo pl_hi gl_mean gl_sigma lu_lo lu_hi lu_bad bad_limits neg_sigma ninf pinf specs).
  Notation LSTRUCT := (limits_structure V abs_width rel_width wm_rel wm_abs uf_lo uf_hi pl_lo pl_hi gl_mean gl_sigma lu_lo lu_hi
                                        lu_bad bad_limits neg_sigma ninf pinf half cfg specs).

  (* ---------- with_limits: the i-th parameter of the new model is the fresh prior derived from the i-th old
     prior and the i-th pair of limits ---------- *)
  Theorem own_limits (fresh : nat) (ls : list (V * V)) (n n' : node) (sp : list (nat * spec V)) :
    wf V n -> PASS (MLimits fresh ls) n = Ok (n', sp) ->
    List.length sp = prior_count V n /\
    forall i d dl, i < prior_count V n ->
      exists s, nth_error sp i = Some (fresh + i, s) /\ DL (nth i (ordered_ids V n) d) (nth i ls dl) = Ok s.
  Proof.
    intros W E. destruct (LSTRUCT fresh ls n n' sp W E) as [_ [_ [Ids [Lls _]]]].
    unfold pass in E. simpl in E.
    destruct (ZL fresh (ordered_ids V n) ls) as [a|e] eqn:Ea; [|discriminate].
    destruct (rebuild V (sigma_of V a) n) as [n1|] eqn:Er; [|discriminate]. inversion E; subst. clear E.
    destruct (ZSPEC _ _ _ _ Ea) as [La N].
    assert (Len : List.length a = prior_count V n).
    { rewrite La, PAFC01.Proofs2.ordered_ids_length. lia. }
    set (de := (0, (0, Build_spec V FUniform ninf ninf ninf ninf None))).
    assert (Keys : map fst (map snd a) = seq fresh (prior_count V n)).
    { apply (nth_ext _ _ 0 0); [rewrite !map_length, seq_length; exact Len|].
      intros i Hi. rewrite !map_length in Hi.
      rewrite (nth_indep _ 0 (fst (snd de))) by (rewrite !map_length; exact Hi).
      rewrite map_map. rewrite (map_nth (fun x => fst (snd x))).
      destruct (N i 0 (ninf, ninf) de Hi) as [_ [B _]]. rewrite B. rewrite seq_nth by lia. reflexivity. }
    assert (Sp : new_specs V a n' = map snd a).
    { unfold new_specs. rewrite Ids, <- Keys. apply readback. rewrite Keys. apply seq_NoDup. }
    rewrite Sp. split; [rewrite map_length; exact Len|].
    intros i d dl Hi. assert (Hi' : i < List.length a) by lia.
    destruct (N i d dl de Hi') as [_ [B C]].
    exists (snd (snd (nth i a de))). split; [|exact C].
    rewrite nth_error_map, (nth_error_nth' a de Hi'). simpl.
    rewrite (surjective_pairing (snd (nth i a de))). rewrite B. reflexivity.
  Qed.

  Lemma zip_limits_total (d : nat) (dl : V * V) : forall ids ls fresh,
    (forall i, i < List.length ids -> i < List.length ls -> exists s, DL (nth i ids d) (nth i ls dl) = Ok s) ->
    exists a, ZL fresh ids ls = Ok a.
  Proof.
    induction ids as [|q ids IH]; intros ls fresh H; simpl; [eexists; reflexivity|].
    destruct ls as [|l ls]; [eexists; reflexivity|].
    destruct (H 0) as [s Es]; [simpl; lia|simpl; lia|]. simpl in Es. rewrite Es.
    destruct (IH ls (S fresh)) as [rest Er].
    - intros i Hi Hl. apply (H (S i)); simpl; lia.
    - rewrite Er. eexists; reflexivity.
  Qed.

  (* with_limits succeeds when every single tightening does *)
  Theorem total_limits (fresh : nat) (ls : list (V * V)) (n : node) :
    wf V n -> prior_count V n <= List.length ls ->
    (forall i d dl, i < prior_count V n -> exists s, DL (nth i (ordered_ids V n) d) (nth i ls dl) = Ok s) ->
    exists n' sp, PASS (MLimits fresh ls) n = Ok (n', sp).
  Proof.
    intros W L H. rewrite <- PAFC01.Proofs2.ordered_ids_length in L, H.
    destruct (zip_limits_total 0 (ninf, ninf) (ordered_ids V n) ls fresh) as [a Ea].
    { intros i Hi _. apply H. exact Hi. }
    destruct (ZSPEC _ _ _ _ Ea) as [La N].
    set (de := (0, (0, Build_spec V FUniform ninf ninf ninf ninf None))).
    assert (K : map fst a = ordered_ids V n).
    { apply (nth_ext _ _ 0 0); [rewrite map_length; lia|].
      intros i Hi. rewrite map_length in Hi. rewrite (nth_indep _ 0 (fst de)) by (rewrite map_length; exact Hi).
      rewrite map_nth. destruct (N i 0 (ninf, ninf) de Hi) as [A _]. exact A. }
    destruct (args_cover_rebuild V a n W K) as [n' Er].
    unfold pass. simpl. rewrite Ea, Er. eexists; eexists; reflexivity.
  Qed.

  (* what one tightening produces, by prior family (GaussianPrior.with_limits and LogUniformPrior.with_limits are
     classmethods that ignore the old prior; uniform and log-gaussian priors are intersected with their old range) *)
  Lemma derive_limits_shape (q : nat) (l : V * V) (s : spec V) :
    DL q l = Ok s ->
    exists old, lookup_nat q specs = Some old /\ s_fam V s = s_fam V old /\ s_wm V s = None /\
      bad_limits (s_lo V s) (s_hi V s) = false /\
      match s_fam V old with
      | FUniform => s_lo V s = pl_lo (fst l) (s_lo V old) /\ s_hi V s = pl_hi (snd l) (s_hi V old)
      | FGaussian => s_mean V s = gl_mean (fst l) (snd l) /\ s_sigma V s = gl_sigma (fst l) (snd l) /\
                     neg_sigma (s_sigma V s) = false /\ s_lo V s = ninf /\ s_hi V s = pinf
      | FLogUniform => s_lo V s = lu_lo (fst l) /\ s_hi V s = lu_hi (snd l)
      | FLogGaussian => s_lo V s = pl_lo (fst l) (s_lo V old) /\ s_hi V s = pl_hi (snd l) (s_hi V old)
      end.
  Proof.
    unfold derive_limits. destruct (lookup_nat q specs) as [old|]; [|discriminate]. intro E. exists old.
    split; [reflexivity|]. destruct (s_fam V old) eqn:F.
    - destruct (bad_limits (pl_lo (fst l) (s_lo V old)) (pl_hi (snd l) (s_hi V old))) eqn:B; [discriminate|].
      inversion E; subst. simpl. auto.
    - destruct (neg_sigma (gl_sigma (fst l) (snd l))) eqn:Ng; [discriminate|].
      destruct (bad_limits ninf pinf) eqn:B; [discriminate|]. inversion E; subst. simpl. auto 10.
    - destruct (lu_bad (lu_lo (fst l))); [discriminate|].
      destruct (bad_limits (lu_lo (fst l)) (lu_hi (snd l))) eqn:B; [discriminate|]. inversion E; subst. simpl. auto.
    - destruct (bad_limits (pl_lo (fst l) (s_lo V old)) (pl_hi (snd l) (s_hi V old))) eqn:B; [discriminate|].
      inversion E; subst. simpl. auto.
  Qed.

  (* ---------- replacing: each parameter of the new model carries the prior the map gives for it, an
     unreplaced parameter its old prior ---------- *)
  Lemma lookup_app {B} (q : nat) (l1 l2 : list (nat * B)) :
    lookup_nat q (l1 ++ l2) = match lookup_nat q l1 with Some v => Some v | None => lookup_nat q l2 end.
  Proof.
    induction l1 as [|[k v] l1 IH]; simpl; [reflexivity|]. destruct (Nat.eqb k q); [reflexivity|apply IH].
  Qed.

  Theorem own_replacement (m : arguments V) (n n' : node) (sp : list (nat * spec V)) :
    wf V n -> PASS (MReplace m) n = Ok (n', sp) ->
    (forall q' s, In (q', s) sp <->
       In q' (ordered_ids V n') /\ lookup_nat q' (map snd (replace_args V specs n m)) = Some s) /\
    (forall q q' s, In q (prior_ids V n) -> lookup_nat q m = Some (q', s) ->
       lookup_nat q' (map snd m) = Some s -> In (q', s) sp) /\
    (forall q s, In q (prior_ids V n) -> lookup_nat q m = None -> lookup_nat q (map snd m) = None ->
       lookup_nat q specs = Some s -> In (q, s) sp).
  Proof.
    intros W E.
    assert (Wk := replace_structure V abs_width rel_width wm_rel wm_abs uf_lo uf_hi pl_lo pl_hi gl_mean gl_sigma lu_lo lu_hi
                    lu_bad bad_limits neg_sigma ninf pinf half cfg specs m n n' sp W E).
    unfold pass in E. simpl in E.
    destruct (rebuild V (sigma_of V (replace_args V specs n m)) n) as [n1|] eqn:Er; [|discriminate].
    inversion E; subst. clear E.
    assert (Char : forall q' s, In (q', s) (new_specs V (replace_args V specs n m) n') <->
       In q' (ordered_ids V n') /\ lookup_nat q' (map snd (replace_args V specs n m)) = Some s).
    { intros q' s. unfold new_specs. rewrite in_flat_map. split.
      - intros [x [Hx Hin]]. destruct (lookup_nat x (map snd (replace_args V specs n m))) as [s'|] eqn:El; [|contradiction].
        destruct Hin as [Eq|[]]. inversion Eq; subst. auto.
      - intros [Hq El]. exists q'. split; [exact Hq|]. rewrite El. left. reflexivity. }
    assert (InNew : forall q, In q (prior_ids V n) -> In (repl V m q) (ordered_ids V n')).
    { intros q Hq. apply PAFC01.Proofs2.ordered_ids_in. unfold PAFC01.Proofs2.prior_ids. rewrite Wk. rewrite map_map. simpl.
      unfold prior_ids in Hq. apply in_map_iff in Hq. destruct Hq as [[p x] [Ex Hin]]. simpl in Ex. subst x.
      apply in_map_iff. exists (p, q). split; [reflexivity|exact Hin]. }
    split; [exact Char|]. split.
    - intros q q' s Hq El Es. apply Char. split.
      + specialize (InNew q Hq). unfold repl in InNew. rewrite El in InNew. exact InNew.
      + unfold replace_args. rewrite map_app, lookup_app, Es. reflexivity.
    - intros q s Hq El En Es. apply Char. split.
      + specialize (InNew q Hq). unfold repl in InNew. rewrite El in InNew. exact InNew.
      + unfold replace_args. rewrite map_app, lookup_app, En.
        assert (ND := PAFC01.Proofs2.ordered_ids_nodup V n).
        assert (Hi : In q (ordered_ids V n)) by (apply PAFC01.Proofs2.ordered_ids_in; exact Hq).
        clear - Es Hi ND. induction (ordered_ids V n) as [|x l IH]; [contradiction|].
        inversion ND as [|? ? Hnot ND']; subst. simpl.
        destruct Hi as [->|Hi].
        * rewrite Es. simpl. rewrite Nat.eqb_refl. reflexivity.
        * destruct (lookup_nat x specs) as [sx|]; simpl.
          -- destruct (Nat.eqb_spec x q) as [->|_]; [contradiction|]. apply IH; assumption.
          -- apply IH; assumption.
  Qed.
End L.
