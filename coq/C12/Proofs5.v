(* C12: when does the configuration lookup succeed; arithmetic of the generated leaves over exact
   rationals; totality corollaries; witnesses of the refuted full statements. *)
From Coq Require Import List String Bool Arith PeanoNat Lia ZArith QArith Qabs Qround Lqa.
From Coq Require Import Floats.PrimFloat.
From PAFCommon Require Import PyFloat PyNum.
From PAFC01 Require Import ModelTree Sorting.
From PAFC01 Require Proofs Proofs2.
From PAFC12 Require Import Gen Model Lib Proofs Proofs2 Proofs3 Proofs4.
Import ListNotations.
Local Close Scope Q_scope.
Local Open Scope string_scope.
Local Open Scope list_scope.

(* ---------- the lookup context exists for every prior of a model / collection ---------- *)
Section C.
  Variable V : Type.
  Notation node := (node V).
  Notation node_ind' := (PAFC01.Proofs.node_ind' V).

  Definition is_pm (n : node) : bool :=
    match n with NModel _ _ _ | NColl _ | NBin _ _ _ _ _ | NUn _ _ _ => true | _ => false end.

  Lemma has_prior_in (q : nat) (n : node) : In q (prior_ids V n) -> has_prior V q n = true.
  Proof.
    intro H. unfold has_prior. apply existsb_exists. exists q. split; [exact H|apply Nat.eqb_refl].
  Qed.

  Lemma last_path_is_lookup (q : nat) (n : node) : last_path V q n = lookup_nat q (unique_priors V n).
  Proof.
    unfold last_path. induction (unique_priors V n) as [|[k p] l IH]; simpl; [reflexivity|].
    destruct (Nat.eqb k q); [reflexivity|exact IH].
  Qed.

  Lemma last_path_some (q : nat) (n : node) : In q (prior_ids V n) -> exists p, last_path V q n = Some p /\ In (p, q) (walk V n).
  Proof.
    intro H. rewrite last_path_is_lookup.
    assert (K : In q (map fst (unique_priors V n))) by (apply PAFC01.Proofs2.unique_priors_keys; exact H).
    apply lookup_nat_some in K. destruct (lookup_nat q (unique_priors V n)) as [p|] eqn:E; [|contradiction].
    exists p. split; [reflexivity|]. apply lookup_nat_in in E. unfold unique_priors in E.
    apply dict_of_in in E. apply in_map_iff in E. destruct E as [[p' q'] [Eq Hin]]. simpl in Eq. inversion Eq; subst. exact Hin.
  Qed.

  Lemma class_of_some : forall n, wf V n -> is_pm n = true -> forall q, In q (prior_ids V n) -> class_of V q n <> None.
  Proof.
    induction n as [p|v|ms _|o ln rn l r _ _|uo unm uc _|cls ctor attrs _|attrs IH] using node_ind'; intros W P q Hq; try discriminate P.
    - cbn [class_of]. rewrite (has_prior_in q _ Hq). discriminate.
    - cbn [class_of]. rewrite (has_prior_in q _ Hq). discriminate.
    - cbn [class_of].
      match goal with |- match ?g with _ => _ end <> None => destruct g end; [discriminate|].
      rewrite (has_prior_in q _ Hq). discriminate.
    - cbn [class_of].
      destruct (existsb (fun kc : string * node => match snd kc with NPrior p => Nat.eqb p q | _ => false end) attrs) eqn:Ex; [discriminate|].
      apply wf_coll in W. unfold prior_ids in Hq. rewrite walk_coll in Hq. clear P.
      revert Ex Hq. induction attrs as [|[k c] a IHa]; intros Ex Hq; [contradiction|].
      inversion IH as [|? ? IHc IHrest]; subst. inversion W as [|? ? [Wc Wt] Wrest]; subst. simpl in Wc, Wt, IHc.
      simpl in Ex. apply orb_false_iff in Ex. destruct Ex as [Ex1 Ex2].
      apply prior_ids_cons in Hq. destruct Hq as [Hq|Hq].
      + assert (Cc : class_of V q c <> None).
        { destruct c as [p|v|ms|o ln rn l r|uo unm uc|cls ctor at'|at']; try discriminate Wt.
          - simpl in Hq. destruct Hq as [<-|[]]. rewrite Nat.eqb_refl in Ex1. discriminate.
          - contradiction.
          - apply (IHc Wc eq_refl q Hq).
          - apply (IHc Wc eq_refl q Hq).
          - apply (IHc Wc eq_refl q Hq).
          - apply (IHc Wc eq_refl q Hq). }
        match goal with |- match ?g with _ => _ end <> None => destruct g end; [discriminate|exact Cc].
      + assert (G := IHa IHrest Wrest Ex2 Hq).
        match goal with |- match ?g with _ => _ end <> None => destruct g end; [discriminate|].
        exfalso. apply G. reflexivity.
  Qed.

  (* ---------- the repair variant: the holder of every place exists ---------- *)
  Section HG.
    Variable k : string.
    Variable p' : path.
    Variable rest : path.
    Variable own : option string.
    Definition hdown (c : node) : option string :=
      match c with
      | NTuple _ => match rest with [] => own | _ => None end
      | _ => holder_class V p' c
      end.
    Fixpoint hgo (a : list (string * node)) : option string :=
      match a with
      | [] => None
      | (k', c) :: a' =>
          if String.eqb k k' then match hdown c with Some x => Some x | None => hgo a' end else hgo a'
      end.

    Lemma hgo_some (a : list (string * node)) (c : node) : In (k, c) a -> hdown c <> None -> hgo a <> None.
    Proof.
      intros Hin Hd. induction a as [|[k' c'] a IH]; [contradiction|]. simpl.
      destruct Hin as [E|Hin].
      - inversion E; subst. rewrite String.eqb_refl. destruct (hdown c); [discriminate|contradiction].
      - destruct (String.eqb k k'); [destruct (hdown c'); [discriminate|]|]; apply IH; exact Hin.
    Qed.
  End HG.

  Lemma holder_model k x rest cls ctor attrs :
    holder_class V (k :: x :: rest) (NModel cls ctor attrs) = hgo k (x :: rest) rest (Some cls) attrs.
  Proof. reflexivity. Qed.
  Lemma holder_coll k x rest attrs :
    holder_class V (k :: x :: rest) (NColl attrs) = hgo k (x :: rest) rest (coll_own V (NColl attrs)) attrs.
  Proof. reflexivity. Qed.

  Lemma walk_attrs_in (attrs : list (string * node)) (p : path) (q : nat) :
    In (p, q) (walk_attrs V attrs) -> exists k c p', p = k :: p' /\ In (k, c) attrs /\ In (p', q) (walk V c).
  Proof.
    unfold walk_attrs. intro H. apply in_flat_map in H. destruct H as [[k c] [Hin Hp]]. simpl in Hp.
    unfold prefix_paths in Hp. apply in_map_iff in Hp. destruct Hp as [[p' q'] [E Hw]]. simpl in E. inversion E; subst.
    exists k, c, p'. auto.
  Qed.

  Lemma leaf_members_paths (ms : list (string * (nat * node))) (p : path) (q : nat) :
    Forall (fun m => is_leaf V (snd (snd m)) = true) ms -> In (p, q) (walk_members V ms) -> exists m, p = [m].
  Proof.
    intros F H. unfold walk_members in H. apply in_flat_map in H. destruct H as [[k [i c]] [Hin Hp]]. simpl in Hp.
    rewrite Forall_forall in F. specialize (F _ Hin). simpl in F.
    unfold prefix_paths in Hp. apply in_map_iff in Hp. destruct Hp as [[p' q'] [E Hw]]. simpl in E. inversion E; subst.
    destruct c; try discriminate F; simpl in Hw; [destruct Hw as [Ew|[]]; inversion Ew; subst; exists k; reflexivity|contradiction].
  Qed.

  Lemma hdown_some (c : node) (x : string) (rest : path) (q : nat) (o : string) :
    wf V c -> (is_pm c = true -> forall p q, In (p, q) (walk V c) -> holder_class V p c <> None) ->
    In (x :: rest, q) (walk V c) -> hdown (x :: rest) rest (Some o) c <> None.
  Proof.
    intros W IH Hin. destruct c as [p0|v|ms|o' ln rn l r|uo unm uc|cls ctor at'|at']; unfold hdown.
    - simpl in Hin. destruct Hin as [E|[]]. discriminate E.
    - contradiction.
    - destruct W as [Wl _]. rewrite walk_tuple in Hin. destruct (leaf_members_paths ms _ q Wl Hin) as [m E].
      inversion E; subst. discriminate.
    - apply (IH eq_refl _ q Hin).
    - apply (IH eq_refl _ q Hin).
    - apply (IH eq_refl _ q Hin).
    - apply (IH eq_refl _ q Hin).
  Qed.

  Lemma holder_class_some : forall n, wf V n -> cls_ok V n -> is_pm n = true ->
    forall p q, In (p, q) (walk V n) -> holder_class V p n <> None.
  Proof.
    induction n as [p0|v|ms _|o ln rn l r IHl IHr|uo unm uc IHc|cls ctor attrs IH|attrs IH] using node_ind'; intros W C P p q Hin; try discriminate P.
    - destruct W as [Wl [Wr Wn]]. destruct C as [Cl Cr]. cbn [walk] in Hin.
      assert (Cases : exists k p' c, p = k :: p' /\ In (p', q) (walk V c) /\ wf V c /\
                 (is_pm c = true -> forall p q, In (p, q) (walk V c) -> holder_class V p c <> None) /\
                 ((String.eqb k rn = true /\ c = r) \/ (String.eqb k rn = false /\ String.eqb k ln = true /\ c = l))).
      { destruct (String.eqb_spec ln rn) as [E|Ne].
        - unfold prefix_paths in Hin. apply in_map_iff in Hin. destruct Hin as [[p' q'] [E' Hw]]. simpl in E'. inversion E'; subst.
          exists rn, p', r. split; [reflexivity|]. split; [exact Hw|]. split; [exact Wr|]. split; [exact (IHr Wr Cr)|].
          left. split; [apply String.eqb_refl|reflexivity].
        - apply in_app_or in Hin. destruct Hin as [Hin|Hin]; unfold prefix_paths in Hin; apply in_map_iff in Hin;
            destruct Hin as [[p' q'] [E' Hw]]; simpl in E'; inversion E'; subst.
          + exists ln, p', l. split; [reflexivity|]. split; [exact Hw|]. split; [exact Wl|]. split; [exact (IHl Wl Cl)|].
            right. split; [apply String.eqb_neq; exact Ne|]. split; [apply String.eqb_refl|reflexivity].
          + exists rn, p', r. split; [reflexivity|]. split; [exact Hw|]. split; [exact Wr|]. split; [exact (IHr Wr Cr)|].
            left. split; [apply String.eqb_refl|reflexivity]. }
      destruct Cases as [k [p' [c [-> [Hw [Wc [IHc Sel]]]]]]].
      destruct p' as [|x rest]; [simpl; discriminate|].
      assert (D := hdown_some c x rest q "float" Wc IHc Hw).
      cbn [holder_class]. destruct Sel as [[E1 ->]|[E1 [E2 ->]]].
      + rewrite E1. exact D.
      + rewrite E1, E2. exact D.
    - destruct C as [Cu Cc]. cbn [walk] in Hin.
      unfold prefix_paths in Hin. apply in_map_iff in Hin. destruct Hin as [[p' q'] [E' Hw]]. simpl in E'. inversion E'; subst.
      destruct p' as [|x rest].
      + cbn [holder_class]. rewrite Cu. discriminate.
      + assert (D := hdown_some uc x rest q "float" W (IHc W Cc) Hw).
        cbn [holder_class]. rewrite Cu, String.eqb_refl. exact D.
    - rewrite walk_model in Hin. destruct (walk_attrs_in attrs p q Hin) as [k [c [p' [-> [Hc Hw]]]]].
      destruct p' as [|x rest]; [simpl; discriminate|]. rewrite holder_model.
      apply wf_model in W. apply (cls_ok_attrs V) in C. rewrite Forall_forall in W, IH, C.
      apply (hgo_some k (x :: rest) rest (Some cls) attrs c Hc).
      apply (hdown_some c x rest q cls (W _ Hc) (IH _ Hc (W _ Hc) (C _ Hc)) Hw).
    - rewrite walk_coll in Hin. destruct (walk_attrs_in attrs p q Hin) as [k [c [p' [-> [Hc Hw]]]]].
      destruct p' as [|x rest]; [cbn [holder_class]; rewrite (coll_own_ok V (NColl attrs) C); discriminate|]. rewrite holder_coll.
      rewrite (coll_own_ok V (NColl attrs) C).
      apply wf_coll in W. apply (cls_ok_attrs V) in C. rewrite Forall_forall in W, IH, C.
      apply (hgo_some k (x :: rest) rest (Some "ModelInstance") attrs c Hc).
      apply (hdown_some c x rest q "ModelInstance" (proj1 (W _ Hc)) (IH _ Hc (proj1 (W _ Hc)) (C _ Hc)) Hw).
  Qed.

  Lemma lookup_class_some (n : node) (q : nat) :
    wf V n -> cls_ok V n -> is_pm n = true -> In q (prior_ids V n) -> lookup_class V q n <> None.
  Proof.
    intros W C P Hq. unfold lookup_class. destruct own_place_class.
    - destruct (last_path_some q n Hq) as [p [E Hin]]. rewrite E. apply (holder_class_some n W C P p q Hin).
    - apply (class_of_some n W P q Hq).
  Qed.
End C.

(* ---------- totality of mapper_from_prior_means from conditions on widths and limits ---------- *)
Section T.
  Variable V : Type.
  Notation node := (node V).
  Variable abs_width : V -> V.
  Variable rel_width wm_rel : V -> V -> V.
  Variable wm_abs : V -> V.
  Variable uf_lo uf_hi pl_lo pl_hi gl_mean gl_sigma : V -> V -> V.
  Variable lu_lo lu_hi : V -> V.
  Variable lu_bad : V -> bool.
  Variable bad_limits : V -> V -> bool.
  Variable neg_sigma : V -> bool.
  Variable ninf pinf half : V.
  Variable cfg : config V.
  Variable specs : list (nat * spec V).
  Variable bin : binop -> V -> V -> V.
  Variable un : unop -> V -> V.

  Notation DM := (derive_mean V abs_width rel_width wm_rel wm_abs bad_limits neg_sigma ninf pinf half cfg specs).
  Notation PASS := (pass V abs_width rel_width wm_rel wm_abs uf_lo uf_hi pl_lo pl_hi gl_mean gl_sigma lu_lo lu_hi
                         lu_bad bad_limits neg_sigma ninf pinf half cfg specs).

  (* the name under which a prior is looked up always exists *)
  Definition names_ok (n : node) : Prop :=
    forall q p, last_path V q n = Some p -> exists name, cfg_name p = Ok name.
  Lemma names_ok_all (n : node) : names_ok n.
  Proof.
    intros q p _. unfold cfg_name. destruct (isdigit (last p ""));
      [destruct (rev p) as [|x [|y l]]|]; eexists; reflexivity.
  Qed.

  Definition specs_cover (n : node) : Prop := forall q, In q (prior_ids V n) -> lookup_nat q specs <> None.
  Definition limits_good : Prop :=
    bad_limits ninf pinf = false /\
    (forall q s, In (q, s) specs -> bad_limits (s_lo V s) (s_hi V s) = false) /\
    (forall k e l, In (k, e) cfg -> ce_lim V e = Some l -> bad_limits (fst l) (snd l) = false).
  (* every width a modifier can produce for the value m is acceptable *)
  Definition modifiers_good (m : V) : Prop :=
    neg_sigma (wm_rel half m) = false /\
    (forall q s w, In (q, s) specs -> s_wm V s = Some w -> neg_sigma (apply_wm V wm_rel wm_abs w m) = false) /\
    (forall k e w, In (k, e) cfg -> ce_wm V e = Some w -> neg_sigma (apply_wm V wm_rel wm_abs w m) = false).

  Lemma cfg_lookup_in (c : config V) (cls name : string) (e : centry V) :
    cfg_lookup V c cls name = Some e -> exists k, In (k, e) c.
  Proof.
    induction c as [|[[k1 k2] e'] c IH]; simpl; [discriminate|].
    destruct (String.eqb k1 cls && String.eqb k2 name); intro H.
    - inversion H; subst. eexists. left. reflexivity.
    - destruct (IH H) as [k Hk]. exists k. right. exact Hk.
  Qed.

  Lemma derive_mean_total (a' r : option V) (nl : bool) (n : node) (q : nat) (m : V) :
    wf V n -> cls_ok V n -> is_pm V n = true -> names_ok n -> specs_cover n -> limits_good -> In q (prior_ids V n) ->
    (a' = None \/ r = None) ->
    (forall x, a' = Some x -> neg_sigma (abs_width x) = false) ->
    (forall x, a' = None -> r = Some x -> neg_sigma (rel_width x m) = false) ->
    (a' = None -> r = None -> modifiers_good m) ->
    exists s, DM a' r nl n q m = Ok s.
  Proof.
    intros W C P Nm Sc [Lg1 [Lg2 Lg3]] Hq AR Ha Hr Hd. unfold derive_mean.
    destruct (lookup_class V q n) as [cls|] eqn:Ec; [|exfalso; apply (lookup_class_some V n q W C P Hq Ec)].
    destruct (last_path_some V q n Hq) as [p [Ep _]]. rewrite Ep.
    destruct (Nm q p Ep) as [name En]. rewrite En.
    destruct (lookup_nat q specs) as [old|] eqn:Eo; [|exfalso; apply (Sc q Hq Eo)].
    assert (Io := lookup_nat_in q specs old Eo).
    assert (Lim : forall lim, lim = (if nl then (ninf, pinf)
                                     else match cfg_lookup V cfg cls name with
                                          | Some {| ce_lim := Some l |} => l
                                          | _ => (s_lo V old, s_hi V old)
                                          end) -> bad_limits (fst lim) (snd lim) = false).
    { intros lim ->. destruct nl; [exact Lg1|].
      destruct (cfg_lookup V cfg cls name) as [[w [l|]]|] eqn:El; try (apply (Lg2 q old Io)).
      destruct (cfg_lookup_in _ _ _ _ El) as [k Hk]. apply (Lg3 k _ l Hk eq_refl). }
    destruct a' as [x|], r as [y|].
    - destruct AR; discriminate.
    - cbv beta iota zeta. rewrite (Ha x eq_refl). rewrite (Lim _ eq_refl). eexists; reflexivity.
    - cbv beta iota zeta. rewrite (Hr y eq_refl eq_refl). rewrite (Lim _ eq_refl). eexists; reflexivity.
    - cbv beta iota zeta. destruct (Hd eq_refl eq_refl) as [M1 [M2 M3]].
      assert (Wd : neg_sigma (apply_wm V wm_rel wm_abs
                                (match s_wm V old with
                                 | Some w => w
                                 | None => match cfg_lookup V cfg cls name with
                                           | Some {| ce_wm := Some w |} => w
                                           | _ => WRel half
                                           end
                                 end) m) = false).
      { destruct (s_wm V old) as [w|] eqn:Ew; [apply (M2 q old w Io Ew)|].
        destruct (cfg_lookup V cfg cls name) as [[[w|] l]|] eqn:El; try exact M1.
        destruct (cfg_lookup_in _ _ _ _ El) as [k Hk]. apply (M3 k _ w Hk eq_refl). }
      rewrite Wd. rewrite (Lim _ eq_refl). eexists; reflexivity.
  Qed.

  Theorem total_means_conditions (a' r : option V) (nl : bool) (means : list V) (n : node) :
    wf V n -> cls_ok V n -> is_pm V n = true -> specs_cover n -> limits_good ->
    prior_count V n <= List.length means ->
    (a' = None \/ r = None) ->
    (forall x, a' = Some x -> neg_sigma (abs_width x) = false) ->
    (forall x i dm, a' = None -> r = Some x -> i < prior_count V n -> neg_sigma (rel_width x (nth i means dm)) = false) ->
    (forall i dm, a' = None -> r = None -> i < prior_count V n -> modifiers_good (nth i means dm)) ->
    exists n' sp, PASS (MMeans a' r nl means) n = Ok (n', sp).
  Proof.
    intros W C P Sc Lg L AR Ha Hr Hd. assert (Nm := names_ok_all n). apply total_means; [exact W|exact L|].
    intros i d dm Hi.
    assert (Hin : In (nth i (ordered_ids V n) d) (prior_ids V n)).
    { apply PAFC01.Proofs2.ordered_ids_in. apply nth_In. rewrite PAFC01.Proofs2.ordered_ids_length. exact Hi. }
    apply (derive_mean_total a' r nl n _ (nth i means dm) W C P Nm Sc Lg Hin AR Ha).
    - intros x Ea Er. apply (Hr x i dm Ea Er Hi).
    - intros Ea Er. apply (Hd i dm Ea Er Hi).
  Qed.

  (* identical instances for identical arguments when ids are kept *)
  Theorem instance_kept (md : mode V) (n n' : node) (sp : list (nat * spec V)) (args : nat -> option V) :
    wf V n -> keeps_ids V md -> PASS md n = Ok (n', sp) ->
    inst V bin un args n' = inst V bin un args n.
  Proof.
    intros W K E. unfold pass in E.
    destruct (mode_args V abs_width rel_width wm_rel wm_abs uf_lo uf_hi pl_lo pl_hi gl_mean gl_sigma lu_lo lu_hi
                        lu_bad bad_limits neg_sigma ninf pinf half cfg specs md n) as [a|e] eqn:Ea; [|discriminate].
    destruct (rebuild V (sigma_of V a) n) as [n1|] eqn:Er; [|discriminate]. inversion E; subst.
    destruct (mode_args_follows V abs_width rel_width wm_rel wm_abs uf_lo uf_hi pl_lo pl_hi gl_mean gl_sigma lu_lo lu_hi
                lu_bad bad_limits neg_sigma ninf pinf half cfg specs md n a K Ea) as [f [ms [F _]]].
    apply (rebuild_inst V bin un (sigma_of V a) args args n W n' Er).
    intros q _. rewrite (diag_sd V a q (follows_diag V ninf _ _ _ _ F)). reflexivity.
  Qed.
End T.

(* ---------- exact arithmetic of the generated leaves ---------- *)
Local Open Scope Q_scope.

Lemma neg_false (x : Q) : 0 <= x -> sigma_negative_Q x = false.
Proof.
  intro H. unfold sigma_negative_Q, Qlt_bool. apply negb_false_iff. apply Qle_bool_iff. exact H.
Qed.

Lemma neg_true (x : Q) : x < 0 -> sigma_negative_Q x = true.
Proof.
  intro H. unfold sigma_negative_Q, Qlt_bool. apply negb_true_iff.
  destruct (Qle_bool (inject_Z 0) x) eqn:E; [|reflexivity]. apply Qle_bool_iff in E. exfalso. apply (Qlt_not_le _ _ H E).
Qed.

Lemma abs_width_nonneg (a : Q) : 0 <= a -> sigma_negative_Q (pm_abs_width_Q a) = false.
Proof. intro H. apply neg_false. exact H. Qed.

Lemma rel_width_nonneg (r m : Q) : 0 <= r -> sigma_negative_Q (pm_rel_width_Q r m) = false.
Proof. intros Hr. apply neg_false. unfold pm_rel_width_Q. apply Qmult_le_0_compat; [exact Hr|apply Qabs_nonneg]. Qed.

Lemma wm_relative_nonneg (v m : Q) : 0 <= v -> sigma_negative_Q (wm_relative_Q v m) = false.
Proof. intros Hr. apply neg_false. unfold wm_relative_Q. apply Qmult_le_0_compat; [exact Hr|apply Qabs_nonneg]. Qed.

Lemma wm_absolute_nonneg (v : Q) : 0 <= v -> sigma_negative_Q (wm_absolute_Q v) = false.
Proof. intro H. apply neg_false. exact H. Qed.

Lemma good_limits (lo hi : Q) : lo < hi -> prior_bad_limits_Q lo hi = false.
Proof.
  intro H. unfold prior_bad_limits_Q. destruct (Qle_bool hi lo) eqn:E; [|reflexivity].
  apply Qle_bool_iff in E. exfalso. apply (Qlt_not_le _ _ H E).
Qed.

Lemma bounded_limits (f b : Q) : 0 < b ->
  prior_bad_limits_Q (uf_lower_Q f b) (uf_upper_Q f b) = false /\
  (uf_lower_Q f b + uf_upper_Q f b) / 2 == f /\ uf_upper_Q f b - uf_lower_Q f b == 2 * b.
Proof.
  intro H. unfold uf_lower_Q, uf_upper_Q. split; [|split].
  - apply good_limits. lra.
  - field.
  - ring.
Qed.

Lemma tightened_limits (lo hi slo shi : Q) :
  slo <= pl_lower_Q lo slo /\ lo <= pl_lower_Q lo slo /\ pl_upper_Q hi shi <= shi /\ pl_upper_Q hi shi <= hi.
Proof.
  unfold pl_lower_Q, pl_upper_Q, Qmax, Qmin.
  destruct (Qlt_le_dec lo slo), (Qlt_le_dec shi hi); repeat split; try apply Qle_refl; try (apply Qlt_le_weak; assumption); assumption.
Qed.

Lemma gaussian_between (lo hi : Q) : lo <= hi ->
  sigma_negative_Q (gl_sigma_Q lo hi) = false /\ lo <= gl_mean_Q lo hi /\ gl_mean_Q lo hi <= hi.
Proof.
  intro H. unfold gl_sigma_Q, gl_mean_Q. split; [apply neg_false; lra|].
  change (inject_Z 2) with 2. split.
  - apply Qle_shift_div_l; lra.
  - apply Qle_shift_div_r; lra.
Qed.

(* ---------- the exact-rational instance ---------- *)
Definition qpass (ninf pinf : Q) (cfg : config Q) (specs : list (nat * spec Q)) : mode Q -> node Q -> res (node Q * list (nat * spec Q)) :=
  pass Q pm_abs_width_Q pm_rel_width_Q wm_relative_Q wm_absolute_Q uf_lower_Q uf_upper_Q pl_lower_Q pl_upper_Q
       gl_mean_Q gl_sigma_Q lu_lower_Q lu_upper_Q lu_bad_lower_Q prior_bad_limits_Q sigma_negative_Q ninf pinf (1 # 2) cfg specs.

Definition qlimits_good (ninf pinf : Q) (cfg : config Q) (specs : list (nat * spec Q)) : Prop :=
  ninf < pinf /\ (forall q s, In (q, s) specs -> s_lo Q s < s_hi Q s) /\
  (forall k e l, In (k, e) cfg -> ce_lim Q e = Some l -> fst l < snd l).

Definition wm_value (w : wmod Q) : Q := match w with WAbs v | WRel v => v end.
Definition qmodifiers_good (cfg : config Q) (specs : list (nat * spec Q)) : Prop :=
  (forall q s w, In (q, s) specs -> s_wm Q s = Some w -> 0 <= wm_value w) /\
  (forall k e w, In (k, e) cfg -> ce_wm Q e = Some w -> 0 <= wm_value w).

Lemma qlimits (ninf pinf : Q) cfg specs : qlimits_good ninf pinf cfg specs -> limits_good Q prior_bad_limits_Q ninf pinf cfg specs.
Proof.
  intros [A [B C]]. split; [apply good_limits; exact A|]. split.
  - intros q s H. apply good_limits. apply (B q s H).
  - intros k e l H E. apply good_limits. apply (C k e l H E).
Qed.

Theorem total_absolute_Q (ninf pinf : Q) cfg specs (a : Q) (nl : bool) (means : list Q) (n : node Q) :
  wf Q n -> cls_ok Q n -> is_pm Q n = true -> specs_cover Q specs n -> qlimits_good ninf pinf cfg specs ->
  (prior_count Q n <= List.length means)%nat -> 0 <= a ->
  exists n' sp, qpass ninf pinf cfg specs (MMeans (Some a) None nl means) n = Ok (n', sp).
Proof.
  intros W C P Sc Lg L Ha. unfold qpass. apply total_means_conditions; auto.
  - apply qlimits. exact Lg.
  - intros x E. inversion E; subst. apply abs_width_nonneg. exact Ha.
  - intros x i dm E. discriminate E.
  - intros i dm E. discriminate E.
Qed.

Theorem total_relative_Q (ninf pinf : Q) cfg specs (r : Q) (nl : bool) (means : list Q) (n : node Q) :
  wf Q n -> cls_ok Q n -> is_pm Q n = true -> specs_cover Q specs n -> qlimits_good ninf pinf cfg specs ->
  (prior_count Q n <= List.length means)%nat -> 0 <= r ->
  exists n' sp, qpass ninf pinf cfg specs (MMeans None (Some r) nl means) n = Ok (n', sp).
Proof.
  intros W C P Sc Lg L Hr. unfold qpass. apply total_means_conditions; auto.
  - apply qlimits. exact Lg.
  - intros x E. discriminate E.
  - intros x i dm _ E Hi. inversion E; subst. apply rel_width_nonneg. exact Hr.
  - intros i dm _ E. discriminate E.
Qed.

Theorem total_default_Q (ninf pinf : Q) cfg specs (nl : bool) (means : list Q) (n : node Q) :
  wf Q n -> cls_ok Q n -> is_pm Q n = true -> specs_cover Q specs n -> qlimits_good ninf pinf cfg specs ->
  qmodifiers_good cfg specs ->
  (prior_count Q n <= List.length means)%nat ->
  exists n' sp, qpass ninf pinf cfg specs (MMeans None None nl means) n = Ok (n', sp).
Proof.
  intros W C P Sc Lg [Mg1 Mg2] L. unfold qpass. apply total_means_conditions; auto.
  - apply qlimits. exact Lg.
  - intros x E. discriminate E.
  - intros x i dm _ E. discriminate E.
  - intros i dm _ _ Hi.
    assert (X : forall w, 0 <= wm_value w -> sigma_negative_Q (apply_wm Q wm_relative_Q wm_absolute_Q w (nth i means dm)) = false).
    { intros [v|v] Hv; simpl in *; [apply wm_absolute_nonneg; exact Hv|apply wm_relative_nonneg; exact Hv]. }
    split; [apply wm_relative_nonneg; lra|]. split.
    + intros q s w H E. apply X. apply (Mg1 q s w H E).
    + intros k e w H E. apply X. apply (Mg2 k e w H E).
Qed.

Theorem total_bounded_Q (ninf pinf : Q) cfg specs (b : Q) (floats : list Q) (n : node Q) :
  wf Q n -> (prior_count Q n <= List.length floats)%nat -> 0 < b ->
  exists n' sp, qpass ninf pinf cfg specs (MBounded b floats) n = Ok (n', sp).
Proof.
  intros W L Hb. unfold qpass. apply total_bounded; auto.
  intros i dm _. apply (bounded_limits _ b Hb).
Qed.

(* ---------- witnesses: the full statements fail on the faithful model ---------- *)
Definition ex_model : node Q := NModel "G2" ["a"; "b"] [("a", NPrior 0%nat); ("b", NPrior 1%nat)].
Definition ex_specs : list (nat * spec Q) :=
  [(0%nat, Build_spec Q FUniform (-1) 1 0 0 None); (1%nat, Build_spec Q FUniform (-2) 1 0 0 None)].

Lemma ex_model_ok : wf Q ex_model /\ is_pm Q ex_model = true /\ names_ok Q ex_model /\ specs_cover Q ex_specs ex_model /\
  qlimits_good (-1000) 1000 [] ex_specs /\ qmodifiers_good [] ex_specs.
Proof.
  split; [simpl; auto|]. split; [reflexivity|]. split; [|split; [|split; [|split]]].
  - intros q p. unfold last_path. vm_compute.
    destruct q as [|[|q]]; intro H; inversion H; subst; eexists; reflexivity.
  - intros q Hq. vm_compute in Hq. destruct Hq as [<-|[<-|[]]]; vm_compute; discriminate.
  - split; [reflexivity|]. split; [|intros k e l []].
    intros q s [H|[H|[]]]; inversion H; subst; reflexivity.
  - intros q s w [H|[H|[]]] E; inversion H; subst; discriminate E.
  - intros k e w [].
Qed.

(* relative widths of a negative inferred value: the magnitude is used *)
Lemma relative_negative_example :
  exists n' s0 s1, qpass (-1000) 1000 [] ex_specs (MMeans None (Some (1 # 2)) false [1 # 2; -(3 # 2)]) ex_model = Ok (n', [(0%nat, s0); (1%nat, s1)])
                   /\ s_mean Q s1 == -(3 # 2) /\ s_sigma Q s1 == 3 # 4.
Proof. eexists. eexists. eexists. split; [vm_compute; reflexivity|]. split; reflexivity. Qed.

(* a prior held under a number by a top-level collection is passed like any other *)
Definition ex_digit : node Q := NColl [("0", NPrior 0%nat)].
Lemma digit_example :
  wf Q ex_digit /\ is_pm Q ex_digit = true /\
  exists sp, qpass (-1000) 1000 [] ex_specs (MMeans (Some 1) None false [1 # 2]) ex_digit = Ok (ex_digit, sp).
Proof. split; [simpl; auto|]. split; [reflexivity|]. eexists. vm_compute. reflexivity. Qed.

(* a constant held directly by a collection is kept *)
Definition ex_coll : node Q := NColl [("k", NConst 2); ("p", NPrior 0%nat)].
Definition qbin (o : binop) (a b : Q) : Q := match o with OAdd => a + b | OSub => a - b | OMul => a * b | ODiv => a / b
  | OFloorDiv => inject_Z (Qfloor (a / b)) | OMod => a - b * inject_Z (Qfloor (a / b)) end.
Definition qun (o : unop) (a : Q) : Q := match o with UNeg => - a | UAbs => Qabs a end.
Lemma collection_constant_example :
  wf Q ex_coll /\ exists sp, qpass (-1000) 1000 [] ex_specs (MMeans (Some 1) None false [1 # 2]) ex_coll = Ok (ex_coll, sp).
Proof. split; [simpl; auto|]. eexists. vm_compute. reflexivity. Qed.

(* binary64: value +- b rounds back to value for a large value, and the uniform prior is rejected *)
Definition ex_fmodel : node float := NModel "G2" ["a"; "b"] [("a", NPrior 0%nat); ("b", NConst 1%float)].
Definition ex_fspecs : list (nat * fspec) := [(0%nat, mk FUniform 0%float 1%float 0%float 0%float None)].
Lemma bounded_float_refuted :
  PrimFloat.ltb 0%float 1%float = true /\
  fpass [] ex_fspecs (MBounded 1%float [0x1p60%float]) ex_fmodel = Exc EPrior.
Proof. split; vm_compute; reflexivity. Qed.
