(* C12: with_limits / replacing theorems stated over the bundled leaves, and the witness of the
   configuration mix-up for a prior shared between a model and its child. *)
From Coq Require Import List String Bool Arith PeanoNat Lia ZArith QArith.
From PAFCommon Require Import PyNum.
From PAFC01 Require Import ModelTree Sorting.
From PAFC01 Require Proofs Proofs2.
From PAFC12 Require Import Gen Model Lib Proofs Proofs2 Proofs3 Proofs4 Proofs5 Proofs6 Proofs8.
Import ListNotations.
Local Close Scope Q_scope.
Local Open Scope string_scope.
Local Open Scope list_scope.

Section B.
  Variable V : Type.
  Variable L : leaves V.
  Variable cfg : config V.
  Variable specs : list (nat * spec V).
  Notation node := (node V).

  Definition lderive_limits : nat -> V * V -> res (spec V) :=
    derive_limits V (l_pl_lo V L) (l_pl_hi V L) (l_gl_mean V L) (l_gl_sigma V L) (l_lu_lo V L) (l_lu_hi V L) (l_lu_bad V L)
                  (l_bad_limits V L) (l_neg_sigma V L) (l_ninf V L) (l_pinf V L) specs.

  Lemma l_own_limits (fresh : nat) (ls : list (V * V)) (n n' : node) (sp : list (nat * spec V)) :
    wf V n -> lpass V L cfg specs (MLimits fresh ls) n = Ok (n', sp) ->
    List.length sp = prior_count V n /\
    forall i d dl, i < prior_count V n ->
      exists s, nth_error sp i = Some (fresh + i, s) /\ lderive_limits (nth i (ordered_ids V n) d) (nth i ls dl) = Ok s.
  Proof. apply own_limits. Qed.

  Lemma l_total_limits (fresh : nat) (ls : list (V * V)) (n : node) :
    wf V n -> prior_count V n <= List.length ls ->
    (forall i d dl, i < prior_count V n -> exists s, lderive_limits (nth i (ordered_ids V n) d) (nth i ls dl) = Ok s) ->
    exists n' sp, lpass V L cfg specs (MLimits fresh ls) n = Ok (n', sp).
  Proof. apply total_limits. Qed.

  Lemma l_derive_limits_shape (q : nat) (l : V * V) (s : spec V) :
    lderive_limits q l = Ok s ->
    exists old, lookup_nat q specs = Some old /\ s_fam V s = s_fam V old /\ s_wm V s = None /\
      l_bad_limits V L (s_lo V s) (s_hi V s) = false /\
      match s_fam V old with
      | FUniform => s_lo V s = l_pl_lo V L (fst l) (s_lo V old) /\ s_hi V s = l_pl_hi V L (snd l) (s_hi V old)
      | FGaussian => s_mean V s = l_gl_mean V L (fst l) (snd l) /\ s_sigma V s = l_gl_sigma V L (fst l) (snd l) /\
                     l_neg_sigma V L (s_sigma V s) = false /\ s_lo V s = l_ninf V L /\ s_hi V s = l_pinf V L
      | FLogUniform => s_lo V s = l_lu_lo V L (fst l) /\ s_hi V s = l_lu_hi V L (snd l)
      | FLogGaussian => s_lo V s = l_pl_lo V L (fst l) (s_lo V old) /\ s_hi V s = l_pl_hi V L (snd l) (s_hi V old)
      end.
  Proof. apply derive_limits_shape. Qed.

  Lemma l_own_replacement (m : arguments V) (n n' : node) (sp : list (nat * spec V)) :
    wf V n -> lpass V L cfg specs (MReplace m) n = Ok (n', sp) ->
    (forall q' s, In (q', s) sp <->
       In q' (ordered_ids V n') /\ lookup_nat q' (map snd (replace_args V specs n m)) = Some s) /\
    (forall q q' s, In q (prior_ids V n) -> lookup_nat q m = Some (q', s) ->
       lookup_nat q' (map snd m) = Some s -> In (q', s) sp) /\
    (forall q s, In q (prior_ids V n) -> lookup_nat q m = None -> lookup_nat q (map snd m) = None ->
       lookup_nat q specs = Some s -> In (q, s) sp).
  Proof. apply own_replacement. Qed.
End B.

(* exact rationals: tightening a uniform prior succeeds iff the requested limits meet its range, and the new range
   lies inside both *)
Local Open Scope Q_scope.
Lemma uniform_tightening (lo hi slo shi : Q) : Qmax lo slo < Qmin hi shi ->
  prior_bad_limits_Q (pl_lower_Q lo slo) (pl_upper_Q hi shi) = false.
Proof. intro H. apply good_limits. exact H. Qed.
Local Close Scope Q_scope.

(* ---------- HISTORY (before a8a9b5b) the configuration mix-up: parameter 0 sits at KN.s and at KN.inner.a (class K2), and is looked up under
   (K2, "s"), which is neither; it gets K2.s's width 3 instead of KN.s's 1/4 * value or K2.a's 1/8 ---------- *)
Definition ex_shared : node Q :=
  NModel "KN" ["inner"; "s"; "a"]
    [("inner", NModel "K2" ["a"; "s"] [("a", NPrior 0%nat); ("s", NPrior 1%nat)]); ("s", NPrior 0%nat); ("a", NConst 1%Q)].
Definition ex_shared_cfg : config Q :=
  [(("K2", "a"), Build_centry Q (Some (WAbs (1 # 8)%Q)) (Some ((-3)%Q, 3%Q)));
   (("K2", "s"), Build_centry Q (Some (WAbs 3%Q)) None);
   (("KN", "s"), Build_centry Q (Some (WRel (1 # 4)%Q)) (Some ((-5)%Q, 5%Q)));
   (("KN", "a"), Build_centry Q None (Some ((-9)%Q, 9%Q)))].
Definition ex_shared_specs : list (nat * spec Q) :=
  [(0%nat, Build_spec Q FUniform (-1)%Q 1%Q 0%Q 0%Q None); (1%nat, Build_spec Q FUniform 0%Q 2%Q 0%Q 0%Q None)].

Lemma config_own_legacy_refuted :
  wf Q ex_shared /\
  walk Q ex_shared = [(["inner"; "a"], 0%nat); (["inner"; "s"], 1%nat); (["s"], 0%nat)] /\
  PAFC01.Proofs.node_at Q ["inner"] ex_shared = Some (NModel "K2" ["a"; "s"] [("a", NPrior 0%nat); ("s", NPrior 1%nat)]) /\
  class_of Q 0 ex_shared = Some "K2" /\ last_path Q 0 ex_shared = Some ["s"] /\ cfg_name ["s"] = Ok "s" /\
  (own_place_class = false ->          (* the code before a8a9b5b: lookup_class = prior_class_dict *)
  exists n' s0 s1,
    qpass (-1000)%Q 1000%Q ex_shared_cfg ex_shared_specs (MMeans None None false [(1 # 2)%Q; 1%Q]) ex_shared
      = Ok (n', [(0%nat, s0); (1%nat, s1)]) /\
    s_sigma Q s0 = 3%Q /\ (s_lo Q s0, s_hi Q s0) = ((-1)%Q, 1%Q)).
Proof.
  split; [simpl; auto|]. split; [reflexivity|]. split; [reflexivity|]. split; [reflexivity|]. split; [reflexivity|].
  split; [reflexivity|]. intro Flag.
  first [discriminate Flag | (eexists; eexists; eexists; split; [vm_compute; reflexivity|]; split; reflexivity)].
Qed.

(* the code as it is (a8a9b5b) on the same model: parameter 0 is configured under (KN, "s"), the holder and the name of its last
   place: width 1/4 * |value| and limits -5..5 *)
Lemma config_one_place_repaired :
  own_place_class = true ->
  exists n' s0 s1,
    qpass (-1000)%Q 1000%Q ex_shared_cfg ex_shared_specs (MMeans None None false [(1 # 2)%Q; 1%Q]) ex_shared
      = Ok (n', [(0%nat, s0); (1%nat, s1)]) /\
    (s_sigma Q s0 == (1 # 4) * (1 # 2))%Q /\ (s_lo Q s0, s_hi Q s0) = ((-5)%Q, 5%Q).
Proof.
  intro Flag.
  first [discriminate Flag | (eexists; eexists; eexists; split; [vm_compute; reflexivity|]; split; reflexivity)].
Qed.

(* ---------- binary64: relative widths on a grid (the bound is in the statement).  A universally quantified binary64
   lemma would need the specification axioms of Coq.Floats.FloatAxioms, which are outside the trusted base. ---------- *)
From Coq Require Import Floats.PrimFloat.
Definition fgrid_nonneg : list float :=
  [0%float; 0x1p-1074%float; 0x1p-1022%float; 0x1p-300%float; 0x1p-60%float; 0x1.999999999999ap-4%float; 0x1p-2%float;
   0x1p-1%float; 1%float; 0x1.8p0%float; 2%float; 3%float; 0x1.4p3%float; 0x1p60%float; 0x1p300%float;
   0x1.fffffffffffffp1023%float; infinity].
Definition fgrid : list float := fgrid_nonneg ++ map PrimFloat.opp fgrid_nonneg.

Lemma relative_width_float_grid :
  forallb (fun r => forallb (fun m => negb (sigma_negative_F (pm_rel_width_F r m)) && negb (sigma_negative_F (wm_relative_F r m)))
                            fgrid) fgrid_nonneg = true.
Proof. vm_compute. reflexivity. Qed.
