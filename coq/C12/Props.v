(* C12 property theorems: statements only. *)
From Coq Require Import List String.
From PAFC01 Require Import ModelTree.
From PAFC12 Require Import Gen Model Proofs.

Theorem C12_const_kept : forall (V : Type) (s : nat -> option nat) (v : V), rebuild V s (NConst v) = Some (NConst v).
Proof. exact rebuild_const. Qed.

Print Assumptions C12_const_kept.
