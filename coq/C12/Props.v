(* C12 property theorems: statements only, each closed by `exact`.
   V is the value type, L the arithmetic leaves (Gen.v: binary64 `fleaves`, exact rationals `qleaves`),
   `lpass L cfg specs mode model` the passing call, `rebuild V sigma model` the recursive rebuild
   (gaussian_prior_model_for_arguments) for the arguments {prior q: prior sigma q}. *)
From Coq Require Import List String QArith.
From Coq Require Import Floats.PrimFloat.
From PAFC01 Require Import ModelTree.
From PAFC12 Require Import Gen Model Proofs Proofs2 Proofs3 Proofs4 Proofs5 Proofs6 Proofs7 Proofs8 Proofs9 Proofs10 Proofs11 Proofs12.
Import ListNotations.

(* STRUCTURE, every mode.  The new model has exactly the places (paths) of the old one, and the place that held
   prior q holds the prior given for q: same paths, same sharing pattern, nothing else is visited. *)
Theorem C12_paths_and_identity : forall (V : Type) (sigma : nat -> option nat) (n : node V),
  wf V n -> forall n' : node V, rebuild V sigma n = Some n' -> walk V n' = ren_walk sigma (walk V n).
Proof. exact rebuild_walk. Qed.

(* the rebuild succeeds exactly when every prior of the model has an entry in the arguments *)
Theorem C12_rebuild_total : forall (V : Type) (sigma : nat -> option nat) (n : node V), wf V n ->
  ((exists n', rebuild V sigma n = Some n') <-> (forall q, In q (prior_ids V n) -> sigma q <> None)).
Proof. exact rebuild_iff. Qed.

(* an order-preserving substitution keeps parameter order, parameter count and the advertised path list *)
Theorem C12_order : forall (V : Type) (sigma : nat -> option nat) (n n' : node V),
  wf V n -> rebuild V sigma n = Some n' ->
  (forall x y, In x (prior_ids V n) -> In y (prior_ids V n) -> (x < y)%nat -> (sd sigma x < sd sigma y)%nat) ->
  ordered_ids V n' = map (sd sigma) (ordered_ids V n) /\ prior_count V n' = prior_count V n /\ paths V n' = paths V n.
Proof. exact rebuild_order. Qed.

(* RESULTS ARE STATEFUL (Session.v): a samples summary caches its parameter paths and its instance; the child results
   of combined / free-parameter analyses are copies made by `subsamples`.  From a summary whose path cache is empty or
   that of its own model, every summary reached by reads and by making children (any order, any depth) is again so. *)
From PAFC12 Require Import Session.
Theorem C12_summary_cache_coherent : forall (V : Type) (bin : binop -> V -> V -> V) (un : unop -> V -> V) (resets : bool) (ops : list (op V))
    (s s' : summary V),
  coherent V s -> run V bin un resets ops s = Some s' -> coherent V s'.
Proof. exact run_coherent. Qed.

(* whatever was read from the parent before its child is made and from the child afterwards, the child answers with the
   best-fit vector and the prior means of the child made first thing from the untouched parent: prior passing from a
   child result does not depend on the history of the result objects *)
Theorem C12_summary_history_irrelevant : forall (V : Type) (bin : binop -> V -> V -> V) (un : unop -> V -> V) (resets : bool) (s : summary V)
    (before : list (op V)) (child : node V) (after : list (op V)) (c c0 : summary V),
  coherent V s -> Forall (is_read V) before -> Forall (is_read V) after ->
  run V bin un resets (before ++ OSub V child :: after) s = Some c -> subsamples V resets s child = Some c0 ->
  sm_model V c = child /\ max_vector V c = max_vector V c0 /\ means_vector V c = means_vector V c0.
Proof. exact history_irrelevant. Qed.

(* the child's instance is the child model at the child's own vector (full, for the code since 4da3fbc: `subsamples`
   resets `_instance`): whatever was done with the parent before - instance reads included - and read from the child
   afterwards.  Before the repair the copy kept the parent's instance: legacy witness below. *)
Theorem C12_child_instance_own : forall (V : Type) (bin : binop -> V -> V -> V) (un : unop -> V -> V) (s : summary V)
    (before : list (op V)) (child : node V) (after : list (op V)) (c : summary V),
  Forall (is_read V) after -> run V bin un true (before ++ OSub V child :: after) s = Some c ->
  instance_value V bin un c = option_map (inst_from_vector V bin un child) (max_vector V c) /\ sm_model V c = child.
Proof. exact (fun V bin un => child_instance_own V bin un true eq_refl). Qed.

Theorem C12_child_instance_own_legacy_refuted :
  exists (s : summary nat) (before : list (op nat)) (child : node nat) (after : list (op nat)) (c : summary nat),
    coherent nat s /\ sm_inst nat s = None /\ Forall (is_read nat) before /\ Forall (is_read nat) after /\
    run nat wit_bin wit_un false (before ++ OSub nat child :: after) s = Some c /\
    instance_value nat wit_bin wit_un c <> option_map (inst_from_vector nat wit_bin wit_un child) (max_vector nat c).
Proof. exact child_instance_legacy_refuted. Qed.
Print Assumptions C12_summary_cache_coherent.
Print Assumptions C12_summary_history_irrelevant.
Print Assumptions C12_child_instance_own.
Print Assumptions C12_child_instance_own_legacy_refuted.

(* sharing: two places hold one prior afterwards iff they did before *)
Theorem C12_sharing : forall (V : Type) (sigma : nat -> option nat) (n n' : node V),
  wf V n -> rebuild V sigma n = Some n' ->
  (forall x y, In x (prior_ids V n) -> In y (prior_ids V n) -> sd sigma x = sd sigma y -> x = y) ->
  forall p1 p2 q1 q2, In (p1, q1) (walk V n) -> In (p2, q2) (walk V n) ->
    In (p1, sd sigma q1) (walk V n') /\ In (p2, sd sigma q2) (walk V n') /\ (q1 = q2 <-> sd sigma q1 = sd sigma q2).
Proof. exact rebuild_sharing. Qed.

(* FIXED VALUES, CLASSES, TUPLES, DERIVED VALUES (full): the new model builds, from corresponding arguments, the
   instance the old model builds. *)
Theorem C12_instance : forall (V : Type) (bin : binop -> V -> V -> V) (un : unop -> V -> V) (sigma : nat -> option nat)
    (args args' : nat -> option V) (n : node V),
  wf V n -> forall n', rebuild V sigma n = Some n' ->
  (forall q, In q (prior_ids V n) -> args' (sd sigma q) = args q) ->
  inst V bin un args' n' = inst V bin un args n.
Proof. exact rebuild_inst. Qed.

(* MEANS / BOUNDED MODES keep ids: every query of the new model equals that of the old one *)
Theorem C12_structure_kept : forall (V : Type) (L : leaves V) cfg specs (md : mode V) (n n' : node V) sp,
  wf V n -> keeps_ids V md -> lpass V L cfg specs md n = Ok (n', sp) ->
  walk V n' = walk V n /\ paths V n' = paths V n /\ unique_prior_paths V n' = unique_prior_paths V n /\
  ordered_ids V n' = ordered_ids V n /\ prior_count V n' = prior_count V n.
Proof. exact l_structure_kept. Qed.

Theorem C12_instance_kept : forall (V : Type) (L : leaves V) cfg specs (bin : binop -> V -> V -> V) (un : unop -> V -> V) (md : mode V)
    (n n' : node V) sp (args : nat -> option V),
  wf V n -> keeps_ids V md -> lpass V L cfg specs md n = Ok (n', sp) ->
  inst V bin un args n' = inst V bin un args n.
Proof. exact l_instance_kept. Qed.

(* OWN VALUE (the pairing itself is zip_derive's definition; the content is that the priors REPORTED for the new model,
   new_specs over its own id order, are exactly those entries in that order, together with C12_structure_kept).
   OWN VALUE.  The i-th parameter (id order) gets the prior derived from the i-th inferred value and from nothing
   else; it is a Gaussian centred on that value whose width is a, r * value or the modifier's, and it keeps the id *)
Theorem C12_own_value : forall (V : Type) (L : leaves V) cfg specs (a r : option V) (nl : bool) (means : list V)
    (n n' : node V) sp,
  wf V n -> lpass V L cfg specs (MMeans a r nl means) n = Ok (n', sp) ->
  map fst sp = ordered_ids V n /\ (prior_count V n <= List.length means)%nat /\
  forall i d dm, (i < prior_count V n)%nat ->
    exists s, nth_error sp i = Some (nth i (ordered_ids V n) d, s) /\
              lderive_mean V L cfg specs a r nl n (nth i (ordered_ids V n) d) (nth i means dm) = Ok s.
Proof. exact l_own_value. Qed.

Theorem C12_derived_prior : forall (V : Type) (L : leaves V) cfg specs (a r : option V) (nl : bool) (n : node V)
    (q : nat) (m : V) (s : spec V),
  lderive_mean V L cfg specs a r nl n q m = Ok s ->
  s_fam V s = FGaussian /\ s_mean V s = m /\ l_neg_sigma V L (s_sigma V s) = false /\
  l_bad_limits V L (s_lo V s) (s_hi V s) = false /\
  (exists old, lookup_nat q specs = Some old /\ s_wm V s = s_wm V old) /\
  (forall x, a = Some x -> s_sigma V s = l_abs_width V L x) /\
  (forall x, a = None -> r = Some x -> s_sigma V s = l_rel_width V L x m) /\
  (nl = true -> s_lo V s = l_ninf V L /\ s_hi V s = l_pinf V L).
Proof. exact l_derive_mean_shape. Qed.

Theorem C12_own_value_bounded : forall (V : Type) (L : leaves V) cfg specs (b : V) (floats : list V) (n n' : node V) sp,
  wf V n -> lpass V L cfg specs (MBounded b floats) n = Ok (n', sp) ->
  map fst sp = ordered_ids V n /\ (prior_count V n <= List.length floats)%nat /\
  forall i d dm, (i < prior_count V n)%nat ->
    exists s, nth_error sp i = Some (nth i (ordered_ids V n) d, s) /\
              lderive_bounded V L b (nth i (ordered_ids V n) d) (nth i floats dm) = Ok s.
Proof. exact l_own_value_bounded. Qed.

Theorem C12_bounded_prior : forall (V : Type) (L : leaves V) (b : V) (q : nat) (f : V) (s : spec V),
  lderive_bounded V L b q f = Ok s ->
  s_fam V s = FUniform /\ s_lo V s = l_uf_lo V L f b /\ s_hi V s = l_uf_hi V L f b /\
  l_bad_limits V L (s_lo V s) (s_hi V s) = false.
Proof. exact l_derive_bounded_shape. Qed.

(* NEVER A NEGATIVE WIDTH (full): whatever the values, a model that is produced carries only Gaussians with
   sigma >= 0 and non-empty limits *)
Theorem C12_width_nonneg : forall (V : Type) (L : leaves V) cfg specs (a r : option V) (nl : bool) (means : list V)
    (n n' : node V) sp,
  wf V n -> lpass V L cfg specs (MMeans a r nl means) n = Ok (n', sp) ->
  forall q s, In (q, s) sp ->
    s_fam V s = FGaussian /\ l_neg_sigma V L (s_sigma V s) = false /\ l_bad_limits V L (s_lo V s) (s_hi V s) = false.
Proof. exact l_width_nonneg. Qed.

(* Guard `cls_ok` of the theorems about mapper_from_prior_means (ext-tree): every unary arithmetic prior (-x, abs(x)) of the
   model has a class for the configuration lookup.  In the code as it is (Gen.modified_prior_cls_falls_back = false)
   ModifiedPrior.cls is self.prior.cls, which does not exist when the operand is a Prior: the call raises AttributeError
   (C12_means_unary_over_prior_refuted, finding modified-prior-cls).  Once the class falls back to float the guard holds
   for every model (C12_cls_ok_repaired) and the theorems are the full statements again. *)
Theorem C12_cls_ok_repaired : modified_prior_cls_falls_back = true -> forall (V : Type) (n : node V), cls_ok V n.
Proof. exact (fun R V n => cls_ok_repaired V R n). Qed.

Theorem C12_means_unary_over_prior_refuted :
  modified_prior_cls_falls_back = false ->
  exists (n : node Q) specs means,
    wf Q n /\ is_pm Q n = true /\ specs_cover Q specs n /\
    qpass (-1000) 1000 [] specs (MMeans (Some 1) None false means) n = Exc EAttr.
Proof. exact means_unary_over_prior_refuted. Qed.

(* the unary node under the recursive rebuild: operator and attribute name kept, the operand rebuilt, its paths the
   operand's paths behind the attribute name with every prior replaced by the one given for it *)
Theorem C12_unary_rebuild : forall (V : Type) (sigma : nat -> option nat) (o : unop) (nm : string) (c : node V),
  rebuild V sigma (NUn o nm c) = option_map (NUn o nm) (rebuild V sigma c) /\
  (forall n', wf V c -> rebuild V sigma (NUn o nm c) = Some n' ->
     exists c', n' = NUn o nm c' /\ walk V c' = ren_walk sigma (walk V c) /\
                walk V n' = prefix_paths nm (ren_walk sigma (walk V c))).
Proof. exact unary_rebuild. Qed.

(* ... and fixed to the best-fit instance it becomes the number op(value) *)
Theorem C12_unary_fixed : forall (V : Type) (bin : binop -> V -> V -> V) (un : unop -> V -> V) (vals : nat -> option V)
    (o : unop) (nm : string) (c : node V) (a : V),
  PAFC01.Proofs8.is_const V c = false -> inst V bin un vals c = IV a ->
  fix_tree V bin un vals (NUn o nm c) = Some (NConst (un o a)).
Proof. exact unary_fixed. Qed.

(* SUCCESS.  Sufficient conditions for every value type: the lookup name exists, widths are not negative, limits
   are not empty *)
Theorem C12_total_means_conditions : forall (V : Type) (L : leaves V) cfg specs (a r : option V) (nl : bool)
    (means : list V) (n : node V),
  wf V n -> cls_ok V n -> is_pm V n = true -> specs_cover V specs n -> llimits_good V L cfg specs ->
  (prior_count V n <= List.length means)%nat ->
  (a = None \/ r = None) ->
  (forall x, a = Some x -> l_neg_sigma V L (l_abs_width V L x) = false) ->
  (forall x i dm, a = None -> r = Some x -> (i < prior_count V n)%nat ->
     l_neg_sigma V L (l_rel_width V L x (nth i means dm)) = false) ->
  (forall i dm, a = None -> r = None -> (i < prior_count V n)%nat -> lmodifiers_good V L cfg specs (nth i means dm)) ->
  exists n' sp, lpass V L cfg specs (MMeans a r nl means) n = Ok (n', sp).
Proof. exact l_total_means. Qed.

(* the lookup context (class, last place) exists for every prior of a model or collection *)
Theorem C12_config_context : forall (V : Type) (n : node V) (q : nat),
  wf V n -> is_pm V n = true -> In q (prior_ids V n) ->
  (exists cls, class_of V q n = Some cls) /\ (exists p, last_path V q n = Some p /\ In (p, q) (walk V n)).
Proof. exact config_context. Qed.

(* (about the pre-a8a9b5b lookup class_of; kept: for an unshared prior both lookups agree)
   CONFIGURED WIDTH OF THE OWN PARAMETER: a prior that occurs at exactly one place, held by a Model of class cls (at
   structural path p) directly or as a member of a tuple prior, is looked up in the prior configuration under
   (cls, its own attribute / member name) *)
Theorem C12_config_own : forall (V : Type) (p : path) (n : node V) cls ctor attrs k0 c0 rest q,
  PAFC01.Proofs.node_at V p n = Some (NModel cls ctor attrs) -> assoc k0 attrs = Some c0 -> is_pm V c0 = false ->
  In (rest, q) (walk V c0) ->
  occ q (walk V n) = [(p ++ k0 :: rest, q)] ->
  isdigit (last (k0 :: rest) EmptyString) = false ->
  class_of V q n = Some cls /\ last_path V q n = Some (p ++ k0 :: rest) /\
  cfg_name (p ++ k0 :: rest) = Ok (last (k0 :: rest) EmptyString).
Proof. exact config_own. Qed.

(* HISTORY (before a8a9b5b, own_place_class = false): not for a shared prior -- the class came from prior_class_dict (the child
   model wins), the name from the last place in the walk.  Parameter 0 of ex_shared sits at KN.s and at KN.inner.a (class K2)
   and was looked up under (K2, "s"), neither of its places: K2.s's width 3 and its old limits.  Vacuous for the code as it is. *)
Theorem C12_config_own_legacy_refuted :
  wf Q ex_shared /\
  walk Q ex_shared = [(["inner"; "a"]%string, 0%nat); (["inner"; "s"]%string, 1%nat); (["s"]%string, 0%nat)] /\
  PAFC01.Proofs.node_at Q ["inner"%string] ex_shared
    = Some (NModel "K2" ["a"; "s"]%string [("a"%string, NPrior 0%nat); ("s"%string, NPrior 1%nat)]) /\
  class_of Q 0 ex_shared = Some "K2"%string /\ last_path Q 0 ex_shared = Some ["s"%string] /\ cfg_name ["s"%string] = Ok "s"%string /\
  (own_place_class = false ->
  exists n' s0 s1,
    qpass (-1000) 1000 ex_shared_cfg ex_shared_specs (MMeans None None false [1 # 2; 1]) ex_shared
      = Ok (n', [(0%nat, s0); (1%nat, s1)]) /\
    s_sigma Q s0 = 3 /\ (s_lo Q s0, s_hi Q s0) = (-1, 1)).
Proof. exact config_own_legacy_refuted. Qed.

(* the code as it is: the same shared prior is configured under (KN, "s"), holder and name of its last place *)
Theorem C12_config_one_place_repaired :
  own_place_class = true ->
  exists n' s0 s1,
    qpass (-1000) 1000 ex_shared_cfg ex_shared_specs (MMeans None None false [1 # 2; 1]) ex_shared
      = Ok (n', [(0%nat, s0); (1%nat, s1)]) /\
    s_sigma Q s0 == (1 # 4) * (1 # 2) /\ (s_lo Q s0, s_hi Q s0) = (-5, 5).
Proof. exact config_one_place_repaired. Qed.

(* CONFIGURED WIDTH, shared priors included (a8a9b5b): the class of the lookup is `holder_class (last place)`.  It is defined
   for every prior of a model / collection, and the holder of a place below a Model (direct attribute or tuple member) is
   that Model, so that class and name describe one and the same place of the prior. *)
Theorem C12_lookup_class_defined : forall (V : Type) (n : node V) (q : nat),
  wf V n -> cls_ok V n -> is_pm V n = true -> In q (prior_ids V n) -> lookup_class V q n <> None.
Proof. exact lookup_class_some. Qed.

Theorem C12_holder_class_own : forall (V : Type) (p : path) (n : node V) cls ctor attrs k0 c0 rest,
  PAFC01.Proofs.node_at V p n = Some (NModel cls ctor attrs) -> assoc k0 attrs = Some c0 ->
  (rest = [] \/ (exists ms m, c0 = NTuple ms /\ rest = [m])) ->
  holder_class V (p ++ k0 :: rest) n = Some cls.
Proof. exact holder_class_own. Qed.

(* Full statement "passing succeeds for every finite inferred vector" (any sign), exact arithmetic *)
Theorem C12_total_absolute : forall (ninf pinf : Q) cfg specs (a : Q) (nl : bool) (means : list Q) (n : node Q),
  wf Q n -> cls_ok Q n -> is_pm Q n = true -> specs_cover Q specs n -> qlimits_good ninf pinf cfg specs ->
  (prior_count Q n <= List.length means)%nat -> 0 <= a ->
  exists n' sp, qpass ninf pinf cfg specs (MMeans (Some a) None nl means) n = Ok (n', sp).
Proof. exact total_absolute_Q. Qed.

Theorem C12_total_relative : forall (ninf pinf : Q) cfg specs (r : Q) (nl : bool) (means : list Q) (n : node Q),
  wf Q n -> cls_ok Q n -> is_pm Q n = true -> specs_cover Q specs n -> qlimits_good ninf pinf cfg specs ->
  (prior_count Q n <= List.length means)%nat -> 0 <= r ->
  exists n' sp, qpass ninf pinf cfg specs (MMeans None (Some r) nl means) n = Ok (n', sp).
Proof. exact total_relative_Q. Qed.

Theorem C12_total_default : forall (ninf pinf : Q) cfg specs (nl : bool) (means : list Q) (n : node Q),
  wf Q n -> cls_ok Q n -> is_pm Q n = true -> specs_cover Q specs n -> qlimits_good ninf pinf cfg specs ->
  qmodifiers_good cfg specs ->
  (prior_count Q n <= List.length means)%nat ->
  exists n' sp, qpass ninf pinf cfg specs (MMeans None None nl means) n = Ok (n', sp).
Proof. exact total_default_Q. Qed.

(* relative widths are never negative, whatever the sign of the value *)
Theorem C12_relative_width_nonneg : forall r m : Q, 0 <= r ->
  sigma_negative_Q (pm_rel_width_Q r m) = false /\ sigma_negative_Q (wm_relative_Q r m) = false.
Proof. exact relative_width_nonneg. Qed.

(* binary64, on a grid of 17 non-negative widths x 34 values of either sign (0, subnormal, 2^-1022, ..., 2^60, 2^300, max,
   infinity): the computed relative width is never negative -- by computation, no axiom.  The universally quantified
   statement is C12_relative_width_float below (it depends on the FloatAxioms specification axioms). *)
Theorem C12_relative_width_float_grid :
  forallb (fun r => forallb (fun m => negb (sigma_negative_F (pm_rel_width_F r m)) && negb (sigma_negative_F (wm_relative_F r m)))
                            fgrid) fgrid_nonneg = true.
Proof. exact relative_width_float_grid. Qed.

(* binary64, ALL floats (the universally quantified form of the grid statement above; from the specification axioms
   FloatAxioms.ltb_spec / leb_spec / abs_spec / mul_spec of the Coq standard library, Common/Float64Order.v): with a factor
   r >= 0 (so not NaN; -0.0 and +infinity allowed) the relative width r * |m| is never negative whatever m is -- any
   sign, zero, infinite, NaN (0 * inf = NaN is "not negative": the code's test `sigma < 0` is false) *)
Theorem C12_relative_width_float : forall r m : PrimFloat.float, PrimFloat.leb 0 r = true ->
  sigma_negative_F (pm_rel_width_F r m) = false /\ sigma_negative_F (wm_relative_F r m) = false.
Proof. exact relative_width_float. Qed.

Theorem C12_absolute_width_float : forall a : PrimFloat.float, PrimFloat.leb 0 a = true ->
  sigma_negative_F (pm_abs_width_F a) = false /\ sigma_negative_F (wm_absolute_F a) = false.
Proof. exact absolute_width_float. Qed.

(* hence the two width hypotheses of C12_total_means_conditions hold of the binary64 leaves the correspondence runs *)
Theorem C12_widths_not_negative_float_leaves : forall x : PrimFloat.float, PrimFloat.leb 0 x = true ->
  l_neg_sigma PrimFloat.float fleaves (l_abs_width PrimFloat.float fleaves x) = false /\
  forall m, l_neg_sigma PrimFloat.float fleaves (l_rel_width PrimFloat.float fleaves x m) = false.
Proof. exact fleaves_widths_not_negative. Qed.

(* bounded: succeeds for every vector of any sign over exact numbers (full); the uniform prior is centred on the
   value with half-width b.  In binary64 the statement fails for |value| >= 2^53 b (refuted). *)
Theorem C12_total_bounded : forall (ninf pinf : Q) cfg specs (b : Q) (floats : list Q) (n : node Q),
  wf Q n -> (prior_count Q n <= List.length floats)%nat -> 0 < b ->
  exists n' sp, qpass ninf pinf cfg specs (MBounded b floats) n = Ok (n', sp).
Proof. exact total_bounded_Q. Qed.

Theorem C12_bounded_limits : forall f b : Q, 0 < b ->
  prior_bad_limits_Q (uf_lower_Q f b) (uf_upper_Q f b) = false /\
  (uf_lower_Q f b + uf_upper_Q f b) / 2 == f /\ uf_upper_Q f b - uf_lower_Q f b == 2 * b.
Proof. exact bounded_limits. Qed.

Theorem C12_total_bounded_float_refuted :
  PrimFloat.ltb 0%float 1%float = true /\
  fpass [] ex_fspecs (MBounded 1%float [0x1p60%float]) ex_fmodel = Exc EPrior.
Proof. exact bounded_float_refuted. Qed.

(* TIGHTENED LIMITS: same paths, count and order; the i-th parameter is the i-th fresh prior *)
Theorem C12_limits_structure : forall (V : Type) (L : leaves V) cfg specs (fresh : nat) (ls : list (V * V))
    (n n' : node V) sp,
  wf V n -> lpass V L cfg specs (MLimits fresh ls) n = Ok (n', sp) ->
  paths V n' = paths V n /\ prior_count V n' = prior_count V n /\
  ordered_ids V n' = seq fresh (prior_count V n) /\ (prior_count V n <= List.length ls)%nat /\
  forall p i d, (i < prior_count V n)%nat -> In (p, nth i (ordered_ids V n) d) (walk V n) -> In (p, (fresh + i)%nat) (walk V n').
Proof. exact l_limits_structure. Qed.

(* ... the i-th parameter of the new model carries the fresh prior derived from the i-th old prior and the i-th limits *)
Theorem C12_own_limits : forall (V : Type) (L : leaves V) cfg specs (fresh : nat) (ls : list (V * V)) (n n' : node V) sp,
  wf V n -> lpass V L cfg specs (MLimits fresh ls) n = Ok (n', sp) ->
  List.length sp = prior_count V n /\
  forall i d dl, (i < prior_count V n)%nat ->
    exists s, nth_error sp i = Some ((fresh + i)%nat, s) /\
              lderive_limits V L specs (nth i (ordered_ids V n) d) (nth i ls dl) = Ok s.
Proof. exact l_own_limits. Qed.

(* what one tightening produces, by family: uniform = intersection with the old range; gaussian = centred between the
   limits with sigma = hi - lo >= 0 and infinite limits; log-uniform = (max(1e-6, lo), hi); log-gaussian = intersection
   with the old range, mean and sigma kept (since d755794; before, it raised TypeError: Witness.v, history) *)
Theorem C12_tightened_prior : forall (V : Type) (L : leaves V) specs (q : nat) (l : V * V) (s : spec V),
  lderive_limits V L specs q l = Ok s ->
  exists old, lookup_nat q specs = Some old /\ s_fam V s = s_fam V old /\ s_wm V s = None /\
    l_bad_limits V L (s_lo V s) (s_hi V s) = false /\
    match s_fam V old with
    | FUniform => s_lo V s = l_pl_lo V L (fst l) (s_lo V old) /\ s_hi V s = l_pl_hi V L (snd l) (s_hi V old)
    | FGaussian => s_mean V s = l_gl_mean V L (fst l) (snd l) /\ s_sigma V s = l_gl_sigma V L (fst l) (snd l) /\
                   l_neg_sigma V L (s_sigma V s) = false /\ s_lo V s = l_ninf V L /\ s_hi V s = l_pinf V L
    | FLogUniform => s_lo V s = l_lu_lo V L (fst l) /\ s_hi V s = l_lu_hi V L (snd l)
    | FLogGaussian => s_lo V s = l_pl_lo V L (fst l) (s_lo V old) /\ s_hi V s = l_pl_hi V L (snd l) (s_hi V old)
    end.
Proof. exact l_derive_limits_shape. Qed.

(* with_limits succeeds when every single tightening does *)
Theorem C12_total_limits : forall (V : Type) (L : leaves V) cfg specs (fresh : nat) (ls : list (V * V)) (n : node V),
  wf V n -> (prior_count V n <= List.length ls)%nat ->
  (forall i d dl, (i < prior_count V n)%nat ->
     exists s, lderive_limits V L specs (nth i (ordered_ids V n) d) (nth i ls dl) = Ok s) ->
  exists n' sp, lpass V L cfg specs (MLimits fresh ls) n = Ok (n', sp).
Proof. exact l_total_limits. Qed.

(* leaf facts used by the above (exact rationals; not property theorems by themselves) *)
Theorem C12_tightened_limits : forall lo hi slo shi : Q,
  slo <= pl_lower_Q lo slo /\ lo <= pl_lower_Q lo slo /\ pl_upper_Q hi shi <= shi /\ pl_upper_Q hi shi <= hi.
Proof. exact tightened_limits. Qed.

Theorem C12_gaussian_between : forall lo hi : Q, lo <= hi ->
  sigma_negative_Q (gl_sigma_Q lo hi) = false /\ lo <= gl_mean_Q lo hi /\ gl_mean_Q lo hi <= hi.
Proof. exact gaussian_between. Qed.

(* EXPLICIT REPLACEMENT MAP: every place holds the replacement of the prior it held, priors without an entry stay *)
Theorem C12_replace_structure : forall (V : Type) (L : leaves V) cfg specs (m : arguments V) (n n' : node V) sp,
  wf V n -> lpass V L cfg specs (MReplace m) n = Ok (n', sp) ->
  walk V n' = map (fun pq => (fst pq, repl V m (snd pq))) (walk V n).
Proof. exact l_replace_structure. Qed.

(* ... and carries, at each parameter, the prior the map gives for it; an unreplaced parameter keeps its old prior *)
Theorem C12_own_replacement : forall (V : Type) (L : leaves V) cfg specs (m : arguments V) (n n' : node V) sp,
  wf V n -> lpass V L cfg specs (MReplace m) n = Ok (n', sp) ->
  (forall q' s, In (q', s) sp <->
     In q' (ordered_ids V n') /\ lookup_nat q' (map snd (replace_args V specs n m)) = Some s) /\
  (forall q q' s, In q (prior_ids V n) -> lookup_nat q m = Some (q', s) ->
     lookup_nat q' (map snd m) = Some s -> In (q', s) sp) /\
  (forall q s, In q (prior_ids V n) -> lookup_nat q m = None -> lookup_nat q (map snd m) = None ->
     lookup_nat q specs = Some s -> In (q, s) sp).
Proof. exact l_own_replacement. Qed.

Theorem C12_replace_total : forall (V : Type) (L : leaves V) cfg specs (m : arguments V) (n : node V),
  wf V n -> specs_cover V specs n -> exists n' sp, lpass V L cfg specs (MReplace m) n = Ok (n', sp).
Proof. exact l_replace_total. Qed.

(* COMPONENTS FIXED TO THE BEST-FIT INSTANCE: no free parameter left; every assignment builds that instance *)
Theorem C12_fixed_instance : forall (V : Type) (bin : binop -> V -> V -> V) (un : unop -> V -> V) (vals : nat -> option V) (n : node V),
  wf V n -> forall n', fix_tree V bin un vals n = Some n' ->
  walk V n' = [] /\ forall args', inst V bin un args' n' = inst V bin un vals n.
Proof. exact fixed_instance. Qed.

(* the executable instances are instances of the theorems above *)
Theorem C12_float_instance : forall cfg specs, fpass cfg specs = lpass float fleaves cfg specs.
Proof. exact fpass_is_lpass. Qed.

Theorem C12_rational_instance : forall ninf pinf cfg specs, qpass ninf pinf cfg specs = lpass Q (qleaves ninf pinf) cfg specs.
Proof. exact qpass_is_lpass. Qed.

Print Assumptions C12_paths_and_identity.
Print Assumptions C12_instance.
Print Assumptions C12_own_value.
Print Assumptions C12_total_means_conditions.
Print Assumptions C12_total_relative.
Print Assumptions C12_total_bounded_float_refuted.
Print Assumptions C12_limits_structure.
Print Assumptions C12_fixed_instance.
Print Assumptions C12_config_own.
Print Assumptions C12_config_one_place_repaired.
Print Assumptions C12_holder_class_own.
Print Assumptions C12_own_limits.
Print Assumptions C12_own_replacement.
Print Assumptions C12_total_limits.
Print Assumptions C12_cls_ok_repaired.
Print Assumptions C12_means_unary_over_prior_refuted.
Print Assumptions C12_unary_rebuild.
Print Assumptions C12_unary_fixed.
Print Assumptions C12_relative_width_float.
Print Assumptions C12_widths_not_negative_float_leaves.
