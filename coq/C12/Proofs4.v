(* C12: modes that change prior identities (with_limits: fresh priors in id order; replacing: an
   explicit map), components fixed to a best-fit instance, and the lookup context of the config. *)
From Coq Require Import List String Bool Arith PeanoNat Lia Permutation Sorted.
From PAFC01 Require Import ModelTree Sorting.
From PAFC01 Require Proofs Proofs2.
From PAFC12 Require Import Gen Model Lib Proofs Proofs2 Proofs3.
Import ListNotations.
Local Open Scope string_scope.
Local Open Scope list_scope.

Section O.
  Variable V : Type.
  Notation node := (node V).
  Notation node_ind' := (PAFC01.Proofs.node_ind' V).

  (* ---------- order: an order-preserving substitution keeps count, order and the advertised paths ---------- *)
  Lemma ren_ids (sigma : nat -> option nat) (l : list (path * nat)) :
    map snd (ren_walk sigma l) = map (sd sigma) (map snd l).
  Proof. unfold ren_walk. rewrite !map_map. reflexivity. Qed.

  Theorem rebuild_order (sigma : nat -> option nat) (n n' : node) :
    wf V n -> rebuild V sigma n = Some n' ->
    (forall x y, In x (prior_ids V n) -> In y (prior_ids V n) -> x < y -> sd sigma x < sd sigma y) ->
    ordered_ids V n' = map (sd sigma) (ordered_ids V n) /\ prior_count V n' = prior_count V n /\
    paths V n' = paths V n.
  Proof.
    intros W E M. assert (Wk := rebuild_walk V sigma n W n' E).
    assert (Ids : ordered_ids V n' = map (sd sigma) (ordered_ids V n)).
    { apply strict_sorted_unique.
      - apply PAFC01.Proofs2.ordered_ids_strict.
      - apply strict_map_mono; [apply PAFC01.Proofs2.ordered_ids_strict|].
        intros x y Hx Hy. apply M; apply PAFC01.Proofs2.ordered_ids_in; assumption.
      - intro q. rewrite PAFC01.Proofs2.ordered_ids_in. unfold PAFC01.Proofs2.prior_ids. rewrite Wk, ren_ids.
        rewrite !in_map_iff. split; intros [x [Ex Hx]]; exists x; (split; [exact Ex|]).
        + apply PAFC01.Proofs2.ordered_ids_in. exact Hx.
        + apply PAFC01.Proofs2.ordered_ids_in in Hx. exact Hx. }
    split; [exact Ids|]. split.
    - rewrite <- !PAFC01.Proofs2.ordered_ids_length. rewrite Ids, map_length. reflexivity.
    - unfold paths, path_priors. rewrite Wk. unfold ren_walk.
      rewrite (sort_by_map snd snd (fun pq : path * nat => (fst pq, sd sigma (snd pq)))).
      + rewrite map_map. reflexivity.
      + intros [p x] [p' y] Hx Hy. simpl.
        assert (Ix : In x (prior_ids V n)) by (unfold prior_ids; apply in_map_iff; exists (p, x); auto).
        assert (Iy : In y (prior_ids V n)) by (unfold prior_ids; apply in_map_iff; exists (p', y); auto).
        destruct (Nat.lt_trichotomy x y) as [L|[->|L]].
        * assert (X := M x y Ix Iy L). destruct (Nat.leb_spec (sd sigma x) (sd sigma y)), (Nat.leb_spec x y); try reflexivity; lia.
        * rewrite !Nat.leb_refl. reflexivity.
        * assert (X := M y x Iy Ix L). destruct (Nat.leb_spec (sd sigma x) (sd sigma y)), (Nat.leb_spec x y); try reflexivity; lia.
  Qed.

  (* sharing: two places hold one prior afterwards iff they did before (injective substitution) *)
  Theorem rebuild_sharing (sigma : nat -> option nat) (n n' : node) :
    wf V n -> rebuild V sigma n = Some n' ->
    (forall x y, In x (prior_ids V n) -> In y (prior_ids V n) -> sd sigma x = sd sigma y -> x = y) ->
    forall p1 p2 q1 q2, In (p1, q1) (walk V n) -> In (p2, q2) (walk V n) ->
      In (p1, sd sigma q1) (walk V n') /\ In (p2, sd sigma q2) (walk V n') /\ (q1 = q2 <-> sd sigma q1 = sd sigma q2).
  Proof.
    intros W E Inj p1 p2 q1 q2 H1 H2. rewrite (rebuild_walk V sigma n W n' E). unfold ren_walk.
    split; [apply in_map_iff; exists (p1, q1); auto|]. split; [apply in_map_iff; exists (p2, q2); auto|].
    split; [intros ->; reflexivity|]. apply Inj; unfold prior_ids; apply in_map_iff; [exists (p1, q1)|exists (p2, q2)]; auto.
  Qed.
End O.

(* ---------- with_limits and replacing ---------- *)
Section L.
  Variable V : Type.
  Notation node := (node V).
  Variable abs_width : V -> V.
  Variable rel_width wm_rel : V -> V -> V.
  Variable wm_abs : V -> V.
  Variable uf_lo uf_hi pl_lo pl_hi gl_mean gl_sigma : V -> V -> V.
  Variable lu_lo lu_hi : V -> V.
  Variable lu_bad : V -> bool.
  Variable bad_limits : V -> V -> bool.
  Variable neg_sigma : V -> bool.
  Variable ninf pinf half : V.
  Variable cfg : config V.
  Variable specs : list (nat * spec V).

  Notation DL := (derive_limits V pl_lo pl_hi gl_mean gl_sigma lu_lo lu_hi lu_bad bad_limits neg_sigma ninf pinf specs).
  Notation ZL := (zip_limits V pl_lo pl_hi gl_mean gl_sigma lu_lo lu_hi lu_bad bad_limits neg_sigma ninf pinf specs).
  Notation PASS := (pass V abs_width rel_width wm_rel wm_abs uf_lo uf_hi pl_lo pl_hi gl_mean gl_sigma lu_lo lu_hi
                         lu_bad bad_limits neg_sigma ninf pinf half cfg specs).

  (* the i-th entry maps the i-th parameter to the fresh prior number fresh + i *)
  Lemma zip_limits_spec : forall ids ls fresh a, ZL fresh ids ls = Ok a ->
    List.length a = Nat.min (List.length ids) (List.length ls) /\
    forall i d dl de, i < List.length a ->
      fst (nth i a de) = nth i ids d /\ fst (snd (nth i a de)) = fresh + i /\
      DL (nth i ids d) (nth i ls dl) = Ok (snd (snd (nth i a de))).
  Proof.
    induction ids as [|q ids IH]; intros ls fresh a E; simpl in E.
    - inversion E; subst. split; [reflexivity|]. intros i d dl de Hi. simpl in Hi. lia.
    - destruct ls as [|l ls]; [inversion E; subst; split; [reflexivity|intros i d dl de Hi; simpl in Hi; lia]|].
      destruct (DL q l) as [s|e] eqn:Ed; [|discriminate].
      destruct (ZL (S fresh) ids ls) as [rest|e] eqn:Er; [|discriminate].
      inversion E; subst. destruct (IH ls (S fresh) rest Er) as [Ln N]. split; [simpl; rewrite Ln; reflexivity|].
      intros i d dl de Hi. destruct i as [|i]; simpl.
      + repeat split; [lia|exact Ed].
      + destruct (N i d dl de) as [A [B C]]; [simpl in Hi; lia|]. repeat split; [exact A|lia|exact C].
  Qed.

  Lemma lookup_nth_unique {B} (l : list (nat * B)) (i : nat) (d : nat * B) :
    NoDup (map fst l) -> i < List.length l -> lookup_nat (fst (nth i l d)) l = Some (snd (nth i l d)).
  Proof. apply lookup_nat_nth. Qed.

  (* tightened limits: same paths, same count, same order; the i-th parameter is the i-th fresh prior, derived
     from the i-th old prior and the i-th pair of limits *)
  Theorem limits_structure (fresh : nat) (ls : list (V * V)) (n n' : node) (sp : list (nat * spec V)) :
    wf V n -> PASS (MLimits fresh ls) n = Ok (n', sp) ->
    paths V n' = paths V n /\ prior_count V n' = prior_count V n /\
    ordered_ids V n' = seq fresh (prior_count V n) /\ prior_count V n <= List.length ls /\
    forall p i d, i < prior_count V n -> In (p, nth i (ordered_ids V n) d) (walk V n) -> In (p, fresh + i) (walk V n').
  Proof.
    intros W E. unfold pass in E. simpl in E.
    destruct (ZL fresh (ordered_ids V n) ls) as [a|e] eqn:Ea; [|discriminate].
    destruct (rebuild V (sigma_of V a) n) as [n1|] eqn:Er; [|discriminate]. inversion E; subst. clear E.
    destruct (zip_limits_spec _ _ _ _ Ea) as [La N].
    set (de := (0, (0, Build_spec V FUniform ninf ninf ninf ninf None))).
    assert (Keys : map fst a = firstn (List.length a) (ordered_ids V n)).
    { apply (nth_ext _ _ 0 0); [rewrite map_length, firstn_length; lia|].
      intros i Hi. rewrite map_length in Hi. rewrite (nth_indep _ 0 (fst de)) by (rewrite map_length; exact Hi).
      rewrite map_nth. destruct (N i 0 (ninf, ninf) de Hi) as [A _]. rewrite A. rewrite nth_firstn_lt by exact Hi. reflexivity. }
    assert (Len : List.length a = List.length (ordered_ids V n)).
    { apply nodup_prefix_cover; [apply PAFC01.Proofs2.ordered_ids_nodup|lia|].
      intros q Hq. rewrite <- Keys. apply PAFC01.Proofs2.ordered_ids_in in Hq.
      assert (X := rebuild_defined V (sigma_of V a) n W n' Er q Hq).
      unfold sigma_of in X. apply lookup_nat_some. intro Y. apply X. rewrite Y. reflexivity. }
    rewrite Len, firstn_all in Keys.
    assert (ND : NoDup (map fst a)) by (rewrite Keys; apply PAFC01.Proofs2.ordered_ids_nodup).
    assert (Sd : forall i d, i < List.length a -> sd (sigma_of V a) (nth i (ordered_ids V n) d) = fresh + i).
    { intros i d Hi. destruct (N i d (ninf, ninf) de Hi) as [A [B _]].
      unfold sd, sigma_of. rewrite <- A. rewrite (lookup_nat_nth a i de ND Hi). simpl. exact B. }
    assert (Mono : forall x y, In x (prior_ids V n) -> In y (prior_ids V n) -> x < y -> sd (sigma_of V a) x < sd (sigma_of V a) y).
    { intros x y Hx Hy Lt. apply PAFC01.Proofs2.ordered_ids_in in Hx, Hy.
      destruct (In_nth _ _ 0 Hx) as [i [Hi Ei]]. destruct (In_nth _ _ 0 Hy) as [j [Hj Ej]].
      rewrite <- Ei, <- Ej. rewrite !Sd by lia.
      assert (S := PAFC01.Proofs2.ordered_ids_strict V n).
      assert (i < j); [|lia].
      destruct (Nat.lt_trichotomy i j) as [L|[->|L]]; [exact L|rewrite Ei in Ej; lia|].
      exfalso. assert (X : nth j (ordered_ids V n) 0 < nth i (ordered_ids V n) 0).
      { clear - S L Hi. revert i j L Hi. induction S as [|z l S IH Hall]; intros i j L Hi; [simpl in Hi; lia|].
        destruct i as [|i]; [lia|]. destruct j as [|j]; simpl.
        - rewrite Forall_forall in Hall. apply Hall. apply nth_In. simpl in Hi. lia.
        - apply IH; [lia|simpl in Hi; lia]. }
      lia. }
    destruct (rebuild_order V (sigma_of V a) n n' W Er Mono) as [Ids [Cnt Pth]].
    assert (PC : prior_count V n = List.length a) by (rewrite Len; apply eq_sym, PAFC01.Proofs2.ordered_ids_length).
    split; [exact Pth|]. split; [exact Cnt|]. split; [|split].
    - rewrite Ids. apply (nth_ext _ _ 0 0); [rewrite map_length, seq_length; apply PAFC01.Proofs2.ordered_ids_length|].
      intros i Hi. rewrite map_length in Hi. rewrite (nth_indep _ 0 (sd (sigma_of V a) 0)) by (rewrite map_length; exact Hi).
      rewrite map_nth. rewrite Sd by (rewrite Len; exact Hi).
      rewrite seq_nth by (rewrite <- PAFC01.Proofs2.ordered_ids_length; exact Hi). reflexivity.
    - rewrite PC. lia.
    - intros p i d Hi Hin. rewrite (rebuild_walk V (sigma_of V a) n W n' Er). unfold ren_walk.
      apply in_map_iff. exists (p, nth i (ordered_ids V n) d). split; [|exact Hin]. simpl.
      rewrite Sd by (rewrite <- PC; exact Hi). reflexivity.
  Qed.

  (* an explicit prior-replacement map: every place holds the replacement of the prior it held *)
  Definition repl (m : arguments V) (q : nat) : nat :=
    match lookup_nat q m with Some (q', _) => q' | None => q end.

  Theorem replace_structure (m : arguments V) (n n' : node) (sp : list (nat * spec V)) :
    wf V n -> PASS (MReplace m) n = Ok (n', sp) ->
    walk V n' = map (fun pq => (fst pq, repl m (snd pq))) (walk V n).
  Proof.
    intros W E. unfold pass in E. simpl in E.
    destruct (rebuild V (sigma_of V (replace_args V specs n m)) n) as [n1|] eqn:Er; [|discriminate].
    inversion E; subst. rewrite (rebuild_walk V _ n W n' Er). unfold ren_walk. apply map_ext.
    intros [p q]. simpl. f_equal. unfold sd, sigma_of, repl, replace_args.
    assert (X : forall (l1 l2 : arguments V), lookup_nat q (l1 ++ l2) = match lookup_nat q l1 with Some v => Some v | None => lookup_nat q l2 end).
    { induction l1 as [|[k v] l1 IH]; intro l2; simpl; [reflexivity|]. destruct (Nat.eqb k q); [reflexivity|apply IH]. }
    rewrite X. destruct (lookup_nat q m) as [[q' s]|]; [reflexivity|].
    match goal with |- match option_map fst ?t with _ => _ end = _ => destruct t as [[q' s]|] eqn:El end; [|reflexivity].
    simpl. apply lookup_nat_in in El. apply in_flat_map in El. destruct El as [x [_ Hx]].
    destruct (lookup_nat x specs); [|contradiction]. destruct Hx as [Hx|[]]. inversion Hx; subst. reflexivity.
  Qed.

  Theorem replace_total (m : arguments V) (n : node) :
    wf V n -> (forall q, In q (prior_ids V n) -> lookup_nat q specs <> None) ->
    exists n' sp, PASS (MReplace m) n = Ok (n', sp).
  Proof.
    intros W C. unfold pass. simpl.
    destruct (rebuild_total V (sigma_of V (replace_args V specs n m)) n W) as [n' Er].
    - intros q Hq. unfold sigma_of, replace_args.
      assert (In q (map fst (m ++ flat_map (fun q0 => match lookup_nat q0 specs with Some s => [(q0, (q0, s))] | None => [] end) (ordered_ids V n)))).
      { rewrite map_app. apply in_or_app. right. apply in_map_iff.
        destruct (lookup_nat q specs) as [s|] eqn:Es; [|exfalso; apply (C q Hq); exact Es].
        exists (q, (q, s)). split; [reflexivity|]. apply in_flat_map. exists q.
        split; [apply PAFC01.Proofs2.ordered_ids_in; exact Hq|]. rewrite Es. left. reflexivity. }
      apply lookup_nat_some in H. destruct (lookup_nat q _); [discriminate|contradiction].
    - rewrite Er. eexists; eexists; reflexivity.
  Qed.
End L.

(* ---------- components fixed to the best-fit instance ---------- *)
Section F.
  Variable V : Type.
  Variable bin : binop -> V -> V -> V.
  Variable un : unop -> V -> V.
  Notation node := (node V).
  Notation node_ind' := (PAFC01.Proofs.node_ind' V).
  Variable vals : nat -> option V.

  Fixpoint fix_attrs (a : list (string * node)) : option (list (string * node)) :=
    match a with
    | [] => Some []
    | (k, c) :: a' =>
        match fix_tree V bin un vals c, fix_attrs a' with
        | Some c', Some r => Some ((k, c') :: r)
        | _, _ => None
        end
    end.

  Lemma fix_model cls ctor attrs : fix_tree V bin un vals (NModel cls ctor attrs) = option_map (NModel cls ctor) (fix_attrs attrs).
  Proof. reflexivity. Qed.
  Lemma fix_coll attrs : fix_tree V bin un vals (NColl attrs) = option_map NColl (fix_attrs attrs).
  Proof. reflexivity. Qed.

  Lemma fix_members_vals (args' : nat -> option V) (ms : list (string * (nat * node))) :
    Forall (fun m => is_leaf V (snd (snd m)) = true) ms ->
    forall r, fix_members V vals ms = Some r ->
    map (mval V bin un args') r = map (mval V bin un vals) ms /\
    (forall m, In m r -> is_const V (snd (snd m)) = true).
  Proof.
    induction 1 as [|[k [i c]] ms Hc Hms IH]; intros r E; simpl in E.
    - inversion E; subst. split; [reflexivity|intros m []].
    - destruct c as [p|v|?|? ? ? ? ?|? ? ?|? ? ?|?]; simpl in Hc; try discriminate.
      + destruct (vals p) as [v|] eqn:Ev; [|discriminate].
        destruct (fix_members V vals ms) as [r0|] eqn:Er; [|discriminate]. inversion E; subst.
        destruct (IH r0 eq_refl) as [A B]. split.
        * simpl. rewrite A. unfold mval. simpl. rewrite Ev. reflexivity.
        * intros m [<-|Hm]; [reflexivity|apply B; exact Hm].
      + destruct (fix_members V vals ms) as [r0|] eqn:Er; [|discriminate]. simpl in E. inversion E; subst.
        destruct (IH r0 eq_refl) as [A B]. split.
        * simpl. rewrite A. reflexivity.
        * intros m [<-|Hm]; [reflexivity|apply B; exact Hm].
  Qed.

  Lemma walk_attrs_nil (a : list (string * node)) :
    (forall kc, In kc a -> walk V (snd kc) = []) -> walk_attrs V a = [].
  Proof.
    induction a as [|[k c] a IH]; intro H; [reflexivity|]. unfold walk_attrs in *. simpl.
    assert (Hc := H (k, c) (or_introl eq_refl)). simpl in Hc. rewrite Hc. simpl. apply IH. intros kc Hkc. apply H. right. exact Hkc.
  Qed.

  (* the fixed model has no free parameter left and every assignment builds the best-fit instance *)
  Theorem fixed_instance : forall n, wf V n -> forall n', fix_tree V bin un vals n = Some n' ->
    walk V n' = [] /\ forall args', inst V bin un args' n' = inst V bin un vals n.
  Proof.
    induction n as [p|v|ms _|o ln rn l r IHl IHr|uo unm uc IHc|cls ctor attrs IH|attrs IH] using node_ind'; intros W n' E.
    - simpl in E. destruct (vals p) as [v|] eqn:Ev; [|discriminate]. inversion E; subst.
      split; [reflexivity|]. intro args'. cbn [inst]. rewrite Ev. reflexivity.
    - inversion E; subst. split; reflexivity.
    - destruct W as [Wl Wn]. cbn [fix_tree] in E.
      destruct (fix_members V vals ms) as [r|] eqn:Er; [|discriminate]. inversion E; subst.
      split.
      + rewrite walk_tuple. apply consts_walk. intros m Hm. apply sort_by_in in Hm.
        apply (proj2 (fix_members_vals vals ms Wl r Er)). exact Hm.
      + intro args'. apply inst_tuple_eq; [exact Wn|].
        rewrite <- (proj1 (fix_members_vals args' ms Wl r Er)). apply Permutation_map. apply sort_by_perm.
    - cbn [fix_tree] in E. destruct (inst V bin un vals (NBin o ln rn l r)) as [v| | | |] eqn:Ei; try discriminate.
      inversion E; subst. split; reflexivity.
    - cbn [fix_tree] in E. destruct (inst V bin un vals (NUn uo unm uc)) as [v| | | |] eqn:Ei; try discriminate.
      inversion E; subst. split; reflexivity.
    - rewrite fix_model in E. destruct (fix_attrs attrs) as [a'|] eqn:Ea; [|discriminate]. inversion E; subst.
      apply wf_model in W.
      assert (X : (forall kc, In kc a' -> walk V (snd kc) = []) /\
                  forall args', map (fun kv => (fst kv, inst V bin un args' (snd kv))) a' = map (fun kv => (fst kv, inst V bin un vals (snd kv))) attrs).
      { clear E. revert a' Ea. induction attrs as [|[k c] a IHa]; intros a' Ea; simpl in Ea.
        - inversion Ea; subst. split; [intros kc []|reflexivity].
        - inversion IH as [|? ? IHc IHrest]; subst. inversion W as [|? ? Wc Wrest]; subst. simpl in Wc, IHc.
          destruct (fix_tree V bin un vals c) as [c'|] eqn:Ec; [|discriminate].
          destruct (fix_attrs a) as [r|] eqn:Er; [|discriminate]. inversion Ea; subst.
          destruct (IHc Wc c' eq_refl) as [Wk In']. destruct (IHa IHrest Wrest r eq_refl) as [A B]. split.
          + intros kc [<-|Hkc]; [exact Wk|apply A; exact Hkc].
          + intro args'. simpl. rewrite In', B. reflexivity. }
      destruct X as [A B]. split.
      + rewrite walk_model. apply walk_attrs_nil. exact A.
      + intro args'. cbn [inst]. rewrite !PAFC01.Proofs.inst_attrs_map. rewrite B. reflexivity.
    - rewrite fix_coll in E. destruct (fix_attrs attrs) as [a'|] eqn:Ea; [|discriminate]. inversion E; subst.
      apply wf_coll in W.
      assert (X : (forall kc, In kc a' -> walk V (snd kc) = []) /\
                  forall args', map (fun kv => (fst kv, inst V bin un args' (snd kv))) a' = map (fun kv => (fst kv, inst V bin un vals (snd kv))) attrs).
      { clear E. revert a' Ea. induction attrs as [|[k c] a IHa]; intros a' Ea; simpl in Ea.
        - inversion Ea; subst. split; [intros kc []|reflexivity].
        - inversion IH as [|? ? IHc IHrest]; subst. inversion W as [|? ? [Wc _] Wrest]; subst. simpl in Wc, IHc.
          destruct (fix_tree V bin un vals c) as [c'|] eqn:Ec; [|discriminate].
          destruct (fix_attrs a) as [r|] eqn:Er; [|discriminate]. inversion Ea; subst.
          destruct (IHc Wc c' eq_refl) as [Wk In']. destruct (IHa IHrest Wrest r eq_refl) as [A B]. split.
          + intros kc [<-|Hkc]; [exact Wk|apply A; exact Hkc].
          + intro args'. simpl. rewrite In', B. reflexivity. }
      destruct X as [A B]. split.
      + rewrite walk_coll. apply walk_attrs_nil. exact A.
      + intro args'. cbn [inst]. rewrite !PAFC01.Proofs.inst_attrs_map. rewrite B. reflexivity.
  Qed.
End F.
