(* C12: the unary node (ModifiedPrior: -p, abs(p)) under prior passing.
   gaussian_prior_model_for_arguments copies the object and passes the arguments on to the operand: operator and
   attribute name are kept, the operand is rebuilt; copy_with_fixed_priors realises it to op(value).
   mapper_from_prior_means looks the class of a prior's holder up: for a unary form over a Prior the code has none
   (ModifiedPrior.cls = self.prior.cls) and raises AttributeError -- finding C12 modified-prior-cls; the variant
   switch Gen.modified_prior_cls_falls_back (read from the source) says whether the repair is in. *)
From Coq Require Import List String Bool Arith PeanoNat Lia ZArith QArith.
From PAFC01 Require Import ModelTree.
From PAFC01 Require Proofs Proofs2 Proofs8.
From PAFC12 Require Import Gen Model Lib Proofs Proofs2 Proofs3 Proofs4 Proofs5.
Import ListNotations.
Local Close Scope Q_scope.
Local Open Scope string_scope.
Local Open Scope list_scope.

Section U.
  Variable V : Type.
  Variable bin : binop -> V -> V -> V.
  Variable un : unop -> V -> V.
  Notation node := (node V).

  Theorem unary_rebuild (sigma : nat -> option nat) (o : unop) (nm : string) (c : node) :
    rebuild V sigma (NUn o nm c) = option_map (NUn o nm) (rebuild V sigma c) /\
    (forall n', wf V c -> rebuild V sigma (NUn o nm c) = Some n' ->
       exists c', n' = NUn o nm c' /\ walk V c' = ren_walk sigma (walk V c) /\
                  walk V n' = prefix_paths nm (ren_walk sigma (walk V c))).
  Proof.
    split; [reflexivity|]. intros n' W E. cbn [rebuild] in E.
    destruct (rebuild V sigma c) as [c'|] eqn:Ec; [|discriminate]. inversion E; subst.
    exists c'. split; [reflexivity|]. split; [exact (rebuild_walk V sigma c W c' Ec)|].
    cbn [walk]. rewrite (rebuild_walk V sigma c W c' Ec). reflexivity.
  Qed.

  (* components fixed to the best-fit instance: the unary form becomes the number op(value) *)
  Theorem unary_fixed (vals : nat -> option V) (o : unop) (nm : string) (c : node) (a : V) :
    PAFC01.Proofs8.is_const V c = false -> inst V bin un vals c = IV a ->
    fix_tree V bin un vals (NUn o nm c) = Some (NConst (un o a)).
  Proof.
    intros K E. cbn [fix_tree]. rewrite (PAFC01.Proofs8.inst_un V bin un vals o nm c K), E. reflexivity.
  Qed.

  (* the class under which priors below a unary form are configured *)
  Theorem unary_holder_class (o : unop) (nm : string) (c : node) :
    holder_class V [nm] (NUn o nm c) = (if un_has_cls V c || modified_prior_cls_falls_back then Some "float" else None).
  Proof. reflexivity. Qed.
End U.

(* ---------- the defect, as long as the switch says it is there: Model(G2, a = -p0, b = p1), default widths ---------- *)
Definition ex_neg : node Q := NModel "G2" ["a"; "b"] [("a", NUn UNeg "p0" (NPrior 0%nat)); ("b", NPrior 1%nat)].
Definition ex_neg_specs : list (nat * spec Q) :=
  [(0%nat, Build_spec Q FUniform 0%Q 1%Q 0%Q 0%Q None); (1%nat, Build_spec Q FUniform 0%Q 1%Q 0%Q 0%Q None)].

Lemma ex_neg_wf : wf Q ex_neg /\ is_pm Q ex_neg = true /\ specs_cover Q ex_neg_specs ex_neg.
Proof.
  split; [simpl; auto|]. split; [reflexivity|].
  intros q Hq. simpl in Hq. destruct Hq as [<-|[<-|[]]]; discriminate.
Qed.

Lemma means_unary_over_prior_refuted :
  modified_prior_cls_falls_back = false ->
  exists (n : node Q) specs means,
    wf Q n /\ is_pm Q n = true /\ specs_cover Q specs n /\
    qpass (-1000)%Q 1000%Q [] specs (MMeans (Some 1%Q) None false means) n = Exc EAttr.
Proof.
  intro H. vm_compute in H.
  first [discriminate H
        | exists ex_neg, ex_neg_specs, [(1 # 2)%Q; (1 # 2)%Q];
          destruct ex_neg_wf as [A [B C]];
          (split; [exact A|]); (split; [exact B|]); (split; [exact C|]); vm_compute; reflexivity].
Qed.

(* ... and the other passing modes do not look classes up: they succeed on the same model *)
Lemma bounded_unary_over_prior_ok :
  exists n' sp, qpass (-1000)%Q 1000%Q [] ex_neg_specs (MBounded (1 # 4)%Q [(1 # 2)%Q; (1 # 2)%Q]) ex_neg = Ok (n', sp) /\
                n' = ex_neg.
Proof. eexists. eexists. split; vm_compute; reflexivity. Qed.

(* the guard of the means theorems is met by unary forms over arithmetic: Model(G2, a = abs(p0 * p1), b = p1) *)
Definition ex_abs_mul : node Q :=
  NModel "G2" ["a"; "b"] [("a", NUn UAbs "self" (NBin OMul "p0" "p1" (NPrior 0%nat) (NPrior 1%nat))); ("b", NPrior 1%nat)].
Lemma ex_abs_mul_guard : wf Q ex_abs_mul /\ cls_ok Q ex_abs_mul /\ is_pm Q ex_abs_mul = true.
Proof. split; [simpl; repeat split; auto; discriminate|]. split; [simpl; auto|reflexivity]. Qed.
Lemma ex_abs_mul_means :
  exists sp, qpass (-1000)%Q 1000%Q [] ex_neg_specs (MMeans (Some 1%Q) None false [(1 # 2)%Q; (1 # 3)%Q]) ex_abs_mul = Ok (ex_abs_mul, sp).
Proof. eexists. vm_compute. reflexivity. Qed.
