(* Non-vacuity for C12: concrete composed models meeting the theorems' hypotheses, and the passing
   computed on them (vm_compute). *)
From Coq Require Import List String QArith.
From Coq Require Import Floats.PrimFloat.
From PAFCommon Require Import PyNum.
From PAFC01 Require Import ModelTree.
From PAFC12 Require Import Gen Model Proofs Proofs2 Proofs3 Proofs4 Proofs5 Proofs6 Proofs7 Proofs8 Proofs9.
Import ListNotations.
Local Open Scope string_scope.
Local Open Scope list_scope.

(* Collection(g = Model(T2, c = p1, pos = (7, p0)), h = Model(G2, a = p1 (shared), b = p0 * 2)):
   priors created out of path order, a shared prior, a tuple with a constant before a prior, an arithmetic prior *)
Definition wm : node Q :=
  NColl [("g", NModel "T2" ["c"; "pos"]
                 [("c", NPrior 1); ("pos", NTuple [("pos_0", (0%nat, NConst 7)); ("pos_1", (1%nat, NPrior 0))])]);
         ("h", NModel "G2" ["a"; "b"]
                 [("a", NPrior 1); ("b", NBin OMul "x" "y" (NPrior 0) (NConst 2))])].

Definition wspecs : list (nat * spec Q) :=
  [(0%nat, Build_spec Q FUniform (-1) 1 0 0 None); (1%nat, Build_spec Q FGaussian 0 4 2 1 (Some (WAbs (1 # 4))))].
Definition wcfg : config Q :=
  [(("T2", "pos_1"), Build_centry Q (Some (WRel (1 # 2))) (Some (-12, 9)));
   (("G2", "a"), Build_centry Q (Some (WAbs (1 # 4))) (Some (-11, 11)))].

Example wm_wf : wf Q wm /\ is_pm Q wm = true.
Proof.
  split; [|reflexivity].
  simpl. repeat split; auto; try discriminate; repeat constructor; simpl; intuition discriminate.
Qed.

Example wm_names_ok : names_ok Q wm /\ specs_cover Q wspecs wm.
Proof.
  split.
  - intros q p. destruct q as [|[|q]]; vm_compute; intro H; inversion H; subst; eexists; reflexivity.
  - intros q Hq. vm_compute in Hq. destruct Hq as [<-|[<-|[<-|[<-|[]]]]]; vm_compute; discriminate.
Qed.

Example wm_limits_good : qlimits_good (-1000) 1000 wcfg wspecs /\ qmodifiers_good wcfg wspecs.
Proof.
  split; [split; [reflexivity|split]|split].
  - intros q s [H|[H|[]]]; inversion H; subst; reflexivity.
  - intros k e l [H|[H|[]]] E; inversion H; subst; inversion E; subst; reflexivity.
  - intros q s w [H|[H|[]]] E; inversion H; subst; inversion E; subst; simpl; discriminate.
  - intros k e w [H|[H|[]]] E; inversion H; subst; inversion E; subst; simpl; discriminate.
Qed.

(* default widths.  Parameter 0 is shared between the tuple member g.pos.pos_1 (configured T2.pos_1) and the operand of
   the arithmetic prior h.b; the code takes class float (child arithmetic prior wins) and the operand's name, finds no
   configuration and uses the default Relative 0.5 with the old limits: here that happens to be the (unconfigured)
   operand place; (before a8a9b5b a shared prior could get the configuration of NO place of its own: C12_config_own_legacy_refuted).
   Parameter 1 (g.c and h.a; last place h.a -> G2.a): Absolute 0.25 from its own modifier, limits -11..11.
   The tuple constant moves behind the prior, nothing else changes. *)
Example wm_default :
  qpass (-1000) 1000 wcfg wspecs (MMeans None None false [1 # 2; 3]) wm =
  Ok (NColl [("g", NModel "T2" ["c"; "pos"]
                     [("c", NPrior 1); ("pos", NTuple [("pos_1", (1%nat, NPrior 0)); ("pos_0", (0%nat, NConst 7))])]);
             ("h", NModel "G2" ["a"; "b"]
                     [("a", NPrior 1); ("b", NBin OMul "x" "y" (NPrior 0) (NConst 2))])],
      [(0%nat, Build_spec Q FGaussian (-1) 1 (1 # 2) ((1 # 2) * (1 # 2)) None);
       (1%nat, Build_spec Q FGaussian (-11) 11 3 (1 # 4) (Some (WAbs (1 # 4))))]).
Proof. vm_compute. reflexivity. Qed.

Example wm_keeps_ids : keeps_ids Q (MMeans None None false [1 # 2; 3]) /\ keeps_ids Q (MBounded 1 [1 # 2; 3]).
Proof. split; exact I. Qed.

Example wm_instance_same :
  forall n' sp, qpass (-1000) 1000 wcfg wspecs (MMeans None None false [1 # 2; 3]) wm = Ok (n', sp) ->
  inst Q qbin qun (fun q => Some (inject_Z (Z.of_nat q) + 10)) n' = inst Q qbin qun (fun q => Some (inject_Z (Z.of_nat q) + 10)) wm.
Proof.
  intros n' sp E. rewrite qpass_is_lpass in E.
  apply (l_instance_kept Q _ _ _ qbin qun (MMeans None None false [1 # 2; 3]) wm n' sp _ (proj1 wm_wf) I E).
Qed.

Example wm_bounded :
  exists n', qpass (-1000) 1000 wcfg wspecs (MBounded 1 [-(5 # 2); 3]) wm =
  Ok (n', [(0%nat, Build_spec Q FUniform (-(5 # 2) - 1) (-(5 # 2) + 1) (-(5 # 2) - 1) (-(5 # 2) - 1) None);
           (1%nat, Build_spec Q FUniform (3 - 1) (3 + 1) (3 - 1) (3 - 1) None)]).
Proof. eexists. vm_compute. reflexivity. Qed.

(* with_limits: fresh priors 2, 3 in id order; uniform tightened to the intersection, gaussian re-centred *)
Example wm_limits :
  exists n', qpass (-1000) 1000 wcfg wspecs (MLimits 2 [((-1) # 2, 3); (1, 2)]) wm =
  Ok (n', [(2%nat, Build_spec Q FUniform (Qmax ((-1) # 2) (-1)) (Qmin 3 1) (Qmax ((-1) # 2) (-1)) (Qmax ((-1) # 2) (-1)) None);
           (3%nat, Build_spec Q FGaussian (-1000) 1000 ((1 + 2) / 2) (2 - 1) None)]) /\ ordered_ids Q n' = [2%nat; 3%nat]
          /\ paths Q n' = paths Q wm.
Proof. eexists. vm_compute. repeat split; reflexivity. Qed.

(* replacing parameter 1 only *)
Example wm_replace :
  exists n' sp, qpass (-1000) 1000 wcfg wspecs (MReplace [(1%nat, (5%nat, Build_spec Q FUniform 0 1 0 0 None))]) wm = Ok (n', sp)
                /\ walk Q n' = [(["g"; "c"], 5%nat); (["g"; "pos"; "pos_1"], 0%nat); (["h"; "a"], 5%nat); (["h"; "b"; "x"], 0%nat)].
Proof. eexists. eexists. vm_compute. split; reflexivity. Qed.

(* fixing to a best-fit vector *)
Example wm_fixed :
  fixed Q qbin qun wm [1 # 2; 3] =
  Some (NColl [("g", NModel "T2" ["c"; "pos"]
                      [("c", NConst 3); ("pos", NTuple [("pos_0", (0%nat, NConst 7)); ("pos_1", (1%nat, NConst (1 # 2)))])]);
               ("h", NModel "G2" ["a"; "b"] [("a", NConst 3); ("b", NConst ((1 # 2) * 2))])]).
Proof. vm_compute. reflexivity. Qed.

(* hypotheses of the order theorem hold for the with_limits substitution above *)
Example wm_order_hyp :
  forall x y, In x (prior_ids Q wm) -> In y (prior_ids Q wm) -> (x < y)%nat ->
  (sd (fun q => Some (q + 2)%nat) x < sd (fun q => Some (q + 2)%nat) y)%nat.
Proof. intros x y _ _ H. unfold sd. apply PeanoNat.Nat.add_lt_mono_r. exact H. Qed.

(* binary64 instance: same model over floats, default widths, a negative value under an Absolute modifier succeeds *)
Definition wf64 : node float :=
  NModel "G2" ["a"; "b"] [("a", NPrior 0); ("b", NConst 1%float)].
Example wf64_default :
  fpass [(("G2", "a"), mkc (Some (WAbs 0x1p-2%float)) (Some ((-0x1.6p3)%float, 0x1.6p3%float)))]
        [(0%nat, mk FUniform (-1)%float 1%float 0%float 0%float None)]
        (MMeans None None false [(-0x1p-1)%float]) wf64 =
  Ok (wf64, [(0%nat, mk FGaussian (-0x1.6p3)%float 0x1.6p3%float (-0x1p-1)%float 0x1p-2%float None)]).
Proof. vm_compute. reflexivity. Qed.

(* hypotheses of C12_config_own: an unshared tuple member and an unshared direct prior of the Model at path ["g"] *)
Definition wown : node Q :=
  NColl [("g", NModel "T2" ["c"; "pos"]
                 [("c", NPrior 1); ("pos", NTuple [("pos_0", (0%nat, NConst 7)); ("pos_1", (1%nat, NPrior 0))])])].
Example wown_tuple_member :
  PAFC01.Proofs.node_at Q ["g"] wown = Some (NModel "T2" ["c"; "pos"]
      [("c", NPrior 1); ("pos", NTuple [("pos_0", (0%nat, NConst 7)); ("pos_1", (1%nat, NPrior 0))])]) /\
  occ 0 (walk Q wown) = [(["g"] ++ "pos" :: ["pos_1"], 0%nat)] /\ occ 1 (walk Q wown) = [(["g"] ++ "c" :: [], 1%nat)] /\
  class_of Q 0 wown = Some "T2" /\ cfg_name ["g"; "pos"; "pos_1"] = Ok "pos_1" /\ class_of Q 1 wown = Some "T2".
Proof. vm_compute. repeat split; reflexivity. Qed.

(* hypotheses of C12_total_limits / C12_own_limits hold for wm (both tightenings succeed) *)
Example wm_total_limits_hyp :
  forall i d dl, (i < prior_count Q wm)%nat ->
  exists s, lderive_limits Q (qleaves (-1000) 1000) wspecs (nth i (ordered_ids Q wm) d) (nth i [((-1) # 2, 3); (1, 2)] dl) = Ok s.
Proof. intros i d dl Hi. destruct i as [|[|i]]; [eexists; vm_compute; reflexivity|eexists; vm_compute; reflexivity|].
  exfalso. vm_compute in Hi. repeat apply le_S_n in Hi. inversion Hi. Qed.

(* with_limits on a log-gaussian prior (repaired by d755794; history: Prior.with_limits called
   self.__class__(lower_limit=, upper_limit=) and raised TypeError, modelled then as `Exc EType`): now the intersection *)
Example wlg_limits :
  lderive_limits Q (qleaves (-1000) 1000) [(0%nat, Build_spec Q FLogGaussian (1 # 4) 4 0 0 None)] 0 (1 # 2, 2) =
  Ok (Build_spec Q FLogGaussian (Qmax (1 # 2) (1 # 4)) (Qmin 2 4) (Qmax (1 # 2) (1 # 4)) (Qmax (1 # 2) (1 # 4)) None).
Proof. vm_compute. reflexivity. Qed.

(* C12_relative_width_float / C12_absolute_width_float are not vacuous: factors meeting `0 <= r` include -0.0 and
   infinity, and the widths they give for values of either sign, zero, infinite and NaN are as the theorem says *)
Example relative_width_float_hypothesis :
  PrimFloat.leb 0 0x1p-2%float = true /\ PrimFloat.leb 0 neg_zero = true /\ PrimFloat.leb 0 infinity = true /\
  pm_rel_width_F 0x1p-2%float (-8)%float = 2%float /\ sigma_negative_F (pm_rel_width_F 0x1p-2%float (-8)%float) = false /\
  sigma_negative_F (wm_relative_F neg_zero infinity) = false /\ sigma_negative_F (wm_relative_F infinity (-0x1p-1074)%float) = false /\
  sigma_negative_F (pm_rel_width_F 1%float nan) = false /\
  (* and a negative factor is what the test rejects *)
  sigma_negative_F (pm_rel_width_F (-1)%float 3%float) = true.
Proof. repeat split; vm_compute; reflexivity. Qed.
