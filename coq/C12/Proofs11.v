(* C12, binary64 arithmetic clauses as THEOREMS for all floats (not a grid): widths computed by the code's own
   formulas (Gen.v) from a non-negative factor are never negative, whatever the value is (any sign, zero,
   infinite, NaN).  From the IEEE specification axioms of Coq.Floats.FloatAxioms (ltb_spec, leb_spec, abs_spec,
   mul_spec) through Common/Float64Order.v: the sign of a product is the xor of the signs (binary_round_aux keeps
   the sign it is given), so no rounding analysis is involved. *)
From Coq Require Import ZArith Bool.
From Coq Require Import Floats.PrimFloat.
From PAFCommon Require Import PyFloat Float64Order.
From PAFC12 Require Import Gen Model Proofs6.

Lemma Z2F_0 : Z2F 0 = 0%float.
Proof. reflexivity. Qed.

Lemma relative_width_float (r m : float) :
  PrimFloat.leb 0 r = true ->
  sigma_negative_F (pm_rel_width_F r m) = false /\ sigma_negative_F (wm_relative_F r m) = false.
Proof.
  intro H. unfold sigma_negative_F, pm_rel_width_F, wm_relative_F. rewrite Z2F_0.
  split; apply f64_mul_abs_not_negative; exact H.
Qed.

Lemma absolute_width_float (a : float) :
  PrimFloat.leb 0 a = true ->
  sigma_negative_F (pm_abs_width_F a) = false /\ sigma_negative_F (wm_absolute_F a) = false.
Proof.
  intro H. unfold sigma_negative_F, pm_abs_width_F, wm_absolute_F. rewrite Z2F_0.
  destruct (leb_true_ok _ _ H) as [H0 Ha]. rewrite (f64_ltb_negb_leb a 0 Ha H0), H. split; reflexivity.
Qed.

(* the two width hypotheses of C12_total_means_conditions, discharged for the binary64 leaves of the correspondence *)
Lemma fleaves_widths_not_negative (x : float) :
  PrimFloat.leb 0 x = true ->
  l_neg_sigma float fleaves (l_abs_width float fleaves x) = false /\
  forall m, l_neg_sigma float fleaves (l_rel_width float fleaves x m) = false.
Proof.
  intro H. split.
  - apply (absolute_width_float x H).
  - intro m. apply (relative_width_float x m H).
Qed.
