(* C12 lemmas (stub, filled in below) *)
From Coq Require Import List String Bool Arith PeanoNat Lia.
From PAFC01 Require Import ModelTree.
From PAFC12 Require Import Gen Model.
Import ListNotations.

Lemma rebuild_const (V : Type) (s : nat -> option nat) (v : V) : rebuild V s (NConst v) = Some (NConst v).
Proof. reflexivity. Qed.
