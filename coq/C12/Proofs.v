(* C12 structural lemmas: the recursive rebuild (gaussian_prior_model_for_arguments) substitutes
   priors by identity and changes nothing else.  Parametric in the value type. *)
From Coq Require Import List String Bool Arith PeanoNat Lia Permutation Sorted.
From PAFC01 Require Import ModelTree Sorting.
From PAFC01 Require Proofs Proofs2.
From PAFC12 Require Import Gen Model Lib.
Import ListNotations.
Local Open Scope string_scope.
Local Open Scope list_scope.

Section R.
  Variable V : Type.
  Notation node := (node V).
  Notation node_ind' := (PAFC01.Proofs.node_ind' V).

  Definition is_leaf (n : node) : bool := match n with NPrior _ | NConst _ => true | _ => false end.
  Definition is_tuple (n : node) : bool := match n with NTuple _ => true | _ => false end.

  (* compositions the model speaks about: tuple members are priors or floats with distinct positions;
     the two operands of an arithmetic prior stored under one attribute name are one object;
     a Collection does not hold a TuplePrior directly *)
  Fixpoint wf (n : node) : Prop :=
    match n with
    | NPrior _ | NConst _ => True
    | NTuple ms => Forall (fun m => is_leaf (snd (snd m)) = true) ms /\ NoDup (map (member_pos V) ms)
    | NBin _ ln rn l r => wf l /\ wf r /\ (ln = rn -> l = r)
    | NUn _ _ c => wf c
    | NModel _ _ attrs =>
        (fix go (a : list (string * node)) : Prop :=
           match a with [] => True | (_, c) :: a' => wf c /\ go a' end) attrs
    | NColl attrs =>
        (fix go (a : list (string * node)) : Prop :=
           match a with [] => True | (_, c) :: a' => (wf c /\ is_tuple c = false) /\ go a' end) attrs
    end.

  (* every unary form has a class for the configuration lookup (ModifiedPrior.cls = self.prior.cls exists only when
     the chain of unary forms ends in a CompoundPrior): the guard of the theorems about mapper_from_prior_means;
     without it the code raises AttributeError (finding C12 modified-prior-cls, Witness.means_unary_over_prior_refuted) *)
  Fixpoint cls_ok (n : node) : Prop :=
    match n with
    | NPrior _ | NConst _ | NTuple _ => True
    | NBin _ _ _ l r => cls_ok l /\ cls_ok r
    | NUn _ _ c => un_has_cls V c || modified_prior_cls_falls_back = true /\ cls_ok c
    | NModel _ _ attrs | NColl attrs =>
        (fix go (a : list (string * node)) : Prop :=
           match a with [] => True | (_, c) :: a' => cls_ok c /\ go a' end) attrs
    end.

  (* once ModifiedPrior.cls falls back to float the guard holds for every model *)
  Lemma cls_ok_repaired : modified_prior_cls_falls_back = true -> forall n, cls_ok n.
  Proof.
    intro R. induction n as [p|v|ms _|o ln rn l r IHl IHr|uo unm uc IHc|cls ctor attrs IH|attrs IH] using node_ind'; cbn [cls_ok]; auto.
    - split; [rewrite R; apply orb_true_r|exact IHc].
    - induction IH as [|[k c] a Hc _ IHa]; simpl; auto.
    - induction IH as [|[k c] a Hc _ IHa]; simpl; auto.
  Qed.

  Lemma no_bare_un : modified_prior_cls_falls_back = false -> forall n, cls_ok n -> has_bare_un V n = false.
  Proof.
    intro R. induction n as [p|v|ms _|o ln rn l r IHl IHr|uo unm uc IHc|cls ctor attrs IH|attrs IH] using node_ind';
      cbn [cls_ok has_bare_un]; intro C; try reflexivity.
    - destruct C as [Cl Cr]. rewrite (IHl Cl), (IHr Cr). reflexivity.
    - destruct C as [Cu Cc]. rewrite R, orb_false_r in Cu. rewrite (IHc Cc).
      destruct uc; try discriminate Cu; reflexivity.
    - induction IH as [|[k c] a Hc _ IHa]; [reflexivity|]. destruct C as [Cc Ca]. simpl in Hc.
      rewrite (Hc Cc). simpl. exact (IHa Ca).
    - induction IH as [|[k c] a Hc _ IHa]; [reflexivity|]. destruct C as [Cc Ca]. simpl in Hc.
      rewrite (Hc Cc). simpl. exact (IHa Ca).
  Qed.

  Lemma coll_own_ok (n : node) : cls_ok n -> coll_own V n = Some "ModelInstance".
  Proof.
    intro C. unfold coll_own. destruct modified_prior_cls_falls_back eqn:R; [reflexivity|].
    rewrite (no_bare_un R n C). reflexivity.
  Qed.

  Lemma cls_ok_attrs attrs : (fix go (a : list (string * node)) : Prop :=
           match a with [] => True | (_, c) :: a' => cls_ok c /\ go a' end) attrs <-> Forall (fun kc => cls_ok (snd kc)) attrs.
  Proof.
    induction attrs as [|[k c] a IH]; simpl.
    - split; intro; constructor.
    - split; intro H.
      + constructor; [exact (proj1 H)|apply IH; exact (proj2 H)].
      + inversion H; subst. split; [assumption|apply IH; assumption].
  Qed.

  Lemma wf_model cls ctor attrs : wf (NModel cls ctor attrs) <-> Forall (fun kc => wf (snd kc)) attrs.
  Proof.
    simpl. induction attrs as [|[k c] a IH]; simpl.
    - split; intro; constructor.
    - split; intro H.
      + constructor; [exact (proj1 H)|apply IH; exact (proj2 H)].
      + inversion H; subst. split; [assumption|apply IH; assumption].
  Qed.

  Lemma wf_coll attrs : wf (NColl attrs) <-> Forall (fun kc => wf (snd kc) /\ is_tuple (snd kc) = false) attrs.
  Proof.
    simpl. induction attrs as [|[k c] a IH]; simpl.
    - split; intro; constructor.
    - split; intro H.
      + constructor; [exact (proj1 H)|apply IH; exact (proj2 H)].
      + inversion H; subst. split; [assumption|apply IH; assumption].
  Qed.

  (* ---------- the walk as flat maps ---------- *)
  Definition walk_attrs (a : list (string * node)) : list (path * nat) :=
    flat_map (fun kc => prefix_paths (fst kc) (walk V (snd kc))) a.
  Definition walk_members (ms : list (string * (nat * node))) : list (path * nat) :=
    flat_map (fun m => prefix_paths (fst m) (walk V (snd (snd m)))) ms.

  Lemma walk_model cls ctor attrs : walk V (NModel cls ctor attrs) = walk_attrs attrs.
  Proof. cbn [walk]. induction attrs as [|[k c] a IH]; simpl; [reflexivity|]. rewrite IH. reflexivity. Qed.
  Lemma walk_coll attrs : walk V (NColl attrs) = walk_attrs attrs.
  Proof. cbn [walk]. induction attrs as [|[k c] a IH]; simpl; [reflexivity|]. rewrite IH. reflexivity. Qed.
  Lemma walk_tuple ms : walk V (NTuple ms) = walk_members ms.
  Proof. cbn [walk]. induction ms as [|[k [i c]] a IH]; simpl; [reflexivity|]. rewrite IH. reflexivity. Qed.

  Definition prior_ids (n : node) : list nat := map snd (walk V n).

  Lemma prior_ids_attr (attrs : list (string * node)) (k : string) (c : node) (q : nat) :
    In (k, c) attrs -> In q (prior_ids c) -> In q (map snd (walk_attrs attrs)).
  Proof.
    intros Hin Hq. unfold walk_attrs. induction attrs as [|[k' c'] a IH]; [contradiction|].
    simpl. rewrite map_app. apply in_or_app. destruct Hin as [E|Hin].
    - inversion E; subst. left. unfold prefix_paths. rewrite map_map. simpl. exact Hq.
    - right. apply IH. exact Hin.
  Qed.

  Lemma prior_ids_bin o ln rn l r (q : nat) :
    wf (NBin o ln rn l r) ->
    (In q (prior_ids (NBin o ln rn l r)) <-> In q (prior_ids l) \/ In q (prior_ids r)).
  Proof.
    intros [_ [_ Wn]]. unfold prior_ids. cbn [walk].
    destruct (String.eqb_spec ln rn) as [E|_].
    - rewrite (Wn E). unfold prefix_paths. rewrite map_map. simpl. tauto.
    - rewrite map_app. unfold prefix_paths. rewrite !map_map. simpl. rewrite in_app_iff. tauto.
  Qed.

  Lemma prior_ids_un o nm c : prior_ids (NUn o nm c) = prior_ids c.
  Proof. unfold prior_ids. cbn [walk]. unfold prefix_paths. rewrite map_map. reflexivity. Qed.

  Lemma prior_ids_cons k c a (q : nat) :
    In q (map snd (walk_attrs ((k, c) :: a))) <-> In q (prior_ids c) \/ In q (map snd (walk_attrs a)).
  Proof.
    unfold walk_attrs, prior_ids. simpl. rewrite map_app, in_app_iff. unfold prefix_paths. rewrite map_map. simpl. tauto.
  Qed.


  Section Sub.
    Variable sigma : nat -> option nat.

    (* the prior that takes the place of q (q itself when the arguments have no entry) *)
    Definition sd (q : nat) : nat := match sigma q with Some q' => q' | None => q end.
    Definition ren_walk (l : list (path * nat)) : list (path * nat) := map (fun pq => (fst pq, sd (snd pq))) l.

    Lemma ren_walk_app l1 l2 : ren_walk (l1 ++ l2) = ren_walk l1 ++ ren_walk l2.
    Proof. apply map_app. Qed.
    Lemma ren_walk_prefix k l : ren_walk (prefix_paths k l) = prefix_paths k (ren_walk l).
    Proof. unfold ren_walk, prefix_paths. rewrite !map_map. reflexivity. Qed.

    (* ---------- rebuild of attribute lists ---------- *)
    Fixpoint rebuild_attrs (a : list (string * node)) : option (list (string * node)) :=
      match a with
      | [] => Some []
      | (k, c) :: a' =>
          match rebuild V sigma c, rebuild_attrs a' with
          | Some c', Some r => Some ((k, c') :: r)
          | _, _ => None
          end
      end.

    Fixpoint rebuild_items (a : list (string * node)) : option (list (string * node)) :=
      match a with
      | [] => Some []
      | (k, c) :: a' =>
          match c with
          | NTuple _ => rebuild_items a'
          | _ => match rebuild V sigma c, rebuild_items a' with
                 | Some c', Some r => Some ((k, c') :: r)
                 | _, _ => None
                 end
          end
      end.

    Lemma rebuild_items_cons k c a :
      rebuild_items ((k, c) :: a) =
      if is_tuple c then rebuild_items a
      else match rebuild V sigma c, rebuild_items a with
           | Some c', Some r => Some ((k, c') :: r)
           | _, _ => None
           end.
    Proof. destruct c; reflexivity. Qed.

    Lemma rebuild_model cls ctor attrs :
      rebuild V sigma (NModel cls ctor attrs) = option_map (NModel cls ctor) (rebuild_attrs attrs).
    Proof.
      reflexivity.
    Qed.

    Lemma rebuild_coll attrs : rebuild V sigma (NColl attrs) = option_map NColl (rebuild_items attrs).
    Proof.
      reflexivity.
    Qed.

    (* ---------- tuples ---------- *)
    Lemma tuple_priors_walk (ms : list (string * (nat * node))) :
      Forall (fun m => is_leaf (snd (snd m)) = true) ms ->
      forall ps, tuple_priors V sigma ms = Some ps -> walk_members ps = ren_walk (walk_members ms).
    Proof.
      induction 1 as [|[k [i c]] ms Hc Hms IH]; intros ps E; simpl in E.
      - inversion E; subst. reflexivity.
      - destruct c as [p|v|?|? ? ? ? ?|? ? ?|? ? ?|?]; simpl in Hc; try discriminate.
        + destruct (sigma p) as [p'|] eqn:Ep; [|discriminate].
          destruct (tuple_priors V sigma ms) as [r|] eqn:Er; [|discriminate].
          inversion E; subst. unfold walk_members in *. simpl. rewrite (IH r eq_refl).
          unfold sd. rewrite Ep. reflexivity.
        + unfold walk_members in *. simpl. apply IH. exact E.
    Qed.

    Lemma consts_walk (ms : list (string * (nat * node))) :
      (forall m, In m ms -> is_const V (snd (snd m)) = true) -> walk_members ms = [].
    Proof.
      induction ms as [|[k [i c]] ms IH]; intro H; [reflexivity|].
      unfold walk_members in *. simpl.
      assert (Hc := H _ (or_introl eq_refl)). simpl in Hc. destruct c; try discriminate. simpl.
      apply IH. intros m Hm. apply H. right. exact Hm.
    Qed.

    Lemma tuple_consts_const (ms : list (string * (nat * node))) :
      forall m, In m (tuple_consts V ms) -> is_const V (snd (snd m)) = true.
    Proof.
      intros m Hm. unfold tuple_consts in Hm. apply sort_by_in in Hm. apply filter_In in Hm. exact (proj2 Hm).
    Qed.

    (* ---------- paths and identities: the new model has the walk of the old one with every prior
       replaced by the prior given for it ---------- *)
    Lemma rebuild_walk : forall n, wf n -> forall n', rebuild V sigma n = Some n' -> walk V n' = ren_walk (walk V n).
    Proof.
      induction n as [p|v|ms _|o ln rn l r IHl IHr|uo unm uc IHc|cls ctor attrs IH|attrs IH] using node_ind'; intros W n' E.
      - simpl in E. destruct (sigma p) as [p'|] eqn:Ep; [|discriminate]. inversion E; subst.
        simpl. unfold sd. rewrite Ep. reflexivity.
      - inversion E; subst. reflexivity.
      - cbn [rebuild] in E. destruct (tuple_priors V sigma ms) as [ps|] eqn:Ep; [|discriminate].
        inversion E; subst. destruct W as [Wl _].
        rewrite !walk_tuple. unfold walk_members at 1. rewrite flat_map_app.
        change (walk_members ps ++ walk_members (tuple_consts V ms) = ren_walk (walk_members ms)).
        rewrite (consts_walk _ (tuple_consts_const ms)). rewrite app_nil_r.
        apply tuple_priors_walk; assumption.
      - cbn [rebuild] in E. destruct W as [Wl [Wr _]].
        destruct (rebuild V sigma l) as [l'|] eqn:El; [|discriminate].
        destruct (rebuild V sigma r) as [r'|] eqn:Er; [|discriminate].
        inversion E; subst. cbn [walk]. rewrite (IHl Wl _ eq_refl), (IHr Wr _ eq_refl).
        destruct (String.eqb ln rn).
        + rewrite ren_walk_prefix. reflexivity.
        + rewrite ren_walk_app, !ren_walk_prefix. reflexivity.
      - cbn [rebuild] in E. destruct (rebuild V sigma uc) as [c'|] eqn:Ec; [|discriminate].
        inversion E; subst. cbn [walk]. rewrite (IHc W _ eq_refl). rewrite ren_walk_prefix. reflexivity.
      - rewrite rebuild_model in E. destruct (rebuild_attrs attrs) as [a'|] eqn:Ea; [|discriminate].
        inversion E; subst. rewrite !walk_model. apply wf_model in W.
        clear E. revert a' Ea. induction attrs as [|[k c] a IHa]; intros a' Ea; simpl in Ea.
        + inversion Ea; subst. reflexivity.
        + inversion IH as [|? ? IHc IHrest]; subst. inversion W as [|? ? Wc Wrest]; subst.
          destruct (rebuild V sigma c) as [c'|] eqn:Ec; [|discriminate].
          destruct (rebuild_attrs a) as [r|] eqn:Er; [|discriminate].
          inversion Ea; subst. unfold walk_attrs in *. simpl. simpl in IHc.
          rewrite ren_walk_app, ren_walk_prefix. rewrite (IHc Wc _ Ec). f_equal.
          apply IHa; auto.
      - rewrite rebuild_coll in E. destruct (rebuild_items attrs) as [a'|] eqn:Ea; [|discriminate].
        inversion E; subst. rewrite !walk_coll. apply wf_coll in W.
        clear E. revert a' Ea. induction attrs as [|[k c] a IHa]; intros a' Ea.
        + inversion Ea; subst. reflexivity.
        + inversion IH as [|? ? IHc IHrest]; subst. inversion W as [|? ? [Wc Wt] Wrest]; subst.
          simpl in Wc, Wt. rewrite rebuild_items_cons in Ea. rewrite Wt in Ea.
          unfold walk_attrs in *. cbn [flat_map fst snd].
          destruct (rebuild V sigma c) as [c'|] eqn:Ec; [|discriminate].
          destruct (rebuild_items a) as [r0|] eqn:Er; [|discriminate].
          inversion Ea; subst. cbn [flat_map fst snd].
          rewrite ren_walk_app, ren_walk_prefix. rewrite (IHc Wc _ Ec). f_equal. apply IHa; auto.
    Qed.

    (* ---------- the rebuild succeeds exactly when every prior of the model has an entry ---------- *)
    Lemma tuple_priors_total (ms : list (string * (nat * node))) :
      Forall (fun m => is_leaf (snd (snd m)) = true) ms ->
      (forall q, In q (map snd (walk_members ms)) -> sigma q <> None) ->
      exists ps, tuple_priors V sigma ms = Some ps.
    Proof.
      induction 1 as [|[k [i c]] ms Hc Hms IH]; intro T; simpl; [eexists; reflexivity|].
      assert (T' : forall q, In q (map snd (walk_members ms)) -> sigma q <> None).
      { intros q Hq. apply T. unfold walk_members in *. simpl. rewrite map_app. apply in_or_app. right. exact Hq. }
      destruct (IH T') as [ps Eps].
      destruct c as [p|v|?|? ? ? ? ?|? ? ?|? ? ?|?]; simpl in Hc; try discriminate.
      - destruct (sigma p) as [p'|] eqn:Ep.
        + rewrite Eps. eexists; reflexivity.
        + exfalso. apply (T p); [|exact Ep]. unfold walk_members. simpl. left. reflexivity.
      - exists ps. exact Eps.
    Qed.

    Lemma rebuild_total : forall n, wf n -> (forall q, In q (prior_ids n) -> sigma q <> None) ->
      exists n', rebuild V sigma n = Some n'.
    Proof.
      induction n as [p|v|ms _|o ln rn l r IHl IHr|uo unm uc IHc|cls ctor attrs IH|attrs IH] using node_ind'; intros W T.
      - simpl. destruct (sigma p) as [p'|] eqn:Ep; [eexists; reflexivity|].
        exfalso. apply (T p); [left; reflexivity|exact Ep].
      - eexists; reflexivity.
      - destruct W as [Wl _]. cbn [rebuild].
        destruct (tuple_priors_total ms Wl) as [ps Eps].
        + intros q Hq. apply T. unfold prior_ids. rewrite walk_tuple. exact Hq.
        + rewrite Eps. eexists; reflexivity.
      - assert (W' := W). destruct W as [Wl [Wr _]]. cbn [rebuild].
        destruct (IHl Wl) as [l' El]; [intros q Hq; apply T; apply (prior_ids_bin _ _ _ _ _ q W'); left; exact Hq|].
        destruct (IHr Wr) as [r' Er]; [intros q Hq; apply T; apply (prior_ids_bin _ _ _ _ _ q W'); right; exact Hq|].
        rewrite El, Er. eexists; reflexivity.
      - cbn [rebuild]. destruct (IHc W) as [c' Ec]; [intros q Hq; apply T; rewrite prior_ids_un; exact Hq|].
        rewrite Ec. eexists; reflexivity.
      - rewrite rebuild_model. apply wf_model in W. unfold prior_ids in T. rewrite walk_model in T.
        assert (X : exists a', rebuild_attrs attrs = Some a').
        { induction attrs as [|[k c] a IHa]; [eexists; reflexivity|].
          inversion IH as [|? ? IHc IHrest]; subst. inversion W as [|? ? Wc Wrest]; subst. simpl in IHc, Wc.
          simpl. destruct (IHc Wc) as [c' Ec]; [intros q Hq; apply T; apply prior_ids_cons; left; exact Hq|].
          destruct (IHa IHrest Wrest) as [r Er]; [intros q Hq; apply T; apply prior_ids_cons; right; exact Hq|].
          rewrite Ec, Er. eexists; reflexivity. }
        destruct X as [a' Ea]. rewrite Ea. eexists; reflexivity.
      - rewrite rebuild_coll. apply wf_coll in W. unfold prior_ids in T. rewrite walk_coll in T.
        assert (X : exists a', rebuild_items attrs = Some a').
        { induction attrs as [|[k c] a IHa]; [eexists; reflexivity|].
          inversion IH as [|? ? IHc IHrest]; subst. inversion W as [|? ? [Wc Wt] Wrest]; subst. simpl in IHc, Wc, Wt.
          rewrite rebuild_items_cons.
          destruct (IHa IHrest Wrest) as [r Er]; [intros q Hq; apply T; apply prior_ids_cons; right; exact Hq|].
          destruct (is_tuple c); [exists r; exact Er|].
          destruct (IHc Wc) as [c' Ec]; [intros q Hq; apply T; apply prior_ids_cons; left; exact Hq|].
          rewrite Ec, Er. eexists; reflexivity. }
        destruct X as [a' Ea]. rewrite Ea. eexists; reflexivity.
    Qed.

    Lemma tuple_priors_defined (ms : list (string * (nat * node))) :
      Forall (fun m => is_leaf (snd (snd m)) = true) ms ->
      forall ps, tuple_priors V sigma ms = Some ps ->
      forall q, In q (map snd (walk_members ms)) -> sigma q <> None.
    Proof.
      induction 1 as [|[k [i c]] ms Hc Hms IH]; intros ps E q Hq; [contradiction|].
      unfold walk_members in Hq. simpl in Hq. rewrite map_app in Hq. apply in_app_or in Hq.
      destruct c as [p|v|?|? ? ? ? ?|? ? ?|? ? ?|?]; simpl in Hc; try discriminate; simpl in E.
      - destruct (sigma p) as [p'|] eqn:Ep; [|discriminate].
        destruct (tuple_priors V sigma ms) as [r|] eqn:Er; [|discriminate].
        destruct Hq as [Hq|Hq].
        + simpl in Hq. destruct Hq as [<-|[]]. rewrite Ep. discriminate.
        + apply (IH r eq_refl). exact Hq.
      - destruct Hq as [Hq|Hq]; [contradiction|]. apply (IH ps E). exact Hq.
    Qed.

    Lemma rebuild_defined : forall n, wf n -> forall n', rebuild V sigma n = Some n' ->
      forall q, In q (prior_ids n) -> sigma q <> None.
    Proof.
      induction n as [p|v|ms _|o ln rn l r IHl IHr|uo unm uc IHc|cls ctor attrs IH|attrs IH] using node_ind'; intros W n' E q Hq.
      - simpl in Hq. destruct Hq as [<-|[]]. simpl in E. destruct (sigma p); [discriminate|discriminate].
      - contradiction.
      - destruct W as [Wl _]. cbn [rebuild] in E.
        destruct (tuple_priors V sigma ms) as [ps|] eqn:Eps; [|discriminate].
        apply (tuple_priors_defined ms Wl ps Eps). unfold prior_ids in Hq. rewrite walk_tuple in Hq. exact Hq.
      - assert (W' := W). destruct W as [Wl [Wr _]]. cbn [rebuild] in E.
        destruct (rebuild V sigma l) as [l'|] eqn:El; [|discriminate].
        destruct (rebuild V sigma r) as [r'|] eqn:Er; [|discriminate].
        apply (prior_ids_bin _ _ _ _ _ q W') in Hq. destruct Hq as [Hq|Hq].
        + apply (IHl Wl _ eq_refl q Hq).
        + apply (IHr Wr _ eq_refl q Hq).
      - cbn [rebuild] in E. destruct (rebuild V sigma uc) as [c'|] eqn:Ec; [|discriminate].
        rewrite prior_ids_un in Hq. apply (IHc W _ eq_refl q Hq).
      - rewrite rebuild_model in E. destruct (rebuild_attrs attrs) as [a'|] eqn:Ea; [|discriminate].
        apply wf_model in W. unfold prior_ids in Hq. rewrite walk_model in Hq. clear E.
        revert a' Ea. induction attrs as [|[k c] a IHa]; intros a' Ea; [contradiction|].
        inversion IH as [|? ? IHc IHrest]; subst. inversion W as [|? ? Wc Wrest]; subst. simpl in Wc.
        simpl in Ea. destruct (rebuild V sigma c) as [c'|] eqn:Ec; [|discriminate].
        destruct (rebuild_attrs a) as [r|] eqn:Er; [|discriminate].
        apply prior_ids_cons in Hq. destruct Hq as [Hq|Hq].
        + apply (IHc Wc _ Ec q Hq).
        + apply (IHa IHrest Wrest Hq r eq_refl).
      - rewrite rebuild_coll in E. destruct (rebuild_items attrs) as [a'|] eqn:Ea; [|discriminate].
        apply wf_coll in W. unfold prior_ids in Hq. rewrite walk_coll in Hq. clear E.
        revert a' Ea. induction attrs as [|[k c] a IHa]; intros a' Ea; [contradiction|].
        inversion IH as [|? ? IHc IHrest]; subst. inversion W as [|? ? [Wc Wt] Wrest]; subst. simpl in Wc, Wt.
        rewrite rebuild_items_cons in Ea. rewrite Wt in Ea.
        apply prior_ids_cons in Hq.
        destruct (rebuild V sigma c) as [c'|] eqn:Ec; [|discriminate].
        destruct (rebuild_items a) as [r|] eqn:Er; [|discriminate].
        destruct Hq as [Hq|Hq].
        + apply (IHc Wc _ Ec q Hq).
        + apply (IHa IHrest Wrest Hq r eq_refl).
    Qed.
  End Sub.
End R.
