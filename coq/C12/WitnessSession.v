(* Non-vacuity for the summary theorems of C12 (Session.v): a joint model that exposes its component's parameters
   under each other's names, read before its child is made. *)
From Coq Require Import List String.
From PAFC01 Require Import ModelTree.
From PAFC12 Require Import Session.
Import ListNotations.
Local Open Scope string_scope.
Local Open Scope list_scope.

Definition ws0 : summary nat := fresh nat wit_joint wit_kw (Some [(["m"; "centre"], 5); (["m"; "sigma"], 8)]).

(* the hypotheses of C12_summary_history_irrelevant are met, with reads on both sides of the child's creation *)
Example ws_history :
  coherent nat ws0 /\ Forall (is_read nat) [ORead nat; OInstance nat] /\ Forall (is_read nat) [ORead nat] /\
  (exists c, run nat wit_bin wit_un true ([ORead nat; OInstance nat] ++ OSub nat wit_child :: [ORead nat]) ws0 = Some c /\
             max_vector nat c = Some [4; 7] /\ means_vector nat c = Some [5; 8]) /\
  (exists c0, subsamples nat true ws0 wit_child = Some c0 /\ max_vector nat c0 = Some [4; 7]).
Proof.
  split; [left; reflexivity|]. split; [repeat constructor|]. split; [repeat constructor|].
  split; eexists; vm_compute; repeat split; reflexivity.
Qed.

(* the joint summary itself answers in the joint model's parameter order *)
Example ws_joint : max_vector nat ws0 = Some [4; 7] /\ all_paths nat wit_joint = [[["m"; "centre"]; ["sigma"]]; [["m"; "sigma"]; ["centre"]]].
Proof. vm_compute. split; reflexivity. Qed.

(* what the invariant excludes: a child that kept its parent's path cache (the copy made without resetting `_paths`)
   looks its sample up under the parent's names - here silently swapping centre and sigma *)
Example ws_stale_cache_swaps :
  forall c0, subsamples nat true ws0 wit_child = Some c0 ->
  max_vector nat {| sm_model := sm_model nat c0; sm_max := sm_max nat c0; sm_med := sm_med nat c0;
                    sm_paths := Some (all_paths nat wit_joint); sm_inst := None |} = Some [7; 4].
Proof. intros c0 H. vm_compute in H. inversion H; subst. vm_compute. reflexivity. Qed.

(* C12_child_instance_own: the joint instance is read first, the child's instance is still its own *)
Example ws_instance_own :
  exists c, run nat wit_bin wit_un true ([ORead nat; OInstance nat] ++ OSub nat wit_child :: [OInstance nat; ORead nat]) ws0 = Some c /\
            instance_value nat wit_bin wit_un c = Some (IObj "G" [("centre", IV 4); ("sigma", IV 7)]).
Proof. eexists; vm_compute; split; reflexivity. Qed.
