(* C12: the configuration entry used for an unshared parameter is the one of its own attribute:
   a prior that occurs at exactly one place, held (directly or as a tuple member) by a Model of class
   cls found at a structural path, is looked up under (cls, its own attribute / member name). *)
From Coq Require Import List String Bool Arith PeanoNat Lia.
From PAFC01 Require Import ModelTree Sorting.
From PAFC01 Require Proofs Proofs2.
From PAFC12 Require Import Gen Model Lib Proofs Proofs3 Proofs5.
Import ListNotations.
Local Open Scope string_scope.
Local Open Scope list_scope.

Section O.
  Variable V : Type.
  Notation node := (node V).
  Notation node_ind' := (PAFC01.Proofs.node_ind' V).
  Notation node_at := (PAFC01.Proofs.node_at V).

  (* the places of prior q in a walk *)
  Definition occ (q : nat) (l : list (path * nat)) : list (path * nat) := filter (fun pq => Nat.eqb (snd pq) q) l.

  Lemma occ_app q l1 l2 : occ q (l1 ++ l2) = occ q l1 ++ occ q l2.
  Proof. apply filter_app. Qed.

  Lemma occ_prefix q k l : occ q (prefix_paths k l) = prefix_paths k (occ q l).
  Proof.
    unfold occ, prefix_paths. induction l as [|[p x] l IH]; simpl; [reflexivity|].
    destruct (Nat.eqb x q); simpl; rewrite IH; reflexivity.
  Qed.

  Lemma occ_in q l p : In (p, q) l <-> In (p, q) (occ q l).
  Proof.
    unfold occ. rewrite filter_In. simpl. rewrite Nat.eqb_refl. tauto.
  Qed.

  Lemma occ_nil q l : occ q l = [] -> ~ In q (map snd l).
  Proof.
    intros E H. apply in_map_iff in H. destruct H as [[p x] [Ex Hin]]. simpl in Ex. subst x.
    apply occ_in in Hin. rewrite E in Hin. contradiction.
  Qed.

  Lemma occ_attrs q (a : list (string * node)) :
    occ q (walk_attrs V a) = flat_map (fun kc => prefix_paths (fst kc) (occ q (walk V (snd kc)))) a.
  Proof.
    unfold walk_attrs. induction a as [|[k c] a IH]; simpl; [reflexivity|].
    rewrite occ_app, occ_prefix, IH. reflexivity.
  Qed.

  Lemma single_split {A} (l1 l2 l3 : list A) (x : A) :
    l1 ++ l2 ++ l3 = [x] -> l2 <> [] -> l1 = [] /\ l2 = [x] /\ l3 = [].
  Proof.
    intros E N. destruct l1 as [|a l1].
    - simpl in E. destruct l2 as [|b l2]; [contradiction|]. simpl in E. inversion E as [[Eb El]].
      apply app_eq_nil in El. destruct El as [-> ->]. auto.
    - simpl in E. inversion E as [[Ea El]]. apply app_eq_nil in El. destruct El as [_ El].
      apply app_eq_nil in El. destruct El as [El _]. contradiction.
  Qed.

  Lemma assoc_split {B} (k : string) (l : list (string * B)) (v : B) :
    assoc k l = Some v -> exists l1 l2, l = l1 ++ (k, v) :: l2.
  Proof.
    induction l as [|[k' v'] l IH]; simpl; [discriminate|].
    destruct (String.eqb_spec k k') as [->|_]; intro H.
    - inversion H; subst. exists [], l. reflexivity.
    - destruct (IH H) as [l1 [l2 ->]]. exists ((k', v') :: l1), l2. reflexivity.
  Qed.

  (* ---------- class_of through attribute lists ---------- *)
  Section G.
    Variable q : nat.
    Fixpoint cgo (a : list (string * node)) : option string :=
      match a with
      | [] => None
      | (_, c) :: a' => match cgo a' with Some k => Some k | None => class_of V q c end
      end.
  End G.

  Lemma class_of_model q cls ctor attrs :
    class_of V q (NModel cls ctor attrs) =
    match cgo q attrs with Some k => Some k | None => if has_prior V q (NModel cls ctor attrs) then Some cls else None end.
  Proof. reflexivity. Qed.

  Lemma class_of_coll q attrs :
    class_of V q (NColl attrs) =
    if existsb (fun kc : string * node => match snd kc with NPrior p => Nat.eqb p q | _ => false end) attrs
    then Some "ModelInstance" else cgo q attrs.
  Proof. reflexivity. Qed.

  Lemma cgo_none q a : (forall kc, In kc a -> class_of V q (snd kc) = None) -> cgo q a = None.
  Proof.
    induction a as [|[k c] a IH]; intro H; simpl; [reflexivity|].
    rewrite IH by (intros kc Hkc; apply H; right; exact Hkc). apply (H (k, c)). left. reflexivity.
  Qed.

  Lemma cgo_at q a1 k c a2 cls :
    cgo q a2 = None -> class_of V q c = Some cls -> cgo q (a1 ++ (k, c) :: a2) = Some cls.
  Proof.
    intros N C. induction a1 as [|[k' c'] a1 IH]; simpl.
    - rewrite N. exact C.
    - rewrite IH. reflexivity.
  Qed.

  Lemma has_prior_false q n : ~ In q (prior_ids V n) -> has_prior V q n = false.
  Proof.
    intro H. unfold has_prior. destruct (existsb (Nat.eqb q) (map snd (walk V n))) eqn:E; [|reflexivity].
    exfalso. apply H. apply existsb_exists in E. destruct E as [x [Hx Ex]]. apply Nat.eqb_eq in Ex. subst x. exact Hx.
  Qed.

  Lemma class_of_none : forall n q, ~ In q (prior_ids V n) -> class_of V q n = None.
  Proof.
    induction n as [p|v|ms _|o ln rn l r _ _|uo unm uc _|cls ctor attrs IH|attrs IH] using node_ind'; intros q H; try reflexivity.
    - cbn [class_of]. rewrite (has_prior_false q _ H). reflexivity.
    - cbn [class_of]. rewrite (has_prior_false q _ H). reflexivity.
    - rewrite class_of_model. rewrite (has_prior_false q _ H).
      rewrite cgo_none; [reflexivity|]. intros [k c] Hkc. rewrite Forall_forall in IH. apply (IH (k, c) Hkc).
      intro Hq. apply H. unfold prior_ids. rewrite walk_model. apply (prior_ids_attr V attrs k c q Hkc Hq).
    - rewrite class_of_coll.
      destruct (existsb (fun kc : string * node => match snd kc with NPrior p => Nat.eqb p q | _ => false end) attrs) eqn:E.
      + exfalso. apply existsb_exists in E. destruct E as [[k c] [Hkc Ec]]. simpl in Ec.
        destruct c as [p| | | | | |]; try discriminate. apply Nat.eqb_eq in Ec. subst p.
        apply H. unfold prior_ids. rewrite walk_coll. apply (prior_ids_attr V attrs k (NPrior q) q Hkc). left. reflexivity.
      + apply cgo_none. intros [k c] Hkc. rewrite Forall_forall in IH. apply (IH (k, c) Hkc).
        intro Hq. apply H. unfold prior_ids. rewrite walk_coll. apply (prior_ids_attr V attrs k c q Hkc Hq).
  Qed.

  Lemma flat_nil_children q (a : list (string * node)) :
    flat_map (fun kc => prefix_paths (fst kc) (occ q (walk V (snd kc)))) a = [] ->
    forall kc, In kc a -> class_of V q (snd kc) = None.
  Proof.
    intros E kc Hkc. apply class_of_none. apply occ_nil with (q := q).
    apply in_split in Hkc. destruct Hkc as [l1 [l2 ->]]. rewrite flat_map_app in E. simpl in E.
    apply app_eq_nil in E. destruct E as [_ E]. apply app_eq_nil in E. destruct E as [E _].
    unfold prefix_paths in E. apply map_eq_nil in E. exact E.
  Qed.

  (* what sits at a structural path is walked under that path *)
  Lemma node_at_walk : forall p n m r q, node_at p n = Some m -> In (r, q) (walk V m) -> In (p ++ r, q) (walk V n).
  Proof.
    induction p as [|k p IH]; intros n m r q H Hin.
    - simpl in H. inversion H; subst. exact Hin.
    - destruct n as [?|?|?|? ? ? ? ?|? ? ?|cls ctor attrs|attrs]; simpl in H; try discriminate.
      + destruct (assoc k attrs) as [c|] eqn:A; [|discriminate]. apply PAFC01.Proofs.assoc_in in A.
        rewrite walk_model. specialize (IH c m r q H Hin).
        unfold walk_attrs. apply in_flat_map. exists (k, c). split; [exact A|]. simpl.
        unfold prefix_paths. apply in_map_iff. exists (p ++ r, q). split; [reflexivity|exact IH].
      + destruct (assoc k attrs) as [c|] eqn:A; [|discriminate]. apply PAFC01.Proofs.assoc_in in A.
        rewrite walk_coll. specialize (IH c m r q H Hin).
        unfold walk_attrs. apply in_flat_map. exists (k, c). split; [exact A|]. simpl.
        unfold prefix_paths. apply in_map_iff. exists (p ++ r, q). split; [reflexivity|exact IH].
  Qed.

  (* the holder is a Model of class cls at structural path p; the prior sits below its attribute k0 (directly, or as
     a member of the tuple prior k0) at relative path rest, and nowhere else in the whole model *)
  Theorem class_of_own : forall p n cls ctor attrs k0 c0 rest q,
    node_at p n = Some (NModel cls ctor attrs) -> assoc k0 attrs = Some c0 -> is_pm V c0 = false ->
    In (rest, q) (walk V c0) ->
    occ q (walk V n) = [(p ++ k0 :: rest, q)] ->
    class_of V q n = Some cls.
  Proof.
    induction p as [|k p IH]; intros n cls ctor attrs k0 c0 rest q H A Pm Hin O.
    - simpl in H. inversion H; subst. clear H. cbn [app] in O.
      destruct (assoc_split k0 attrs c0 A) as [a1 [a2 ->]].
      rewrite walk_model, occ_attrs, flat_map_app in O. simpl in O.
      destruct (single_split _ _ _ _ O) as [E1 [_ E2]].
      { intro N. unfold prefix_paths in N. apply map_eq_nil in N. apply (occ_in q) in Hin. rewrite N in Hin. contradiction. }
      rewrite class_of_model.
      assert (G : cgo q (a1 ++ (k0, c0) :: a2) = None).
      { apply cgo_none. intros kc Hkc. apply in_app_or in Hkc. destruct Hkc as [Hkc|[<-|Hkc]].
        - apply (flat_nil_children q a1 E1 kc Hkc).
        - simpl. destruct c0; try discriminate Pm; reflexivity.
        - apply (flat_nil_children q a2 E2 kc Hkc). }
      rewrite G. rewrite (has_prior_in V q); [reflexivity|].
      unfold prior_ids. rewrite walk_model. apply (prior_ids_attr V _ k0 c0 q); [apply in_or_app; right; left; reflexivity|].
      unfold prior_ids. apply in_map_iff. exists (rest, q). auto.
    - assert (Hw : In (p ++ k0 :: rest, q) (walk V (match n with NModel _ _ at' | NColl at' =>
                       match assoc k at' with Some c => c | None => n end | _ => n end))).
      { destruct n as [?|?|?|? ? ? ? ?|? ? ?|cls' ctor' attrs'|attrs']; simpl in H; try discriminate;
          destruct (assoc k attrs') as [c|] eqn:Ak; try discriminate;
          apply (node_at_walk p c _ (k0 :: rest) q H);
          rewrite walk_model; unfold walk_attrs; apply in_flat_map; exists (k0, c0);
          (split; [apply PAFC01.Proofs.assoc_in; exact A|]); simpl; unfold prefix_paths; apply in_map_iff;
          exists (rest, q); auto. }
      destruct n as [?|?|?|? ? ? ? ?|? ? ?|cls' ctor' attrs'|attrs']; simpl in H; try discriminate.
      + destruct (assoc k attrs') as [c|] eqn:Ak; [|discriminate].
        destruct (assoc_split k attrs' c Ak) as [a1 [a2 ->]].
        rewrite walk_model, occ_attrs, flat_map_app in O. simpl in O.
        destruct (single_split _ _ _ _ O) as [E1 [Ec E2]].
        { intro N. unfold prefix_paths in N. apply map_eq_nil in N. apply (occ_in q) in Hw. rewrite N in Hw. contradiction. }
        assert (Oc : occ q (walk V c) = [(p ++ k0 :: rest, q)]).
        { destruct (occ q (walk V c)) as [|x [|y l]]; simpl in Ec; try discriminate.
          inversion Ec as [[Ex]]. destruct x as [px qx]. simpl in *. inversion Ex; subst. reflexivity. }
        rewrite class_of_model.
        rewrite (cgo_at q a1 k c a2 cls); [reflexivity| |].
        * apply cgo_none. apply (flat_nil_children q a2 E2).
        * apply (IH c cls ctor attrs k0 c0 rest q H A Pm Hin Oc).
      + destruct (assoc k attrs') as [c|] eqn:Ak; [|discriminate].
        destruct (assoc_split k attrs' c Ak) as [a1 [a2 ->]].
        rewrite walk_coll, occ_attrs, flat_map_app in O. simpl in O.
        destruct (single_split _ _ _ _ O) as [E1 [Ec E2]].
        { intro N. unfold prefix_paths in N. apply map_eq_nil in N. apply (occ_in q) in Hw. rewrite N in Hw. contradiction. }
        assert (Oc : occ q (walk V c) = [(p ++ k0 :: rest, q)]).
        { destruct (occ q (walk V c)) as [|x [|y l]]; simpl in Ec; try discriminate.
          inversion Ec as [[Ex]]. destruct x as [px qx]. simpl in *. inversion Ex; subst. reflexivity. }
        rewrite class_of_coll.
        assert (Cc : class_of V q c = Some cls) by (apply (IH c cls ctor attrs k0 c0 rest q H A Pm Hin Oc)).
        destruct (existsb (fun kc : string * node => match snd kc with NPrior p0 => Nat.eqb p0 q | _ => false end)
                          (a1 ++ (k, c) :: a2)) eqn:Ex.
        * exfalso. apply existsb_exists in Ex. destruct Ex as [[k' c'] [Hkc Ep]]. simpl in Ep.
          destruct c' as [p0| | | | | |]; try discriminate. apply Nat.eqb_eq in Ep. subst p0.
          apply in_app_or in Hkc. destruct Hkc as [Hkc|[Hkc|Hkc]].
          -- assert (X := flat_nil_children q a1 E1 (k', NPrior q) Hkc).
             apply in_split in Hkc. destruct Hkc as [l1 [l2 ->]]. rewrite flat_map_app in E1. simpl in E1.
             apply app_eq_nil in E1. destruct E1 as [_ E1]. unfold occ in E1. simpl in E1. rewrite Nat.eqb_refl in E1. discriminate.
          -- inversion Hkc; subst. destruct p; simpl in H; discriminate.
          -- apply in_split in Hkc. destruct Hkc as [l1 [l2 ->]]. rewrite flat_map_app in E2. simpl in E2.
             apply app_eq_nil in E2. destruct E2 as [_ E2]. unfold occ in E2. simpl in E2. rewrite Nat.eqb_refl in E2. discriminate.
        * apply cgo_at; [|exact Cc]. apply cgo_none. apply (flat_nil_children q a2 E2).
  Qed.

  Theorem config_own : forall p n cls ctor attrs k0 c0 rest q,
    node_at p n = Some (NModel cls ctor attrs) -> assoc k0 attrs = Some c0 -> is_pm V c0 = false ->
    In (rest, q) (walk V c0) ->
    occ q (walk V n) = [(p ++ k0 :: rest, q)] ->
    isdigit (last (k0 :: rest) "") = false ->
    class_of V q n = Some cls /\ last_path V q n = Some (p ++ k0 :: rest) /\
    cfg_name (p ++ k0 :: rest) = Ok (last (k0 :: rest) "").
  Proof.
    intros p n cls ctor attrs k0 c0 rest q H A Pm Hin O D.
    split; [apply (class_of_own p n cls ctor attrs k0 c0 rest q H A Pm Hin O)|]. split.
    - assert (Hq : In q (prior_ids V n)).
      { unfold prior_ids. apply in_map_iff. exists (p ++ k0 :: rest, q). split; [reflexivity|].
        apply (occ_in q). rewrite O. left. reflexivity. }
      destruct (last_path_some V q n Hq) as [p0 [E Hp0]]. rewrite E. f_equal.
      apply (occ_in q) in Hp0. rewrite O in Hp0. destruct Hp0 as [X|[]]. inversion X; subst. reflexivity.
    - unfold cfg_name.
      assert (L : last (p ++ k0 :: rest) "" = last (k0 :: rest) "").
      { clear. induction p as [|x p IH]; [reflexivity|]. simpl. destruct (p ++ k0 :: rest) eqn:E; [destruct p; discriminate|]. exact IH. }
      rewrite L, D. reflexivity.
  Qed.
End O.
