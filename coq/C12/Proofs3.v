(* C12: the passing modes that keep prior ids (mapper_from_prior_means, mapper_from_uniform_floats):
   structure, own value, totality, widths. Parametric in the value type and the arithmetic leaves. *)
From Coq Require Import List String Bool Arith PeanoNat Lia Permutation Sorted.
From PAFC01 Require Import ModelTree Sorting.
From PAFC01 Require Proofs Proofs2.
From PAFC12 Require Import Gen Model Lib Proofs Proofs2.
Import ListNotations.
Local Open Scope string_scope.
Local Open Scope list_scope.

(* ---------- association lists keyed by nat ---------- *)
Section Assoc.
  Context {B : Type}.

  Lemma lookup_nat_in (q : nat) (l : list (nat * B)) (v : B) : lookup_nat q l = Some v -> In (q, v) l.
  Proof.
    induction l as [|[k w] l IH]; simpl; [discriminate|].
    destruct (Nat.eqb_spec k q) as [->|_]; intro H.
    - inversion H; subst. left; reflexivity.
    - right. apply IH. exact H.
  Qed.

  Lemma lookup_nat_some (q : nat) (l : list (nat * B)) : In q (map fst l) <-> lookup_nat q l <> None.
  Proof.
    induction l as [|[k w] l IH]; simpl; [split; [intros []|intro H; apply H; reflexivity]|].
    destruct (Nat.eqb_spec k q) as [->|Hne].
    - split; [discriminate|intros _; left; reflexivity].
    - rewrite <- IH. split; [intros [E|H]; [contradiction|exact H]|intro H; right; exact H].
  Qed.

  Lemma lookup_nat_nth (l : list (nat * B)) (i : nat) (d : nat * B) :
    NoDup (map fst l) -> i < List.length l -> lookup_nat (fst (nth i l d)) l = Some (snd (nth i l d)).
  Proof.
    revert i. induction l as [|[k w] l IH]; intros i ND Hi; simpl in Hi; [lia|].
    simpl in ND. inversion ND as [|? ? Hnot ND']; subst.
    destruct i as [|i]; simpl.
    - rewrite Nat.eqb_refl. reflexivity.
    - destruct (Nat.eqb_spec k (fst (nth i l d))) as [E|_].
      + exfalso. apply Hnot. rewrite E. apply in_map. apply nth_In. lia.
      + apply IH; [exact ND'|lia].
  Qed.

  (* reading an association list back along its own keys returns it *)
  Lemma readback (l : list (nat * B)) : NoDup (map fst l) ->
    flat_map (fun q => match lookup_nat q l with Some s => [(q, s)] | None => [] end) (map fst l) = l.
  Proof.
    induction l as [|[k w] l IH]; intro ND; [reflexivity|].
    simpl in ND. inversion ND as [|? ? Hnot ND']; subst.
    cbn [map fst flat_map lookup_nat]. rewrite Nat.eqb_refl. simpl. f_equal.
    rewrite <- (IH ND') at 2. apply flat_map_ext_in.
    intros q Hq. destruct (Nat.eqb_spec k q) as [->|_]; [contradiction|reflexivity].
  Qed.
End Assoc.

Section P.
  Variable V : Type.
  Notation node := (node V).
  Variable abs_width : V -> V.
  Variable rel_width wm_rel : V -> V -> V.
  Variable wm_abs : V -> V.
  Variable uf_lo uf_hi pl_lo pl_hi gl_mean gl_sigma : V -> V -> V.
  Variable lu_lo lu_hi : V -> V.
  Variable lu_bad : V -> bool.
  Variable bad_limits : V -> V -> bool.
  Variable neg_sigma : V -> bool.
  Variable ninf pinf half : V.
  Variable cfg : config V.
  Variable specs : list (nat * spec V).

  Notation DM := (derive_mean V abs_width rel_width wm_rel wm_abs bad_limits neg_sigma ninf pinf half cfg specs).
  Notation DB := (derive_bounded V uf_lo uf_hi bad_limits).
  Notation PASS := (pass V abs_width rel_width wm_rel wm_abs uf_lo uf_hi pl_lo pl_hi gl_mean gl_sigma lu_lo lu_hi
                         lu_bad bad_limits neg_sigma ninf pinf half cfg specs).
  Notation MARGS := (mode_args V abs_width rel_width wm_rel wm_abs uf_lo uf_hi pl_lo pl_hi gl_mean gl_sigma lu_lo lu_hi
                               lu_bad bad_limits neg_sigma ninf pinf half cfg specs).

  (* entries (q, (q, s)): the new prior keeps the id of the prior it replaces *)
  Definition diag (a : arguments V) : Prop := Forall (fun e => fst (snd e) = fst e) a.

  Definition entry_ok (f : nat -> V -> res (spec V)) (q : nat) (m : V) (e : nat * (nat * spec V)) : Prop :=
    fst e = q /\ fst (snd e) = q /\ f q m = Ok (snd (snd e)).

  (* ---------- zip_derive / index_derive ---------- *)
  Lemma zip_derive_spec (f : nat -> V -> res (spec V)) : forall ids ms a,
    zip_derive V f ids ms = Ok a ->
    List.length a = Nat.min (List.length ids) (List.length ms) /\
    (forall i d dm de, i < List.length a -> entry_ok f (nth i ids d) (nth i ms dm) (nth i a de)).
  Proof.
    induction ids as [|q ids IH]; intros ms a E; simpl in E.
    - inversion E; subst. split; [reflexivity|]. intros i d dm de Hi. simpl in Hi. lia.
    - destruct ms as [|m ms]; [inversion E; subst; split; [reflexivity|intros i d dm de Hi; simpl in Hi; lia]|].
      destruct (f q m) as [s|e] eqn:Ef; [|discriminate].
      destruct (zip_derive V f ids ms) as [rest|e] eqn:Er; [|discriminate].
      inversion E; subst. destruct (IH ms rest Er) as [L N]. split; [simpl; rewrite L; reflexivity|].
      intros i d dm de Hi. destruct i as [|i]; simpl.
      + unfold entry_ok. simpl. auto.
      + apply N. simpl in Hi. lia.
  Qed.

  Lemma index_derive_spec (f : nat -> V -> res (spec V)) : forall ids ms a,
    index_derive V f ids ms = Ok a ->
    List.length a = List.length ids /\ List.length ids <= List.length ms /\
    (forall i d dm de, i < List.length a -> entry_ok f (nth i ids d) (nth i ms dm) (nth i a de)).
  Proof.
    induction ids as [|q ids IH]; intros ms a E; simpl in E.
    - inversion E; subst. split; [reflexivity|]. split; [simpl; lia|]. intros i d dm de Hi. simpl in Hi. lia.
    - destruct ms as [|m ms]; [discriminate|].
      destruct (f q m) as [s|e] eqn:Ef; [|discriminate].
      destruct (index_derive V f ids ms) as [rest|e] eqn:Er; [|discriminate].
      inversion E; subst. destruct (IH ms rest Er) as [L [L2 N]].
      split; [simpl; rewrite L; reflexivity|]. split; [simpl; lia|].
      intros i d dm de Hi. destruct i as [|i]; simpl.
      + unfold entry_ok. simpl. auto.
      + apply N. simpl in Hi. lia.
  Qed.

  Lemma zip_derive_total (f : nat -> V -> res (spec V)) (d : nat) (dm : V) : forall ids ms,
    (forall i, i < List.length ids -> i < List.length ms -> exists s, f (nth i ids d) (nth i ms dm) = Ok s) ->
    exists a, zip_derive V f ids ms = Ok a.
  Proof.
    induction ids as [|q ids IH]; intros ms H; simpl; [eexists; reflexivity|].
    destruct ms as [|m ms]; [eexists; reflexivity|].
    destruct (H 0) as [s Es]; [simpl; lia|simpl; lia|]. simpl in Es. rewrite Es.
    destruct (IH ms) as [rest Er].
    - intros i Hi Hm. apply (H (S i)); simpl; lia.
    - rewrite Er. eexists; reflexivity.
  Qed.

  Lemma index_derive_total (f : nat -> V -> res (spec V)) (d : nat) (dm : V) : forall ids ms,
    List.length ids <= List.length ms ->
    (forall i, i < List.length ids -> exists s, f (nth i ids d) (nth i ms dm) = Ok s) ->
    exists a, index_derive V f ids ms = Ok a.
  Proof.
    induction ids as [|q ids IH]; intros ms L H; simpl; [eexists; reflexivity|].
    destruct ms as [|m ms]; [simpl in L; lia|].
    destruct (H 0) as [s Es]; [simpl; lia|]. simpl in Es. rewrite Es.
    destruct (IH ms) as [rest Er].
    - simpl in L. lia.
    - intros i Hi. apply (H (S i)); simpl; lia.
    - rewrite Er. eexists; reflexivity.
  Qed.

  (* a list of entries that follows ids position by position *)
  Definition follows (f : nat -> V -> res (spec V)) (ids : list nat) (ms : list V) (a : arguments V) : Prop :=
    List.length a <= List.length ids /\ forall i d dm de, i < List.length a -> entry_ok f (nth i ids d) (nth i ms dm) (nth i a de).

  Lemma follows_keys f ids ms a : follows f ids ms a -> map fst a = firstn (List.length a) ids.
  Proof.
    intros [L N]. apply (nth_ext _ _ 0 0).
    - rewrite map_length, firstn_length. lia.
    - intros i Hi. rewrite map_length in Hi.
      rewrite (nth_indep _ 0 (fst (0, (0, Build_spec V FUniform ninf ninf ninf ninf None)))) by (rewrite map_length; exact Hi).
      rewrite map_nth. destruct (N i 0 ninf (0, (0, Build_spec V FUniform ninf ninf ninf ninf None)) Hi) as [E _].
      rewrite E. rewrite nth_firstn_lt by exact Hi. reflexivity.
  Qed.

  Lemma follows_diag f ids ms a : follows f ids ms a -> diag a.
  Proof.
    intros [L N]. unfold diag. apply Forall_forall. intros e He.
    destruct (In_nth _ _ e He) as [i [Hi Ei]]. destruct (N i 0 ninf e Hi) as [E1 [E2 _]].
    rewrite Ei in E1, E2. congruence.
  Qed.

  Lemma diag_sigma (a : arguments V) (q q' : nat) : diag a -> sigma_of V a q = Some q' -> q' = q.
  Proof.
    intros D H. unfold sigma_of in H. destruct (lookup_nat q a) as [[k s]|] eqn:E; [|discriminate].
    simpl in H. inversion H; subst. apply lookup_nat_in in E.
    unfold diag in D. rewrite Forall_forall in D. apply (D _ E).
  Qed.

  Lemma diag_sd (a : arguments V) (q : nat) : diag a -> sd (sigma_of V a) q = q.
  Proof.
    intro D. unfold sd. destruct (sigma_of V a q) as [q'|] eqn:E; [|reflexivity]. apply (diag_sigma a q q' D E).
  Qed.

  (* ---------- structure: nothing but the priors changes ---------- *)
  Lemma rebuild_diag (a : arguments V) (n n' : node) :
    wf V n -> diag a -> rebuild V (sigma_of V a) n = Some n' -> walk V n' = walk V n.
  Proof.
    intros W D E. rewrite (rebuild_walk V (sigma_of V a) n W n' E).
    unfold ren_walk. rewrite <- (map_id (walk V n)) at 2. apply map_ext.
    intros [p q]. simpl. rewrite (diag_sd a q D). reflexivity.
  Qed.

  Definition keeps_ids (md : mode V) : Prop :=
    match md with MMeans _ _ _ _ | MBounded _ _ => True | _ => False end.

  Lemma mode_args_follows (md : mode V) (n : node) (a : arguments V) :
    keeps_ids md -> MARGS md n = Ok a ->
    exists f ms, follows f (ordered_ids V n) ms a /\
                 match md with
                 | MMeans a' r nl means => f = DM a' r nl n /\ ms = means
                 | MBounded b floats => f = DB b /\ ms = floats
                 | _ => False
                 end.
  Proof.
    intros K E. destruct md as [a' r nl means|b floats|? ?|?]; try contradiction; simpl in E.
    - exists (DM a' r nl n), means. split; [|split; reflexivity].
      destruct (zip_derive_spec _ _ _ _ E) as [L N]. split; [rewrite L; lia|exact N].
    - exists (DB b), floats. split; [|split; reflexivity].
      destruct (index_derive_spec _ _ _ _ E) as [L [_ N]]. split; [rewrite L; lia|exact N].
  Qed.

  Lemma same_walk_same_queries (n n' : node) : walk V n' = walk V n ->
    paths V n' = paths V n /\ unique_prior_paths V n' = unique_prior_paths V n /\
    ordered_ids V n' = ordered_ids V n /\ prior_count V n' = prior_count V n.
  Proof.
    intro E. unfold paths, path_priors, unique_prior_paths, unique_path_priors, path_priors, ordered_ids,
      prior_count, unique_priors. rewrite E. repeat split; reflexivity.
  Qed.

  Theorem structure_kept (md : mode V) (n n' : node) (sp : list (nat * spec V)) :
    wf V n -> keeps_ids md -> PASS md n = Ok (n', sp) ->
    walk V n' = walk V n /\ paths V n' = paths V n /\ unique_prior_paths V n' = unique_prior_paths V n /\
    ordered_ids V n' = ordered_ids V n /\ prior_count V n' = prior_count V n.
  Proof.
    intros W K E. unfold pass in E. destruct (MARGS md n) as [a|e] eqn:Ea; [|discriminate].
    destruct (rebuild V (sigma_of V a) n) as [n1|] eqn:Er; [|discriminate]. inversion E; subst.
    destruct (mode_args_follows md n a K Ea) as [f [ms [F _]]].
    assert (Wk : walk V n' = walk V n) by (apply (rebuild_diag a n n' W (follows_diag _ _ _ _ F) Er)).
    split; [exact Wk|]. apply same_walk_same_queries. exact Wk.
  Qed.

  (* ---------- own value: the i-th parameter's new prior is derived from the i-th value ---------- *)
  Lemma covered_full (f : nat -> V -> res (spec V)) (ids : list nat) (ms : list V) (a : arguments V) :
    follows f ids ms a -> NoDup ids -> (forall q, In q ids -> In q (map fst a)) -> List.length a = List.length ids.
  Proof.
    intros F ND C. assert (K := follows_keys _ _ _ _ F). destruct F as [L _].
    apply nodup_prefix_cover; [exact ND|exact L|]. intros q Hq. rewrite <- K. apply C. exact Hq.
  Qed.

  Lemma pass_kept_specs (md : mode V) (n n' : node) (sp : list (nat * spec V)) :
    wf V n -> keeps_ids md -> PASS md n = Ok (n', sp) ->
    exists a f ms, MARGS md n = Ok a /\ follows f (ordered_ids V n) ms a /\ List.length a = prior_count V n /\
                   sp = map snd a /\
                   match md with
                   | MMeans a' r nl means => f = DM a' r nl n /\ ms = means
                   | MBounded b floats => f = DB b /\ ms = floats
                   | _ => False
                   end.
  Proof.
    intros W K E. destruct (structure_kept md n n' sp W K E) as [_ [_ [_ [Eids _]]]].
    unfold pass in E. destruct (MARGS md n) as [a|e] eqn:Ea; [|discriminate].
    destruct (rebuild V (sigma_of V a) n) as [n1|] eqn:Er; [|discriminate]. inversion E; subst.
    destruct (mode_args_follows md n a K Ea) as [f [ms [F M]]].
    exists a, f, ms. split; [reflexivity|]. split; [exact F|].
    assert (D := follows_diag _ _ _ _ F).
    assert (Len : List.length a = List.length (ordered_ids V n)).
    { apply (covered_full f _ ms a F (PAFC01.Proofs2.ordered_ids_nodup V n)).
      intros q Hq. apply PAFC01.Proofs2.ordered_ids_in in Hq.
      assert (X := rebuild_defined V (sigma_of V a) n W n' Er q Hq).
      unfold sigma_of in X. apply lookup_nat_some. intro Y. apply X. rewrite Y. reflexivity. }
    split; [rewrite Len; apply PAFC01.Proofs2.ordered_ids_length|]. split; [|exact M].
    unfold new_specs. rewrite Eids.
    assert (Keys : map fst (map snd a) = ordered_ids V n).
    { rewrite map_map. rewrite <- (firstn_all (ordered_ids V n)). rewrite <- Len.
      rewrite <- (follows_keys _ _ _ _ F). apply map_ext_in. intros e He.
      unfold diag in D. rewrite Forall_forall in D. apply (D e He). }
    rewrite <- Keys. apply readback. rewrite Keys. apply PAFC01.Proofs2.ordered_ids_nodup.
  Qed.

  Theorem own_value (a' r : option V) (nl : bool) (means : list V) (n n' : node) (sp : list (nat * spec V)) :
    wf V n -> PASS (MMeans a' r nl means) n = Ok (n', sp) ->
    map fst sp = ordered_ids V n /\ prior_count V n <= List.length means /\
    forall i d dm, i < prior_count V n ->
      exists s, nth_error sp i = Some (nth i (ordered_ids V n) d, s) /\
                DM a' r nl n (nth i (ordered_ids V n) d) (nth i means dm) = Ok s.
  Proof.
    intros W E. destruct (pass_kept_specs (MMeans a' r nl means) n n' sp W I E) as [a [f [ms [Ea [F [Len [Esp [Ef Ems]]]]]]]]. subst f ms.
    assert (L2 : List.length a = Nat.min (List.length (ordered_ids V n)) (List.length means)) by (simpl in Ea; apply (zip_derive_spec _ _ _ _ Ea)).
    rewrite PAFC01.Proofs2.ordered_ids_length in L2.
    split; [|split; [lia|]].
    - subst sp. rewrite map_map. rewrite <- (firstn_all (ordered_ids V n)).
      rewrite PAFC01.Proofs2.ordered_ids_length, <- Len. rewrite <- (follows_keys _ _ _ _ F).
      apply map_ext_in. intros e He. assert (D := follows_diag _ _ _ _ F). unfold diag in D. rewrite Forall_forall in D. apply (D e He).
    - intros i d dm Hi. destruct F as [_ N].
      set (de := (0, (0, Build_spec V FUniform ninf ninf ninf ninf None))).
      assert (Hi' : i < List.length a) by lia. destruct (N i d dm de Hi') as [E1 [E2 E3]].
      exists (snd (snd (nth i a de))). split; [|exact E3].
      subst sp. rewrite nth_error_map. rewrite (nth_error_nth' a de Hi'). simpl.
      rewrite (surjective_pairing (snd (nth i a de))). rewrite E2. reflexivity.
  Qed.

  Theorem own_value_bounded (b : V) (floats : list V) (n n' : node) (sp : list (nat * spec V)) :
    wf V n -> PASS (MBounded b floats) n = Ok (n', sp) ->
    map fst sp = ordered_ids V n /\ prior_count V n <= List.length floats /\
    forall i d dm, i < prior_count V n ->
      exists s, nth_error sp i = Some (nth i (ordered_ids V n) d, s) /\
                DB b (nth i (ordered_ids V n) d) (nth i floats dm) = Ok s.
  Proof.
    intros W E. destruct (pass_kept_specs (MBounded b floats) n n' sp W I E) as [a [f [ms [Ea [F [Len [Esp [Ef Ems]]]]]]]]. subst f ms.
    assert (L2 : List.length (ordered_ids V n) <= List.length floats) by (simpl in Ea; apply (index_derive_spec _ _ _ _ Ea)).
    rewrite PAFC01.Proofs2.ordered_ids_length in L2.
    split; [|split; [lia|]].
    - subst sp. rewrite map_map. rewrite <- (firstn_all (ordered_ids V n)).
      rewrite PAFC01.Proofs2.ordered_ids_length, <- Len. rewrite <- (follows_keys _ _ _ _ F).
      apply map_ext_in. intros e He. assert (D := follows_diag _ _ _ _ F). unfold diag in D. rewrite Forall_forall in D. apply (D e He).
    - intros i d dm Hi. destruct F as [_ N].
      set (de := (0, (0, Build_spec V FUniform ninf ninf ninf ninf None))).
      assert (Hi' : i < List.length a) by lia. destruct (N i d dm de Hi') as [E1 [E2 E3]].
      exists (snd (snd (nth i a de))). split; [|exact E3].
      subst sp. rewrite nth_error_map. rewrite (nth_error_nth' a de Hi'). simpl.
      rewrite (surjective_pairing (snd (nth i a de))). rewrite E2. reflexivity.
  Qed.

  (* what a derived prior looks like: centred on the value it was derived from, never a negative width *)
  Lemma derive_mean_shape (a' r : option V) (nl : bool) (n : node) (q : nat) (m : V) (s : spec V) :
    DM a' r nl n q m = Ok s ->
    s_fam V s = FGaussian /\ s_mean V s = m /\ neg_sigma (s_sigma V s) = false /\
    bad_limits (s_lo V s) (s_hi V s) = false /\
    (exists old, lookup_nat q specs = Some old /\ s_wm V s = s_wm V old) /\
    (forall x, a' = Some x -> s_sigma V s = abs_width x) /\
    (forall x, a' = None -> r = Some x -> s_sigma V s = rel_width x m) /\
    (nl = true -> s_lo V s = ninf /\ s_hi V s = pinf).
  Proof.
    unfold derive_mean. intro E.
    destruct (lookup_class V q n) as [cls|]; [|discriminate].
    destruct (last_path V q n) as [p|]; [|discriminate].
    destruct (cfg_name p) as [name|e]; [|discriminate].
    destruct (lookup_nat q specs) as [old|]; [|discriminate].
    destruct a' as [x|]; destruct r as [y|]; try discriminate; cbv beta iota zeta in E.
    all: match type of E with (if neg_sigma ?w then _ else _) = _ => destruct (neg_sigma w) eqn:Ns; [discriminate|] end.
    all: match type of E with (if bad_limits ?l ?h then _ else _) = _ => destruct (bad_limits l h) eqn:Bl; [discriminate|] end.
    all: inversion E; subst; clear E; cbn [s_fam s_mean s_sigma s_lo s_hi s_wm].
    all: split; [reflexivity|]; split; [reflexivity|]; split; [exact Ns|]; split; [exact Bl|];
         split; [exists old; split; reflexivity|].
    all: split; [intros x0 Hx; try discriminate Hx; inversion Hx; subst; reflexivity|].
    all: split; [intros x0 Ha Hx; try discriminate Ha; try discriminate Hx; inversion Hx; subst; reflexivity|].
    all: intro Hn; rewrite Hn; simpl; split; reflexivity.
  Qed.

  Lemma derive_bounded_shape (b : V) (q : nat) (f : V) (s : spec V) :
    DB b q f = Ok s ->
    s_fam V s = FUniform /\ s_lo V s = uf_lo f b /\ s_hi V s = uf_hi f b /\ bad_limits (s_lo V s) (s_hi V s) = false.
  Proof.
    unfold derive_bounded. destruct (bad_limits (uf_lo f b) (uf_hi f b)) eqn:Bl; [discriminate|].
    intro E. inversion E; subst. simpl. auto.
  Qed.

  (* ---------- totality: the passing call succeeds when every single derivation does ---------- *)
  Lemma args_cover_rebuild (a : arguments V) (n : node) :
    wf V n -> map fst a = ordered_ids V n -> exists n', rebuild V (sigma_of V a) n = Some n'.
  Proof.
    intros W K. apply (rebuild_total V (sigma_of V a) n W).
    intros q Hq. apply PAFC01.Proofs2.ordered_ids_in in Hq. rewrite <- K in Hq.
    apply lookup_nat_some in Hq. unfold sigma_of. destruct (lookup_nat q a); [discriminate|contradiction].
  Qed.

  Theorem total_means (a' r : option V) (nl : bool) (means : list V) (n : node) :
    wf V n -> prior_count V n <= List.length means ->
    (forall i d dm, i < prior_count V n -> exists s, DM a' r nl n (nth i (ordered_ids V n) d) (nth i means dm) = Ok s) ->
    exists n' sp, PASS (MMeans a' r nl means) n = Ok (n', sp).
  Proof.
    intros W L H. rewrite <- PAFC01.Proofs2.ordered_ids_length in L, H.
    destruct (zip_derive_total (DM a' r nl n) 0 ninf (ordered_ids V n) means) as [a Ea].
    { intros i Hi _. apply H. exact Hi. }
    destruct (zip_derive_spec _ _ _ _ Ea) as [La N].
    assert (F : follows (DM a' r nl n) (ordered_ids V n) means a) by (split; [lia|exact N]).
    assert (K : map fst a = ordered_ids V n).
    { rewrite (follows_keys _ _ _ _ F). rewrite La, Nat.min_l by lia. apply firstn_all. }
    destruct (args_cover_rebuild a n W K) as [n' Er].
    unfold pass. simpl. rewrite Ea, Er. eexists; eexists; reflexivity.
  Qed.

  Theorem total_bounded (b : V) (floats : list V) (n : node) :
    wf V n -> prior_count V n <= List.length floats ->
    (forall i dm, i < prior_count V n -> bad_limits (uf_lo (nth i floats dm) b) (uf_hi (nth i floats dm) b) = false) ->
    exists n' sp, PASS (MBounded b floats) n = Ok (n', sp).
  Proof.
    intros W L H. rewrite <- PAFC01.Proofs2.ordered_ids_length in L, H.
    destruct (index_derive_total (DB b) 0 ninf (ordered_ids V n) floats L) as [a Ea].
    { intros i Hi. unfold derive_bounded. rewrite (H i ninf Hi). eexists; reflexivity. }
    destruct (index_derive_spec _ _ _ _ Ea) as [La [_ N]].
    assert (F : follows (DB b) (ordered_ids V n) floats a) by (split; [lia|exact N]).
    assert (K : map fst a = ordered_ids V n).
    { rewrite (follows_keys _ _ _ _ F). rewrite La. apply firstn_all. }
    destruct (args_cover_rebuild a n W K) as [n' Er].
    unfold pass. simpl. rewrite Ea, Er. eexists; eexists; reflexivity.
  Qed.

  (* ---------- never a negative width: every Gaussian the passing produces has sigma >= 0 ---------- *)
  Theorem width_nonneg (a' r : option V) (nl : bool) (means : list V) (n n' : node) (sp : list (nat * spec V)) :
    wf V n -> PASS (MMeans a' r nl means) n = Ok (n', sp) ->
    forall q s, In (q, s) sp -> s_fam V s = FGaussian /\ neg_sigma (s_sigma V s) = false /\ bad_limits (s_lo V s) (s_hi V s) = false.
  Proof.
    intros W E q s Hin. destruct (own_value a' r nl means n n' sp W E) as [K [L N]].
    destruct (In_nth_error _ _ Hin) as [i Hi].
    assert (Hlt : i < prior_count V n).
    { rewrite <- PAFC01.Proofs2.ordered_ids_length, <- K, map_length. apply nth_error_Some. rewrite Hi. discriminate. }
    destruct (N i 0 ninf Hlt) as [s' [E1 E2]]. rewrite Hi in E1. inversion E1; subst.
    destruct (derive_mean_shape _ _ _ _ _ _ _ E2) as [A [_ [B [C _]]]]. auto.
  Qed.
End P.
