(* C12 model of the samples summary as a STATEFUL object (results hand their summary to prior passing):
     SamplesInterface.paths (cache `_paths`), .instance (cache `_instance`)        -> the_paths / instance
     SamplesInterface.max_log_likelihood(as_instance=False), .prior_means          -> max_vector / means_vector
     Sample.parameter_lists_for_paths, Sample.subsample                            -> param_list / subsample
     AbstractPriorModel.all_paths, SamplesInterface.path_map_for_model             -> all_paths / path_map
     SamplesSummary.subsamples (child results of IndexCollectionAnalysis / FreeParameterAnalysis.make_result) -> subsamples
   Faithful to the code that exists: since 4da3fbc (proposed_fixes/C12-subsamples-resets-instance.diff) subsamples resets
   `_paths`, `_names` and `_instance` of the copy.  `resets = false` is the behaviour before the repair (the copy kept the
   parent's `_instance`: finding subsamples-keeps-parent-instance), kept for the legacy witness. *)
From Coq Require Import List String Bool Arith PeanoNat.
From Coq Require Import Floats.PrimFloat.
From PAFCommon Require Import PyFloat.
From PAFC01 Require Import ModelTree Model.
Import ListNotations.
Local Open Scope list_scope.

Section Summary.
  Variable V : Type.
  Variable bin : binop -> V -> V -> V.
  Variable un : unop -> V -> V.
  Variable resets : bool.                        (* subsamples resets `_instance` of the copy (4da3fbc) *)
  Notation node := (node V).

  Definition kwargs := list (path * V).          (* Sample.kwargs: the first entry of a key is the live one *)
  Definition groups := list (list path).         (* all_paths: every path of each prior, priors in id order *)

  Fixpoint kw_get (p : path) (kw : kwargs) : option V :=
    match kw with
    | [] => None
    | (k, v) :: kw' => if path_eqb p k then Some v else kw_get p kw'
    end.

  (* for keys in paths: the first key found in kwargs; KeyError (None) when there is none *)
  Fixpoint first_found (g : list path) (kw : kwargs) : option V :=
    match g with
    | [] => None
    | p :: g' => match kw_get p kw with Some v => Some v | None => first_found g' kw end
    end.

  Fixpoint param_list (gs : groups) (kw : kwargs) : option (list V) :=
    match gs with
    | [] => Some []
    | g :: gs' => match first_found g kw, param_list gs' kw with
                  | Some v, Some r => Some (v :: r)
                  | _, _ => None
                  end
    end.

  Definition paths_of (q : nat) (n : node) : list path :=
    map fst (filter (fun pp => Nat.eqb (snd pp) q) (path_priors V n)).

  Definition all_paths (n : node) : groups := map (fun q => paths_of q n) (ordered_ids V n).

  (* {tuple(parent.all_paths_for_prior(prior)): path for path, prior in child.path_priors_tuples}: one entry per
     distinct key, position of the first, value of the last *)
  Fixpoint gset (k : list path) (v : path) (d : list (list path * path)) : list (list path * path) :=
    match d with
    | [] => [(k, v)]
    | (k', v') :: d' => if list_eqb path_eqb k k' then (k', v) :: d' else (k', v') :: gset k v d'
    end.

  Definition path_map (parent child : node) : list (list path * path) :=
    fold_left (fun d pq => gset (rev (paths_of (snd pq) parent)) (fst pq) d) (path_priors V child) [].

  (* Sample.subsample: arg_dict[new_path] = kwargs[first path of the group found]; KeyError when none is found.
     Later entries are put in front: a lookup finds the last value set for a key, as in a dict *)
  Definition subsample (pm : list (list path * path)) (kw : kwargs) : option kwargs :=
    fold_left (fun acc gp => match acc, first_found (fst gp) kw with
                             | Some a, Some v => Some ((snd gp, v) :: a)
                             | _, _ => None
                             end) pm (Some []).

  Record summary := {
    sm_model : node;
    sm_max : kwargs;                    (* max_log_likelihood_sample *)
    sm_med : option kwargs;             (* median_pdf_sample *)
    sm_paths : option groups;           (* _paths *)
    sm_inst : option (ival V)           (* _instance *)
  }.

  Definition fresh (n : node) (mx : kwargs) (md : option kwargs) : summary :=
    {| sm_model := n; sm_max := mx; sm_med := md; sm_paths := None; sm_inst := None |}.

  Definition the_paths (s : summary) : groups :=
    match sm_paths s with Some g => g | None => all_paths (sm_model s) end.

  (* any read that goes through self.paths leaves the cache filled *)
  Definition fill (s : summary) : summary :=
    {| sm_model := sm_model s; sm_max := sm_max s; sm_med := sm_med s; sm_paths := Some (the_paths s); sm_inst := sm_inst s |}.

  Definition max_vector (s : summary) : option (list V) := param_list (the_paths s) (sm_max s).

  (* prior_means: the median sample when there is one, the best sample otherwise *)
  Definition means_vector (s : summary) : option (list V) :=
    match sm_med s with
    | Some kw => param_list (the_paths s) kw
    | None => max_vector s
    end.

  Definition instance_value (s : summary) : option (ival V) :=
    match sm_inst s with
    | Some i => Some i
    | None => option_map (inst_from_vector V bin un (sm_model s)) (max_vector s)
    end.

  Definition read_instance (s : summary) : summary :=
    {| sm_model := sm_model s; sm_max := sm_max s; sm_med := sm_med s; sm_paths := Some (the_paths s);
       sm_inst := instance_value s |}.

  Definition subsamples (s : summary) (child : node) : option summary :=
    let pm := path_map (sm_model s) child in
    match subsample pm (sm_max s),
          match sm_med s with None => Some None | Some kw => option_map Some (subsample pm kw) end with
    | Some mx, Some md =>
        Some {| sm_model := child; sm_max := mx; sm_med := md; sm_paths := None;
                sm_inst := if resets then None else sm_inst s |}
    | _, _ => None
    end.

  Inductive op := ORead | OInstance | OSub (child : node).

  Definition is_read (o : op) : Prop := match o with OSub _ => False | _ => True end.
  Definition is_vector_read (o : op) : Prop := match o with ORead => True | _ => False end.

  Fixpoint run (ops : list op) (s : summary) : option summary :=
    match ops with
    | [] => Some s
    | ORead :: ops' => run ops' (fill s)
    | OInstance :: ops' => run ops' (read_instance s)
    | OSub child :: ops' => match subsamples s child with Some c => run ops' c | None => None end
    end.

  Lemma run_app : forall ops1 ops2 x,
    run (ops1 ++ ops2) x = match run ops1 x with Some y => run ops2 y | None => None end.
  Proof.
    induction ops1 as [|o ops1 IH]; intros ops2 x; simpl; [reflexivity|].
    destruct o as [| |ch]; try apply IH. destruct (subsamples x ch); [apply IH | reflexivity].
  Qed.

  (* ---------------------------------------------------------------------------------------- *)
  (* the cache invariant and what follows from it                                               *)
  (* ---------------------------------------------------------------------------------------- *)
  Definition coherent (s : summary) : Prop :=
    sm_paths s = None \/ sm_paths s = Some (all_paths (sm_model s)).

  Lemma coherent_paths : forall s, coherent s -> the_paths s = all_paths (sm_model s).
  Proof.
    intros s [H | H]; unfold the_paths; rewrite H; reflexivity.
  Qed.

  Lemma fresh_coherent : forall n mx md, coherent (fresh n mx md).
  Proof. intros; left; reflexivity. Qed.

  Lemma fill_coherent : forall s, coherent s -> coherent (fill s).
  Proof. intros s H; right; simpl; rewrite (coherent_paths s H); reflexivity. Qed.

  Lemma read_instance_coherent : forall s, coherent s -> coherent (read_instance s).
  Proof. intros s H; right; simpl; rewrite (coherent_paths s H); reflexivity. Qed.

  Lemma subsamples_coherent : forall s child c, subsamples s child = Some c -> coherent c /\ sm_model c = child.
  Proof.
    intros s child c H. unfold subsamples in H.
    destruct (subsample (path_map (sm_model s) child) (sm_max s)) as [mx|]; [|discriminate].
    destruct (match sm_med s with None => Some None | Some kw => option_map Some (subsample (path_map (sm_model s) child) kw) end)
      as [md|]; [|discriminate].
    inversion H; subst; split; [left|]; reflexivity.
  Qed.

  (* every summary reached from a coherent one - by reads and by making children, in any order - is coherent *)
  Lemma run_coherent : forall ops s s', coherent s -> run ops s = Some s' -> coherent s'.
  Proof.
    induction ops as [|o ops IH]; intros s s' Hc Hr; simpl in Hr.
    - inversion Hr; subst; exact Hc.
    - destruct o as [| |child].
      + apply (IH (fill s)); [apply fill_coherent; exact Hc | exact Hr].
      + apply (IH (read_instance s)); [apply read_instance_coherent; exact Hc | exact Hr].
      + destruct (subsamples s child) as [c|] eqn:Hs; [|discriminate].
        apply (IH c); [apply (subsamples_coherent s child c Hs) | exact Hr].
  Qed.

  (* what a coherent summary answers depends on its model and samples only *)
  Lemma coherent_vectors : forall s, coherent s ->
    max_vector s = param_list (all_paths (sm_model s)) (sm_max s) /\
    means_vector s = match sm_med s with
                     | Some kw => param_list (all_paths (sm_model s)) kw
                     | None => param_list (all_paths (sm_model s)) (sm_max s)
                     end.
  Proof.
    intros s H. unfold means_vector, max_vector. rewrite (coherent_paths s H).
    split; [reflexivity | destruct (sm_med s); reflexivity].
  Qed.

  (* reads change neither the model nor the samples *)
  Lemma reads_keep : forall ops s s', Forall is_read ops -> run ops s = Some s' ->
    sm_model s' = sm_model s /\ sm_max s' = sm_max s /\ sm_med s' = sm_med s.
  Proof.
    induction ops as [|o ops IH]; intros s s' Hf Hr; simpl in Hr.
    - inversion Hr; subst; repeat split.
    - inversion Hf as [|o' ops' Ho Hf']; subst.
      destruct o as [| |child]; [| |destruct Ho].
      + destruct (IH (fill s) s' Hf' Hr) as (A & B & C); simpl in *; repeat split; assumption.
      + destruct (IH (read_instance s) s' Hf' Hr) as (A & B & C); simpl in *; repeat split; assumption.
  Qed.

  Lemma reads_total : forall ops s, Forall is_read ops -> exists s', run ops s = Some s'.
  Proof.
    induction ops as [|o ops IH]; intros s Hf; simpl.
    - eexists; reflexivity.
    - inversion Hf as [|o' ops' Ho Hf']; subst.
      destruct o as [| |child]; [apply IH; exact Hf' | apply IH; exact Hf' | destruct Ho].
  Qed.

  Lemma subsamples_samples : forall s1 s2 child c1,
    sm_model s1 = sm_model s2 -> sm_max s1 = sm_max s2 -> sm_med s1 = sm_med s2 -> subsamples s1 child = Some c1 ->
    exists c2, subsamples s2 child = Some c2 /\ sm_model c2 = sm_model c1 /\ sm_max c2 = sm_max c1 /\ sm_med c2 = sm_med c1.
  Proof.
    intros s1 s2 child c1 Hm Hx Hd H. unfold subsamples in *. rewrite <- Hm, <- Hx, <- Hd.
    destruct (subsample (path_map (sm_model s1) child) (sm_max s1)) as [mx|]; [|discriminate].
    destruct (match sm_med s1 with None => Some None | Some kw => option_map Some (subsample (path_map (sm_model s1) child) kw) end)
      as [md|]; [|discriminate].
    inversion H; subst. eexists; split; [reflexivity|]. simpl. repeat split.
  Qed.

  (* HISTORY IS IRRELEVANT.  Whatever was read from the parent before its child is made, and from the child
     afterwards, the child answers with the vectors of the child made first thing from the untouched parent. *)
  Lemma history_irrelevant : forall s before child after c c0,
    coherent s -> Forall is_read before -> Forall is_read after ->
    run (before ++ OSub child :: after) s = Some c -> subsamples s child = Some c0 ->
    sm_model c = child /\ max_vector c = max_vector c0 /\ means_vector c = means_vector c0.
  Proof.
    intros s before child after c c0 Hc Hb Ha Hr H0.
    destruct (reads_total before s Hb) as [s1 H1].
    rewrite run_app, H1 in Hr. simpl in Hr.
    destruct (reads_keep before s s1 Hb H1) as (Km & Kx & Kd).
    destruct (subsamples_samples s s1 child c0 (eq_sym Km) (eq_sym Kx) (eq_sym Kd) H0) as (c1 & Hs1 & Lm & Lx & Ld).
    rewrite Hs1 in Hr.
    destruct (subsamples_coherent s1 child c1 Hs1) as [Hc1 Hm1].
    destruct (subsamples_coherent s child c0 H0) as [Hc0 Hm0].
    destruct (reads_keep after c1 c Ha Hr) as (Mm & Mx & Md).
    pose proof (run_coherent after c1 c Hc1 Hr) as Hcc.
    destruct (coherent_vectors c Hcc) as [V1 V2]. destruct (coherent_vectors c0 Hc0) as [W1 W2].
    rewrite V1, V2, W1, W2, Mm, Mx, Md, Lm, Lx, Ld.
    split; [rewrite <- Hm1, <- Lm in *; congruence | split; reflexivity].
  Qed.

  (* ---------------------------------------------------------------------------------------- *)
  (* the instance cache                                                                         *)
  (* ---------------------------------------------------------------------------------------- *)
  (* a cached instance is the summary's own model at the summary's own best-fit vector *)
  Definition inst_ok (s : summary) : Prop :=
    forall i, sm_inst s = Some i -> option_map (inst_from_vector V bin un (sm_model s)) (max_vector s) = Some i.

  Lemma fill_vector : forall s, max_vector (fill s) = max_vector s.
  Proof. intros s. reflexivity. Qed.

  Lemma read_instance_vector : forall s, max_vector (read_instance s) = max_vector s.
  Proof. intros s. reflexivity. Qed.

  Lemma fill_inst_ok : forall s, inst_ok s -> inst_ok (fill s).
  Proof.
    intros s H i Hi. change (sm_inst s = Some i) in Hi.
    change (option_map (inst_from_vector V bin un (sm_model s)) (max_vector (fill s)) = Some i).
    rewrite fill_vector. apply H; exact Hi.
  Qed.

  Lemma read_instance_inst_ok : forall s, inst_ok s -> inst_ok (read_instance s).
  Proof.
    intros s H i Hi. change (instance_value s = Some i) in Hi.
    change (option_map (inst_from_vector V bin un (sm_model s)) (max_vector (read_instance s)) = Some i).
    rewrite read_instance_vector. revert Hi. unfold instance_value.
    destruct (sm_inst s) as [j|] eqn:E; intro Hi.
    - inversion Hi; subst. apply H; exact E.
    - exact Hi.
  Qed.

  Lemma reads_inst_ok : forall ops s c, Forall is_read ops -> inst_ok s -> run ops s = Some c -> inst_ok c.
  Proof.
    induction ops as [|o ops IH]; intros s c Hf Hok Hr; simpl in Hr.
    - inversion Hr; subst; exact Hok.
    - inversion Hf as [|o' ops' Ho Hf']; subst.
      destruct o as [| |child]; [| |destruct Ho].
      + apply (IH (fill s)); [exact Hf' | apply fill_inst_ok; exact Hok | exact Hr].
      + apply (IH (read_instance s)); [exact Hf' | apply read_instance_inst_ok; exact Hok | exact Hr].
  Qed.

  Lemma inst_ok_value : forall s, inst_ok s ->
    instance_value s = option_map (inst_from_vector V bin un (sm_model s)) (max_vector s).
  Proof.
    intros s H. unfold instance_value.
    destruct (sm_inst s) as [i|] eqn:E; [symmetry; apply H; exact E | reflexivity].
  Qed.

  (* THE CHILD'S INSTANCE IS ITS OWN (full, for the code since 4da3fbc): whatever happened to the parent before - reads,
     instance reads, children of children - and whatever is read from the child afterwards, the child's instance is the
     child model at the child's own best-fit vector *)
  Lemma child_instance_own : resets = true -> forall s before child after c,
    Forall is_read after -> run (before ++ OSub child :: after) s = Some c ->
    instance_value c = option_map (inst_from_vector V bin un child) (max_vector c) /\ sm_model c = child.
  Proof.
    intros Hres s before child after c Ha Hr.
    rewrite run_app in Hr. destruct (run before s) as [s1|]; [|discriminate]. simpl in Hr.
    destruct (subsamples s1 child) as [c1|] eqn:Hs; [|discriminate].
    assert (Hok1 : inst_ok c1).
    { unfold subsamples in Hs.
      destruct (subsample (path_map (sm_model s1) child) (sm_max s1)); [|discriminate].
      destruct (match sm_med s1 with None => Some None | Some kw => option_map Some (subsample (path_map (sm_model s1) child) kw) end);
        [|discriminate].
      inversion Hs; subst. intros i Hi. simpl in Hi. rewrite Hres in Hi. discriminate. }
    destruct (subsamples_coherent s1 child c1 Hs) as [_ Hm1].
    destruct (reads_keep after c1 c Ha Hr) as (Mm & _ & _).
    pose proof (reads_inst_ok after c1 c Ha Hok1 Hr) as Hok.
    rewrite (inst_ok_value c Hok), Mm, Hm1. split; reflexivity.
  Qed.
End Summary.

(* ------------------------------------------------------------------------------------------ *)
(* correspondence: the vector a child summary returns after a history of reads                  *)
(* ------------------------------------------------------------------------------------------ *)
Inductive scase :=
| SCase (joint : node float) (kw : list (path * float))
        (pre_read pre_inst mid_read : bool)      (* parent read / parent.instance read before; intermediate child read *)
        (chain : list (node float))              (* the child models, each inside the previous one *)
        (vec : option (list float))              (* child.max_log_likelihood(as_instance=False); None = KeyError *)
        (inst : option (option (ival float))).   (* child.instance (Some None = raised); None = not compared *)

(* the variant of the code under test: SamplesSummary.subsamples resets `_instance` (4da3fbc); the harness checks the
   source on every run (obligation translator:subsamples-resets-instance) *)
Definition subsamples_resets_instance : bool := true.

Definition session_ops (pre_read pre_inst mid_read : bool) (chain : list (node float)) : list (op float) :=
  (if pre_read then [ORead float] else []) ++ (if pre_inst then [OInstance float] else []) ++
  match chain with
  | [] => []
  | c :: rest => OSub float c :: (if mid_read then [ORead float] else []) ++ map (OSub float) rest
  end.

Definition check_scase (c : scase) : bool :=
  match c with
  | SCase joint kw pre_read pre_inst mid_read chain vec inst =>
      let final := run float fbin funop subsamples_resets_instance (session_ops pre_read pre_inst mid_read chain)
                       (fresh float joint kw None) in
      let got := match final with Some s => max_vector float s | None => None end in
      match got, vec with
      | Some a, Some b => list_eqb fbits_eqb a b
      | None, None => true
      | _, _ => false
      end
      && match inst with
         | None => true
         | Some o =>
             match (match final with Some s => instance_value float fbin funop s | None => None end), o with
             | Some a, Some b => ival_eqb a b
             | None, None => true
             | _, _ => false
             end
         end
  end.

(* ------------------------------------------------------------------------------------------ *)
(* the finding: an instance cached on the parent travels to the child                           *)
(* ------------------------------------------------------------------------------------------ *)
Local Open Scope string_scope.

(* Collection(m = Model(G, centre = p0, sigma = p1), centre = p1, sigma = p0) *)
Definition wit_child : node nat :=
  NModel "G" ["centre"; "sigma"] [("centre", NPrior 0); ("sigma", NPrior 1)].
Definition wit_joint : node nat :=
  NColl [("m", wit_child); ("centre", NPrior 1); ("sigma", NPrior 0)].
Definition wit_kw : list (path * nat) := [(["m"; "centre"], 4); (["m"; "sigma"], 7)].
Definition wit_bin (o : binop) (a b : nat) : nat := a.
Definition wit_un (o : unop) (a : nat) : nat := a.

(* before 4da3fbc (resets = false) the statement of child_instance_own failed: *)
Lemma child_instance_legacy_refuted :
  exists (s : summary nat) (before : list (op nat)) (child : node nat) (after : list (op nat)) (c : summary nat),
    coherent nat s /\ sm_inst nat s = None /\ Forall (is_read nat) before /\ Forall (is_read nat) after /\
    run nat wit_bin wit_un false (before ++ OSub nat child :: after) s = Some c /\
    instance_value nat wit_bin wit_un c <> option_map (inst_from_vector nat wit_bin wit_un child) (max_vector nat c).
Proof.
  exists (fresh nat wit_joint wit_kw None), [OInstance nat], wit_child, [].
  eexists. split; [left; reflexivity|]. split; [reflexivity|].
  split; [repeat constructor|]. split; [constructor|].
  split; [vm_compute; reflexivity|].
  vm_compute. discriminate.
Qed.
