(* C12, since a8a9b5b (Model.v: own_place_class = true): with class and name of the configuration
   lookup taken from one place of the prior, EVERY prior -- shared or not -- held by a Model (directly or as a tuple
   member) is configured under the class of that Model and its own attribute / member name. *)
From Coq Require Import List String Bool Arith PeanoNat Lia ZArith QArith.
From PAFC01 Require Import ModelTree Sorting.
From PAFC01 Require Proofs Proofs2.
From PAFC12 Require Import Gen Model Lib Proofs Proofs3 Proofs5 Proofs9.
Import ListNotations.
Local Close Scope Q_scope.
Local Open Scope string_scope.
Local Open Scope list_scope.

Section H.
  Variable V : Type.
  Notation node := (node V).
  Notation node_at := (PAFC01.Proofs.node_at V).

  Lemma hgo_assoc k p' rest own (a : list (string * node)) (c : node) (x : string) :
    assoc k a = Some c -> hdown V p' rest own c = Some x -> hgo V k p' rest own a = Some x.
  Proof.
    induction a as [|[k' c'] a IH]; simpl; [discriminate|].
    destruct (String.eqb k k'); intros A D.
    - inversion A; subst. rewrite D. reflexivity.
    - apply IH; assumption.
  Qed.

  (* the holder of the place p ++ k0 :: rest is the Model found at the structural path p *)
  Theorem holder_class_own : forall p n cls ctor attrs k0 c0 rest,
    node_at p n = Some (NModel cls ctor attrs) -> assoc k0 attrs = Some c0 ->
    (rest = [] \/ (exists ms m, c0 = NTuple ms /\ rest = [m])) ->
    holder_class V (p ++ k0 :: rest) n = Some cls.
  Proof.
    induction p as [|k p IH]; intros n cls ctor attrs k0 c0 rest H A R.
    - simpl in H. inversion H; subst. simpl app. destruct R as [->|[ms [m [-> ->]]]]; [reflexivity|].
      rewrite holder_model. apply (hgo_assoc k0 [m] [] (Some cls) attrs (NTuple ms) cls A). reflexivity.
    - assert (Ne : exists x r, p ++ k0 :: rest = x :: r) by (destruct p; simpl; eexists; eexists; reflexivity).
      destruct Ne as [x [r Er]]. simpl app. rewrite Er.
      destruct n as [?|?|?|? ? ? ? ?|? ? ?|cls' ctor' attrs'|attrs']; simpl in H; try discriminate.
      + destruct (assoc k attrs') as [c|] eqn:Ak; [|discriminate]. rewrite holder_model.
        apply (hgo_assoc k (x :: r) r (Some cls') attrs' c cls Ak).
        assert (Hc := IH c cls ctor attrs k0 c0 rest H A R). rewrite Er in Hc.
        unfold hdown. destruct c; try exact Hc. destruct p; simpl in H; discriminate.
      + destruct (assoc k attrs') as [c|] eqn:Ak; [|discriminate]. rewrite holder_coll.
        apply (hgo_assoc k (x :: r) r (coll_own V (NColl attrs')) attrs' c cls Ak).
        assert (Hc := IH c cls ctor attrs k0 c0 rest H A R). rewrite Er in Hc.
        unfold hdown. destruct c; try exact Hc. destruct p; simpl in H; discriminate.
  Qed.
End H.

(* the shared prior of C12_config_own_legacy_refuted: its last place is KN.s, and the holder of that place is KN *)
Lemma config_one_place_example :
  last_path Q 0 ex_shared = Some ["s"] /\ holder_class Q ["s"] ex_shared = Some "KN" /\ cfg_name ["s"] = Ok "s" /\
  holder_class Q ["inner"; "a"] ex_shared = Some "K2".
Proof. repeat split; reflexivity. Qed.
