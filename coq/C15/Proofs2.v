(* C15 lemmas, part 2: the serial sum and the pool as a transition system.
   For every schedule (availability masks), every partition into processes and every history of
   evaluations, visualize calls and changes of n_cores, the answer of a call is the sum of the
   analyses on that instance (or the exception of one of the raising analyses) -- for /repo as it
   stands (`results` drains), and for the historical snapshot as long as no earlier call of the
   same pool raised. *)
From Coq Require Import ZArith List Bool Arith Lia.
From PAFC15 Require Import Model.
Import ListNotations.

(* ---------- list helpers ---------- *)
Lemma firstn_plus {B} (a b : nat) (l : list B) : firstn (a + b) l = firstn a l ++ firstn b (skipn a l).
Proof.
  revert l. induction a as [|a IH]; intro l; simpl; [reflexivity|].
  destruct l as [|x l]; simpl; [rewrite firstn_nil; reflexivity|]. rewrite IH. reflexivity.
Qed.

Lemma concat_chunks {B} (per np : nat) (l : list B) :
  concat (map (fun k => firstn per (skipn (k * per) l)) (seq 0 np)) = firstn (np * per) l.
Proof.
  induction np as [|np IH]; [reflexivity|].
  rewrite seq_S, map_app, concat_app, IH. simpl. rewrite app_nil_r.
  replace (per + np * per) with (np * per + per) by lia. rewrite firstn_plus. reflexivity.
Qed.

Lemma ceil_div_covers (n d : nat) : 1 <= d -> n <= d * ceil_div n d.
Proof.
  intro H. unfold ceil_div.
  assert (D : d <> 0) by lia.
  pose proof (Nat.div_mod (n + d - 1) d D) as E.
  pose proof (Nat.mod_upper_bound (n + d - 1) d D) as U.
  remember ((n + d - 1) / d) as q. remember ((n + d - 1) mod d) as r. clear Heqq Heqr. nia.
Qed.

(* ---------- measures on the queues ---------- *)
Definition rval (r : res) : Z := match r with RVal v => v | RExc _ => 0%Z end.
Definition rexc (r : res) : bool := match r with RExc _ => true | RVal _ => false end.
Definition qlen (qs : list (list res)) : nat := length (concat qs).
Definition qsum (qs : list (list res)) : Z := fold_right Z.add 0%Z (map rval (concat qs)).
Definition qexc (qs : list (list res)) : bool := existsb rexc (concat qs).
Definition is_some {B} (o : option B) : bool := match o with Some _ => true | None => false end.

Lemma qlen_cons q qs : qlen (q :: qs) = length q + qlen qs.
Proof. unfold qlen. simpl. apply app_length. Qed.
Lemma fold_add_app (a b : list Z) : fold_right Z.add 0%Z (a ++ b) = (fold_right Z.add 0 a + fold_right Z.add 0 b)%Z.
Proof. induction a as [|x a IH]; simpl; [reflexivity|]. rewrite IH. lia. Qed.
Lemma qsum_cons q qs : qsum (q :: qs) = (fold_right Z.add 0 (map rval q) + qsum qs)%Z.
Proof. unfold qsum. simpl. rewrite map_app, fold_add_app. reflexivity. Qed.
Lemma qexc_cons q qs : qexc (q :: qs) = existsb rexc q || qexc qs.
Proof. unfold qexc. simpl. apply existsb_app. Qed.
Lemma in_exc_true (k : nat) (l : list res) : In (RExc k) l -> existsb rexc l = true.
Proof. intro H. apply existsb_exists. exists (RExc k). auto. Qed.
Lemma qlen_zero (qs : list (list res)) : qlen qs = 0 -> concat qs = [].
Proof. unfold qlen. intro H. apply length_zero_iff_nil. exact H. Qed.

(* what one pass preserves *)
Definition sweep_post (drain : bool) (qs : list (list res)) (acc : Z) (count : nat) (exc : option nat) (o : sweep_out) : Prop :=
  match o with
  | SCont qs' acc' count' exc' =>
      length qs' = length qs /\ count' + qlen qs' = count + qlen qs /\ (acc' + qsum qs' = acc + qsum qs)%Z
      /\ is_some exc' || qexc qs' = is_some exc || qexc qs /\ (drain = false -> exc' = exc) /\ count <= count'
      /\ (forall k, exc' = Some k \/ In (RExc k) (concat qs') -> exc = Some k \/ In (RExc k) (concat qs))
  | SRaise k qs' => drain = false /\ In (RExc k) (concat qs) /\ length qs' = length qs
  end.

Lemma cons_out_post drain q q' qs acc count exc acc1 count1 exc1 o :
  sweep_post drain qs acc1 count1 exc1 o ->
  length q = (count1 - count) + length q' -> count <= count1 ->
  (fold_right Z.add 0 (map rval q) + acc = acc1 + fold_right Z.add 0 (map rval q'))%Z ->
  is_some exc || existsb rexc q = is_some exc1 || existsb rexc q' -> (drain = false -> exc1 = exc) ->
  (forall k, exc1 = Some k \/ In (RExc k) q' -> exc = Some k \/ In (RExc k) q) ->
  sweep_post drain (q :: qs) acc count exc (cons_out q' o).
Proof.
  intros P Hl Hc Hs He Hd Hk. destruct o as [k t|t a c e]; simpl in *.
  - destruct P as (D & Ex & L). split; [exact D|]. split; [apply in_or_app; right; exact Ex|].
    f_equal. exact L.
  - destruct P as (L & C & S & E & D & M & K). rewrite !qlen_cons, !qsum_cons, !qexc_cons.
    split; [f_equal; exact L|]. split; [lia|]. split; [lia|].
    split; [|split; [intro F; rewrite (D F); apply Hd; exact F|split; [lia|]]].
    + clear - He E.
      destruct (is_some e), (is_some exc), (is_some exc1), (existsb rexc q), (existsb rexc q'), (qexc t), (qexc qs);
        simpl in *; congruence.
    + intros k [H|H].
      * destruct (K k (or_introl H)) as [H1|H1].
        -- destruct (Hk k (or_introl H1)) as [H2|H2]; [left; exact H2|right; apply in_or_app; left; exact H2].
        -- right. apply in_or_app. right. exact H1.
      * apply in_app_or in H. destruct H as [H|H].
        -- destruct (Hk k (or_intror H)) as [H2|H2]; [left; exact H2|right; apply in_or_app; left; exact H2].
        -- destruct (K k (or_intror H)) as [H1|H1].
           ++ destruct (Hk k (or_introl H1)) as [H2|H2]; [left; exact H2|right; apply in_or_app; left; exact H2].
           ++ right. apply in_or_app. right. exact H1.
Qed.

Lemma sweep_inv (drain : bool) : forall qs mask acc count exc,
  sweep_post drain qs acc count exc (sweep drain mask qs acc count exc).
Proof.
  induction qs as [|q qs IH]; intros mask acc count exc.
  - simpl. repeat split; auto.
  - simpl sweep.
    destruct (match mask with [] => true | b :: _ => b end) eqn:M.
    + destruct q as [|[v|k] q'].
      * apply cons_out_post with (acc1 := acc) (count1 := count) (exc1 := exc);
          [apply IH | simpl length; lia | lia | simpl; lia | reflexivity | intro; reflexivity | tauto].
      * apply cons_out_post with (acc1 := (acc + v)%Z) (count1 := S count) (exc1 := exc);
          [apply IH | simpl length; lia | lia | simpl; lia | reflexivity | intro; reflexivity |].
        intros k [H|H]; [left; exact H|right; right; exact H].
      * destruct drain.
        -- apply cons_out_post with (acc1 := acc) (count1 := S count)
                                     (exc1 := match exc with None => Some k | e => e end);
             [apply IH | simpl length; lia | lia | simpl; lia | | discriminate |].
           ++ simpl. rewrite orb_true_r. destruct exc; reflexivity.
           ++ intros k0 [H|H]; [|right; right; exact H].
              destruct exc as [e|]; [left; exact H|]. inversion H. right. left. reflexivity.
        -- simpl. split; [reflexivity|]. split; [left; reflexivity|reflexivity].
    + apply cons_out_post with (acc1 := acc) (count1 := count) (exc1 := exc);
        [apply IH | simpl length; lia | lia | simpl; lia | reflexivity | intro; reflexivity | tauto].
Qed.

(* a pass in which every pending item is visible consumes at least one *)
Lemma sweep_progress (drain : bool) : forall qs acc count exc qs' acc' count' exc',
  sweep drain [] qs acc count exc = SCont qs' acc' count' exc' -> 0 < qlen qs -> qlen qs' < qlen qs.
Proof.
  induction qs as [|q qs IH]; intros acc count exc qs' acc' count' exc' H P.
  - unfold qlen in P. simpl in P. lia.
  - simpl in H. destruct q as [|[v|k] q'].
    + destruct (sweep drain [] qs acc count exc) as [k0 t|t a c e] eqn:S; simpl in H; [discriminate|].
      inversion H; subst. rewrite !qlen_cons in *. simpl in *. apply (IH _ _ _ _ _ _ _ S). exact P.
    + pose proof (sweep_inv drain qs [] (acc + v)%Z (S count) exc) as I.
      destruct (sweep drain [] qs (acc + v)%Z (S count) exc) as [k0 t|t a c e] eqn:S; simpl in H; [discriminate|].
      inversion H; subst. simpl in I. rewrite !qlen_cons. simpl. lia.
    + destruct drain; [|discriminate].
      pose proof (sweep_inv true qs [] acc (S count) (match exc with None => Some k | e => e end)) as I.
      destruct (sweep true [] qs acc (S count) (match exc with None => Some k | e => e end)) as [k0 t|t a c e] eqn:S;
        simpl in H; [discriminate|].
      inversion H; subst. simpl in I. rewrite !qlen_cons. simpl. lia.
Qed.

(* results(): whatever the schedule, the answer is decided by what is pending *)
Lemma loop_spec (drain : bool) (n : nat) : forall fuel masks qs acc count exc,
  length masks + qlen qs < fuel ->
  count + qlen qs = n -> (drain = false -> exc = None) ->
  exists r qs',
    results_loop drain fuel n masks qs acc count exc = Some (r, qs')
    /\ length qs' = length qs
    /\ (is_some exc || qexc qs = false -> r = RVal (acc + qsum qs))
    /\ (is_some exc || qexc qs = true -> exists k, r = RExc k /\ (exc = Some k \/ In (RExc k) (concat qs)))
    /\ ((drain = true \/ is_some exc || qexc qs = false) -> concat qs' = []).
Proof.
  induction fuel as [|f IH]; intros masks qs acc count exc F C D; [lia|].
  simpl results_loop. destruct (n <=? count) eqn:Le.
  - apply Nat.leb_le in Le. assert (Z0 : qlen qs = 0) by lia.
    pose proof (qlen_zero qs Z0) as E. eexists. exists qs. split; [reflexivity|]. split; [reflexivity|].
    unfold qexc, qsum. rewrite E. simpl. rewrite orb_false_r, Z.add_0_r.
    destruct exc as [k|]; simpl; repeat split; auto; try discriminate.
    intros _. exists k. auto.
  - apply Nat.leb_gt in Le.
    pose proof (sweep_inv drain qs (hd [] masks) acc count exc) as I.
    destruct (sweep drain (hd [] masks) qs acc count exc) as [k t|t a c e] eqn:S; simpl in I.
    + destruct I as (Dr & Ex & L). eexists. exists t. split; [reflexivity|]. split; [exact L|].
      assert (Q : qexc qs = true) by (apply (in_exc_true k); exact Ex).
      rewrite Q, orb_true_r. repeat split; try discriminate.
      * intros _. exists k. auto.
      * intros [H|H]; [congruence|discriminate].
    + destruct I as (L & Cn & Sm & Ee & De & Mo & K).
      assert (F' : length (tl masks) + qlen t < f).
      { destruct masks as [|m ms]; simpl in *.
        - pose proof (sweep_progress drain qs acc count exc t a c e S ltac:(lia)). lia.
        - lia. }
      destruct (IH (tl masks) t a c e F' ltac:(lia) (fun H => eq_trans (De H) (D H))) as (r & qs' & R & L' & V & X & Z').
      exists r, qs'. rewrite R, <- Ee, <- Sm. repeat split; auto; [congruence|].
      intro H. destruct (X H) as (k & Rk & Pk). exists k. split; [exact Rk|]. apply K. exact Pk.
Qed.

Section EngineProofs.
  Context {A X : Type}.

  (* the partition used by the pool loses nothing and keeps the order *)
  Lemma split_concat (cores : nat) (l : list A) : 1 <= cores -> concat (split_procs cores l) = l.
  Proof.
    intro H. unfold split_procs. rewrite concat_chunks.
    destruct l as [|a l]; [rewrite firstn_nil; reflexivity|].
    apply firstn_all2.
    pose proof (ceil_div_covers (length (a :: l)) (Nat.min (length (a :: l)) cores)) as C.
    assert (H0 : 1 <= Nat.min (length (a :: l)) cores) by (apply Nat.min_glb; [simpl; lia|exact H]).
    specialize (C H0). exact C.
  Qed.

  (* ---------- serial ---------- *)
  Lemma serial_spec (ev : A -> X -> res) (l : list A) (x : X) : serial ev l x = spec_sum ev l x.
  Proof.
    unfold spec_sum, total. induction l as [|a l IH]; [reflexivity|].
    simpl. unfold val at 1. destruct (ev a x) as [v|k]; [|reflexivity].
    rewrite IH. destruct (first_exc ev l x); reflexivity.
  Qed.

  Lemma first_exc_raises (ev : A -> X -> res) (l : list A) (x : X) :
    match first_exc ev l x with
    | Some k => existsb (raises ev x) l = true /\ exists a, In a l /\ ev a x = RExc k
    | None => existsb (raises ev x) l = false
    end.
  Proof.
    induction l as [|a l IH]; simpl; [reflexivity|].
    destruct (ev a x) as [v|k] eqn:E.
    - assert (R : raises ev x a = false) by (unfold raises; rewrite E; reflexivity). rewrite R. simpl.
      destruct (first_exc ev l x) as [k|]; [|exact IH].
      destruct IH as [R' (b & Hb & Eb)]. split; [exact R'|]. exists b. auto.
    - assert (R : raises ev x a = true) by (unfold raises; rewrite E; reflexivity). rewrite R. simpl.
      split; [reflexivity|]. exists a. auto.
  Qed.

  (* the serial answer is one of the answers allowed for any number of cores *)
  Lemma spec_sum_ok (ev : A -> X -> res) (l : list A) (x : X) : ok_answer ev l x (spec_sum ev l x).
  Proof.
    unfold ok_answer, spec_sum. pose proof (first_exc_raises ev l x) as H.
    destruct (first_exc ev l x) as [k|].
    - destruct H as [R (a & Ha & Ea)]. rewrite R. exists k, a. auto.
    - rewrite H. reflexivity.
  Qed.

  (* when all raising analyses raise the same class the answer is determined *)
  Definition uniform (ev : A -> X -> res) (l : list A) (x : X) : Prop :=
    forall a b k k', In a l -> In b l -> ev a x = RExc k -> ev b x = RExc k' -> k = k'.
  Lemma ok_answer_uniform (ev : A -> X -> res) (l : list A) (x : X) (r : res) :
    uniform ev l x -> ok_answer ev l x r -> r = spec_sum ev l x.
  Proof.
    intros U H. unfold ok_answer in H. unfold spec_sum. pose proof (first_exc_raises ev l x) as F.
    destruct (first_exc ev l x) as [k|].
    - destruct F as [R (b & Hb & Eb)]. rewrite R in H. destruct H as (k' & a & Ha & Ea & Er).
      rewrite Er. f_equal. apply (U a b k' k Ha Hb Ea Eb).
    - rewrite F in H. exact H.
  Qed.

  (* ---------- enqueue on a clean pool ---------- *)
  Lemma enqueue_clean (ev : A -> X -> res) (x : X) : forall procs qs,
    concat qs = [] -> length qs = length procs ->
    concat (enqueue ev procs x qs) = map (fun a => ev a x) (concat procs)
    /\ length (enqueue ev procs x qs) = length procs.
  Proof.
    induction procs as [|p procs IH]; intros qs E L; destruct qs as [|q qs]; simpl in *; try discriminate; auto.
    apply app_eq_nil in E. destruct E as [Eq Eqs]. subst q.
    destruct (IH qs Eqs ltac:(lia)) as [C Ln]. rewrite C, map_app. simpl. split; [reflexivity|lia].
  Qed.

  Lemma sum_vals (ev : A -> X -> res) (x : X) (l : list A) :
    fold_right Z.add 0%Z (map rval (map (fun a => ev a x) l)) = total ev l x.
  Proof. unfold total. rewrite map_map. reflexivity. Qed.
  Lemma exc_vals (ev : A -> X -> res) (x : X) (l : list A) : existsb rexc (map (fun a => ev a x) l) = existsb (raises ev x) l.
  Proof. induction l as [|a l IH]; simpl; [reflexivity|]. rewrite IH. unfold raises, rexc. destruct (ev a x); reflexivity. Qed.

  (* one call (evaluation or map) on a pool with nothing pending: the sum, or the exception of one of
     the raising analyses, for every schedule; the repaired results() leaves nothing behind *)
  Theorem pool_call_clean (ev : A -> X -> res) (drain : bool) (l : list A) (procs : list (list A)) (x : X)
          (masks : list (list bool)) (qs : list (list res)) :
    concat procs = l -> concat qs = [] -> length qs = length procs ->
    exists r qs',
      pool_call ev drain (length l) procs x masks qs = Some (r, qs')
      /\ ok_answer ev l x r
      /\ length qs' = length procs
      /\ ((drain = true \/ existsb (raises ev x) l = false) -> concat qs' = []).
  Proof.
    intros P E L. unfold pool_call.
    destruct (enqueue_clean ev x procs qs E L) as [C Ln].
    set (qs1 := enqueue ev procs x qs) in *.
    assert (Q : qlen qs1 = length l) by (unfold qlen; rewrite C, map_length, P; reflexivity).
    destruct (loop_spec drain (length l) (call_fuel (length l) masks qs1) masks qs1 0%Z 0 None)
      as (r & qs' & R & L' & V & Xx & Z').
    - unfold call_fuel. fold (qlen qs1). lia.
    - lia.
    - reflexivity.
    - exists r, qs'. rewrite R. split; [reflexivity|].
      assert (Qe : qexc qs1 = existsb (raises ev x) l) by (unfold qexc; rewrite C, P, exc_vals; reflexivity).
      assert (Qs : qsum qs1 = total ev l x) by (unfold qsum; rewrite C, P, sum_vals; reflexivity).
      simpl in V, Xx, Z'. rewrite Qe in V, Xx, Z'. rewrite Qs in V.
      split; [|split; [congruence|exact Z']].
      unfold ok_answer. destruct (existsb (raises ev x) l).
      + destruct (Xx eq_refl) as (k & Rk & [Pk|Pk]); [discriminate|].
        rewrite C, P in Pk. apply in_map_iff in Pk. destruct Pk as (a & Ea & Ha). exists k, a. auto.
      + rewrite (V eq_refl). reflexivity.
  Qed.

  (* ---------- histories ---------- *)
  Variables ev vis : A -> X -> res.
  Variable modf : Z -> A -> A.

  Definition clean (l : list A) (s : st (A := A)) : Prop :=
    concat (s_qs s) = [] /\ length (s_qs s) = length (s_procs s)
    /\ (s_pool s = true -> concat (s_procs s) = l) /\ (1 < s_cores s -> s_pool s = true).

  Lemma clean_init (l : list A) : clean l st_init.
  Proof. unfold clean. simpl. repeat split; auto; [discriminate|lia]. Qed.

  Lemma concat_nils {B C} (l : list C) : concat (map (fun _ => @nil B) l) = [].
  Proof. induction l; simpl; auto. Qed.

  Lemma clean_set_cores_new (l : list A) (s : st) (k : nat) : 1 < k -> clean l (set_cores l s k).
  Proof.
    intro K. unfold set_cores, clean. apply Nat.ltb_lt in K. rewrite K. simpl. apply Nat.ltb_lt in K. repeat split; auto.
    - apply concat_nils.
    - apply map_length.
    - intros _. apply split_concat. lia.
  Qed.

  Lemma clean_set_cores_keep (l : list A) (s : st) (k : nat) : k <= 1 -> clean l s -> clean l (set_cores l s k).
  Proof.
    intros K (E & L & P & _). unfold set_cores, clean. apply Nat.ltb_ge in K. rewrite K. simpl.
    apply Nat.ltb_ge in K. repeat split; auto. lia.
  Qed.

  (* modify_before_fit: the rebuilt combined analysis is clean for the MODIFIED members: whatever
     pool it has was forked from them *)
  Lemma clean_rebuilt (l : list A) (c0 : nat) : clean l (set_cores l (mkSt c0 false [] []) c0).
  Proof.
    destruct (1 <? c0) eqn:K.
    - apply Nat.ltb_lt in K. apply clean_set_cores_new. exact K.
    - apply Nat.ltb_ge in K. apply clean_set_cores_keep; [exact K|].
      unfold clean. simpl. repeat split; auto; [discriminate|lia].
  Qed.

  (* the calls of a history, each with the members as they are when it is made *)
  Fixpoint trace (l : list A) (ops : list (op (X := X))) : list (list A * op (X := X)) :=
    match ops with
    | [] => []
    | OCores _ :: r => trace l r
    | OModify d _ :: r => trace (map (modf d) l) r
    | o :: r => (l, o) :: trace l r
    end.
  Definition out_ok (lo : list A * op (X := X)) (u : out (A := A)) : Prop :=
    match snd lo, u with
    | OEval x _, OutAns (Some r) => ok_answer ev (fst lo) x r
    | OMap x _, OutMap (Some r) _ => ok_answer vis (fst lo) x r
    | _, _ => False
    end.
  (* the flag says that nothing is guaranteed: an earlier call of this pool raised and the code does
     not drain (historical snapshot) *)
  Definition meets (g : bool * (list A * op (X := X))) (u : out (A := A)) : Prop :=
    if fst g then True else out_ok (snd g) u.

  Fixpoint guarded (drain : bool) (l : list A) (cores : nat) (pool tainted : bool) (ops : list (op (X := X)))
    : list (bool * (list A * op (X := X))) :=
    match ops with
    | [] => []
    | OCores k :: r => if 1 <? k then guarded drain l k true false r else guarded drain l k pool tainted r
    | OModify d c0 :: r => guarded drain (map (modf d) l) c0 (1 <? c0) false r
    | OEval x m :: r =>
        (tainted && (1 <? cores), (l, OEval x m))
          :: guarded drain l cores pool (tainted || (negb drain && (1 <? cores) && existsb (raises ev x) l)) r
    | OMap x m :: r =>
        (tainted && pool, (l, OMap x m))
          :: guarded drain l cores pool (tainted || (negb drain && pool && existsb (raises vis x) l)) r
    end.

  Lemma run_guarded (drain fm : bool) : forall ops l s tainted,
    (tainted = false -> clean l s) -> (1 < s_cores s -> s_pool s = true) ->
    Forall2 meets (guarded drain l (s_cores s) (s_pool s) tainted ops) (snd (run ev vis modf drain fm l s ops)).
  Proof.
    induction ops as [|o ops IH]; intros l s tainted Hc Hp; [constructor|].
    destruct o as [x masks|x masks|k|d c0].
    - (* evaluation *)
      simpl guarded. simpl run. unfold step.
      destruct (1 <? s_cores s) eqn:K.
      + destruct tainted.
        * destruct (pool_call ev drain (length l) (s_procs s) x masks (s_qs s)) as [[r qs']|] eqn:P.
          -- specialize (IH l (mkSt (s_cores s) (s_pool s) (s_procs s) qs') true ltac:(discriminate) Hp).
             destruct (run ev vis modf drain fm l (mkSt (s_cores s) (s_pool s) (s_procs s) qs') ops) as [s2 a2] eqn:R.
             simpl in *. constructor; [exact I|exact IH].
          -- specialize (IH l s true ltac:(discriminate) Hp).
             destruct (run ev vis modf drain fm l s ops) as [s2 a2] eqn:R. simpl in *. constructor; [exact I|exact IH].
        * destruct (Hc eq_refl) as (E & L & Pc & Pp). apply Nat.ltb_lt in K.
          destruct (pool_call_clean ev drain l (s_procs s) x masks (s_qs s) (Pc (Pp K)) E L) as (r & qs' & P & Ok & L' & Z').
          rewrite P.
          set (t := false || (negb drain && true && existsb (raises ev x) l)).
          assert (Hc' : t = false -> clean l (mkSt (s_cores s) (s_pool s) (s_procs s) qs')).
          { intro T. unfold clean. simpl. repeat split; auto. apply Z'.
            unfold t in T. simpl in T. destruct drain; [left; reflexivity|right; exact T]. }
          specialize (IH l (mkSt (s_cores s) (s_pool s) (s_procs s) qs') t Hc' Hp).
          destruct (run ev vis modf drain fm l (mkSt (s_cores s) (s_pool s) (s_procs s) qs') ops) as [s2 a2] eqn:R.
          simpl in *. constructor; [exact Ok|exact IH].
      + (* serial *)
        assert (T : tainted || (negb drain && false && existsb (raises ev x) l) = tainted).
        { rewrite andb_false_r. simpl. apply orb_false_r. }
        rewrite T. specialize (IH l s tainted Hc Hp).
        destruct (run ev vis modf drain fm l s ops) as [s2 a2] eqn:R. simpl in *. constructor; [|exact IH].
        unfold meets. simpl. rewrite andb_false_r. unfold out_ok. simpl. rewrite serial_spec. apply spec_sum_ok.
    - (* visualize *)
      simpl guarded. simpl run. unfold step.
      destruct (s_pool s) eqn:Pl.
      + destruct tainted.
        * destruct (pool_call vis drain (length l) (s_procs s) x masks (s_qs s)) as [[r qs']|] eqn:P.
          -- specialize (IH l (mkSt (s_cores s) true (s_procs s) qs') true ltac:(discriminate) (fun _ => eq_refl)).
             simpl in IH.
             destruct (run ev vis modf drain fm l (mkSt (s_cores s) true (s_procs s) qs') ops) as [s2 a2] eqn:R.
             simpl in *. constructor; [exact I|exact IH].
          -- specialize (IH l s true ltac:(discriminate) (fun _ => Pl)). rewrite Pl in IH.
             destruct (run ev vis modf drain fm l s ops) as [s2 a2] eqn:R. simpl in *. constructor; [exact I|exact IH].
        * destruct (Hc eq_refl) as (E & L & Pc & Pp).
          destruct (pool_call_clean vis drain l (s_procs s) x masks (s_qs s) (Pc Pl) E L) as (r & qs' & P & Ok & L' & Z').
          rewrite P.
          set (t := false || (negb drain && true && existsb (raises vis x) l)).
          assert (Hc' : t = false -> clean l (mkSt (s_cores s) true (s_procs s) qs')).
          { intro T. unfold clean. simpl. repeat split; auto. apply Z'.
            unfold t in T. simpl in T. destruct drain; [left; reflexivity|right; exact T]. }
          specialize (IH l (mkSt (s_cores s) true (s_procs s) qs') t Hc' (fun _ => eq_refl)). simpl in IH.
          destruct (run ev vis modf drain fm l (mkSt (s_cores s) true (s_procs s) qs') ops) as [s2 a2] eqn:R.
          simpl in *. constructor; [exact Ok|exact IH].
      + assert (T : tainted || (negb drain && false && existsb (raises vis x) l) = tainted).
        { rewrite andb_false_r. simpl. apply orb_false_r. }
        rewrite T. specialize (IH l s tainted Hc (fun H => eq_trans Pl (Hp H))). rewrite Pl in IH.
        destruct (run ev vis modf drain fm l s ops) as [s2 a2] eqn:R. simpl in *. constructor; [|exact IH].
        unfold meets. simpl. rewrite andb_false_r. unfold out_ok. simpl. rewrite serial_spec. apply spec_sum_ok.
    - (* change of cores *)
      simpl guarded. simpl run. destruct (1 <? k) eqn:K.
      + apply Nat.ltb_lt in K.
        assert (Sc : s_cores (set_cores l s k) = k /\ s_pool (set_cores l s k) = true).
        { unfold set_cores. apply Nat.ltb_lt in K. rewrite K. auto. }
        destruct Sc as [Sc Sp].
        specialize (IH l (set_cores l s k) false (fun _ => clean_set_cores_new l s k K) (fun _ => Sp)).
        rewrite Sc, Sp in IH.
        destruct (run ev vis modf drain fm l (set_cores l s k) ops) as [s2 a2] eqn:R. simpl in *. exact IH.
      + apply Nat.ltb_ge in K.
        assert (Sc : s_cores (set_cores l s k) = k /\ s_pool (set_cores l s k) = s_pool s).
        { unfold set_cores. apply Nat.ltb_ge in K. rewrite K. auto. }
        destruct Sc as [Sc Sp].
        specialize (IH l (set_cores l s k) tainted (fun T => clean_set_cores_keep l s k K (Hc T))).
        rewrite Sc, Sp in IH. specialize (IH ltac:(lia)).
        destruct (run ev vis modf drain fm l (set_cores l s k) ops) as [s2 a2] eqn:R. simpl in *. exact IH.
    - (* modify_before_fit: the members change, the combined analysis is rebuilt from them *)
      simpl guarded. simpl run.
      set (l' := map (modf d) l). set (s' := set_cores l' (mkSt c0 false [] []) c0).
      assert (Sc : s_cores s' = c0 /\ s_pool s' = (1 <? c0)).
      { unfold s', set_cores. destruct (1 <? c0); auto. }
      destruct Sc as [Sc Sp].
      specialize (IH l' s' false (fun _ => clean_rebuilt l' c0)). rewrite Sc, Sp in IH.
      specialize (IH (fun H => proj2 (Nat.ltb_lt 1 c0) H)).
      destruct (run ev vis modf drain fm l' s' ops) as [s2 a2] eqn:R. simpl in *. exact IH.
  Qed.

  Lemma guarded_drain : forall ops l cores pool,
    guarded true l cores pool false ops = map (fun lo => (false, lo)) (trace l ops).
  Proof.
    induction ops as [|[x m|x m|k|d c0] ops IH]; intros l cores pool; simpl; auto.
    - rewrite IH. reflexivity.
    - rewrite IH. reflexivity.
    - destruct (1 <? k); apply IH.
  Qed.

  (* /repo as it stands: every outcome of every history is right -- for the members as they are when
     the call is made, in particular after modify_before_fit changed them in place *)
  Theorem history_free_now (fm : bool) (l : list A) (ops : list (op (X := X))) :
    Forall2 out_ok (trace l ops) (snd (run ev vis modf true fm l st_init ops)).
  Proof.
    pose proof (run_guarded true fm ops l st_init false (fun _ => clean_init l) ltac:(simpl; lia)) as H.
    simpl s_cores in H. simpl s_pool in H. rewrite guarded_drain in H.
    remember (trace l ops) as cs. remember (snd (run ev vis modf true fm l st_init ops)) as us. clear - H.
    revert us H. induction cs as [|c cs IH]; intros us H; inversion H; subst; constructor; auto.
  Qed.

  (* historical snapshot: the same for every call not preceded by a raising call of the same pool *)
  Theorem history_free_partial (drain fm : bool) (l : list A) (ops : list (op (X := X))) :
    Forall2 meets (guarded drain l 1 false false ops) (snd (run ev vis modf drain fm l st_init ops)).
  Proof. exact (run_guarded drain fm ops l st_init false (fun _ => clean_init l) ltac:(simpl; lia)). Qed.

  (* answers of a history, and what they must be when each call's raising analyses agree on the class *)
  Definition out_ans (u : out (A := A)) : option res := match u with OutAns r => r | OutMap r _ => r end.
  Definition call_spec (lo : list A * op (X := X)) : option res :=
    match snd lo with
    | OEval x _ => Some (spec_sum ev (fst lo) x)
    | OMap x _ => Some (spec_sum vis (fst lo) x)
    | _ => None
    end.
  Definition call_uniform (lo : list A * op (X := X)) : Prop :=
    match snd lo with OEval x _ => uniform ev (fst lo) x | OMap x _ => uniform vis (fst lo) x | _ => True end.

  Theorem history_answers_now (fm : bool) (l : list A) (ops : list (op (X := X))) :
    Forall call_uniform (trace l ops) ->
    map out_ans (snd (run ev vis modf true fm l st_init ops)) = map call_spec (trace l ops).
  Proof.
    intro Uc. pose proof (history_free_now fm l ops) as H.
    remember (trace l ops) as cs. remember (snd (run ev vis modf true fm l st_init ops)) as us. clear - H Uc.
    revert us H. induction cs as [|c cs IH]; intros us H; inversion H; subst; [reflexivity|].
    inversion Uc; subst. simpl. f_equal; [|apply IH; assumption].
    destruct c as [lc [x m|x m|k|d c0]]; destruct y as [[r|]|[r|] w]; unfold out_ok, call_uniform, call_spec in *;
      simpl in *; try contradiction.
    - f_equal. apply ok_answer_uniform; assumption.
    - f_equal. apply ok_answer_uniform; assumption.
  Qed.

  (* hence independent of cores, schedules and earlier calls: two histories making the same calls on
     the same member states *)
  Definition erase (lo : list A * op (X := X)) : list A * op (X := X) :=
    (fst lo, match snd lo with OEval x _ => OEval x [] | OMap x _ => OMap x [] | o => o end).
  Lemma call_spec_erase (lo : list A * op (X := X)) : call_spec (erase lo) = call_spec lo.
  Proof. destruct lo as [l [x m|x m|k|d c0]]; reflexivity. Qed.

  Theorem cores_independent_now (fm fm' : bool) (l : list A) (ops ops' : list (op (X := X))) :
    Forall call_uniform (trace l ops) -> Forall call_uniform (trace l ops') ->
    map erase (trace l ops) = map erase (trace l ops') ->
    map out_ans (snd (run ev vis modf true fm l st_init ops)) = map out_ans (snd (run ev vis modf true fm' l st_init ops')).
  Proof.
    intros U U' E. rewrite (history_answers_now fm l ops U), (history_answers_now fm' l ops' U').
    assert (R : forall cs, map call_spec cs = map call_spec (map erase cs)).
    { intro cs. rewrite map_map. apply map_ext. intro o. symmetry. apply call_spec_erase. }
    rewrite (R (trace l ops)), (R (trace l ops')), E. reflexivity.
  Qed.
End EngineProofs.
