(* C15 lemmas, part 2: the serial sum and the pool as a transition system.
   For every schedule (availability masks), every partition into processes and every history the
   answer of an evaluation is the sum of the analyses on that instance -- fully for the repaired
   `results`, and for the pinned code as long as no earlier evaluation of the same pool raised. *)
From Coq Require Import ZArith List Bool Arith Lia.
From PAFC15 Require Import Model.
Import ListNotations.

(* ---------- list helpers ---------- *)
Lemma firstn_plus {B} (a b : nat) (l : list B) : firstn (a + b) l = firstn a l ++ firstn b (skipn a l).
Proof.
  revert l. induction a as [|a IH]; intro l; simpl; [reflexivity|].
  destruct l as [|x l]; simpl; [rewrite firstn_nil; reflexivity|]. rewrite IH. reflexivity.
Qed.

Lemma concat_chunks {B} (per np : nat) (l : list B) :
  concat (map (fun k => firstn per (skipn (k * per) l)) (seq 0 np)) = firstn (np * per) l.
Proof.
  induction np as [|np IH]; [reflexivity|].
  rewrite seq_S, map_app, concat_app, IH. simpl. rewrite app_nil_r.
  replace (per + np * per) with (np * per + per) by lia. rewrite firstn_plus. reflexivity.
Qed.

Lemma ceil_div_covers (n d : nat) : 1 <= d -> n <= d * ceil_div n d.
Proof.
  intro H. unfold ceil_div.
  assert (D : d <> 0) by lia.
  pose proof (Nat.div_mod (n + d - 1) d D) as E.
  pose proof (Nat.mod_upper_bound (n + d - 1) d D) as U.
  remember ((n + d - 1) / d) as q. remember ((n + d - 1) mod d) as r. clear Heqq Heqr. nia.
Qed.

Section EngineProofs.
  Context {A X : Type}.
  Variable ev : A -> X -> res.

  (* the partition used by the pool loses nothing and keeps the order *)
  Lemma split_concat (cores : nat) (l : list A) : 1 <= cores -> concat (split_procs cores l) = l.
  Proof.
    intro H. unfold split_procs. rewrite concat_chunks.
    destruct l as [|a l]; [rewrite firstn_nil; reflexivity|].
    apply firstn_all2.
    pose proof (ceil_div_covers (length (a :: l)) (Nat.min (length (a :: l)) cores)) as C.
    assert (H0 : 1 <= Nat.min (length (a :: l)) cores) by (apply Nat.min_glb; [simpl; lia|exact H]).
    specialize (C H0).
    exact C.
  Qed.

  (* ---------- serial ---------- *)
  Lemma serial_spec (l : list A) (x : X) : serial ev l x = spec_sum ev l x.
  Proof.
    unfold spec_sum. induction l as [|a l IH]; [reflexivity|].
    simpl. unfold raises at 1, val at 1. destruct (ev a x) as [v|]; [|reflexivity].
    rewrite IH. simpl. destruct (existsb (raises ev x) l); reflexivity.
  Qed.

  (* ---------- measures on the queues ---------- *)
  Definition rval (r : res) : Z := match r with RVal v => v | RExc => 0%Z end.
  Definition rexc (r : res) : bool := match r with RExc => true | RVal _ => false end.
  Definition qlen (qs : list (list res)) : nat := length (concat qs).
  Definition qsum (qs : list (list res)) : Z := fold_right Z.add 0%Z (map rval (concat qs)).
  Definition qexc (qs : list (list res)) : bool := existsb rexc (concat qs).

  Lemma qlen_cons q qs : qlen (q :: qs) = length q + qlen qs.
  Proof. unfold qlen. simpl. apply app_length. Qed.
  Lemma fold_add_app (a b : list Z) : fold_right Z.add 0%Z (a ++ b) = (fold_right Z.add 0 a + fold_right Z.add 0 b)%Z.
  Proof. induction a as [|x a IH]; simpl; [reflexivity|]. rewrite IH. lia. Qed.
  Lemma qsum_cons q qs : qsum (q :: qs) = (fold_right Z.add 0 (map rval q) + qsum qs)%Z.
  Proof. unfold qsum. simpl. rewrite map_app, fold_add_app. reflexivity. Qed.
  Lemma qexc_cons q qs : qexc (q :: qs) = existsb rexc q || qexc qs.
  Proof. unfold qexc. simpl. apply existsb_app. Qed.

  Definition sweep_post (drain : bool) (qs : list (list res)) (acc : Z) (count : nat) (exc : bool) (o : sweep_out) : Prop :=
    match o with
    | SCont qs' acc' count' exc' =>
        length qs' = length qs /\ count' + qlen qs' = count + qlen qs /\ (acc' + qsum qs' = acc + qsum qs)%Z
        /\ exc' || qexc qs' = exc || qexc qs /\ (drain = false -> exc' = exc) /\ count <= count'
    | SRaise qs' => drain = false /\ qexc qs = true /\ length qs' = length qs
    end.

  Lemma cons_out_post drain q q' qs acc count exc acc1 count1 exc1 o :
    sweep_post drain qs acc1 count1 exc1 o ->
    length q = (count1 - count) + length q' -> count <= count1 ->
    (fold_right Z.add 0 (map rval q) + acc = acc1 + fold_right Z.add 0 (map rval q'))%Z ->
    exc || existsb rexc q = exc1 || existsb rexc q' -> (drain = false -> exc1 = exc) ->
    sweep_post drain (q :: qs) acc count exc (cons_out q' o).
  Proof.
    intros P Hl Hc Hs He Hd. destruct o as [t|t a c e]; simpl in *.
    - destruct P as (D & Ex & L). split; [exact D|]. split; [rewrite qexc_cons, Ex; apply orb_true_r|].
      simpl. f_equal. exact L.
    - destruct P as (L & C & S & E & D & M). rewrite !qlen_cons, !qsum_cons, !qexc_cons.
      split; [simpl; f_equal; exact L|]. split; [lia|]. split; [lia|].
      split; [|split; [intro F; rewrite (D F); apply Hd; exact F|lia]].
      clear - He E.
      destruct e, exc, exc1, (existsb rexc q), (existsb rexc q'), (qexc t), (qexc qs); simpl in *; congruence.
  Qed.

  Lemma sweep_inv (drain : bool) : forall qs mask acc count exc,
    sweep_post drain qs acc count exc (sweep drain mask qs acc count exc).
  Proof.
    induction qs as [|q qs IH]; intros mask acc count exc.
    - simpl. repeat split; auto.
    - simpl sweep.
      destruct (match mask with [] => true | b :: _ => b end) eqn:M.
      + destruct q as [|[v|] q'].
        * apply cons_out_post with (acc1 := acc) (count1 := count) (exc1 := exc);
            [apply IH | simpl length; lia | lia | simpl; lia | reflexivity | intro; reflexivity].
        * apply cons_out_post with (acc1 := (acc + v)%Z) (count1 := S count) (exc1 := exc);
            [apply IH | simpl length; lia | lia | simpl; lia | reflexivity | intro; reflexivity].
        * destruct drain.
          -- apply cons_out_post with (acc1 := acc) (count1 := S count) (exc1 := true);
               [apply IH | simpl length; lia | lia | simpl; lia | simpl; apply orb_true_r | discriminate].
          -- simpl. split; [reflexivity|]. split; [rewrite qexc_cons; reflexivity|reflexivity].
      + apply cons_out_post with (acc1 := acc) (count1 := count) (exc1 := exc);
          [apply IH | simpl length; lia | lia | simpl; lia | reflexivity | intro; reflexivity].
  Qed.

  (* a pass in which every pending item is visible consumes at least one *)
  Lemma sweep_progress (drain : bool) : forall qs acc count exc qs' acc' count' exc',
    sweep drain [] qs acc count exc = SCont qs' acc' count' exc' -> 0 < qlen qs -> qlen qs' < qlen qs.
  Proof.
    induction qs as [|q qs IH]; intros acc count exc qs' acc' count' exc' H P.
    - unfold qlen in P. simpl in P. lia.
    - simpl in H. destruct q as [|[v|] q'].
      + destruct (sweep drain [] qs acc count exc) as [t|t a c e] eqn:S; simpl in H; [discriminate|].
        inversion H; subst. rewrite !qlen_cons in *. simpl in *. apply (IH _ _ _ _ _ _ _ S). exact P.
      + pose proof (sweep_inv drain qs [] (acc + v)%Z (S count) exc) as I.
        destruct (sweep drain [] qs (acc + v)%Z (S count) exc) as [t|t a c e] eqn:S; simpl in H; [discriminate|].
        inversion H; subst. simpl in I. rewrite !qlen_cons. simpl. lia.
      + destruct drain; [|discriminate].
        pose proof (sweep_inv true qs [] acc (S count) true) as I.
        destruct (sweep true [] qs acc (S count) true) as [t|t a c e] eqn:S; simpl in H; [discriminate|].
        inversion H; subst. simpl in I. rewrite !qlen_cons. simpl. lia.
  Qed.

  Lemma qlen_zero (qs : list (list res)) : qlen qs = 0 -> concat qs = [].
  Proof. unfold qlen. intro H. apply length_zero_iff_nil. exact H. Qed.

  (* results(): whatever the schedule, the answer is decided by what is pending *)
  Lemma loop_spec (drain : bool) (n : nat) : forall fuel masks qs acc count exc,
    length masks + qlen qs < fuel ->
    count + qlen qs = n -> (drain = false -> exc = false) ->
    exists qs',
      results_loop drain fuel n masks qs acc count exc
      = Some (if exc || qexc qs then RExc else RVal (acc + qsum qs), qs')
      /\ length qs' = length qs
      /\ ((drain = true \/ exc || qexc qs = false) -> concat qs' = []).
  Proof.
    induction fuel as [|f IH]; intros masks qs acc count exc F C D; [lia|].
    simpl results_loop. destruct (n <=? count) eqn:Le.
    - apply Nat.leb_le in Le. assert (Z0 : qlen qs = 0) by lia.
      pose proof (qlen_zero qs Z0) as E. exists qs.
      unfold qexc, qsum. rewrite E. simpl. rewrite orb_false_r, Z.add_0_r. repeat split; auto.
    - apply Nat.leb_gt in Le.
      pose proof (sweep_inv drain qs (hd [] masks) acc count exc) as I.
      destruct (sweep drain (hd [] masks) qs acc count exc) as [t|t a c e] eqn:S; simpl in I.
      + destruct I as (Dr & Ex & L). exists t. rewrite Ex, orb_true_r. repeat split; auto.
        intros [H|H]; [congruence|discriminate].
      + destruct I as (L & Cn & Sm & Ee & De & Mo).
        assert (F' : length (tl masks) + qlen t < f).
        { destruct masks as [|m ms]; simpl in *.
          - pose proof (sweep_progress drain qs acc count exc t a c e S ltac:(lia)). lia.
          - lia. }
        destruct (IH (tl masks) t a c e F' ltac:(lia) (fun H => eq_trans (De H) (D H))) as (qs' & R & L' & Z').
        exists qs'. rewrite R, Ee, Sm. repeat split; auto; [congruence|]. rewrite <- Ee. exact Z'.
  Qed.

  (* ---------- enqueue on a clean pool ---------- *)
  Lemma enqueue_clean (x : X) : forall procs qs,
    concat qs = [] -> length qs = length procs ->
    concat (enqueue ev procs x qs) = map (fun a => ev a x) (concat procs)
    /\ length (enqueue ev procs x qs) = length procs.
  Proof.
    induction procs as [|p procs IH]; intros qs E L; destruct qs as [|q qs]; simpl in *; try discriminate; auto.
    apply app_eq_nil in E. destruct E as [Eq Eqs]. subst q.
    destruct (IH qs Eqs ltac:(lia)) as [C Ln]. rewrite C, map_app. simpl. split; [reflexivity|lia].
  Qed.

  Lemma sum_vals (x : X) (l : list A) :
    fold_right Z.add 0%Z (map rval (map (fun a => ev a x) l)) = fold_right Z.add 0%Z (map (val ev x) l).
  Proof. rewrite map_map. reflexivity. Qed.
  Lemma exc_vals (x : X) (l : list A) : existsb rexc (map (fun a => ev a x) l) = existsb (raises ev x) l.
  Proof. induction l as [|a l IH]; simpl; [reflexivity|]. rewrite IH. unfold raises, rexc. destruct (ev a x); reflexivity. Qed.

  (* one evaluation on a pool with nothing pending: the sum, for every schedule *)
  Theorem pool_call_clean (drain : bool) (l : list A) (procs : list (list A)) (x : X) (masks : list (list bool))
          (qs : list (list res)) :
    concat procs = l -> concat qs = [] -> length qs = length procs ->
    exists qs',
      pool_call ev drain (length l) procs x masks qs = Some (spec_sum ev l x, qs')
      /\ length qs' = length procs
      /\ ((drain = true \/ existsb (raises ev x) l = false) -> concat qs' = []).
  Proof.
    intros P E L. unfold pool_call.
    destruct (enqueue_clean x procs qs E L) as [C Ln].
    set (qs1 := enqueue ev procs x qs) in *.
    assert (Q : qlen qs1 = length l) by (unfold qlen; rewrite C, map_length, P; reflexivity).
    destruct (loop_spec drain (length l) (call_fuel (length l) masks qs1) masks qs1 0%Z 0 false) as (qs' & R & L' & Z').
    - unfold call_fuel. fold (qlen qs1). lia.
    - lia.
    - reflexivity.
    - exists qs'. rewrite R. simpl. unfold spec_sum, qexc, qsum. rewrite C, P, sum_vals, exc_vals.
      repeat split; [congruence|]. intro H. apply Z'. unfold qexc. rewrite C, P, exc_vals. simpl. exact H.
  Qed.

  (* ---------- histories ---------- *)
  Definition clean (l : list A) (s : st (A := A)) : Prop :=
    concat (s_qs s) = [] /\ length (s_qs s) = length (s_procs s) /\ (1 < s_cores s -> concat (s_procs s) = l).

  Lemma clean_init (l : list A) : clean l st_init.
  Proof. unfold clean. simpl. repeat split; auto. lia. Qed.

  Lemma concat_nils {B C} (l : list C) : concat (map (fun _ => @nil B) l) = [].
  Proof. induction l; simpl; auto. Qed.

  Lemma clean_set_cores (l : list A) (k : nat) : clean l (set_cores l k).
  Proof.
    unfold set_cores, clean. destruct (1 <? k) eqn:K; simpl.
    - apply Nat.ltb_lt in K. repeat split.
      + apply concat_nils.
      + apply map_length.
      + intros _. apply split_concat. lia.
    - apply Nat.ltb_ge in K. repeat split; auto. lia.
  Qed.

  Lemma set_cores_cores (l : list A) (k : nat) : s_cores (set_cores l k) = k.
  Proof. unfold set_cores. destruct (1 <? k); reflexivity. Qed.

  (* what is guaranteed about each answer: None = nothing (an earlier evaluation of this pool raised
     and the code does not drain) *)
  Fixpoint guarded (drain : bool) (l : list A) (cores : nat) (tainted : bool) (ops : list (op (X := X)))
    : list (option res) :=
    match ops with
    | [] => []
    | OCores k :: r => guarded drain l k false r
    | OEval x _ :: r =>
        (if tainted then None else Some (spec_sum ev l x))
          :: guarded drain l cores (tainted || (negb drain && (1 <? cores) && existsb (raises ev x) l)) r
    end.
  Definition meets (g : option res) (a : option res) : Prop :=
    match g with Some r => a = Some r | None => True end.

  Lemma run_guarded (drain : bool) (l : list A) : forall ops s tainted,
    (tainted = false -> clean l s) ->
    Forall2 meets (guarded drain l (s_cores s) tainted ops) (snd (run ev drain l s ops)).
  Proof.
    induction ops as [|o ops IH]; intros s tainted Hc; [constructor|].
    destruct o as [x masks|k].
    - simpl guarded. simpl run. unfold step.
      destruct (1 <? s_cores s) eqn:K.
      + destruct tainted.
        * (* nothing is known about the state any more *)
          destruct (pool_call ev drain (length l) (s_procs s) x masks (s_qs s)) as [[r qs']|] eqn:P.
          -- specialize (IH (mkSt (s_cores s) (s_procs s) qs') true ltac:(discriminate)).
             destruct (run ev drain l (mkSt (s_cores s) (s_procs s) qs') ops) as [s2 a2] eqn:R.
             simpl in *. constructor; [exact I|exact IH].
          -- specialize (IH s true ltac:(discriminate)).
             destruct (run ev drain l s ops) as [s2 a2] eqn:R. simpl in *. constructor; [exact I|exact IH].
        * destruct (Hc eq_refl) as (E & L & Pc). apply Nat.ltb_lt in K.
          destruct (pool_call_clean drain l (s_procs s) x masks (s_qs s) (Pc K) E L) as (qs' & P & L' & Z').
          rewrite P.
          set (t := false || (negb drain && true && existsb (raises ev x) l)).
          assert (Hc' : t = false -> clean l (mkSt (s_cores s) (s_procs s) qs')).
          { intro T. unfold clean. simpl. repeat split; auto. apply Z'.
            unfold t in T. simpl in T. destruct drain; [left; reflexivity|right; exact T]. }
          specialize (IH (mkSt (s_cores s) (s_procs s) qs') t Hc').
          destruct (run ev drain l (mkSt (s_cores s) (s_procs s) qs') ops) as [s2 a2] eqn:R.
          simpl in *. constructor; [reflexivity|exact IH].
      + (* serial *)
        assert (T : tainted || (negb drain && false && existsb (raises ev x) l) = tainted).
        { rewrite andb_false_r. simpl. apply orb_false_r. }
        rewrite T. specialize (IH s tainted Hc).
        destruct (run ev drain l s ops) as [s2 a2] eqn:R. simpl in *. constructor; [|exact IH].
        destruct tainted; simpl; [exact I|]. rewrite serial_spec. reflexivity.
    - simpl guarded. simpl run.
      specialize (IH (set_cores l k) false (fun _ => clean_set_cores l k)). rewrite set_cores_cores in IH.
      destruct (run ev drain l (set_cores l k) ops) as [s2 a2] eqn:R. simpl in *. exact IH.
  Qed.

  (* the evaluated instances of a history, in order *)
  Fixpoint evals (ops : list (op (X := X))) : list X :=
    match ops with [] => [] | OEval x _ :: r => x :: evals r | OCores _ :: r => evals r end.

  Lemma guarded_drain (l : list A) : forall ops cores,
    guarded true l cores false ops = map (fun x => Some (spec_sum ev l x)) (evals ops).
  Proof. induction ops as [|[x m|k] ops IH]; intro cores; simpl; auto. rewrite IH. reflexivity. Qed.

  Lemma meets_all_some (g : list res) (a : list (option res)) : Forall2 meets (map Some g) a -> a = map Some g.
  Proof.
    revert a. induction g as [|r g IH]; intros a H; inversion H; subst; [reflexivity|].
    simpl in H2. subst. simpl. f_equal. apply IH. assumption.
  Qed.

  (* repaired code: every answer of every history is the sum on its own instance *)
  Theorem history_free_fixed (l : list A) (ops : list (op (X := X))) :
    snd (run ev true l st_init ops) = map (fun x => Some (spec_sum ev l x)) (evals ops).
  Proof.
    pose proof (run_guarded true l ops st_init false (fun _ => clean_init l)) as H.
    simpl s_cores in H. rewrite guarded_drain in H. rewrite <- map_map in H.
    rewrite (meets_all_some _ _ H), map_map. reflexivity.
  Qed.

  (* hence independent of cores, schedules and earlier evaluations *)
  Theorem cores_independent_fixed (l : list A) (ops ops' : list (op (X := X))) :
    evals ops = evals ops' -> snd (run ev true l st_init ops) = snd (run ev true l st_init ops').
  Proof. intro H. rewrite !history_free_fixed, H. reflexivity. Qed.

  (* pinned code: the same for every answer not preceded by a raising evaluation of the same pool *)
  Theorem history_free_partial (drain : bool) (l : list A) (ops : list (op (X := X))) :
    Forall2 meets (guarded drain l 1 false ops) (snd (run ev drain l st_init ops)).
  Proof. exact (run_guarded drain l ops st_init false (fun _ => clean_init l)). Qed.

  (* serial evaluation never depends on history *)
  Theorem serial_history (drain : bool) (l : list A) (ops : list (op (X := X))) (s : st (A := A)) :
    (forall k, In (OCores k) ops -> k <= 1) -> s_cores s <= 1 ->
    snd (run ev drain l s ops) = map (fun x => Some (spec_sum ev l x)) (evals ops).
  Proof.
    revert s. induction ops as [|[x m|k] ops IH]; intros s Hk Hs; [reflexivity| |].
    - simpl. destruct (1 <? s_cores s) eqn:K; [apply Nat.ltb_lt in K; lia|].
      specialize (IH s (fun k H => Hk k (or_intror H)) Hs).
      destruct (run ev drain l s ops) as [s2 a2]. simpl in *. rewrite serial_spec, IH. reflexivity.
    - simpl. assert (K : k <= 1) by (apply Hk; left; reflexivity).
      specialize (IH (set_cores l k) (fun k H => Hk k (or_intror H))). rewrite set_cores_cores in IH.
      specialize (IH K). destruct (run ev drain l (set_cores l k) ops) as [s2 a2]. simpl in *. exact IH.
  Qed.
End EngineProofs.
