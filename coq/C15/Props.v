(* C15 property theorems: statements only, each closed by `exact`.

   The model is parametrised by `cfg` = which of the four proposed repairs the code contains.
   `cfg_current` (all false) is the pinned tree, `cfg_fixed` the tree with every repair applied.
   For the pinned tree the applicable statements are the `_partial` ones (explicit guards) next to
   the `_refuted` ones (witnesses replayed on the implementation, known_findings/C15.json);
   statements about `cfg_fixed` / `drain = true` / `fix_map c = true` describe the repaired code. *)
From Coq Require Import ZArith List Bool Arith.
From PAFC15 Require Import Model Proofs1 Proofs2 Proofs3 Witness.
Import ListNotations.

(* ---- C15_sum: the value of a sum -------------------------------------------------------------- *)

(* serial evaluation is the sum of every analysis' likelihood (raising iff one of them raises) *)
Theorem C15_sum_serial : forall (A X : Type) (ev : A -> X -> res) (l : list A) (x : X),
  serial ev l x = spec_sum ev l x.
Proof. exact @serial_spec. Qed.

(* every bracketing of + (and sum([...])) holds the analyses in the order written, as a
   CombinedModelAnalysis iff one of them carries a model, member i reading sub-instance i *)
Theorem C15_flatten : forall e : expr, eval cfg_fixed e = spec_struct e.
Proof. exact flatten_fixed. Qed.

Theorem C15_flatten_partial : forall (c : cfg) (e : expr), guard c e = true -> eval c e = spec_struct e.
Proof. exact flatten_ok. Qed.

Theorem C15_flatten_order_refuted : exists e : expr, eval (mkCfg false true true true) e <> spec_struct e.
Proof. exact flatten_order_refuted. Qed.

Theorem C15_flatten_models_refuted : exists e : expr, eval (mkCfg true false true true) e <> spec_struct e.
Proof. exact flatten_models_refuted. Qed.

Theorem C15_member_i : forall (k : ckind) (l : list (nat * bool)) (i j : nat) (h : bool),
  nth_error l i = Some (j, h) ->
  nth_error (spec_items k l) i = Some (match k with KPlain => IPlain j h | _ => IIdx j h i end).
Proof. exact spec_items_nth. Qed.

Theorem C15_with_free_members : forall (c : cfg) (k : ckind) (l : list (nat * bool)),
  with_free c (VComb k (spec_items k l)) = VComb KFree (spec_items KFree l).
Proof. exact with_free_spec. Qed.

(* the i-th analysis of an indexed collection is evaluated on the i-th sub-instance, a member of a
   plain sum on the instance itself *)
Theorem C15_sub_instance : forall (S : Type) (lik : nat -> S -> res) (its : list item) (i : nat) (it : item)
    (w : S) (parts : list S) (s : S),
  nth_error its i = Some it -> nth_error parts i = Some s ->
  exists it', nth_error (reindex_from 0 its) i = Some it' /\ item_id it' = item_id it
              /\ item_lik lik it' (w, parts) = lik (item_id it) s.
Proof. exact @indexed_sub_instance. Qed.

Theorem C15_sum_sub_instances : forall (S : Type) (lik : nat -> S -> res) (its : list item) (w : S) (parts : list S),
  length parts = length its ->
  serial (item_lik lik) (reindex_from 0 its) (w, parts)
  = spec_sum (fun (p : nat * S) (_ : unit) => lik (fst p) (snd p)) (combine (map item_id its) parts) tt.
Proof. exact @indexed_sum. Qed.

(* ---- C15_history_free: pool = serial, for every schedule, partition and history ----------------- *)

Theorem C15_partition : forall (A : Type) (cores : nat) (l : list A), 1 <= cores -> concat (split_procs cores l) = l.
Proof. exact @split_concat. Qed.

(* one evaluation on a pool with nothing pending, any schedule `masks`, pinned or repaired results() *)
Theorem C15_pool_sum : forall (A X : Type) (ev : A -> X -> res) (drain : bool) (l : list A) (procs : list (list A))
    (x : X) (masks : list (list bool)) (qs : list (list res)),
  concat procs = l -> concat qs = [] -> length qs = length procs ->
  exists qs', pool_call ev drain (length l) procs x masks qs = Some (spec_sum ev l x, qs')
              /\ length qs' = length procs
              /\ ((drain = true \/ existsb (raises ev x) l = false) -> concat qs' = []).
Proof. exact @pool_call_clean. Qed.

(* repaired results(): every answer of every history (evaluations with arbitrary schedules, raising
   evaluations, changes of n_cores) is the sum on its own instance *)
Theorem C15_history_free : forall (A X : Type) (ev : A -> X -> res) (l : list A) (ops : list (op (X := X))),
  snd (run ev true l st_init ops) = map (fun x => Some (spec_sum ev l x)) (evals ops).
Proof. exact @history_free_fixed. Qed.

Theorem C15_cores_independent : forall (A X : Type) (ev : A -> X -> res) (l : list A) (ops ops' : list (op (X := X))),
  evals ops = evals ops' -> snd (run ev true l st_init ops) = snd (run ev true l st_init ops').
Proof. exact @cores_independent_fixed. Qed.

(* pinned results(): the same for every answer not preceded, since the pool was created, by a raising
   evaluation of that pool (`guarded` yields None exactly for the others) *)
Theorem C15_history_free_partial : forall (A X : Type) (ev : A -> X -> res) (drain : bool) (l : list A)
    (ops : list (op (X := X))),
  Forall2 meets (guarded ev drain l 1 false ops) (snd (run ev drain l st_init ops)).
Proof. exact @history_free_partial. Qed.

Theorem C15_history_free_refuted : exists (l : list nat) (ops : list (op (X := Z))),
  snd (run w_ev false l st_init ops) <> map (fun x => Some (spec_sum w_ev l x)) (evals ops).
Proof. exact history_free_refuted. Qed.

(* without a pool no history matters, pinned or repaired *)
Theorem C15_history_free_serial : forall (A X : Type) (ev : A -> X -> res) (drain : bool) (l : list A)
    (ops : list (op (X := X))) (s : st (A := A)),
  (forall k, In (OCores k) ops -> k <= 1) -> s_cores s <= 1 ->
  snd (run ev drain l s ops) = map (fun x => Some (spec_sum ev l x)) (evals ops).
Proof. exact @serial_history. Qed.

(* ---- C15_free_params: the fitted model --------------------------------------------------------- *)

Theorem C15_free_model_i : forall (free : list nat) (n : nat) (m : list nat) (i : nat),
  i < n -> nth_error (modify_free free n m) i = Some (map (slot_id free i) m).
Proof. exact free_nth. Qed.

(* one independent copy per analysis of every free parameter, a single shared copy of the others *)
Theorem C15_free_sharing : forall (free : list nat) (i i' p p' : nat),
  slot_id free i p = slot_id free i' p' <-> p = p' /\ (In p free -> i = i').
Proof. exact slot_sharing. Qed.

Theorem C15_free_params : forall (free : list nat) (n : nat) (m : list nat), 1 <= n ->
  prior_count (modify_free free n m) = length (free_in free m) * n + length (shared_in free m).
Proof. exact free_count. Qed.

Theorem C15_own_model_i : forall (default : list nat) (own : list (list nat)) (its : list item) (i : nat) (it : item),
  nth_error its i = Some it ->
  nth_error (modify_models default own its) i = Some (map Orig (if item_hm it then nth (item_id it) own [] else default)).
Proof. exact models_nth. Qed.

(* ---- C15_child_i: child results and folders ----------------------------------------------------- *)

Theorem C15_child_i : forall (M B : Type) (models : list M) (analyses : list B) (i : nat) (m : M) (a : B),
  nth_error (children models analyses) i = Some (m, a) <-> nth_error models i = Some m /\ nth_error analyses i = Some a.
Proof. exact @children_nth. Qed.

Theorem C15_folder_i_serial : forall (B : Type) (l : list B) (i : nat),
  nth_error (folders_serial l) i = option_map (fun b => (i, b)) (nth_error l i).
Proof. exact @folders_serial_nth. Qed.

Theorem C15_folder_i_pool : forall (B : Type) (c : cfg) (cores : nat) (l : list B),
  fix_map c = true -> folders c cores l = folders_serial l.
Proof. exact @folders_fixed. Qed.

Theorem C15_folder_i_pool_partial : forall (B : Type) (c : cfg) (cores : nat) (l : list B),
  length l <= cores -> folders c cores l = folders_serial l.
Proof. exact @folders_partial. Qed.

Theorem C15_folder_i_pool_refuted : exists (l : list nat) (cores : nat), folders cfg_current cores l <> folders_serial l.
Proof. exact folders_refuted. Qed.

Print Assumptions C15_flatten_partial.
Print Assumptions C15_history_free.
Print Assumptions C15_history_free_partial.
Print Assumptions C15_free_params.
Print Assumptions C15_folder_i_pool_partial.
