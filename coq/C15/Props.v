(* C15 property theorems: statements only, each closed by `exact`.

   The model is parametrised by `cfg` = which repairs the code contains.  `cfg_now` is /repo as it
   stands: the seven defects of the snapshot 75ee8d3 are repaired (1e4dc27, c4fcf7f, ab776e6, 1799c30,
   1298d8e, 1b618eb, 9d1b558).  `cfg_snapshot` / `cfg_round1` / `cfg_round2` are historical trees.
   Statements named `_hist_...` / `..._legacy_refuted` (refuted / partial for drain = false or fix flags
   false) describe those historical trees and are kept so that a regression of a repair has a proved
   description; everything else describes /repo as it stands or any cfg. *)
From Coq Require Import ZArith List Bool Arith.
From PAFC15 Require Import Model Proofs1 Proofs2 Proofs3 Proofs4 Witness.
Import ListNotations.

(* ---- C15_sum: structure and value of a sum ---------------------------------------------------- *)

(* serial evaluation: the sum of every analysis' likelihood, else the first raising analysis' exception *)
Theorem C15_sum_serial : forall (A X : Type) (ev : A -> X -> res) (l : list A) (x : X),
  serial ev l x = spec_sum ev l x.
Proof. exact @serial_spec. Qed.

Theorem C15_serial_is_allowed : forall (A X : Type) (ev : A -> X -> res) (l : list A) (x : X),
  ok_answer ev l x (spec_sum ev l x).
Proof. exact @spec_sum_ok. Qed.

(* /repo today: every bracketing of + (and sum([...])) without with_free_parameters inside holds the
   analyses in the order written, as a CombinedModelAnalysis iff one of them carries a model, member i
   reading sub-instance i; with_free_parameters on the finished sum re-wraps them in order *)
Theorem C15_flatten : forall e : expr, nofree e = true -> eval cfg_now e = spec_struct e.
Proof. exact flatten_now. Qed.

Theorem C15_flatten_free_top : forall (c : cfg) (e : expr),
  nofree e = true -> guard c e = true -> eval c (Free e) = spec_struct (Free e).
Proof. exact flatten_free_top. Qed.

Theorem C15_flatten_partial : forall (c : cfg) (e : expr),
  nofree e = true -> guard c e = true -> eval c e = spec_struct e.
Proof. exact flatten_ok. Qed.

(* sums with a free-parameter operand: these orders raise ... *)
Theorem C15_free_left_raises : forall (c : cfg) (e b : expr), eval c (Add (Free e) b) = VErr.
Proof. exact free_left_raises. Qed.

Theorem C15_single_plus_free_raises : forall (c : cfg) (j : nat) (h : bool) (e : expr),
  eval c (Add (Leaf j h) (Free e)) = VErr.
Proof. exact single_plus_free_raises. Qed.

(* /repo today: the structure is the specified one for EVERY expression, with_free_parameters anywhere:
   sums in the order written, with_free_parameters re-wrapping a finished sum, and an error for anything
   that adds to a free-parameter sum (all four orders since 9d1b558) or frees a single analysis *)
Theorem C15_flatten_all : forall e : expr, eval cfg_now e = spec_struct e.
Proof. exact flatten_all_now. Qed.

Theorem C15_flatten_all_any_cfg : forall (c : cfg) (e : expr),
  fix_order c = true -> fix_new c = true -> fix_free_right c = true -> eval c e = spec_struct e.
Proof. exact flatten_all. Qed.

(* before 9d1b558 (a + b) + (c + d).with_free_parameters(p) was accepted silently *)
Theorem C15_hist_free_right_legacy_refuted : exists e : expr, eval cfg_round2 e <> spec_struct e.
Proof. exact free_right_legacy_refuted. Qed.

Theorem C15_hist_flatten_order_refuted :
  exists e : expr, nofree e = true /\ eval (mkCfg false true true true true true true) e <> spec_struct e.
Proof. exact flatten_order_refuted. Qed.

Theorem C15_hist_flatten_models_refuted :
  exists e : expr, nofree e = true /\ eval (mkCfg true false true true true true true) e <> spec_struct e.
Proof. exact flatten_models_refuted. Qed.

Theorem C15_member_i : forall (k : ckind) (l : list (nat * bool)) (i j : nat) (h : bool),
  nth_error l i = Some (j, h) ->
  nth_error (spec_items k l) i = Some (match k with KPlain => IPlain j h | _ => IIdx j h i end).
Proof. exact spec_items_nth. Qed.

(* the likelihood of an indexed collection: each analysis on its own sub-instance *)
Theorem C15_sum_sub_instances : forall (S : Type) (lik : nat -> S -> res) (its : list item) (w : S) (parts : list S),
  length parts = length its ->
  serial (item_lik lik) (reindex_from 0 its) (w, parts)
  = spec_sum (fun (p : nat * S) (_ : unit) => lik (fst p) (snd p)) (combine (map item_id its) parts) tt.
Proof. exact @indexed_sum. Qed.

(* END TO END, /repo today: for ANY bracketing e, any history of evaluations / visualize calls / core
   changes under any schedule, every outcome is the one for the analyses of e in the order written ... *)
Theorem C15_sum : forall (S : Type) (lik vlik : nat -> S -> res) (modf : Z -> item -> item) (e : expr) (fm : bool)
    (ops : list (op (X := S * list S))),
  nofree e = true -> is_leaf e = false ->
  Forall2 (out_ok (item_lik lik) (item_lik vlik))
          (trace modf (spec_items (spec_kind (leaves e)) (leaves e)) ops)
          (snd (run (item_lik lik) (item_lik vlik) modf true fm (items_of (eval cfg_now e)) st_init ops)).
Proof. exact @sum_end_to_end. Qed.

Theorem C15_sum_free : forall (S : Type) (lik vlik : nat -> S -> res) (modf : Z -> item -> item) (e : expr) (fm : bool)
    (ops : list (op (X := S * list S))),
  nofree e = true -> is_leaf e = false ->
  Forall2 (out_ok (item_lik lik) (item_lik vlik))
          (trace modf (spec_items KFree (leaves e)) ops)
          (snd (run (item_lik lik) (item_lik vlik) modf true fm (items_of (eval cfg_now (Free e))) st_init ops)).
Proof. exact @free_end_to_end. Qed.

(* ... whose value, when nobody raises, is the sum over the written analyses of their likelihood on
   their own sub-instance (indexed kinds) / on the instance itself (plain sum) *)
Theorem C15_sum_value_indexed : forall (S : Type) (lik : nat -> S -> res) (k : ckind) (l : list (nat * bool))
    (w : S) (parts : list S),
  k <> KPlain -> length parts = length l ->
  total (item_lik lik) (spec_items k l) (w, parts)
  = total (fun (p : nat * S) (_ : unit) => lik (fst p) (snd p)) (combine (map fst l) parts) tt.
Proof. exact @total_indexed. Qed.

Theorem C15_sum_value_plain : forall (S : Type) (lik : nat -> S -> res) (l : list (nat * bool)) (w : S) (parts : list S),
  total (item_lik lik) (spec_items KPlain l) (w, parts) = total (fun (j : nat) (_ : unit) => lik j w) (map fst l) tt.
Proof. exact @total_plain. Qed.

(* ---- C15_history_free: pool = serial, for every schedule, partition and history ----------------- *)

Theorem C15_partition : forall (A : Type) (cores : nat) (l : list A), 1 <= cores -> concat (split_procs cores l) = l.
Proof. exact @split_concat. Qed.

(* one call (evaluation or map) on a pool with nothing pending, any schedule `masks` *)
Theorem C15_pool_sum : forall (A X : Type) (ev : A -> X -> res) (drain : bool) (l : list A) (procs : list (list A))
    (x : X) (masks : list (list bool)) (qs : list (list res)),
  concat procs = l -> concat qs = [] -> length qs = length procs ->
  exists r qs', pool_call ev drain (length l) procs x masks qs = Some (r, qs')
                /\ ok_answer ev l x r
                /\ length qs' = length procs
                /\ ((drain = true \/ existsb (raises ev x) l = false) -> concat qs' = []).
Proof. exact @pool_call_clean. Qed.

(* /repo today: every outcome of every history (evaluations and visualize calls with arbitrary
   schedules, raising calls of any exception class, changes of n_cores incl. back to 1 with the old
   pool kept, modify_before_fit changing the members in place) is right FOR THE MEMBERS AS THEY ARE WHEN
   THE CALL IS MADE (`trace`): the sum, or the exception of one of the raising analyses.  In particular
   a pool used after modify_before_fit evaluates the modified members: the combined analysis is rebuilt *)
Theorem C15_history_free : forall (A X : Type) (ev vis : A -> X -> res) (modf : Z -> A -> A) (fm : bool) (l : list A)
    (ops : list (op (X := X))),
  Forall2 (out_ok ev vis) (trace modf l ops) (snd (run ev vis modf true fm l st_init ops)).
Proof. exact @history_free_now. Qed.

(* when the raising analyses of each call agree on the exception class, the answers are exactly the
   serial ones ... *)
Theorem C15_history_answers : forall (A X : Type) (ev vis : A -> X -> res) (modf : Z -> A -> A) (fm : bool) (l : list A)
    (ops : list (op (X := X))),
  Forall (call_uniform ev vis) (trace modf l ops) ->
  map out_ans (snd (run ev vis modf true fm l st_init ops)) = map (call_spec ev vis) (trace modf l ops).
Proof. exact @history_answers_now. Qed.

(* ... hence independent of the number of cores, the schedules and whatever happened before *)
Theorem C15_cores_independent : forall (A X : Type) (ev vis : A -> X -> res) (modf : Z -> A -> A) (fm fm' : bool)
    (l : list A) (ops ops' : list (op (X := X))),
  Forall (call_uniform ev vis) (trace modf l ops) -> Forall (call_uniform ev vis) (trace modf l ops') ->
  map erase (trace modf l ops) = map erase (trace modf l ops') ->
  map out_ans (snd (run ev vis modf true fm l st_init ops)) = map out_ans (snd (run ev vis modf true fm' l st_init ops')).
Proof. exact @cores_independent_now. Qed.

(* the pool of a rebuilt combined analysis holds the modified members *)
Theorem C15_rebuilt_pool_is_current : forall (A : Type) (l : list A) (c0 : nat),
  clean l (set_cores l (mkSt c0 false [] []) c0).
Proof. exact @clean_rebuilt. Qed.

(* historical results(): the same for every call not preceded by a raising call of the same pool *)
Theorem C15_hist_history_free_partial : forall (A X : Type) (ev vis : A -> X -> res) (modf : Z -> A -> A) (drain fm : bool)
    (l : list A) (ops : list (op (X := X))),
  Forall2 (meets ev vis) (guarded ev vis modf drain l 1 false false ops) (snd (run ev vis modf drain fm l st_init ops)).
Proof. exact @history_free_partial. Qed.

Theorem C15_hist_history_free_refuted : exists (l : list nat) (ops : list (op (X := Z))),
  ~ Forall2 (out_ok w_ev w_vis) (trace w_modf l ops) (snd (run w_ev w_vis w_modf false false l st_init ops)).
Proof. exact history_free_refuted. Qed.

(* ---- C15_free_params: the fitted model --------------------------------------------------------- *)

Theorem C15_free_model_i : forall (free : list nat) (n : nat) (m : list nat) (i : nat),
  i < n -> nth_error (modify_free free n m) i = Some (map (slot_id free i) m).
Proof. exact free_nth. Qed.

(* one independent copy per analysis of every free parameter, a single shared copy of the others *)
Theorem C15_free_sharing : forall (free : list nat) (i i' p p' : nat),
  slot_id free i p = slot_id free i' p' <-> p = p' /\ (In p free -> i = i').
Proof. exact slot_sharing. Qed.

Theorem C15_free_params : forall (free : list nat) (n : nat) (m : list nat), 1 <= n ->
  prior_count (modify_free free n m) = length (free_in free m) * n + length (shared_in free m).
Proof. exact free_count. Qed.

(* end to end: the fitted model of e.with_free_parameters(free) for any bracketing e: analysis i in the
   order written reads its own model (with_model) or the default one, with its own copy of the free priors *)
Theorem C15_free_params_of_expr : forall (e : expr) (default : list nat) (own : list (list nat)) (free : list nat),
  nofree e = true -> is_leaf e = false ->
  fitted_models cfg_now (kind_of (eval cfg_now (Free e))) (items_of (eval cfg_now (Free e))) default own free
  = modify_free_own free default own (spec_items KFree (leaves e)).
Proof. exact fitted_free_end_to_end. Qed.

Theorem C15_free_params_of_plain_expr : forall (e : expr) (default : list nat) (own : list (list nat)) (free : list nat),
  nofree e = true -> is_leaf e = false -> any_model (leaves e) = false ->
  fitted_models cfg_now (kind_of (eval cfg_now (Free e))) (items_of (eval cfg_now (Free e))) default own free
  = modify_free free (length (leaves e)) default.
Proof. exact fitted_free_plain_end_to_end. Qed.

Theorem C15_own_model_i : forall (default : list nat) (own : list (list nat)) (its : list item) (i : nat) (it : item),
  nth_error its i = Some it ->
  nth_error (modify_models default own its) i = Some (map Orig (base_model default own it)).
Proof. exact models_nth. Qed.

Theorem C15_own_models_count : forall (default : list nat) (own : list (list nat)) (its : list item),
  prior_count (modify_models default own its) = length (nodup Nat.eq_dec (concat (map (base_model default own) its))).
Proof. exact models_count. Qed.

(* free parameters over analyses with their own models: /repo today frees inside each analysis' own
   model (1298d8e); before that repair the own models were dropped *)
Theorem C15_free_own : forall (its : list item) (default : list nat) (own : list (list nat)) (free : list nat),
  fitted_models cfg_now KFree its default own free = modify_free_own free default own its.
Proof. exact fitted_free_own_now. Qed.

Theorem C15_hist_free_own_legacy_refuted : exists (its : list item) (default : list nat) (own : list (list nat)) (free : list nat),
  fitted_models cfg_round1 KFree its default own free <> modify_free_own free default own its.
Proof. exact free_own_legacy_refuted. Qed.

Theorem C15_free_own_model_i : forall (free default : list nat) (own : list (list nat)) (its : list item) (i : nat) (it : item),
  nth_error its i = Some it ->
  nth_error (modify_free_own free default own its) i = Some (map (slot_id free i) (base_model default own it)).
Proof. exact free_own_nth. Qed.

(* ---- C15_child_i: a fit ------------------------------------------------------------------------- *)

(* modify_before_fit keeps the analyses in order; make_result builds child i from analysis i (and
   model i); save_results hands child i to analysis i in folder i *)
Theorem C15_fit_rebuilt : forall (c : cfg) (k : ckind) (its : list item), map item_id (rebuilt c k its) = map item_id its.
Proof. exact rebuilt_ids. Qed.

Theorem C15_child_i : forall (k : ckind) (n : nat) (its : list item) (i : nat) (it : item),
  n = length its -> nth_error its i = Some it ->
  nth_error (children k n its) i = Some (match k with KPlain => None | _ => Some i end, it).
Proof. exact children_nth. Qed.

Theorem C15_fit_positions : forall (k : ckind) (n : nat) (its : list item) (i : nat) (it : item),
  n = length its -> nth_error its i = Some it ->
  nth_error (saved its (children k n its)) i = Some (i, (it, (match k with KPlain => None | _ => Some i end, it))).
Proof. exact saved_nth. Qed.

Theorem C15_folder_i_serial : forall (B : Type) (l : list B) (i : nat),
  nth_error (folders_serial l) i = option_map (fun b => (i, b)) (nth_error l i).
Proof. exact @folders_serial_nth. Qed.

(* /repo today: map uses the serial folders for every core count, also inside histories *)
Theorem C15_folder_i_pool : forall (B : Type) (cores : nat) (l : list B), folders true cores l = folders_serial l.
Proof. exact @folders_now. Qed.

Theorem C15_map_written : forall (B X : Type) (vis : B -> X -> res) (x : X) (cores : nat) (l : list B), 1 <= cores ->
  filter (fun p => negb (raises vis x (snd p))) (folders_procs true 0 0 (split_procs cores l))
  = filter (fun p => negb (raises vis x (snd p))) (folders_serial l).
Proof. exact @map_written_now. Qed.

Theorem C15_hist_folder_i_pool_partial : forall (B : Type) (fm : bool) (cores : nat) (l : list B),
  length l <= cores -> folders fm cores l = folders_serial l.
Proof. exact @folders_partial. Qed.

Theorem C15_hist_folder_i_pool_refuted : exists (l : list nat) (cores : nat), folders false cores l <> folders_serial l.
Proof. exact folders_refuted. Qed.

(* ---- C15_repeated: the same analysis written more than once (a + b + a, (a + b) + (a + b), sum([c, c, c])) ---- *)

(* the total counts every analysis once per OCCURRENCE: sum over the distinct analyses of count * likelihood *)
Theorem C15_sum_multiplicity : forall (A X : Type) (dec : forall a b : A, {a = b} + {a <> b}) (ev : A -> X -> res) (x : X) (l : list A),
  total ev l x = weighted dec ev x l (nodup dec l).
Proof. exact @total_multiplicity. Qed.

Theorem C15_serial_multiplicity : forall (A X : Type) (dec : forall a b : A, {a = b} + {a <> b}) (ev : A -> X -> res) (x : X) (l : list A),
  existsb (raises ev x) l = false -> serial ev l x = RVal (weighted dec ev x l (nodup dec l)).
Proof. exact @serial_multiplicity. Qed.

Theorem C15_pool_multiplicity : forall (A X : Type) (dec : forall a b : A, {a = b} + {a <> b}) (ev : A -> X -> res) (x : X)
    (drain : bool) (l : list A) (procs : list (list A)) (masks : list (list bool)) (qs : list (list res)),
  concat procs = l -> concat qs = [] -> length qs = length procs -> existsb (raises ev x) l = false ->
  exists qs', pool_call ev drain (length l) procs x masks qs = Some (RVal (weighted dec ev x l (nodup dec l)), qs').
Proof. exact @pool_multiplicity. Qed.

(* a sum over the de-duplicated analyses (a dict / set keyed by the analysis object) is the property only
   when nothing is repeated ... *)
Theorem C15_dedup_sum_partial : forall (A X : Type) (dec : forall a b : A, {a = b} + {a <> b}) (ev : A -> X -> res) (x : X) (l : list A),
  NoDup l -> total ev (nodup dec l) x = total ev l x.
Proof. exact @dedup_total_nodup. Qed.

(* ... and is wrong for a + b + a *)
Theorem C15_dedup_sum_refuted : exists (l : list nat) (x : unit),
  total (fun (a : nat) (_ : unit) => RVal (Z.of_nat a)) (nodup Nat.eq_dec l) x
  <> total (fun (a : nat) (_ : unit) => RVal (Z.of_nat a)) l x.
Proof. exact dedup_total_refuted. Qed.

(* /repo today: the combined analysis holds one member per written occurrence, in the order written,
   with and without with_free_parameters *)
Theorem C15_members_written : forall e : expr, nofree e = true -> is_leaf e = false ->
  map item_id (items_of (eval cfg_now e)) = map fst (leaves e).
Proof. exact members_written. Qed.

Theorem C15_members_written_free : forall e : expr, nofree e = true -> is_leaf e = false ->
  map item_id (items_of (eval cfg_now (Free e))) = map fst (leaves e).
Proof. exact members_written_free. Qed.

Theorem C15_member_multiplicity : forall (e : expr) (j : nat), nofree e = true -> is_leaf e = false ->
  count_occ Nat.eq_dec (map item_id (items_of (eval cfg_now e))) j = count_occ Nat.eq_dec (map fst (leaves e)) j
  /\ count_occ Nat.eq_dec (map item_id (items_of (eval cfg_now (Free e)))) j = count_occ Nat.eq_dec (map fst (leaves e)) j.
Proof. exact member_multiplicity. Qed.

(* free parameters of a sum of plain analyses: one copy per written occurrence, repetitions included *)
Theorem C15_free_params_count_of_expr : forall (e : expr) (default : list nat) (own : list (list nat)) (free : list nat),
  nofree e = true -> is_leaf e = false -> any_model (leaves e) = false ->
  prior_count (fitted_models cfg_now (kind_of (eval cfg_now (Free e))) (items_of (eval cfg_now (Free e))) default own free)
  = length (free_in free default) * length (leaves e) + length (shared_in free default).
Proof. exact free_count_of_expr. Qed.

(* the harness analyses of the correspondence modify themselves in place, once per position *)
Theorem C15_inplace_modify_per_position : forall (d : Z) (its : list item) (it : item), In it its -> item_hm it = false ->
  In (it, ((d * Z.of_nat (occurrences its it))%Z, Z.of_nat (occurrences its it))) (map (modf_member d) (fresh_members its)).
Proof. exact modf_member_fresh. Qed.

Print Assumptions C15_sum.
Print Assumptions C15_history_free.
Print Assumptions C15_cores_independent.
Print Assumptions C15_free_params.
Print Assumptions C15_fit_positions.
Print Assumptions C15_sum_multiplicity.
Print Assumptions C15_pool_multiplicity.
Print Assumptions C15_free_params_count_of_expr.
