From Coq Require Import ZArith List.
From PAFC15 Require Import Model.
Theorem C15_stub : eval cfg_current (Leaf 0 false) = VSingle 0 false.
Proof. exact eq_refl. Qed.
