(* C15 lemmas, part 1: the algebra of `+` -- for every bracketing accepted by `guard`
   (all of them once repaired) the combined analysis holds the analyses in the order written,
   is a CombinedModelAnalysis iff some analysis carries a model, and index = position. *)
From Coq Require Import ZArith List Bool Arith Lia.
From PAFC15 Require Import Model.
Import ListNotations.

Definition strip (it : item) : item := IPlain (item_id it) (item_hm it).

Lemma reindex_strip (i : nat) (l : list item) : reindex_from i (map strip l) = reindex_from i l.
Proof. revert i. induction l as [|a l IH]; intro i; simpl; [reflexivity|]. rewrite IH. destruct a; reflexivity. Qed.

Lemma strip_reindex (i : nat) (l : list item) : map strip (reindex_from i l) = map strip l.
Proof. revert i. induction l as [|a l IH]; intro i; simpl; [reflexivity|]. rewrite IH. destruct a; reflexivity. Qed.

Lemma strip_plain (l : list (nat * bool)) : map strip (plain_items l) = plain_items l.
Proof. unfold plain_items. rewrite map_map. apply map_ext. intros [j h]. reflexivity. Qed.

Lemma reindex_same_strip (i : nat) (a b : list item) : map strip a = map strip b -> reindex_from i a = reindex_from i b.
Proof. intro H. rewrite <- (reindex_strip i a), <- (reindex_strip i b), H. reflexivity. Qed.

Lemma strip_spec_items (k : ckind) (l : list (nat * bool)) : map strip (spec_items k l) = plain_items l.
Proof. destruct k; simpl; [apply strip_plain | rewrite strip_reindex; apply strip_plain ..]. Qed.

Lemma plain_items_app (a b : list (nat * bool)) : plain_items (a ++ b) = plain_items a ++ plain_items b.
Proof. apply map_app. Qed.

Lemma any_model_app (a b : list (nat * bool)) : any_model (a ++ b) = any_model a || any_model b.
Proof. apply existsb_app. Qed.

Lemma model_arg_plain (c : cfg) (l : list (nat * bool)) : existsb (is_model_arg c) (plain_items l) = any_model l.
Proof. unfold plain_items, any_model. induction l as [|[j h] l IH]; simpl; [reflexivity|]. rewrite IH. reflexivity. Qed.

Lemma model_arg_reindex (c : cfg) (i : nat) (l : list (nat * bool)) :
  existsb (is_model_arg c) (reindex_from i (plain_items l)) = fix_new c && any_model l.
Proof.
  revert i. unfold plain_items, any_model. induction l as [|[j h] l IH]; intro i; simpl.
  - destruct (fix_new c); reflexivity.
  - rewrite IH. destruct (fix_new c), h; reflexivity.
Qed.

Lemma model_arg_spec (c : cfg) (l : list (nat * bool)) :
  existsb (is_model_arg c) (spec_items (spec_kind l) l) = (if any_model l then fix_new c else false).
Proof.
  unfold spec_kind. destruct (any_model l) eqn:E; simpl.
  - rewrite model_arg_reindex, E. destruct (fix_new c); reflexivity.
  - rewrite model_arg_plain. exact E.
Qed.

(* constructing from arguments that list the right analyses gives the specified structure as soon
   as the class decision is right and, for a plain sum, no stale wrapper is among the arguments *)
Lemma construct_ok (c : cfg) (cls : ckind) (args : list item) (l : list (nat * bool)) :
  map strip args = plain_items l ->
  (if existsb (is_model_arg c) args then KModel else cls) = spec_kind l ->
  (spec_kind l = KPlain -> args = plain_items l) ->
  construct c cls args = VComb (spec_kind l) (spec_items (spec_kind l) l).
Proof.
  intros Hs Hk Hp. unfold construct. rewrite Hk.
  destruct (spec_kind l) eqn:E.
  - rewrite (Hp eq_refl). reflexivity.
  - simpl. f_equal. apply reindex_same_strip. rewrite Hs, strip_plain. reflexivity.
  - simpl. f_equal. apply reindex_same_strip. rewrite Hs, strip_plain. reflexivity.
Qed.

Lemma spec_items_plain_kind (l : list (nat * bool)) : spec_kind l = KPlain -> spec_items (spec_kind l) l = plain_items l.
Proof. intro H. rewrite H. reflexivity. Qed.

Lemma spec_kind_plain_iff (l : list (nat * bool)) : spec_kind l = KPlain <-> any_model l = false.
Proof. unfold spec_kind. destruct (any_model l); split; intro H; try reflexivity; discriminate. Qed.

Lemma spec_kind_not_free (l : list (nat * bool)) : spec_kind l <> KFree.
Proof. unfold spec_kind. destruct (any_model l); discriminate. Qed.

(* how `add` reduces when no operand is a FreeParameterAnalysis *)
Lemma add_cc (c : cfg) (k k' : ckind) (its its' : list item) :
  k <> KFree -> k' <> KFree -> add c (VComb k its) (VComb k' its') = construct c k (its ++ its').
Proof. intros H H'. destruct k, k'; try reflexivity; contradiction. Qed.
Lemma add_cs (c : cfg) (k : ckind) (its : list item) (j : nat) (h : bool) :
  k <> KFree -> add c (VComb k its) (VSingle j h) = construct c k (its ++ [IPlain j h]).
Proof. intro H. destruct k; try reflexivity; contradiction. Qed.
Lemma add_sc (c : cfg) (k : ckind) (its : list item) (j : nat) (h : bool) :
  k <> KFree -> add c (VSingle j h) (VComb k its)
  = if fix_order c then construct c k (IPlain j h :: its) else construct c k (its ++ [IPlain j h]).
Proof. intro H. destruct k; try reflexivity; contradiction. Qed.

(* both operands combined *)
Lemma add_comb_comb (c : cfg) (la lb : list (nat * bool)) :
  (fix_new c || any_model la || negb (any_model lb)) = true ->
  construct c (spec_kind la) (spec_items (spec_kind la) la ++ spec_items (spec_kind lb) lb)
  = VComb (spec_kind (la ++ lb)) (spec_items (spec_kind (la ++ lb)) (la ++ lb)).
Proof.
  intro G. apply construct_ok.
  - rewrite map_app, !strip_spec_items, plain_items_app. reflexivity.
  - rewrite existsb_app, !model_arg_spec. unfold spec_kind. rewrite any_model_app.
    destruct (any_model la), (any_model lb), (fix_new c); simpl in *; try reflexivity; discriminate.
  - intro H. apply spec_kind_plain_iff in H. rewrite any_model_app in H. apply orb_false_iff in H.
    destruct H as [Ha Hb]. apply spec_kind_plain_iff in Ha, Hb.
    rewrite (spec_items_plain_kind la Ha), (spec_items_plain_kind lb Hb), plain_items_app. reflexivity.
Qed.

Lemma add_comb_single (c : cfg) (la : list (nat * bool)) (j : nat) (h : bool) :
  construct c (spec_kind la) (spec_items (spec_kind la) la ++ [IPlain j h])
  = VComb (spec_kind (la ++ [(j, h)])) (spec_items (spec_kind (la ++ [(j, h)])) (la ++ [(j, h)])).
Proof.
  apply construct_ok.
  - rewrite map_app, strip_spec_items, plain_items_app. reflexivity.
  - rewrite existsb_app, model_arg_spec. unfold spec_kind. rewrite any_model_app. simpl.
    destruct (any_model la), h, (fix_new c); reflexivity.
  - intro H. apply spec_kind_plain_iff in H. rewrite any_model_app in H. apply orb_false_iff in H.
    destruct H as [Ha _]. apply spec_kind_plain_iff in Ha.
    rewrite (spec_items_plain_kind la Ha), plain_items_app. reflexivity.
Qed.

Lemma add_single_comb (c : cfg) (lb : list (nat * bool)) (j : nat) (h : bool) :
  construct c (spec_kind lb) (IPlain j h :: spec_items (spec_kind lb) lb)
  = VComb (spec_kind ((j, h) :: lb)) (spec_items (spec_kind ((j, h) :: lb)) ((j, h) :: lb)).
Proof.
  apply construct_ok.
  - simpl. rewrite strip_spec_items. reflexivity.
  - change (existsb (is_model_arg c) (IPlain j h :: spec_items (spec_kind lb) lb))
      with (h || existsb (is_model_arg c) (spec_items (spec_kind lb) lb)).
    rewrite model_arg_spec. unfold spec_kind, any_model. simpl. fold (any_model lb).
    destruct (any_model lb), h, (fix_new c); reflexivity.
  - intro H. apply spec_kind_plain_iff in H. unfold any_model in H. simpl in H. apply orb_false_iff in H.
    destruct H as [_ Hb]. fold (any_model lb) in Hb. apply spec_kind_plain_iff in Hb.
    rewrite (spec_items_plain_kind lb Hb). reflexivity.
Qed.

Lemma add_single_single (c : cfg) (j j' : nat) (h h' : bool) :
  construct c KPlain [IPlain j h; IPlain j' h']
  = VComb (spec_kind [(j, h); (j', h')]) (spec_items (spec_kind [(j, h); (j', h')]) [(j, h); (j', h')]).
Proof. unfold construct, spec_kind, any_model. simpl. destruct h, h'; reflexivity. Qed.

(* the structure a sum without with_free_parameters inside must have *)
Definition sum_struct (e : expr) : aval :=
  match e with
  | Leaf j h => VSingle j h
  | _ => VComb (spec_kind (leaves e)) (spec_items (spec_kind (leaves e)) (leaves e))
  end.

Lemma spec_struct_nofree (e : expr) : nofree e = true -> spec_struct e = sum_struct e.
Proof. destruct e; simpl; intro H; [reflexivity| |discriminate]. rewrite H. reflexivity. Qed.

Lemma flatten_sum (c : cfg) (e : expr) : nofree e = true -> guard c e = true -> eval c e = sum_struct e.
Proof.
  induction e as [j h|a IHa b IHb|e IH]; intros N G; [reflexivity| |discriminate].
  simpl in N. apply andb_true_iff in N. destruct N as [Na Nb].
  simpl in G. apply andb_true_iff in G. destruct G as [G Gn]. apply andb_true_iff in G. destruct G as [G Go].
  apply andb_true_iff in G. destruct G as [Ga Gb].
  specialize (IHa Na Ga). specialize (IHb Nb Gb).
  change (eval c (Add a b)) with (add c (eval c a) (eval c b)). rewrite IHa, IHb.
  destruct a as [j h|a1 a2|a0]; destruct b as [j' h'|b1 b2|b0]; try discriminate.
  - simpl. apply add_single_single.
  - (* single + combined: needs the repaired operand order *)
    simpl in Go. rewrite orb_false_r in Go. unfold sum_struct.
    rewrite add_sc by apply spec_kind_not_free. rewrite Go.
    change (leaves (Add (Leaf j h) (Add b1 b2))) with ((j, h) :: leaves (Add b1 b2)).
    apply add_single_comb.
  - unfold sum_struct. rewrite add_cs by apply spec_kind_not_free.
    change (leaves (Add (Add a1 a2) (Leaf j' h'))) with (leaves (Add a1 a2) ++ [(j', h')]).
    apply add_comb_single.
  - unfold sum_struct. rewrite add_cc by apply spec_kind_not_free.
    change (leaves (Add (Add a1 a2) (Add b1 b2))) with (leaves (Add a1 a2) ++ leaves (Add b1 b2)).
    apply add_comb_comb. simpl in Gn. rewrite !orb_false_r in Gn. exact Gn.
Qed.

Theorem flatten_ok (c : cfg) (e : expr) : nofree e = true -> guard c e = true -> eval c e = spec_struct e.
Proof. intros N G. rewrite (spec_struct_nofree e N). apply flatten_sum; assumption. Qed.

Lemma guard_repaired (c : cfg) (e : expr) : fix_order c = true -> fix_new c = true -> guard c e = true.
Proof.
  intros O N. induction e as [j h|a IHa b IHb|e IH]; simpl; [reflexivity| |exact IH].
  rewrite IHa, IHb, O, N. reflexivity.
Qed.

(* /repo as it stands (both repairs of `+` are in): every bracketing *)
Theorem flatten_now (e : expr) : nofree e = true -> eval cfg_now e = spec_struct e.
Proof. intro N. apply flatten_ok; [exact N|apply guard_repaired; reflexivity]. Qed.

(* with_free_parameters re-wraps every member with index = position *)
Lemma with_free_spec (k : ckind) (l : list (nat * bool)) :
  with_free (VComb k (spec_items k l)) = VComb KFree (spec_items KFree l).
Proof.
  simpl. f_equal. apply reindex_same_strip. rewrite strip_spec_items, strip_plain. reflexivity.
Qed.

(* with_free_parameters on a finished sum (on a single analysis: AttributeError) *)
Theorem flatten_free_top (c : cfg) (e : expr) :
  nofree e = true -> guard c e = true -> eval c (Free e) = spec_struct (Free e).
Proof.
  intros N G. change (eval c (Free e)) with (with_free (eval c e)). rewrite (flatten_ok c e N G). reflexivity.
Qed.

(* the specification of with_free_parameters on a finished sum, spelled out *)
Lemma spec_struct_free_sum (a b : expr) : nofree (Add a b) = true ->
  spec_struct (Free (Add a b)) = VComb KFree (spec_items KFree (leaves (Add a b))).
Proof. intro N. change (spec_struct (Free (Add a b))) with (with_free (spec_struct (Add a b))).
  simpl spec_struct. simpl in N. rewrite N. apply with_free_spec. Qed.

(* adding to a free-parameter sum, or adding a single analysis to one, raises *)
Lemma eval_free_kind (c : cfg) (e : expr) : eval c (Free e) = VErr \/ exists its, eval c (Free e) = VComb KFree its.
Proof. simpl. destruct (eval c e); simpl; auto. right. eexists. reflexivity. Qed.

Theorem free_left_raises (c : cfg) (e b : expr) : eval c (Add (Free e) b) = VErr.
Proof.
  change (eval c (Add (Free e) b)) with (add c (eval c (Free e)) (eval c b)).
  destruct (eval_free_kind c e) as [H|[its H]]; rewrite H; [reflexivity|]. destruct (eval c b); reflexivity.
Qed.

Theorem single_plus_free_raises (c : cfg) (j : nat) (h : bool) (e : expr) : eval c (Add (Leaf j h) (Free e)) = VErr.
Proof.
  change (eval c (Add (Leaf j h) (Free e))) with (add c (VSingle j h) (eval c (Free e))).
  destruct (eval_free_kind c e) as [H|[its H]]; rewrite H; reflexivity.
Qed.

(* what the specification says about members: written order, index = position *)
Lemma reindex_nth (i k : nat) (l : list item) (it : item) :
  nth_error l k = Some it -> nth_error (reindex_from i l) k = Some (IIdx (item_id it) (item_hm it) (i + k)).
Proof.
  revert i k. induction l as [|a l IH]; intros i k H; destruct k; simpl in *; try discriminate.
  - inversion H. rewrite Nat.add_0_r. reflexivity.
  - rewrite (IH (S i) k H). f_equal. f_equal. lia.
Qed.

Lemma spec_items_nth (k : ckind) (l : list (nat * bool)) (i j : nat) (h : bool) :
  nth_error l i = Some (j, h) ->
  nth_error (spec_items k l) i = Some (match k with KPlain => IPlain j h | _ => IIdx j h i end).
Proof.
  intro H. assert (P : nth_error (plain_items l) i = Some (IPlain j h)).
  { unfold plain_items. rewrite nth_error_map, H. reflexivity. }
  destruct k; simpl; [exact P | rewrite (reindex_nth 0 i _ _ P); reflexivity ..].
Qed.

Lemma spec_items_length (k : ckind) (l : list (nat * bool)) : length (spec_items k l) = length l.
Proof.
  assert (R : forall i its, length (reindex_from i its) = length its).
  { intros i its. revert i. induction its; intro i; simpl; auto. }
  destruct k; simpl; unfold plain_items; rewrite ?R, map_length; reflexivity.
Qed.

(* ---------- every expression, with_free_parameters anywhere (needs the repair 9d1b558 = fix_free_right) ---------- *)
Lemma add_err_l (c : cfg) (x : aval) : add c VErr x = VErr.
Proof. destruct x; reflexivity. Qed.
Lemma add_err_r (c : cfg) (x : aval) : add c x VErr = VErr.
Proof. destruct x as [j h|k its|]; try reflexivity. destruct k; reflexivity. Qed.
Lemma add_free_l (c : cfg) (its : list item) (x : aval) : add c (VComb KFree its) x = VErr.
Proof. destruct x; reflexivity. Qed.
Lemma add_free_r (c : cfg) (its : list item) (x : aval) : fix_free_right c = true -> add c x (VComb KFree its) = VErr.
Proof. intro F. destruct x as [j h|k its'|]; try reflexivity. destruct k; simpl; rewrite ?F; reflexivity. Qed.

Lemma spec_shape_free (e : expr) : nofree e = false -> spec_struct e = VErr \/ exists its, spec_struct e = VComb KFree its.
Proof.
  destruct e as [j h|a b|e']; intro N; [discriminate| |].
  - left. simpl. simpl in N. rewrite N. reflexivity.
  - simpl. destruct (spec_struct e'); auto. right. eexists. reflexivity.
Qed.

(* with all three repairs of `+` the structure is the specified one for EVERY expression: sums in the
   order written, with_free_parameters on a finished sum, and an error for anything that adds to a
   free-parameter sum or frees a single analysis *)
Theorem flatten_all (c : cfg) (e : expr) :
  fix_order c = true -> fix_new c = true -> fix_free_right c = true -> eval c e = spec_struct e.
Proof.
  intros O Nw F. induction e as [j h|a IHa b IHb|e IH]; [reflexivity| |].
  - destruct (nofree (Add a b)) eqn:N.
    + apply flatten_ok; [exact N|apply guard_repaired; assumption].
    + change (eval c (Add a b)) with (add c (eval c a) (eval c b)). rewrite IHa, IHb.
      assert (S : spec_struct (Add a b) = VErr) by (simpl; simpl in N; rewrite N; reflexivity). rewrite S.
      simpl in N. destruct (nofree a) eqn:Na.
      * simpl in N. destruct (spec_shape_free b N) as [H|[its H]]; rewrite H; [apply add_err_r|apply add_free_r; exact F].
      * destruct (spec_shape_free a Na) as [H|[its H]]; rewrite H; [apply add_err_l|apply add_free_l].
  - change (eval c (Free e)) with (with_free (eval c e)). rewrite IH. reflexivity.
Qed.

(* /repo as it stands *)
Theorem flatten_all_now (e : expr) : eval cfg_now e = spec_struct e.
Proof. exact (flatten_all cfg_now e eq_refl eq_refl eq_refl). Qed.
