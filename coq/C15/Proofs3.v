(* C15 lemmas, part 3: the fitted model (free parameters / per-analysis models), sub-instances,
   child results and folders. *)
From Coq Require Import ZArith List Bool Arith Lia Permutation.
From PAFC15 Require Import Model Proofs1 Proofs2.
Import ListNotations.

(* ---------- identities of priors ---------- *)
Lemma pid_eqb_spec (a b : pid) : pid_eqb a b = true <-> a = b.
Proof.
  destruct a as [p|i p], b as [q|k q]; simpl; split; intro H; try discriminate.
  - apply Nat.eqb_eq in H. congruence.
  - inversion H. apply Nat.eqb_refl.
  - apply andb_true_iff in H. destruct H as [H1 H2]. apply Nat.eqb_eq in H1, H2. congruence.
  - inversion H. rewrite !Nat.eqb_refl. reflexivity.
Qed.

Definition pid_dec (a b : pid) : {a = b} + {a <> b}.
Proof. decide equality; apply Nat.eq_dec. Defined.

Lemma memn_In (p : nat) (l : list nat) : memn p l = true <-> In p l.
Proof.
  unfold memn. rewrite existsb_exists. split.
  - intros (x & Hx & E). apply Nat.eqb_eq in E. subst. exact Hx.
  - intro H. exists p. split; [exact H|apply Nat.eqb_refl].
Qed.

Definition slot_id (free : list nat) (i p : nat) : pid := if memn p free then Fresh i p else Orig p.

Lemma free_model_map (free : list nat) (i : nat) (m : list nat) : free_model free i m = map (slot_id free i) m.
Proof. reflexivity. Qed.

(* two slots of the fitted model hold the same parameter iff they held the same parameter of the
   original model and either that parameter is not free or the two analyses are the same *)
Theorem slot_sharing (free : list nat) (i i' p p' : nat) :
  slot_id free i p = slot_id free i' p' <-> p = p' /\ (In p free -> i = i').
Proof.
  unfold slot_id. destruct (memn p free) eqn:M; destruct (memn p' free) eqn:M'; split; intro H.
  - inversion H. subst. split; auto.
  - destruct H as [E F]. subst p'. rewrite (F (proj1 (memn_In _ _) M)). reflexivity.
  - discriminate.
  - destruct H as [E _]. subst p'. congruence.
  - discriminate.
  - destruct H as [E _]. subst p'. congruence.
  - inversion H. subst. split; [reflexivity|]. intro I. apply memn_In in I. congruence.
  - destruct H as [E _]. subst. reflexivity.
Qed.

(* ---------- counting the parameters ---------- *)
Lemma firsts_aux_spec (l : list pid) : forall acc,
  NoDup acc ->
  let r := fold_left (fun acc x => if existsb (pid_eqb x) acc then acc else acc ++ [x]) l acc in
  NoDup r /\ (forall x, In x r <-> In x acc \/ In x l).
Proof.
  induction l as [|a l IH]; intros acc N; simpl.
  - split; [exact N|]. intro x. tauto.
  - destruct (existsb (pid_eqb a) acc) eqn:E.
    + destruct (IH acc N) as [N' I']. split; [exact N'|]. intro x. rewrite I'.
      apply existsb_exists in E. destruct E as (y & Hy & Ey). apply pid_eqb_spec in Ey. subst y.
      split; [tauto|]. intros [H|[H|H]]; auto. subst. auto.
    + assert (Na : ~ In a acc).
      { intro H. assert (existsb (pid_eqb a) acc = true); [|congruence].
        apply existsb_exists. exists a. split; [exact H|]. apply pid_eqb_spec. reflexivity. }
      assert (N2 : NoDup (acc ++ [a])).
      { apply Permutation_NoDup with (l := a :: acc); [apply Permutation_cons_append|constructor; assumption]. }
      destruct (IH (acc ++ [a]) N2) as [N' I']. split; [exact N'|]. intro x. rewrite I', in_app_iff. simpl. tauto.
Qed.

Lemma firsts_spec (l : list pid) : NoDup (firsts l) /\ (forall x, In x (firsts l) <-> In x l).
Proof.
  destruct (firsts_aux_spec l [] (NoDup_nil _)) as [N I]. split; [exact N|].
  intro x. rewrite (I x). simpl. tauto.
Qed.

Lemma same_elements_length {B} (a b : list B) : NoDup a -> NoDup b -> (forall x, In x a <-> In x b) -> length a = length b.
Proof. intros Na Nb H. apply Permutation_length. apply NoDup_Permutation; assumption. Qed.

Lemma NoDup_app_intro {B} (a b : list B) : NoDup a -> NoDup b -> (forall x, In x a -> ~ In x b) -> NoDup (a ++ b).
Proof.
  induction a as [|x a IH]; intros Na Nb D; simpl; [exact Nb|].
  inversion Na; subst. constructor.
  - rewrite in_app_iff. intros [H|H]; [contradiction|]. apply (D x); [left; reflexivity|exact H].
  - apply IH; auto. intros y Hy. apply D. right. exact Hy.
Qed.

Lemma NoDup_map_inj {B C} (f : B -> C) (l : list B) : (forall x y, f x = f y -> x = y) -> NoDup l -> NoDup (map f l).
Proof.
  intros Inj N. induction N as [|x l Hx N IH]; simpl; constructor; [|exact IH].
  rewrite in_map_iff. intros (y & E & Hy). apply Inj in E. subst. contradiction.
Qed.

Definition fresh_block (F : list nat) (is : list nat) : list pid := flat_map (fun i => map (Fresh i) F) is.

Lemma fresh_block_in (F is : list nat) (x : pid) : In x (fresh_block F is) <-> exists i p, In i is /\ In p F /\ x = Fresh i p.
Proof.
  unfold fresh_block. rewrite in_flat_map. split.
  - intros (i & Hi & H). apply in_map_iff in H. destruct H as (p & E & Hp). exists i, p. auto.
  - intros (i & p & Hi & Hp & E). exists i. split; [exact Hi|]. apply in_map_iff. exists p. auto.
Qed.

Lemma fresh_block_nodup (F is : list nat) : NoDup F -> NoDup is -> NoDup (fresh_block F is).
Proof.
  intros NF Ni. induction Ni as [|i is Hi Ni IH]; simpl; [constructor|].
  apply NoDup_app_intro; [apply NoDup_map_inj; [intros x y E; congruence|exact NF]|exact IH|].
  intros x Hx Hb. apply in_map_iff in Hx. destruct Hx as (p & E & Hp). subst x.
  apply fresh_block_in in Hb. destruct Hb as (i' & p' & Hi' & _ & E). inversion E. subst. contradiction.
Qed.

Lemma fresh_block_length (F is : list nat) : length (fresh_block F is) = length is * length F.
Proof. induction is as [|i is IH]; simpl; [reflexivity|]. rewrite app_length, map_length, IH. reflexivity. Qed.

Definition free_in (free m : list nat) : list nat := nodup Nat.eq_dec (filter (fun p => memn p free) m).
Definition shared_in (free m : list nat) : list nat := nodup Nat.eq_dec (filter (fun p => negb (memn p free)) m).

Lemma in_modify_free (free : list nat) (n : nat) (m : list nat) (x : pid) :
  In x (concat (modify_free free n m)) <-> exists i p, i < n /\ In p m /\ x = slot_id free i p.
Proof.
  unfold modify_free. rewrite in_concat. split.
  - intros (row & Hr & Hx). apply in_map_iff in Hr. destruct Hr as (i & E & Hi). subst row.
    apply in_seq in Hi. rewrite free_model_map in Hx. apply in_map_iff in Hx. destruct Hx as (p & E & Hp).
    exists i, p. repeat split; auto; lia.
  - intros (i & p & Hi & Hp & E). exists (free_model free i m). split.
    + apply in_map_iff. exists i. split; [reflexivity|]. apply in_seq. lia.
    + rewrite free_model_map. apply in_map_iff. exists p. auto.
Qed.

(* |free| * n + |shared| distinct parameters *)
Theorem free_count (free : list nat) (n : nat) (m : list nat) : 1 <= n ->
  prior_count (modify_free free n m) = length (free_in free m) * n + length (shared_in free m).
Proof.
  intro Hn. unfold prior_count.
  set (L := map Orig (shared_in free m) ++ fresh_block (free_in free m) (seq 0 n)).
  destruct (firsts_spec (concat (modify_free free n m))) as [Nf If].
  assert (NL : NoDup L).
  { unfold L. apply NoDup_app_intro.
    - apply NoDup_map_inj; [intros x y E; congruence|apply NoDup_nodup].
    - apply fresh_block_nodup; [apply NoDup_nodup|apply seq_NoDup].
    - intros x Hx Hb. apply in_map_iff in Hx. destruct Hx as (p & E & _). subst x.
      apply fresh_block_in in Hb. destruct Hb as (i & q & _ & _ & E). discriminate. }
  assert (EL : forall x, In x (firsts (concat (modify_free free n m))) <-> In x L).
  { intro x. rewrite If, in_modify_free. unfold L. rewrite in_app_iff, in_map_iff, fresh_block_in. split.
    - intros (i & p & Hi & Hp & E). unfold slot_id in E. destruct (memn p free) eqn:M.
      + right. exists i, p. repeat split; auto.
        * apply in_seq. lia.
        * unfold free_in. apply nodup_In. apply filter_In. auto.
      + left. exists p. split; [auto|]. unfold shared_in. apply nodup_In. apply filter_In. rewrite M. auto.
    - intros [(p & E & Hp)|(i & p & Hi & Hp & E)].
      + unfold shared_in in Hp. apply nodup_In in Hp. apply filter_In in Hp. destruct Hp as [Hp M].
        exists 0, p. repeat split; auto. unfold slot_id. destruct (memn p free); [discriminate|auto].
      + unfold free_in in Hp. apply nodup_In in Hp. apply filter_In in Hp. destruct Hp as [Hp M].
        apply in_seq in Hi. exists i, p. repeat split; auto; [lia|]. unfold slot_id. rewrite M. exact E. }
  rewrite (same_elements_length _ _ Nf NL EL). unfold L.
  rewrite app_length, map_length, fresh_block_length, seq_length. lia.
Qed.

(* per-analysis models: the i-th model is the i-th analysis' own model, else the default one *)
Theorem models_nth (default : list nat) (own : list (list nat)) (its : list item) (i : nat) (it : item) :
  nth_error its i = Some it ->
  nth_error (modify_models default own its) i
  = Some (map Orig (base_model default own it)).
Proof. intro H. unfold modify_models. rewrite nth_error_map, H. reflexivity. Qed.

Theorem free_nth (free : list nat) (n : nat) (m : list nat) (i : nat) :
  i < n -> nth_error (modify_free free n m) i = Some (map (slot_id free i) m).
Proof.
  intro H. unfold modify_free. rewrite nth_error_map.
  replace (nth_error (seq 0 n) i) with (Some i); [reflexivity|].
  symmetry. rewrite (nth_error_nth' _ 0); [|rewrite seq_length; exact H]. rewrite seq_nth; auto.
Qed.

(* ---------- the i-th analysis sees the i-th sub-instance ---------- *)
Section Sub.
  Context {S : Type}.
  Variable lik : nat -> S -> res.

  Theorem indexed_sub_instance (its : list item) (i : nat) (it : item) (w : S) (parts : list S) (s : S) :
    nth_error its i = Some it -> nth_error parts i = Some s ->
    exists it', nth_error (reindex_from 0 its) i = Some it' /\ item_id it' = item_id it
                /\ item_lik lik it' (w, parts) = lik (item_id it) s.
  Proof.
    intros H P. exists (IIdx (item_id it) (item_hm it) i). split; [|split; [reflexivity|]].
    - rewrite (reindex_nth 0 i its it H). reflexivity.
    - simpl. rewrite P. reflexivity.
  Qed.

  Theorem plain_whole_instance (j : nat) (h : bool) (w : S) (parts : list S) :
    item_lik lik (IPlain j h) (w, parts) = lik j w.
  Proof. reflexivity. Qed.

  (* the answers of the members of an indexed collection: analysis k on sub-instance k *)
  Lemma indexed_answers (w : S) : forall (its : list item) (pre parts : list S),
    length parts = length its ->
    map (fun it => item_lik lik it (w, pre ++ parts)) (reindex_from (length pre) its)
    = map (fun p => lik (fst p) (snd p)) (combine (map item_id its) parts).
  Proof.
    induction its as [|it its IH]; intros pre parts L; [reflexivity|].
    destruct parts as [|s parts]; [discriminate|]. simpl in L.
    simpl. f_equal.
    - rewrite nth_error_app2 by lia. rewrite Nat.sub_diag. reflexivity.
    - specialize (IH (pre ++ [s]) parts ltac:(lia)). rewrite <- app_assoc, app_length in IH. simpl in IH.
      rewrite Nat.add_1_r in IH. exact IH.
  Qed.

  Lemma serial_answers {A1 X1 A2 X2} (ev1 : A1 -> X1 -> res) (ev2 : A2 -> X2 -> res) x1 x2 : forall l1 l2,
    map (fun a => ev1 a x1) l1 = map (fun a => ev2 a x2) l2 -> serial ev1 l1 x1 = serial ev2 l2 x2.
  Proof.
    induction l1 as [|a l1 IH]; intros l2 H; destruct l2 as [|b l2]; simpl in *; try discriminate; [reflexivity|].
    inversion H as [[Ha Hl]]. rewrite Ha, (IH l2 Hl). reflexivity.
  Qed.

  (* the likelihood of an indexed collection (free parameters / own models) is the sum of each
     analysis' likelihood on its own sub-instance (the first raising analysis' exception otherwise) *)
  Theorem indexed_sum (its : list item) (w : S) (parts : list S) :
    length parts = length its ->
    serial (item_lik lik) (reindex_from 0 its) (w, parts)
    = spec_sum (fun (p : nat * S) (_ : unit) => lik (fst p) (snd p)) (combine (map item_id its) parts) tt.
  Proof.
    intro L. rewrite <- serial_spec. apply serial_answers.
    exact (indexed_answers w its [] parts L).
  Qed.
End Sub.

(* ---------- folders ---------- *)
Lemma number_from_nth {B} (l : list B) : forall s i, nth_error (number_from s l) i = option_map (fun b => (s + i, b)) (nth_error l i).
Proof.
  induction l as [|b l IH]; intros s i; destruct i; simpl; auto.
  - rewrite Nat.add_0_r. reflexivity.
  - rewrite IH. destruct (nth_error l i); simpl; [|reflexivity]. f_equal. f_equal. lia.
Qed.

Lemma number_from_app {B} (a b : list B) (s : nat) : number_from s (a ++ b) = number_from s a ++ number_from (s + length a) b.
Proof.
  revert s. induction a as [|x a IH]; intro s; simpl; [rewrite Nat.add_0_r; reflexivity|].
  rewrite IH. do 3 f_equal. lia.
Qed.

(* serial: analysis i gets folder analysis_i *)
Theorem folders_serial_nth {B} (l : list B) (i : nat) : nth_error (folders_serial l) i = option_map (fun b => (i, b)) (nth_error l i).
Proof. unfold folders_serial. rewrite number_from_nth. reflexivity. Qed.

Lemma folders_procs_fixed {B} (procs : list (list B)) : forall pi start,
  folders_procs true pi start procs = number_from start (concat procs).
Proof.
  induction procs as [|p procs IH]; intros pi start; simpl; [reflexivity|].
  rewrite IH, number_from_app. reflexivity.
Qed.

(* /repo as it stands: the pool uses the same folders as the serial path, for every core count *)
Theorem folders_now {B} (cores : nat) (l : list B) : folders true cores l = folders_serial l.
Proof.
  unfold folders. destruct (1 <? cores) eqn:K; [|reflexivity].
  apply Nat.ltb_lt in K. rewrite folders_procs_fixed, split_concat; [reflexivity|lia].
Qed.

(* visualize through the pool inside a history: whatever pool exists (also one kept after n_cores
   went back to 1), the folders written are folder i for analysis i, for the analyses that did not raise *)
Theorem map_written_now {B X} (vis : B -> X -> res) (x : X) (cores : nat) (l : list B) : 1 <= cores ->
  filter (fun p => negb (raises vis x (snd p))) (folders_procs true 0 0 (split_procs cores l))
  = filter (fun p => negb (raises vis x (snd p))) (folders_serial l).
Proof. intro H. rewrite folders_procs_fixed, split_concat by exact H. reflexivity. Qed.

(* historical map: right when every process holds a single analysis *)
Lemma ceil_div_self (n : nat) : 1 <= n -> ceil_div n n = 1.
Proof.
  intro H. unfold ceil_div. symmetry. apply (Nat.div_unique (n + n - 1) n 1 (n - 1)); lia.
Qed.

Lemma singletons {B} (l : list B) :
  map (fun k => firstn 1 (skipn (k * 1) l)) (seq 0 (length l)) = map (fun b => [b]) l.
Proof.
  induction l as [|b l IH]; [reflexivity|].
  simpl length. rewrite <- cons_seq, <- seq_shift, map_cons, map_map. simpl. f_equal.
  rewrite <- IH. apply map_ext. intro k. reflexivity.
Qed.

Lemma folders_procs_singletons {B} (l : list B) : forall pi,
  folders_procs false pi pi (map (fun b => [b]) l) = number_from pi l.
Proof.
  induction l as [|b l IH]; intro pi; simpl; [reflexivity|]. f_equal.
  replace (pi + 1) with (S pi) by lia. apply IH.
Qed.

Theorem folders_partial {B} (fm : bool) (cores : nat) (l : list B) : length l <= cores -> folders fm cores l = folders_serial l.
Proof.
  intro H. destruct fm; [apply folders_now|].
  unfold folders. destruct (1 <? cores) eqn:K; [|reflexivity].
  destruct l as [|b l]; [reflexivity|].
  unfold split_procs. rewrite Nat.min_l by exact H. rewrite ceil_div_self by (simpl; lia).
  rewrite singletons. apply folders_procs_singletons.
Qed.

(* ---------- a fit: position i = folder i = analysis i = child result i = model i ---------- *)
Lemma reindex_ids (i : nat) (its : list item) : map item_id (reindex_from i its) = map item_id its.
Proof. revert i. induction its as [|a its IH]; intro i; simpl; [reflexivity|]. rewrite IH. reflexivity. Qed.
Lemma reindex_length (i : nat) (its : list item) : length (reindex_from i its) = length its.
Proof. revert i. induction its; intro i; simpl; auto. Qed.

(* modify_before_fit keeps the analyses in order *)
Theorem rebuilt_ids (c : cfg) (k : ckind) (its : list item) : map item_id (rebuilt c k its) = map item_id its.
Proof. destruct k; simpl; auto using reindex_ids. Qed.

Lemma nth_error_combine {B C} (a : list B) (b : list C) (i : nat) (x : B) (y : C) :
  nth_error (combine a b) i = Some (x, y) <-> nth_error a i = Some x /\ nth_error b i = Some y.
Proof.
  revert b i. induction a as [|p a IH]; intros b i.
  - simpl. destruct i; simpl; split; intro H; try discriminate; destruct H; discriminate.
  - destruct b as [|q b]; simpl.
    + destruct i; simpl; split; intro H; try discriminate; destruct H; discriminate.
    + destruct i; simpl.
      * split; intro H; [inversion H; auto|destruct H as [H1 H2]; inversion H1; inversion H2; reflexivity].
      * apply IH.
Qed.

Lemma seq_nth_error (n i : nat) : i < n -> nth_error (seq 0 n) i = Some i.
Proof. intro H. rewrite (nth_error_nth' _ 0); [|rewrite seq_length; exact H]. rewrite seq_nth; auto. Qed.

(* make_result: child i is made by analysis i from model i (plain sums: from the one model) *)
Theorem children_nth (k : ckind) (n : nat) (its : list item) (i : nat) (it : item) :
  n = length its -> nth_error its i = Some it ->
  nth_error (children k n its) i = Some (match k with KPlain => None | _ => Some i end, it).
Proof.
  intros N H. assert (I : i < length its) by (apply nth_error_Some; congruence).
  assert (C : nth_error (map (fun p => (Some (fst p), snd p)) (combine (seq 0 n) its)) i = Some (Some i, it)).
  { rewrite nth_error_map. replace (nth_error (combine (seq 0 n) its) i) with (Some (i, it)); [reflexivity|].
    symmetry. apply nth_error_combine. split; [apply seq_nth_error; lia|exact H]. }
  destruct k; simpl; [rewrite nth_error_map, H; reflexivity|exact C|exact C].
Qed.

(* save_results: folder i, analysis i and child result i meet *)
Theorem saved_nth (k : ckind) (n : nat) (its : list item) (i : nat) (it : item) :
  n = length its -> nth_error its i = Some it ->
  nth_error (saved its (children k n its)) i = Some (i, (it, (match k with KPlain => None | _ => Some i end, it))).
Proof.
  intros N H. unfold saved. rewrite number_from_nth.
  replace (nth_error (combine its (children k n its)) i)
    with (Some (it, (match k with KPlain => None | _ => Some i end, it))); [reflexivity|].
  symmetry. apply nth_error_combine. split; [exact H|apply children_nth; assumption].
Qed.

(* ---------- the fitted model of a with_model sum ---------- *)
Lemma concat_map_map {B C} (f : B -> C) (l : list (list B)) : concat (map (map f) l) = map f (concat l).
Proof. induction l as [|a l IH]; simpl; [reflexivity|]. rewrite IH, map_app. reflexivity. Qed.

Theorem models_count (default : list nat) (own : list (list nat)) (its : list item) :
  prior_count (modify_models default own its)
  = length (nodup Nat.eq_dec (concat (map (base_model default own) its))).
Proof.
  unfold prior_count, modify_models. rewrite <- map_map, concat_map_map.
  set (L := concat (map (base_model default own) its)).
  destruct (firsts_spec (map Orig L)) as [Nf If].
  rewrite (same_elements_length _ (map Orig (nodup Nat.eq_dec L)) Nf).
  - apply map_length.
  - apply NoDup_map_inj; [intros x y E; congruence|apply NoDup_nodup].
  - intro x. rewrite If, !in_map_iff. split; intros (p & E & Hp); exists p; split; auto;
      [apply nodup_In; exact Hp|apply nodup_In in Hp; exact Hp].
Qed.

(* free parameters over own models, repaired: analysis i gets its own model with its free priors freed *)
Theorem free_own_nth (free default : list nat) (own : list (list nat)) (its : list item) (i : nat) (it : item) :
  nth_error its i = Some it ->
  nth_error (modify_free_own free default own its) i = Some (map (slot_id free i) (base_model default own it)).
Proof.
  intro H. unfold modify_free_own. rewrite nth_error_map, number_from_nth, H. reflexivity.
Qed.

(* ---------- end to end over expressions (for /repo as it stands) ---------- *)
Lemma items_of_sum (e : expr) : nofree e = true -> is_leaf e = false ->
  eval cfg_now e = VComb (spec_kind (leaves e)) (spec_items (spec_kind (leaves e)) (leaves e)).
Proof. intros N L. rewrite (flatten_now e N). destruct e; simpl in *; try discriminate. rewrite N. reflexivity. Qed.

Section EndToEnd.
  Context {S : Type}.
  Variables lik vlik : nat -> S -> res.
  Variable modf : Z -> item -> item.     (* what modify_before_fit does to a member, in place *)

  (* every outcome of every history on the sum denoted by ANY bracketing e is the outcome for the
     analyses of e in the order written, member i reading sub-instance i when e carries models *)
  Theorem sum_end_to_end (e : expr) (fm : bool) (ops : list (op (X := S * list S))) :
    nofree e = true -> is_leaf e = false ->
    Forall2 (out_ok (item_lik lik) (item_lik vlik))
            (trace modf (spec_items (spec_kind (leaves e)) (leaves e)) ops)
            (snd (run (item_lik lik) (item_lik vlik) modf true fm (items_of (eval cfg_now e)) st_init ops)).
  Proof. intros N L. rewrite (items_of_sum e N L). simpl items_of. apply history_free_now. Qed.

  Theorem free_end_to_end (e : expr) (fm : bool) (ops : list (op (X := S * list S))) :
    nofree e = true -> is_leaf e = false ->
    Forall2 (out_ok (item_lik lik) (item_lik vlik))
            (trace modf (spec_items KFree (leaves e)) ops)
            (snd (run (item_lik lik) (item_lik vlik) modf true fm (items_of (eval cfg_now (Free e))) st_init ops)).
  Proof.
    intros N L. change (eval cfg_now (Free e)) with (with_free (eval cfg_now e)).
    rewrite (items_of_sum e N L), with_free_spec. simpl items_of. apply history_free_now.
  Qed.

  (* the value such an outcome carries when nobody raises: sum over the written analyses of their
     likelihood on their own sub-instance / on the instance itself *)
  Lemma total_answers {A1 X1 A2 X2} (ev1 : A1 -> X1 -> res) (ev2 : A2 -> X2 -> res) x1 x2 l1 l2 :
    map (fun a => ev1 a x1) l1 = map (fun a => ev2 a x2) l2 -> total ev1 l1 x1 = total ev2 l2 x2.
  Proof. intro H. rewrite <- (sum_vals ev1), <- (sum_vals ev2), H. reflexivity. Qed.

  Theorem total_indexed (k : ckind) (l : list (nat * bool)) (w : S) (parts : list S) :
    k <> KPlain -> length parts = length l ->
    total (item_lik lik) (spec_items k l) (w, parts)
    = total (fun (p : nat * S) (_ : unit) => lik (fst p) (snd p)) (combine (map fst l) parts) tt.
  Proof.
    intros K L. apply total_answers.
    assert (E : spec_items k l = reindex_from 0 (plain_items l)) by (destruct k; [contradiction|reflexivity ..]).
    rewrite E. pose proof (indexed_answers lik w (plain_items l) [] parts) as H. simpl in H.
    rewrite H by (unfold plain_items; rewrite map_length; exact L).
    unfold plain_items. rewrite map_map. reflexivity.
  Qed.

  Theorem total_plain (l : list (nat * bool)) (w : S) (parts : list S) :
    total (item_lik lik) (spec_items KPlain l) (w, parts) = total (fun (j : nat) (_ : unit) => lik j w) (map fst l) tt.
  Proof. apply total_answers. simpl. unfold plain_items. rewrite !map_map. reflexivity. Qed.
End EndToEnd.

(* the fitted model of e.with_free_parameters(free), any bracketing e: analysis i (in the order written)
   gets its own model (with_model) or the default one, with its own copy of every free prior *)
Theorem fitted_free_end_to_end (e : expr) (default : list nat) (own : list (list nat)) (free : list nat) :
  nofree e = true -> is_leaf e = false ->
  fitted_models cfg_now (kind_of (eval cfg_now (Free e))) (items_of (eval cfg_now (Free e))) default own free
  = modify_free_own free default own (spec_items KFree (leaves e)).
Proof.
  intros N L. change (eval cfg_now (Free e)) with (with_free (eval cfg_now e)).
  rewrite (items_of_sum e N L), with_free_spec. reflexivity.
Qed.

Lemma free_own_no_models (free default : list nat) (own : list (list nat)) : forall (its : list item) (s : nat),
  forallb (fun it => negb (item_hm it)) its = true ->
  map (fun p => free_model free (fst p) (base_model default own (snd p))) (number_from s its)
  = map (fun i => free_model free i default) (seq s (length its)).
Proof.
  induction its as [|it its IH]; intros s H; [reflexivity|].
  simpl in H. apply andb_true_iff in H. destruct H as [Hi Hr]. simpl. rewrite (IH (S s) Hr). f_equal.
  unfold base_model. destruct (item_hm it); [discriminate|reflexivity].
Qed.

Lemma reindex_hm (l : list (nat * bool)) : forall i,
  any_model l = false -> forallb (fun it => negb (item_hm it)) (reindex_from i (plain_items l)) = true.
Proof.
  unfold any_model, plain_items. induction l as [|[j h] l IH]; intros i H; [reflexivity|].
  simpl in H. apply orb_false_iff in H. destruct H as [Hh Hl]. simpl in Hh. subst h. simpl. apply IH. exact Hl.
Qed.

(* ... which, when no analysis carries a model, is one copy of the default model per written analysis *)
Theorem fitted_free_plain_end_to_end (e : expr) (default : list nat) (own : list (list nat)) (free : list nat) :
  nofree e = true -> is_leaf e = false -> any_model (leaves e) = false ->
  fitted_models cfg_now (kind_of (eval cfg_now (Free e))) (items_of (eval cfg_now (Free e))) default own free
  = modify_free free (length (leaves e)) default.
Proof.
  intros N L M. rewrite (fitted_free_end_to_end e default own free N L).
  unfold modify_free_own, modify_free. simpl spec_items.
  rewrite (free_own_no_models free default own _ 0 (reindex_hm (leaves e) 0 M)).
  rewrite reindex_length. unfold plain_items. rewrite map_length. reflexivity.
Qed.

(* /repo today: free parameters over own models keep the own models *)
Theorem fitted_free_own_now (its : list item) (default : list nat) (own : list (list nat)) (free : list nat) :
  fitted_models cfg_now KFree its default own free = modify_free_own free default own its.
Proof. reflexivity. Qed.
