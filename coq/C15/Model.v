(* C15 model: summed analyses.  Executable definitions only; proofs are in Proofs*.v.

   Anchors (autofit/non_linear/analysis/):
     analysis.py        Analysis.__add__ / __radd__
     combined.py        CombinedAnalysis.__new__/__init__/__add__/_summed_log_likelihood/
                        n_cores setter/_for_each_analysis/modify_before_fit/make_result/save_results/
                        visualize/with_free_parameters
     multiprocessing.py AnalysisPool.__init__ (partition), __call__, results, map; AnalysisProcess._run
     indexed.py         IndexedAnalysis, IndexCollectionAnalysis.__init__/make_result
     free_parameter.py  FreeParameterAnalysis.modify_model
     model_analysis.py  ModelAnalysis, CombinedModelAnalysis.modify_model

   The snapshot 75ee8d3 had seven defects touching the property; all seven are repaired in /repo
   (1e4dc27, c4fcf7f, ab776e6, 1799c30, 1298d8e, 1b618eb, 9d1b558).  The model is parametrised by a
   record saying which repairs the modelled code contains: `cfg_now` is /repo as it stands (every
   repair); `cfg_snapshot`, `cfg_round1` (first four repairs) and `cfg_round2` (first six) are
   historical trees, kept so that a regression has a name and a proved description. *)
From Coq Require Import ZArith List Bool Arith Lia.
Import ListNotations.

Record cfg := mkCfg {
  fix_order : bool;     (* Analysis.__add__(a, combined) keeps a first                      (1e4dc27) *)
  fix_new   : bool;     (* __new__ sees a ModelAnalysis through IndexedAnalysis             (c4fcf7f) *)
  fix_drain : bool;     (* AnalysisPool.results collects every result before raising        (ab776e6) *)
  fix_map   : bool;     (* AnalysisPool.map gives analysis i the folder analysis_i          (1799c30) *)
  fix_free_own : bool;  (* FreeParameterAnalysis.modify_model frees inside the analysis' own model (1298d8e) *)
  fix_model_hooks : bool; (* ModelAnalysis forwards save_attributes / save_results to the wrapped analysis (1b618eb) *)
  fix_free_right : bool  (* combined + FreeParameterAnalysis raises TypeError like the other three orders (9d1b558) *)
}.
Definition cfg_snapshot := mkCfg false false false false false false false.
Definition cfg_round1 := mkCfg true true true true false false false.
Definition cfg_round2 := mkCfg true true true true true true false.
Definition cfg_now := mkCfg true true true true true true true.
Definition cfg_fixed := cfg_now.

(* ------------------------------------------------------------------------------------ *)
(* A. the algebra of `+`                                                                 *)
(* ------------------------------------------------------------------------------------ *)

(* an expression as the user writes it; `hm` = the analysis was wrapped by with_model;
   Free e = e.with_free_parameters(...).
   sum([e1; e2; ...]) is ((e1 + e2) + ...) because Analysis.__radd__(x, 0) returns x. *)
Inductive expr := Leaf (j : nat) (hm : bool) | Add (a b : expr) | Free (e : expr).

(* members of CombinedAnalysis.analyses: a plain object or an IndexedAnalysis wrapper *)
Inductive item := IPlain (j : nat) (hm : bool) | IIdx (j : nat) (hm : bool) (idx : nat).
(* CombinedAnalysis | CombinedModelAnalysis | FreeParameterAnalysis *)
Inductive ckind := KPlain | KModel | KFree.
(* VErr: the expression raises (TypeError: FreeParameterAnalysis.__init__ misses free_parameters;
   AttributeError: a single Analysis has no with_free_parameters) *)
Inductive aval := VSingle (j : nat) (hm : bool) | VComb (k : ckind) (its : list item) | VErr.

Definition item_id (it : item) : nat := match it with IPlain j _ => j | IIdx j _ _ => j end.
Definition item_hm (it : item) : bool := match it with IPlain _ h => h | IIdx _ h _ => h end.

(* CombinedAnalysis.__new__: isinstance(analysis, ModelAnalysis); an IndexedAnalysis is not one *)
Definition is_model_arg (c : cfg) (it : item) : bool :=
  match it with IPlain _ h => h | IIdx _ h _ => fix_new c && h end.

(* IndexCollectionAnalysis.__init__: IndexedAnalysis(analysis, index), unwrapping a wrapper *)
Fixpoint reindex_from (i : nat) (its : list item) : list item :=
  match its with
  | [] => []
  | it :: r => IIdx (item_id it) (item_hm it) i :: reindex_from (S i) r
  end.

(* cls(args...): __new__ may switch the class to CombinedModelAnalysis; __init__ of the result *)
Definition construct (c : cfg) (cls : ckind) (args : list item) : aval :=
  let k := if existsb (is_model_arg c) args then KModel else cls in
  match k with
  | KPlain => VComb KPlain args
  | _ => VComb k (reindex_from 0 args)
  end.

Definition add (c : cfg) (a b : aval) : aval :=
  match a, b with
  | VErr, _ | _, VErr => VErr
  | VComb KFree _, _ => VErr                 (* type(self)(...) without free_parameters *)
  | VSingle _ _, VComb KFree _ => VErr       (* type(other)(self, ...) / other + self: the same *)
  | VSingle j h, VSingle j' h' => construct c KPlain [IPlain j h; IPlain j' h']
  | VSingle j h, VComb k its =>              (* Analysis.__add__ *)
      if fix_order c then construct c k (IPlain j h :: its)
      else construct c k (its ++ [IPlain j h])
  | VComb k its, VSingle j h => construct c k (its ++ [IPlain j h])
  | VComb k its, VComb KFree its' =>         (* since 9d1b558: TypeError, as for the other three orders *)
      if fix_free_right c then VErr else construct c k (its ++ its')
  | VComb k its, VComb _ its' => construct c k (its ++ its')
  end.

(* CombinedAnalysis.with_free_parameters *)
Definition with_free (v : aval) : aval :=
  match v with
  | VComb _ its => VComb KFree (reindex_from 0 its)
  | _ => VErr
  end.

Fixpoint eval (c : cfg) (e : expr) : aval :=
  match e with
  | Leaf j h => VSingle j h
  | Add a b => add c (eval c a) (eval c b)
  | Free e' => with_free (eval c e')
  end.

(* what the property asks for: the analyses in the order written, index = position *)
Fixpoint leaves (e : expr) : list (nat * bool) :=
  match e with Leaf j h => [(j, h)] | Add a b => leaves a ++ leaves b | Free e' => leaves e' end.
Fixpoint nofree (e : expr) : bool :=
  match e with Leaf _ _ => true | Add a b => nofree a && nofree b | Free _ => false end.
Definition plain_items (l : list (nat * bool)) : list item := map (fun p => IPlain (fst p) (snd p)) l.
Definition any_model (l : list (nat * bool)) : bool := existsb snd l.
Definition spec_kind (l : list (nat * bool)) : ckind := if any_model l then KModel else KPlain.
Definition spec_items (k : ckind) (l : list (nat * bool)) : list item :=
  match k with KPlain => plain_items l | _ => reindex_from 0 (plain_items l) end.
(* sums without with_free_parameters inside; a finished sum with free parameters; anything that
   adds to a FreeParameterAnalysis (or frees a single analysis) must raise *)
Fixpoint spec_struct (e : expr) : aval :=
  match e with
  | Leaf j h => VSingle j h
  | Add _ _ => if nofree e then VComb (spec_kind (leaves e)) (spec_items (spec_kind (leaves e)) (leaves e)) else VErr
  | Free e' => match spec_struct e' with VComb _ its => VComb KFree (reindex_from 0 its) | _ => VErr end
  end.

Definition is_leaf (e : expr) : bool := match e with Leaf _ _ => true | _ => false end.
(* the bracketings on which the modelled code is right: everything once repaired *)
Fixpoint guard (c : cfg) (e : expr) : bool :=
  match e with
  | Leaf _ _ => true
  | Add a b =>
      guard c a && guard c b
      && (fix_order c || negb (is_leaf a && negb (is_leaf b)))
      && (fix_new c || is_leaf a || is_leaf b || any_model (leaves a) || negb (any_model (leaves b)))
  | Free e' => guard c e'
  end.

(* ------------------------------------------------------------------------------------ *)
(* B. likelihood of a sum: serial and through the pool                                   *)
(* ------------------------------------------------------------------------------------ *)

(* a value, or an exception of some class (0 = FitException, 1 = ValueError, ...) *)
Inductive res := RVal (v : Z) | RExc (k : nat).

Section Engine.
  Context {A X : Type}.

  (* _summed_log_likelihood / _for_each_analysis: one after the other; the first exception propagates *)
  Fixpoint serial (ev : A -> X -> res) (l : list A) (x : X) : res :=
    match l with
    | [] => RVal 0%Z
    | a :: r =>
        match ev a x with
        | RExc k => RExc k
        | RVal v => match serial ev r x with RExc k => RExc k | RVal s => RVal (v + s)%Z end
        end
    end.

  Definition raises (ev : A -> X -> res) (x : X) (a : A) : bool := match ev a x with RExc _ => true | RVal _ => false end.
  Definition val (ev : A -> X -> res) (x : X) (a : A) : Z := match ev a x with RVal v => v | RExc _ => 0%Z end.
  Definition total (ev : A -> X -> res) (l : list A) (x : X) : Z := fold_right Z.add 0%Z (map (val ev x) l).
  (* serial: the sum, or the exception of the first raising analysis *)
  Fixpoint first_exc (ev : A -> X -> res) (l : list A) (x : X) : option nat :=
    match l with
    | [] => None
    | a :: r => match ev a x with RExc k => Some k | RVal _ => first_exc ev r x end
    end.
  Definition spec_sum (ev : A -> X -> res) (l : list A) (x : X) : res :=
    match first_exc ev l x with Some k => RExc k | None => RVal (total ev l x) end.
  (* the property for any number of cores: the sum of every analysis' likelihood; when some
     analyses raise, the exception of one of them *)
  Definition ok_answer (ev : A -> X -> res) (l : list A) (x : X) (r : res) : Prop :=
    if existsb (raises ev x) l then exists k a, In a l /\ ev a x = RExc k /\ r = RExc k
    else r = RVal (total ev l x).

  (* AnalysisPool.__init__: n_processes = min(n, n_cores); ceil(n / n_processes) analyses each *)
  Definition ceil_div (n d : nat) : nat := (n + d - 1) / d.
  Definition split_procs (cores : nat) (l : list A) : list (list A) :=
    let n := length l in
    let np := Nat.min n cores in
    let per := ceil_div n np in
    map (fun k => firstn per (skipn (k * per) l)) (seq 0 np).

  (* __call__ / map: the message goes to every process; AnalysisProcess._run puts one result (or the
     exception) per analysis, in order, on that process' queue *)
  Fixpoint enqueue (ev : A -> X -> res) (procs : list (list A)) (x : X) (qs : list (list res)) : list (list res) :=
    match procs, qs with
    | p :: procs', q :: qs' => (q ++ map (fun a => ev a x) p) :: enqueue ev procs' x qs'
    | _, _ => []
    end.

  (* one pass of `for process in self.processes` in results(): `mask` says for which processes
     queue.empty() answered False (missing entries: True whenever an item is pending).
     acc = sum of results so far, count = count_, exc = first exception met (repaired code) *)
  Inductive sweep_out :=
  | SRaise (k : nat) (qs : list (list res))
  | SCont (qs : list (list res)) (acc : Z) (count : nat) (exc : option nat).

  Definition cons_out (q : list res) (o : sweep_out) : sweep_out :=
    match o with SRaise k t => SRaise k (q :: t) | SCont t a c e => SCont (q :: t) a c e end.

  Fixpoint sweep (drain : bool) (mask : list bool) (qs : list (list res)) (acc : Z) (count : nat) (exc : option nat)
    : sweep_out :=
    match qs with
    | [] => SCont [] acc count exc
    | q :: qs' =>
        let m := match mask with [] => true | b :: _ => b end in
        let mask' := tl mask in
        match m, q with
        | true, RVal v :: q' => cons_out q' (sweep drain mask' qs' (acc + v)%Z (S count) exc)
        | true, RExc k :: q' =>
            if drain then cons_out q' (sweep drain mask' qs' acc (S count) (match exc with None => Some k | e => e end))
            else SRaise k (q' :: qs')
        | _, _ => cons_out q (sweep drain mask' qs' acc count exc)
        end
    end.

  (* results(): `while count_ < n_analyses` around the pass; None = out of fuel *)
  Fixpoint results_loop (drain : bool) (fuel n : nat) (masks : list (list bool)) (qs : list (list res))
           (acc : Z) (count : nat) (exc : option nat) : option (res * list (list res)) :=
    if n <=? count then Some (match exc with Some k => RExc k | None => RVal acc end, qs)
    else match fuel with
         | O => None
         | S f =>
             match sweep drain (hd [] masks) qs acc count exc with
             | SRaise k qs' => Some (RExc k, qs')
             | SCont qs' acc' count' exc' => results_loop drain f n (tl masks) qs' acc' count' exc'
             end
         end.

  Definition call_fuel (n : nat) (masks : list (list bool)) (qs : list (list res)) : nat :=
    S (length masks + n + length (concat qs)).

  Definition pool_call (ev : A -> X -> res) (drain : bool) (n : nat) (procs : list (list A)) (x : X)
             (masks : list (list bool)) (qs : list (list res)) : option (res * list (list res)) :=
    let qs1 := enqueue ev procs x qs in
    results_loop drain (call_fuel n masks qs1) n masks qs1 0%Z 0 None.

  (* folders: _for_each_analysis (serial) and AnalysisPool.map (pool) give (folder index, analysis) *)
  Fixpoint number_from {B} (i : nat) (l : list B) : list (nat * B) :=
    match l with [] => [] | b :: r => (i, b) :: number_from (S i) r end.
  Definition folders_serial (l : list A) : list (nat * A) := number_from 0 l.
  Fixpoint folders_procs (fixed : bool) (pi start : nat) (procs : list (list A)) : list (nat * A) :=
    match procs with
    | [] => []
    | p :: r =>
        (if fixed then number_from start p else map (fun a => (pi, a)) p)
          ++ folders_procs fixed (S pi) (start + length p) r
    end.
  Definition folders (fixmap : bool) (cores : nat) (l : list A) : list (nat * A) :=
    if 1 <? cores then folders_procs fixmap 0 0 (split_procs cores l) else folders_serial l.

  (* histories: evaluations, visualize calls (through `map` whenever a pool exists), changes of
     n_cores (the setter builds a fresh pool for k > 1 and KEEPS the old one for k <= 1) and
     modify_before_fit: every member may change its own state in place (modf d) and return itself; the
     combined analysis is REBUILT from the members (n_cores = c0 from general.yaml), so a pool that
     exists afterwards was forked from the modified members.  The worker processes hold copies of
     the members taken when the pool was forked: s_procs is that snapshot *)
  Inductive op := OEval (x : X) (masks : list (list bool)) | OMap (x : X) (masks : list (list bool)) | OCores (k : nat)
                | OModify (d : Z) (c0 : nat).
  Record st := mkSt { s_cores : nat; s_pool : bool; s_procs : list (list A); s_qs : list (list res) }.
  Definition st_init : st := mkSt 1 false [] [].
  Definition set_cores (l : list A) (s : st) (k : nat) : st :=
    if 1 <? k then mkSt k true (split_procs k l) (map (fun _ => []) (split_procs k l))
    else mkSt k (s_pool s) (s_procs s) (s_qs s).

  (* what one step shows: an answer (None = the model ran out of fuel) and, for visualize, the
     (folder, analysis) pairs written *)
  Inductive out := OutAns (r : option res) | OutMap (r : option res) (written : list (nat * A)).

  Fixpoint written_serial (vis : A -> X -> res) (x : X) (l : list (nat * A)) : list (nat * A) :=
    match l with
    | [] => []
    | (f, a) :: r => if raises vis x a then [] else (f, a) :: written_serial vis x r
    end.

  Variables ev vis : A -> X -> res.
  Variable modf : Z -> A -> A.
  Definition step (drain fixmap : bool) (l : list A) (s : st) (o : op) : list A * st * list out :=
    match o with
    | OCores k => (l, set_cores l s k, [])
    | OModify d c0 => let l' := map (modf d) l in (l', set_cores l' (mkSt c0 false [] []) c0, [])
    | OEval x masks =>
        if 1 <? s_cores s then
          match pool_call ev drain (length l) (s_procs s) x masks (s_qs s) with
          | Some (r, qs') => (l, mkSt (s_cores s) (s_pool s) (s_procs s) qs', [OutAns (Some r)])
          | None => (l, s, [OutAns None])
          end
        else (l, s, [OutAns (Some (serial ev l x))])
    | OMap x masks =>
        if s_pool s then
          let w := filter (fun p => negb (raises vis x (snd p))) (folders_procs fixmap 0 0 (s_procs s)) in
          match pool_call vis drain (length l) (s_procs s) x masks (s_qs s) with
          | Some (r, qs') => (l, mkSt (s_cores s) (s_pool s) (s_procs s) qs', [OutMap (Some r) w])
          | None => (l, s, [OutMap None w])
          end
        else (l, s, [OutMap (Some (serial vis l x)) (written_serial vis x (folders_serial l))])
    end.

  Fixpoint run (drain fixmap : bool) (l : list A) (s : st) (ops : list op) : st * list out :=
    match ops with
    | [] => (s, [])
    | o :: r => let '(l1, s1, a1) := step drain fixmap l s o in
                let (s2, a2) := run drain fixmap l1 s1 r in (s2, a1 ++ a2)
    end.
End Engine.

(* what an analysis sees: the instance itself (plain member) or instance[index] (indexed member) *)
Section ItemLik.
  Context {S : Type}.
  Variable lik : nat -> S -> res.
  Definition item_lik (it : item) (ci : S * list S) : res :=
    match it with
    | IPlain j _ => lik j (fst ci)
    | IIdx j _ i => match nth_error (snd ci) i with Some s => lik j s | None => RExc 2 end
    end.
End ItemLik.

(* ------------------------------------------------------------------------------------ *)
(* C. the fitted model: free parameters and per-analysis models                          *)
(* ------------------------------------------------------------------------------------ *)

(* a model is the list of the prior ids found along its (fixed) list of paths *)
Inductive pid := Orig (p : nat) | Fresh (i : nat) (p : nat).
Definition pid_eqb (a b : pid) : bool :=
  match a, b with
  | Orig p, Orig q => Nat.eqb p q
  | Fresh i p, Fresh k q => Nat.eqb i k && Nat.eqb p q
  | _, _ => false
  end.
Definition memn (p : nat) (l : list nat) : bool := existsb (Nat.eqb p) l.

(* FreeParameterAnalysis.modify_model: per analysis {free: free.new()} replaced in a copy *)
Definition free_model (free : list nat) (i : nat) (m : list nat) : list pid :=
  map (fun p => if memn p free then Fresh i p else Orig p) m.
Definition modify_free (free : list nat) (n : nat) (m : list nat) : list (list pid) :=
  map (fun i => free_model free i m) (seq 0 n).
(* the model an analysis brings: its own (with_model), else the default one *)
Definition base_model (default : list nat) (own : list (list nat)) (it : item) : list nat :=
  if item_hm it then nth (item_id it) own [] else default.
(* CombinedModelAnalysis.modify_model *)
Definition modify_models (default : list nat) (own : list (list nat)) (its : list item) : list (list pid) :=
  map (fun it => map Orig (base_model default own it)) its.
(* free parameters over analyses with their own models: the snapshot copied the default model for
   everybody; since 1298d8e the free priors are freed inside each analysis' own model *)
Definition modify_free_own (free : list nat) (default : list nat) (own : list (list nat)) (its : list item)
  : list (list pid) :=
  map (fun p => free_model free (fst p) (base_model default own (snd p))) (number_from 0 its).

Definition fitted_models (c : cfg) (k : ckind) (its : list item) (default : list nat) (own : list (list nat))
           (free : list nat) : list (list pid) :=
  match k with
  | KFree => if fix_free_own c then modify_free_own free default own its
             else modify_free free (length its) default
  | KModel => modify_models default own its
  | KPlain => []
  end.

(* canonical class number of a prior = rank of its first occurrence (harness does the same) *)
Fixpoint index_of (x : pid) (l : list pid) : nat :=
  match l with [] => 0 | y :: r => if pid_eqb x y then 0 else S (index_of x r) end.
Definition firsts (l : list pid) : list pid :=
  fold_left (fun acc x => if existsb (pid_eqb x) acc then acc else acc ++ [x]) l [].
Definition classes (ms : list (list pid)) : list (list nat) :=
  let f := firsts (concat ms) in map (map (fun p => index_of p f)) ms.
Definition prior_count (ms : list (list pid)) : nat := length (firsts (concat ms)).

(* ------------------------------------------------------------------------------------ *)
(* D. a fit: modify_before_fit -> modify_model -> make_result -> save_results             *)
(* ------------------------------------------------------------------------------------ *)

(* modify_before_fit rebuilds the combined analysis from its members, in order *)
Definition rebuilt (c : cfg) (k : ckind) (its : list item) : list item :=
  match k with KPlain => its | _ => reindex_from 0 its end.
(* CombinedAnalysis.make_result: one child per analysis; IndexCollectionAnalysis.make_result:
   zip(samples_summary.model, self.analyses).  A child = (model index or None, analysis) *)
Definition children (k : ckind) (n_models : nat) (its : list item) : list (option nat * item) :=
  match k with
  | KPlain => map (fun it => (None, it)) its
  | _ => map (fun p => (Some (fst p), snd p)) (combine (seq 0 n_models) its)
  end.
(* _for_each_analysis(func, paths, result): folder i, analysis i, child result i *)
Definition saved (its : list item) (ch : list (option nat * item)) : list (nat * (item * (option nat * item))) :=
  number_from 0 (combine its ch).

(* ------------------------------------------------------------------------------------ *)
(* E. executable instance used by the correspondence                                     *)
(* ------------------------------------------------------------------------------------ *)

(* harness analyses: affine in the parameter values; raise FitException / ValueError when the first
   value is listed; visualize raises when the first value is listed in a_vfail / a_vfail2 *)
Record adesc := mkA { a_c : Z; a_w : list Z; a_fail : list Z; a_fail2 : list Z; a_vfail : list Z; a_vfail2 : list Z }.
Fixpoint dot (w s : list Z) : Z :=
  match w, s with a :: w', b :: s' => a * b + dot w' s' | _, _ => 0 end%Z.
Definition memz (z : Z) (l : list Z) : bool := existsb (Z.eqb z) l.
Definition lik_of (a : adesc) (s : list Z) : res :=
  if memz (hd 0%Z s) (a_fail a) then RExc 0
  else if memz (hd 0%Z s) (a_fail2 a) then RExc 1
  else RVal (a_c a + dot (a_w a) s).
Definition vis_of (a : adesc) (s : list Z) : res :=
  if memz (hd 0%Z s) (a_vfail a) then RExc 0
  else if memz (hd 0%Z s) (a_vfail2 a) then RExc 1
  else RVal 0.
Definition nth_ad (ads : list adesc) (j : nat) : adesc := nth j ads (mkA 0 [] [] [] [] []).
Definition cinst := (list Z * list (list Z))%type.
Definition ev_items (ads : list adesc) : item -> cinst -> res := item_lik (fun j s => lik_of (nth_ad ads j) s).
Definition vis_items (ads : list adesc) : item -> cinst -> res := item_lik (fun j s => vis_of (nth_ad ads j) s).
(* a member with the state it set up in place in modify_before_fit (an offset of its likelihood) and the
   number of positions of the sum that hold the SAME analysis object (a + b + a: 2, 1, 2).  The harness
   analyses change themselves in place and return self, and modify_before_fit is called once per POSITION
   (CombinedAnalysis._for_each_analysis / IndexCollectionAnalysis.modify_before_fit), so an object written
   k times is modified k times and every one of its k positions sees all k modifications.  Objects are
   identified by (analysis id, with_model wrapper): `a` and `a.with_model(m)` are different objects *)
Definition member := (item * (Z * Z))%type.
Definition m_off (m : member) : Z := fst (snd m).
Definition m_mult (m : member) : Z := snd (snd m).
Definition shift (off : Z) (r : res) : res := match r with RVal v => RVal (v + off) | e => e end.
Definition ev_members (ads : list adesc) : member -> cinst -> res := fun m x => shift (m_off m) (ev_items ads (fst m) x).
Definition vis_members (ads : list adesc) : member -> cinst -> res := fun m x => vis_items ads (fst m) x.
(* a ModelAnalysis inherits the default modify_before_fit of Analysis: the wrapped analysis is not asked *)
Definition modf_member (d : Z) (m : member) : member :=
  if item_hm (fst m) then m else (fst m, ((m_off m + d * m_mult m)%Z, m_mult m)).
Definition same_object (a b : item) : bool := Nat.eqb (item_id a) (item_id b) && Bool.eqb (item_hm a) (item_hm b).
Definition occurrences (its : list item) (it : item) : nat := length (filter (same_object it) its).
Definition fresh_members (its : list item) : list member :=
  map (fun it => (it, (0%Z, Z.of_nat (occurrences its it)))) its.

Definition res_eqb (a b : res) : bool :=
  match a, b with RVal v, RVal w => Z.eqb v w | RExc k, RExc l => Nat.eqb k l | _, _ => false end.
Definition ores_eqb (a b : option res) : bool :=
  match a, b with Some x, Some y => res_eqb x y | _, _ => false end.
Fixpoint list_eqb {B} (eqb : B -> B -> bool) (a b : list B) : bool :=
  match a, b with
  | [], [] => true
  | x :: a', y :: b' => eqb x y && list_eqb eqb a' b'
  | _, _ => false
  end.
Definition item_eqb (a b : item) : bool :=
  match a, b with
  | IPlain j h, IPlain k g => Nat.eqb j k && Bool.eqb h g
  | IIdx j h i, IIdx k g l => Nat.eqb j k && Bool.eqb h g && Nat.eqb i l
  | _, _ => false
  end.
Definition ckind_eqb (a b : ckind) : bool :=
  match a, b with KPlain, KPlain | KModel, KModel | KFree, KFree => true | _, _ => false end.
Definition aval_eqb (a b : aval) : bool :=
  match a, b with
  | VSingle j h, VSingle k g => Nat.eqb j k && Bool.eqb h g
  | VComb k its, VComb k' its' => ckind_eqb k k' && list_eqb item_eqb its its'
  | VErr, VErr => true
  | _, _ => false
  end.
Definition pair_eqb (a b : nat * nat) : bool := Nat.eqb (fst a) (fst b) && Nat.eqb (snd a) (snd b).

Definition items_of (v : aval) : list item := match v with VSingle j h => [IPlain j h] | VComb _ its => its | VErr => [] end.
Definition kind_of (v : aval) : ckind := match v with VComb k _ => k | _ => KPlain end.
(* an indexed collection whose k-th member reads sub-instance k *)
Fixpoint well_indexed_from (i : nat) (its : list item) : bool :=
  match its with
  | [] => true
  | IIdx _ _ k :: r => Nat.eqb k i && well_indexed_from (S i) r
  | IPlain _ _ :: _ => false
  end.

(* observed steps: answers and, for visualize, (folder, analysis id) pairs *)
Inductive obs_out := ObsAns (r : option res) | ObsMap (r : option res) (written : list (nat * nat)).
Definition out_eqb (a : out (A := member)) (b : obs_out) : bool :=
  match a, b with
  | OutAns r, ObsAns r' => ores_eqb r r'
  | OutMap r w, ObsMap r' w' => ores_eqb r r' && list_eqb pair_eqb (map (fun p => (fst p, item_id (fst (snd p)))) w) w'
  | _, _ => false
  end.
Fixpoint outs_eqb (a : list (out (A := member))) (b : list obs_out) : bool :=
  match a, b with
  | [], [] => true
  | x :: a', y :: b' => out_eqb x y && outs_eqb a' b'
  | _, _ => false
  end.

(* evaluations of the indexed kinds carry one value per prior class *)
Inductive iop := IEval (vals : list Z) (masks : list (list bool)) | IMap (vals : list Z) (masks : list (list bool))
               | ICores (k : nat) | IModify (d : Z) (c0 : nat).
Definition parts_of (cls : list (list nat)) (vals : list Z) : cinst :=
  ([], map (map (fun k => nth k vals 0%Z)) cls).
Definition iop_to_op (cls : list (list nat)) (o : iop) : op (X := cinst) :=
  match o with
  | IEval vals masks => OEval (parts_of cls vals) masks
  | IMap vals masks => OMap (parts_of cls vals) masks
  | ICores k => OCores k
  | IModify d c0 => OModify d c0
  end.

Definition free_of (e : expr) : bool := match e with Free _ => true | _ => false end.

Inductive case :=
(* structure of the combined analysis for an arbitrary expression *)
| CStruct (e : expr) (obs : aval)
(* history of evaluations / visualize calls / changes of cores on a sum of plain analyses; instance = one integer *)
| CHist (ads : list adesc) (e : expr) (ops : list (op (X := cinst)))
        (obs : aval) (outs : list obs_out) (residue : list (list res))
(* free parameters / per-analysis models: structure, sharing classes, prior count, histories *)
| CIdx (ads : list adesc) (e : expr) (default : list nat) (own : list (list nat)) (free : list nat)
       (obs : aval) (obs_classes : list (list nat)) (obs_count : nat)
       (ops : list iop) (outs : list obs_out) (residue : list (list res))
(* a real fit: per folder the analysis that saved attributes / visualised before the fit / saved results
   (with the child result it was handed), and the child results (analysis, sharing classes of its model) *)
| CFit (e : expr) (default : list nat) (own : list (list nat)) (free : list nat)
       (obs_attr obs_vbf : list (nat * nat)) (obs_res : list (nat * (nat * nat)))
       (obs_children : list (nat * list nat)).

Definition check_case (c : cfg) (cs : case) : bool :=
  match cs with
  | CStruct e obs => aval_eqb (eval c e) obs
  | CHist ads e ops obs outs residue =>
      let v := eval c e in
      let '(s, os) := run (ev_members ads) (vis_members ads) modf_member (fix_drain c) (fix_map c) (fresh_members (items_of v)) st_init ops in
      aval_eqb v obs && outs_eqb os outs && list_eqb (list_eqb res_eqb) (s_qs s) residue
  | CIdx ads e default own free obs obs_classes obs_count ops outs residue =>
      let v := eval c e in
      let its := items_of v in
      let ms := fitted_models c (kind_of v) its default own free in
      let cls := classes ms in
      aval_eqb v obs
      && (if well_indexed_from 0 its && negb (match v with VErr => true | _ => false end) then
            let '(s, os) := run (ev_members ads) (vis_members ads) modf_member (fix_drain c) (fix_map c) (fresh_members its) st_init
                                (map (iop_to_op cls) ops) in
            list_eqb (list_eqb Nat.eqb) cls obs_classes && Nat.eqb (prior_count ms) obs_count
            && outs_eqb os outs && list_eqb (list_eqb res_eqb) (s_qs s) residue
          else match obs_classes, outs with [], [] => true | _, _ => false end)
  | CFit e default own free obs_attr obs_vbf obs_res obs_children =>
      let v := eval c e in
      let k := kind_of v in
      let its := rebuilt c k (items_of v) in
      let ms := fitted_models c k its default own free in
      let cls := match k with KPlain => classes [map Orig default] | _ => classes ms end in
      let ch := children k (length ms) its in
      let ids := map (fun p => (fst p, item_id (snd p))) (folders_serial its) in
      (* a ModelAnalysis inherits the empty save_attributes / save_results of Analysis *)
      let hooked {B} (f : B -> item) := filter (fun p : B => fix_model_hooks c || negb (item_hm (f p))) in
      list_eqb pair_eqb (map (fun p => (fst p, item_id (snd p))) (hooked snd (folders_serial its))) obs_attr
      && list_eqb pair_eqb ids obs_vbf
      && list_eqb (fun a b => Nat.eqb (fst a) (fst b) && pair_eqb (snd a) (snd b))
           (map (fun p => (fst p, (item_id (fst (snd p)), item_id (snd (snd (snd p))))))
                (hooked (fun p => fst (snd p)) (saved its ch))) obs_res
      && list_eqb (fun a b => Nat.eqb (fst a) (fst b) && list_eqb Nat.eqb (snd a) (snd b))
           (map (fun p => (item_id (snd p), match fst p with Some i => nth i cls [] | None => nth 0 cls [] end)) ch)
           obs_children
  end.
