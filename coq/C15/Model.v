(* C15 model: summed analyses.  Executable definitions only; proofs are in Proofs*.v.

   Anchors (autofit/non_linear/analysis/):
     analysis.py        Analysis.__add__ / __radd__
     combined.py        CombinedAnalysis.__new__/__init__/__add__/_summed_log_likelihood/
                        n_cores setter/_for_each_analysis/make_result/with_free_parameters
     multiprocessing.py AnalysisPool.__init__ (partition), __call__, results, map; AnalysisProcess._run
     indexed.py         IndexedAnalysis, IndexCollectionAnalysis.__init__/make_result
     free_parameter.py  FreeParameterAnalysis.modify_model
     model_analysis.py  ModelAnalysis, CombinedModelAnalysis.modify_model

   The pinned code has four defects touching the property.  Each has a proposed repair
   (proposed_fixes/C15-*.diff).  The model is parametrised by a record saying which
   repairs the modelled code contains; `cfg_current` (all false) is the pinned tree. *)
From Coq Require Import ZArith List Bool Arith Lia.
Import ListNotations.

Record cfg := mkCfg {
  fix_order : bool;   (* Analysis.__add__(a, combined) keeps a first                     *)
  fix_new   : bool;   (* CombinedAnalysis.__new__ sees a ModelAnalysis through IndexedAnalysis *)
  fix_drain : bool;   (* AnalysisPool.results collects every result before raising       *)
  fix_map   : bool    (* AnalysisPool.map gives analysis i the folder analysis_i          *)
}.
Definition cfg_current := mkCfg false false false false.
Definition cfg_fixed := mkCfg true true true true.

(* ------------------------------------------------------------------------------------ *)
(* A. the algebra of `+`                                                                 *)
(* ------------------------------------------------------------------------------------ *)

(* an expression as the user writes it; `hm` = the analysis was wrapped by with_model.
   sum([e1; e2; ...]) is ((e1 + e2) + ...) because Analysis.__radd__(x, 0) returns x. *)
Inductive expr := Leaf (j : nat) (hm : bool) | Add (a b : expr).

(* members of CombinedAnalysis.analyses: a plain object or an IndexedAnalysis wrapper *)
Inductive item := IPlain (j : nat) (hm : bool) | IIdx (j : nat) (hm : bool) (idx : nat).
(* CombinedAnalysis | CombinedModelAnalysis | FreeParameterAnalysis *)
Inductive ckind := KPlain | KModel | KFree.
Inductive aval := VSingle (j : nat) (hm : bool) | VComb (k : ckind) (its : list item).

Definition item_id (it : item) : nat := match it with IPlain j _ => j | IIdx j _ _ => j end.
Definition item_hm (it : item) : bool := match it with IPlain _ h => h | IIdx _ h _ => h end.

(* CombinedAnalysis.__new__: isinstance(analysis, ModelAnalysis); an IndexedAnalysis is not one *)
Definition is_model_arg (c : cfg) (it : item) : bool :=
  match it with IPlain _ h => h | IIdx _ h _ => fix_new c && h end.

(* IndexCollectionAnalysis.__init__: IndexedAnalysis(analysis, index), unwrapping a wrapper *)
Fixpoint reindex_from (i : nat) (its : list item) : list item :=
  match its with
  | [] => []
  | it :: r => IIdx (item_id it) (item_hm it) i :: reindex_from (S i) r
  end.

(* cls(args...): __new__ may switch the class to CombinedModelAnalysis; __init__ of the result *)
Definition construct (c : cfg) (cls : ckind) (args : list item) : aval :=
  let k := if existsb (is_model_arg c) args then KModel else cls in
  match k with
  | KPlain => VComb KPlain args
  | _ => VComb k (reindex_from 0 args)
  end.

Definition add (c : cfg) (a b : aval) : aval :=
  match a, b with
  | VSingle j h, VSingle j' h' => construct c KPlain [IPlain j h; IPlain j' h']
  | VSingle j h, VComb k its =>            (* Analysis.__add__: `return other + self` *)
      if fix_order c then construct c k (IPlain j h :: its)
      else construct c k (its ++ [IPlain j h])
  | VComb k its, VSingle j h => construct c k (its ++ [IPlain j h])
  | VComb k its, VComb _ its' => construct c k (its ++ its')
  end.

Fixpoint eval (c : cfg) (e : expr) : aval :=
  match e with
  | Leaf j h => VSingle j h
  | Add a b => add c (eval c a) (eval c b)
  end.

(* CombinedAnalysis.with_free_parameters *)
Definition with_free (c : cfg) (v : aval) : aval :=
  match v with
  | VSingle j h => VSingle j h
  | VComb _ its => VComb KFree (reindex_from 0 its)
  end.

(* what the property asks for: the analyses in the order written, index = position *)
Fixpoint leaves (e : expr) : list (nat * bool) :=
  match e with Leaf j h => [(j, h)] | Add a b => leaves a ++ leaves b end.
Definition plain_items (l : list (nat * bool)) : list item := map (fun p => IPlain (fst p) (snd p)) l.
Definition any_model (l : list (nat * bool)) : bool := existsb snd l.
Definition spec_kind (l : list (nat * bool)) : ckind := if any_model l then KModel else KPlain.
Definition spec_items (k : ckind) (l : list (nat * bool)) : list item :=
  match k with KPlain => plain_items l | _ => reindex_from 0 (plain_items l) end.
Definition spec_struct (e : expr) : aval :=
  match e with
  | Leaf j h => VSingle j h
  | Add _ _ => VComb (spec_kind (leaves e)) (spec_items (spec_kind (leaves e)) (leaves e))
  end.

Definition is_leaf (e : expr) : bool := match e with Leaf _ _ => true | _ => false end.
(* the bracketings on which the modelled code is right: everything once repaired *)
Fixpoint guard (c : cfg) (e : expr) : bool :=
  match e with
  | Leaf _ _ => true
  | Add a b =>
      guard c a && guard c b
      && (fix_order c || negb (is_leaf a && negb (is_leaf b)))
      && (fix_new c || is_leaf a || is_leaf b || any_model (leaves a) || negb (any_model (leaves b)))
  end.

(* ------------------------------------------------------------------------------------ *)
(* B. likelihood of a sum: serial and through the pool                                   *)
(* ------------------------------------------------------------------------------------ *)

Inductive res := RVal (v : Z) | RExc.

Section Engine.
  Context {A X : Type}.
  Variable ev : A -> X -> res.

  (* _summed_log_likelihood: sum(generator); the first exception propagates *)
  Fixpoint serial (l : list A) (x : X) : res :=
    match l with
    | [] => RVal 0%Z
    | a :: r =>
        match ev a x with
        | RExc => RExc
        | RVal v => match serial r x with RExc => RExc | RVal s => RVal (v + s)%Z end
        end
    end.

  Definition raises (x : X) (a : A) : bool := match ev a x with RExc => true | RVal _ => false end.
  Definition val (x : X) (a : A) : Z := match ev a x with RVal v => v | RExc => 0%Z end.
  (* the property: the sum of every analysis' likelihood; raising iff one of them raises *)
  Definition spec_sum (l : list A) (x : X) : res :=
    if existsb (raises x) l then RExc else RVal (fold_right Z.add 0%Z (map (val x) l)).

  (* AnalysisPool.__init__: n_processes = min(n, n_cores); ceil(n / n_processes) analyses each *)
  Definition ceil_div (n d : nat) : nat := (n + d - 1) / d.
  Definition split_procs (cores : nat) (l : list A) : list (list A) :=
    let n := length l in
    let np := Nat.min n cores in
    let per := ceil_div n np in
    map (fun k => firstn per (skipn (k * per) l)) (seq 0 np).

  (* __call__: the instance goes to every process; AnalysisProcess._run puts one result (or the
     exception) per analysis, in order, on that process' queue *)
  Fixpoint enqueue (procs : list (list A)) (x : X) (qs : list (list res)) : list (list res) :=
    match procs, qs with
    | p :: procs', q :: qs' => (q ++ map (fun a => ev a x) p) :: enqueue procs' x qs'
    | _, _ => []
    end.

  (* one pass of `for process in self.processes` in results(): `mask` says for which processes
     queue.empty() answered False (missing entries: True whenever an item is pending).
     acc = sum of results so far, count = count_, exc = an exception was met (repaired code) *)
  Inductive sweep_out :=
  | SRaise (qs : list (list res))
  | SCont (qs : list (list res)) (acc : Z) (count : nat) (exc : bool).

  Definition cons_out (q : list res) (o : sweep_out) : sweep_out :=
    match o with SRaise t => SRaise (q :: t) | SCont t a c e => SCont (q :: t) a c e end.

  Fixpoint sweep (drain : bool) (mask : list bool) (qs : list (list res)) (acc : Z) (count : nat) (exc : bool)
    : sweep_out :=
    match qs with
    | [] => SCont [] acc count exc
    | q :: qs' =>
        let m := match mask with [] => true | b :: _ => b end in
        let mask' := tl mask in
        match m, q with
        | true, RVal v :: q' => cons_out q' (sweep drain mask' qs' (acc + v)%Z (S count) exc)
        | true, RExc :: q' =>
            if drain then cons_out q' (sweep drain mask' qs' acc (S count) true)
            else SRaise (q' :: qs')
        | _, _ => cons_out q (sweep drain mask' qs' acc count exc)
        end
    end.

  (* results(): `while count_ < n_analyses` around the pass; None = out of fuel *)
  Fixpoint results_loop (drain : bool) (fuel n : nat) (masks : list (list bool)) (qs : list (list res))
           (acc : Z) (count : nat) (exc : bool) : option (res * list (list res)) :=
    if n <=? count then Some (if exc then RExc else RVal acc, qs)
    else match fuel with
         | O => None
         | S f =>
             match sweep drain (hd [] masks) qs acc count exc with
             | SRaise qs' => Some (RExc, qs')
             | SCont qs' acc' count' exc' => results_loop drain f n (tl masks) qs' acc' count' exc'
             end
         end.

  Definition call_fuel (n : nat) (masks : list (list bool)) (qs : list (list res)) : nat :=
    S (length masks + n + length (concat qs)).

  Definition pool_call (drain : bool) (n : nat) (procs : list (list A)) (x : X) (masks : list (list bool))
             (qs : list (list res)) : option (res * list (list res)) :=
    let qs1 := enqueue procs x qs in
    results_loop drain (call_fuel n masks qs1) n masks qs1 0%Z 0 false.

  (* histories: evaluations and changes of n_cores (the setter builds a fresh pool) *)
  Inductive op := OEval (x : X) (masks : list (list bool)) | OCores (k : nat).
  Record st := mkSt { s_cores : nat; s_procs : list (list A); s_qs : list (list res) }.
  Definition st_init : st := mkSt 1 [] [].
  Definition set_cores (l : list A) (k : nat) : st :=
    if 1 <? k then mkSt k (split_procs k l) (map (fun _ => []) (split_procs k l)) else mkSt k [] [].

  Definition step (drain : bool) (l : list A) (s : st) (o : op) : st * list (option res) :=
    match o with
    | OCores k => (set_cores l k, [])
    | OEval x masks =>
        if 1 <? s_cores s then
          match pool_call drain (length l) (s_procs s) x masks (s_qs s) with
          | Some (r, qs') => (mkSt (s_cores s) (s_procs s) qs', [Some r])
          | None => (s, [None])
          end
        else (s, [Some (serial l x)])
    end.

  Fixpoint run (drain : bool) (l : list A) (s : st) (ops : list op) : st * list (option res) :=
    match ops with
    | [] => (s, [])
    | o :: r => let (s1, a1) := step drain l s o in let (s2, a2) := run drain l s1 r in (s2, a1 ++ a2)
    end.

  (* folders: _for_each_analysis (serial) and AnalysisPool.map (pool) give (folder index, analysis) *)
  Fixpoint number_from {B} (i : nat) (l : list B) : list (nat * B) :=
    match l with [] => [] | b :: r => (i, b) :: number_from (S i) r end.
  Definition folders_serial (l : list A) : list (nat * A) := number_from 0 l.
  Fixpoint folders_procs (fixed : bool) (pi start : nat) (procs : list (list A)) : list (nat * A) :=
    match procs with
    | [] => []
    | p :: r =>
        (if fixed then number_from start p else map (fun a => (pi, a)) p)
          ++ folders_procs fixed (S pi) (start + length p) r
    end.
  Definition folders (c : cfg) (cores : nat) (l : list A) : list (nat * A) :=
    if 1 <? cores then folders_procs (fix_map c) 0 0 (split_procs cores l) else folders_serial l.
End Engine.

(* what an analysis sees: the instance itself (plain member) or instance[index] (indexed member) *)
Section ItemLik.
  Context {S : Type}.
  Variable lik : nat -> S -> res.
  Definition item_lik (it : item) (ci : S * list S) : res :=
    match it with
    | IPlain j _ => lik j (fst ci)
    | IIdx j _ i => match nth_error (snd ci) i with Some s => lik j s | None => RExc end
    end.
End ItemLik.

(* ------------------------------------------------------------------------------------ *)
(* C. the fitted model: free parameters and per-analysis models                          *)
(* ------------------------------------------------------------------------------------ *)

(* a model is the list of the prior ids found along its (fixed) list of paths *)
Inductive pid := Orig (p : nat) | Fresh (i : nat) (p : nat).
Definition pid_eqb (a b : pid) : bool :=
  match a, b with
  | Orig p, Orig q => Nat.eqb p q
  | Fresh i p, Fresh k q => Nat.eqb i k && Nat.eqb p q
  | _, _ => false
  end.
Definition memn (p : nat) (l : list nat) : bool := existsb (Nat.eqb p) l.

(* FreeParameterAnalysis.modify_model: per analysis {free: free.new()} replaced in a copy *)
Definition free_model (free : list nat) (i : nat) (m : list nat) : list pid :=
  map (fun p => if memn p free then Fresh i p else Orig p) m.
Definition modify_free (free : list nat) (n : nat) (m : list nat) : list (list pid) :=
  map (fun i => free_model free i m) (seq 0 n).
(* CombinedModelAnalysis.modify_model: the analysis' own model, else the default one *)
Definition modify_models (default : list nat) (own : list (list nat)) (its : list item) : list (list pid) :=
  map (fun it => map Orig (if item_hm it then nth (item_id it) own [] else default)) its.

Definition fitted_models (k : ckind) (its : list item) (default : list nat) (own : list (list nat))
           (free : list nat) : list (list pid) :=
  match k with
  | KFree => modify_free free (length its) default
  | KModel => modify_models default own its
  | KPlain => []
  end.

(* canonical class number of a prior = rank of its first occurrence (harness does the same) *)
Fixpoint index_of (x : pid) (l : list pid) : nat :=
  match l with [] => 0 | y :: r => if pid_eqb x y then 0 else S (index_of x r) end.
Definition firsts (l : list pid) : list pid :=
  fold_left (fun acc x => if existsb (pid_eqb x) acc then acc else acc ++ [x]) l [].
Definition classes (ms : list (list pid)) : list (list nat) :=
  let f := firsts (concat ms) in map (map (fun p => index_of p f)) ms.
Definition prior_count (ms : list (list pid)) : nat := length (firsts (concat ms)).

(* IndexCollectionAnalysis.make_result: zip(samples_summary.model, self.analyses) *)
Definition children {M B} (models : list M) (analyses : list B) : list (M * B) := combine models analyses.

(* ------------------------------------------------------------------------------------ *)
(* D. executable instance used by the correspondence                                     *)
(* ------------------------------------------------------------------------------------ *)

Record adesc := mkA { a_c : Z; a_w : list Z; a_fail : list Z }.
Fixpoint dot (w s : list Z) : Z :=
  match w, s with a :: w', b :: s' => a * b + dot w' s' | _, _ => 0 end%Z.
(* harness analyses: affine in the parameter values; raise when the first value is listed *)
Definition lik_of (a : adesc) (s : list Z) : res :=
  if existsb (Z.eqb (hd 0%Z s)) (a_fail a) then RExc else RVal (a_c a + dot (a_w a) s).
Definition lik_tab (ads : list adesc) (j : nat) (s : list Z) : res := lik_of (nth j ads (mkA 0 [] [])) s.
Definition cinst := (list Z * list (list Z))%type.
Definition ev_items (ads : list adesc) : item -> cinst -> res := item_lik (lik_tab ads).

Definition res_eqb (a b : res) : bool :=
  match a, b with RVal v, RVal w => Z.eqb v w | RExc, RExc => true | _, _ => false end.
Definition ores_eqb (a b : option res) : bool :=
  match a, b with Some x, Some y => res_eqb x y | _, _ => false end.
Fixpoint list_eqb {B} (eqb : B -> B -> bool) (a b : list B) : bool :=
  match a, b with
  | [], [] => true
  | x :: a', y :: b' => eqb x y && list_eqb eqb a' b'
  | _, _ => false
  end.
Definition item_eqb (a b : item) : bool :=
  match a, b with
  | IPlain j h, IPlain k g => Nat.eqb j k && Bool.eqb h g
  | IIdx j h i, IIdx k g l => Nat.eqb j k && Bool.eqb h g && Nat.eqb i l
  | _, _ => false
  end.
Definition ckind_eqb (a b : ckind) : bool :=
  match a, b with KPlain, KPlain | KModel, KModel | KFree, KFree => true | _, _ => false end.
Definition aval_eqb (a b : aval) : bool :=
  match a, b with
  | VSingle j h, VSingle k g => Nat.eqb j k && Bool.eqb h g
  | VComb k its, VComb k' its' => ckind_eqb k k' && list_eqb item_eqb its its'
  | _, _ => false
  end.
Definition pair_eqb (a b : nat * nat) : bool := Nat.eqb (fst a) (fst b) && Nat.eqb (snd a) (snd b).

Definition items_of (v : aval) : list item := match v with VSingle j h => [IPlain j h] | VComb _ its => its end.
Definition kind_of (v : aval) : ckind := match v with VSingle _ _ => KPlain | VComb k _ => k end.
(* an indexed collection whose k-th member reads sub-instance k *)
Fixpoint well_indexed_from (i : nat) (its : list item) : bool :=
  match its with
  | [] => true
  | IIdx _ _ k :: r => Nat.eqb k i && well_indexed_from (S i) r
  | IPlain _ _ :: _ => false
  end.

(* evaluations of the indexed kinds carry one value per prior class *)
Inductive iop := IEval (vals : list Z) (masks : list (list bool)) | ICores (k : nat).
Definition iop_to_op (cls : list (list nat)) (o : iop) : op (X := cinst) :=
  match o with
  | IEval vals masks => OEval ([], map (map (fun k => nth k vals 0%Z)) cls) masks
  | ICores k => OCores k
  end.

Inductive case :=
(* structure of the combined analysis for an arbitrary bracketing (+ optional with_free_parameters) *)
| CStruct (e : expr) (free : bool) (obs : aval)
(* history of evaluations on a sum of plain analyses; instance = one integer *)
| CHist (ads : list adesc) (e : expr) (ops : list (op (X := cinst)))
        (obs : aval) (answers : list (option res)) (residue : list (list res))
(* free parameters / per-analysis models: structure, sharing classes, prior count, evaluations *)
| CIdx (ads : list adesc) (e : expr) (default : list nat) (own : list (list nat)) (free : option (list nat))
       (obs : aval) (obs_classes : list (list nat)) (obs_count : nat)
       (ops : list iop) (answers : list (option res)) (residue : list (list res))
(* folders used by visualize: serial or through the pool; (folder, analysis id) in analysis order *)
| CFolders (ids : list nat) (cores : nat) (obs : list (nat * nat))
(* a real fit: folders written by save_attributes / save_results, child results (analysis, model index) *)
| CFit (ids : list nat) (obs_attr obs_res : list (nat * nat)) (obs_children : list (nat * nat)).

Definition check_case (c : cfg) (cs : case) : bool :=
  match cs with
  | CStruct e free obs =>
      aval_eqb (if free then with_free c (eval c e) else eval c e) obs
  | CHist ads e ops obs answers residue =>
      let v := eval c e in
      let '(s, ans) := run (ev_items ads) (fix_drain c) (items_of v) st_init ops in
      aval_eqb v obs && list_eqb ores_eqb ans answers && list_eqb (list_eqb res_eqb) (s_qs s) residue
  | CIdx ads e default own free obs obs_classes obs_count ops answers residue =>
      let v := match free with Some _ => with_free c (eval c e) | None => eval c e end in
      let its := items_of v in
      let ms := fitted_models (kind_of v) its default own (match free with Some f => f | None => [] end) in
      let cls := classes ms in
      aval_eqb v obs
      && (if well_indexed_from 0 its then
            let '(s, ans) := run (ev_items ads) (fix_drain c) its st_init (map (iop_to_op cls) ops) in
            list_eqb (list_eqb Nat.eqb) cls obs_classes && Nat.eqb (prior_count ms) obs_count
            && list_eqb ores_eqb ans answers && list_eqb (list_eqb res_eqb) (s_qs s) residue
          else match obs_classes, answers with [], [] => true | _, _ => false end)
  | CFolders ids cores obs => list_eqb pair_eqb (folders c cores ids) obs
  | CFit ids obs_attr obs_res obs_children =>
      list_eqb pair_eqb (folders_serial ids) obs_attr && list_eqb pair_eqb (folders_serial ids) obs_res
      && list_eqb pair_eqb (map (fun p => (snd p, fst p)) (children (seq 0 (length ids)) ids)) obs_children
  end.
