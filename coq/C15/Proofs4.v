(* C15 proofs, part 4: sums in which the SAME analysis occurs more than once (a + b + a, a + (b + a),
   (a + b) + (a + b), sum([c, c, c])).  Multiplicity is preserved everywhere the property speaks:
   the total counts an analysis once per occurrence (serial and through the pool), the combined
   analysis holds one member per written occurrence, the fitted model of a free-parameter sum has one
   copy of every free parameter per occurrence.  A sum over the de-duplicated analyses (what a dict or
   set keyed by the analysis object computes) is NOT the property: refuted by witness. *)
From Coq Require Import ZArith List Bool Arith Lia.
From PAFC15 Require Import Model Proofs1 Proofs2 Proofs3.
Import ListNotations.

Definition zsum (l : list Z) : Z := fold_right Z.add 0%Z l.

Lemma zsum_map_add {B} (f g : B -> Z) (s : list B) :
  zsum (map (fun a => (f a + g a)%Z) s) = (zsum (map f s) + zsum (map g s))%Z.
Proof. induction s as [|a s IH]; simpl; [reflexivity|]. rewrite IH. lia. Qed.

Lemma zsum_map_ext {B} (f g : B -> Z) (s : list B) : (forall a, f a = g a) -> zsum (map f s) = zsum (map g s).
Proof. intros E. induction s as [|a s IH]; simpl; [reflexivity|]. rewrite IH, E. reflexivity. Qed.

Section Multiplicity.
  Context {A X : Type}.
  Variable dec : forall a b : A, {a = b} + {a <> b}.
  Variable ev : A -> X -> res.
  Variable x : X.

  (* sum over the analyses of `s` of (number of occurrences in l) * (likelihood) *)
  Definition weighted (l s : list A) : Z :=
    zsum (map (fun a => (Z.of_nat (count_occ dec l a) * val ev x a)%Z) s).
  Definition delta (b a : A) : Z := if dec b a then 1%Z else 0%Z.

  Lemma zsum_delta_out (b : A) (s : list A) : ~ In b s -> zsum (map (fun a => (delta b a * val ev x a)%Z) s) = 0%Z.
  Proof.
    induction s as [|a s IH]; simpl; intros N; [reflexivity|].
    rewrite IH by tauto. unfold delta. destruct (dec b a) as [E|E]; [subst; tauto|lia].
  Qed.

  Lemma zsum_delta_in (b : A) (s : list A) : NoDup s -> In b s ->
    zsum (map (fun a => (delta b a * val ev x a)%Z) s) = val ev x b.
  Proof.
    induction 1 as [|a s Na Nd IH]; simpl; intros I; [tauto|].
    unfold delta at 1. destruct (dec b a) as [E|E].
    - subst a. rewrite zsum_delta_out by exact Na. lia.
    - destruct I as [I|I]; [congruence|]. rewrite IH by exact I. lia.
  Qed.

  Lemma total_cons (b : A) (l : list A) : total ev (b :: l) x = (val ev x b + total ev l x)%Z.
  Proof. reflexivity. Qed.

  Lemma total_weighted (l s : list A) : NoDup s -> incl l s -> total ev l x = weighted l s.
  Proof.
    intros Nd. induction l as [|b l IH]; intros I.
    - unfold weighted. simpl. induction s as [|a s IHs]; simpl; [reflexivity|].
      rewrite <- IHs; [reflexivity|inversion Nd; assumption|intros ? []].
    - rewrite total_cons, IH by (intros a Ha; apply I; right; exact Ha).
      unfold weighted.
      rewrite (zsum_map_ext (fun a => (Z.of_nat (count_occ dec (b :: l) a) * val ev x a)%Z)
                            (fun a => (delta b a * val ev x a + Z.of_nat (count_occ dec l a) * val ev x a)%Z)).
      + rewrite zsum_map_add, zsum_delta_in; [reflexivity|exact Nd|apply I; left; reflexivity].
      + intros a. simpl. unfold delta. destruct (dec b a); lia.
  Qed.

  (* the total counts every analysis once per occurrence *)
  Theorem total_multiplicity (l : list A) : total ev l x = weighted l (nodup dec l).
  Proof. apply total_weighted; [apply NoDup_nodup|]. intros a Ha. apply nodup_In. exact Ha. Qed.

  Lemma first_exc_none (l : list A) : existsb (raises ev x) l = false -> first_exc ev l x = None.
  Proof.
    induction l as [|a l IH]; simpl; intros H; [reflexivity|].
    apply orb_false_iff in H. destruct H as [Ha Hl]. unfold raises in Ha.
    destruct (ev a x); [apply IH; exact Hl|discriminate].
  Qed.

  (* n_cores = 1 *)
  Theorem serial_multiplicity (l : list A) : existsb (raises ev x) l = false ->
    serial ev l x = RVal (weighted l (nodup dec l)).
  Proof. intros H. rewrite serial_spec. unfold spec_sum. rewrite first_exc_none by exact H. rewrite total_multiplicity. reflexivity. Qed.

  (* n_cores > 1: any partition into processes, any schedule *)
  Theorem pool_multiplicity (drain : bool) (l : list A) (procs : list (list A)) (masks : list (list bool)) (qs : list (list res)) :
    concat procs = l -> concat qs = [] -> length qs = length procs -> existsb (raises ev x) l = false ->
    exists qs', pool_call ev drain (length l) procs x masks qs = Some (RVal (weighted l (nodup dec l)), qs').
  Proof.
    intros Hp Hq Hl Hn.
    destruct (pool_call_clean ev drain l procs x masks qs Hp Hq Hl) as (r & qs' & Hc & Hok & _).
    unfold ok_answer in Hok. rewrite Hn in Hok. subst r. exists qs'. rewrite <- total_multiplicity. exact Hc.
  Qed.

  (* what a container keyed by the analysis computes agrees with the property only without repetition *)
  Theorem dedup_total_nodup (l : list A) : NoDup l -> total ev (nodup dec l) x = total ev l x.
  Proof. intros N. rewrite nodup_fixed_point by exact N. reflexivity. Qed.
End Multiplicity.

Lemma dedup_total_refuted : exists (l : list nat) (x : unit),
  total (fun (a : nat) (_ : unit) => RVal (Z.of_nat a)) (nodup Nat.eq_dec l) x
  <> total (fun (a : nat) (_ : unit) => RVal (Z.of_nat a)) l x.
Proof. exists [1; 2; 1], tt. vm_compute. discriminate. Qed.

(* ---- members: one per written occurrence, in the order written ---- *)
Lemma item_id_reindex (i : nat) (l : list item) : map item_id (reindex_from i l) = map item_id l.
Proof. revert i. induction l as [|it l IH]; intros i; simpl; [reflexivity|]. rewrite IH. reflexivity. Qed.

Lemma item_id_plain (l : list (nat * bool)) : map item_id (plain_items l) = map fst l.
Proof. induction l as [|p l IH]; simpl; [reflexivity|]. rewrite IH. reflexivity. Qed.

Lemma item_id_spec (k : ckind) (l : list (nat * bool)) : map item_id (spec_items k l) = map fst l.
Proof. destruct k; simpl; rewrite ?item_id_reindex; apply item_id_plain. Qed.

Lemma eval_sum_shape (e : expr) : nofree e = true -> is_leaf e = false ->
  eval cfg_now e = VComb (spec_kind (leaves e)) (spec_items (spec_kind (leaves e)) (leaves e)).
Proof.
  intros Hn Hl. rewrite flatten_now by exact Hn. destruct e; simpl in *; try discriminate.
  rewrite Hn. reflexivity.
Qed.

Theorem members_written (e : expr) : nofree e = true -> is_leaf e = false ->
  map item_id (items_of (eval cfg_now e)) = map fst (leaves e).
Proof. intros Hn Hl. rewrite eval_sum_shape by assumption. simpl. apply item_id_spec. Qed.

Theorem members_written_free (e : expr) : nofree e = true -> is_leaf e = false ->
  map item_id (items_of (eval cfg_now (Free e))) = map fst (leaves e).
Proof.
  intros Hn Hl. simpl. rewrite eval_sum_shape by assumption. simpl.
  rewrite item_id_reindex. apply item_id_spec.
Qed.

(* an analysis written k times is a member k times *)
Theorem member_multiplicity (e : expr) (j : nat) : nofree e = true -> is_leaf e = false ->
  count_occ Nat.eq_dec (map item_id (items_of (eval cfg_now e))) j = count_occ Nat.eq_dec (map fst (leaves e)) j
  /\ count_occ Nat.eq_dec (map item_id (items_of (eval cfg_now (Free e)))) j = count_occ Nat.eq_dec (map fst (leaves e)) j.
Proof. intros Hn Hl. rewrite members_written, members_written_free by assumption. split; reflexivity. Qed.

Lemma leaves_nonempty (e : expr) : 1 <= length (leaves e).
Proof. induction e; simpl; [lia| rewrite app_length; lia | exact IHe]. Qed.

(* free parameters: one copy per written OCCURRENCE (length of leaves, repetitions included) *)
Theorem free_count_of_expr (e : expr) (default : list nat) (own : list (list nat)) (free : list nat) :
  nofree e = true -> is_leaf e = false -> any_model (leaves e) = false ->
  prior_count (fitted_models cfg_now (kind_of (eval cfg_now (Free e))) (items_of (eval cfg_now (Free e))) default own free)
  = length (free_in free default) * length (leaves e) + length (shared_in free default).
Proof.
  intros Hn Hl Hm. rewrite fitted_free_plain_end_to_end by assumption.
  apply free_count. apply leaves_nonempty.
Qed.

(* ---- the harness analyses: in-place modify_before_fit, once per position ---- *)
Lemma modf_member_fresh (d : Z) (its : list item) (it : item) : In it its -> item_hm it = false ->
  In (it, ((d * Z.of_nat (occurrences its it))%Z, Z.of_nat (occurrences its it)))
     (map (modf_member d) (fresh_members its)).
Proof.
  intros I H. unfold fresh_members. rewrite map_map. apply in_map_iff. exists it. split; [|exact I].
  unfold modf_member, m_off, m_mult. simpl. rewrite H. reflexivity.
Qed.
