(* C15 witnesses: `_refuted` statements and non-vacuity examples for the hypotheses of the theorems
   in Props.v.  All by vm_compute.  Witnesses about cfg_snapshot / drain = false describe the
   historical snapshot 75ee8d3 (repaired in /repo); the others describe /repo as it stands. *)
From Coq Require Import ZArith List Bool Arith Lia.
From PAFC15 Require Import Model Proofs1 Proofs2 Proofs3 Proofs4.
Import ListNotations.

(* ---------- historical: a + (b + c) held [b; c; a] ---------- *)
Definition w_right_nested : expr := Add (Leaf 0 false) (Add (Leaf 1 false) (Leaf 2 false)).
Example w_right_nested_snapshot :
  eval cfg_snapshot w_right_nested = VComb KPlain [IPlain 1 false; IPlain 2 false; IPlain 0 false].
Proof. vm_compute. reflexivity. Qed.
Lemma flatten_order_refuted : exists e, nofree e = true /\ eval (mkCfg false true true true true true true) e <> spec_struct e.
Proof. exists w_right_nested. split; [reflexivity|]. vm_compute. discriminate. Qed.

(* ---------- historical: (a + b) + (c.with_model(m) + d) stayed a plain sum ---------- *)
Definition w_mixed : expr := Add (Add (Leaf 0 false) (Leaf 1 false)) (Add (Leaf 2 true) (Leaf 3 false)).
Example w_mixed_snapshot :
  eval cfg_snapshot w_mixed = VComb KPlain [IPlain 0 false; IPlain 1 false; IIdx 2 true 0; IIdx 3 false 1].
Proof. vm_compute. reflexivity. Qed.
Lemma flatten_models_refuted : exists e, nofree e = true /\ eval (mkCfg true false true true true true true) e <> spec_struct e.
Proof. exists w_mixed. split; [reflexivity|]. vm_compute. discriminate. Qed.

Example guard_left_nested : guard cfg_snapshot (Add (Add (Leaf 0 false) (Leaf 1 true)) (Leaf 2 false)) = true.
Proof. vm_compute. reflexivity. Qed.
Example guard_excludes_right_nested : guard cfg_snapshot w_right_nested = false.
Proof. vm_compute. reflexivity. Qed.
Example guard_excludes_mixed : guard cfg_snapshot w_mixed = false.
Proof. vm_compute. reflexivity. Qed.
Example now_right_nested : eval cfg_now w_right_nested = VComb KPlain [IPlain 0 false; IPlain 1 false; IPlain 2 false].
Proof. vm_compute. reflexivity. Qed.
Example now_mixed :
  eval cfg_now w_mixed = VComb KModel [IIdx 0 false 0; IIdx 1 false 1; IIdx 2 true 2; IIdx 3 false 3].
Proof. vm_compute. reflexivity. Qed.

(* ---------- before 9d1b558: (a + b) + (c + d).with_free_parameters(p) was accepted silently ---------- *)
Definition w_free_right : expr := Add (Add (Leaf 0 false) (Leaf 1 false)) (Free (Add (Leaf 2 false) (Leaf 3 false))).
Example w_free_right_round2 :
  eval cfg_round2 w_free_right = VComb KPlain [IPlain 0 false; IPlain 1 false; IIdx 2 false 0; IIdx 3 false 1].
Proof. vm_compute. reflexivity. Qed.
Lemma free_right_legacy_refuted : exists e, eval cfg_round2 e <> spec_struct e.
Proof. exists w_free_right. vm_compute. discriminate. Qed.
Example w_free_right_now : eval cfg_now w_free_right = VErr.
Proof. vm_compute. reflexivity. Qed.
(* with_free_parameters twice is legal: the members are re-wrapped again *)
Example w_free_twice : eval cfg_now (Free (Free (Add (Leaf 0 false) (Leaf 1 true)))) = VComb KFree [IIdx 0 false 0; IIdx 1 true 1].
Proof. vm_compute. reflexivity. Qed.
Example w_free_left_raises : eval cfg_now (Add (Free (Add (Leaf 2 false) (Leaf 3 false))) (Leaf 0 false)) = VErr.
Proof. vm_compute. reflexivity. Qed.

(* ---------- historical: stale results after a raising evaluation of the pool ---------- *)
(* analysis a maps x to a*x; analysis 1 raises FitException on negative instances, analysis 10 raises
   ValueError on -9; visualize of analysis 10 raises on 5 *)
Definition w_ev (a : nat) (x : Z) : res :=
  if (x <? 0)%Z && Nat.eqb a 1 then RExc 0 else if (x =? -9)%Z && Nat.eqb a 10 then RExc 1 else RVal (Z.of_nat a * x).
Definition w_vis (a : nat) (x : Z) : res := if (x =? 5)%Z && Nat.eqb a 10 then RExc 1 else RVal 0.
Definition w_modf (d : Z) (a : nat) : nat := a + Z.to_nat d.   (* modify_before_fit changes the member *)
Definition w_l : list nat := [1; 10; 100].
Definition w_ops : list (op (X := Z)) := [OCores 3; OEval 2%Z []; OEval (-7)%Z []; OEval 2%Z []; OEval 3%Z []].

Example w_snapshot_answers :
  map out_ans (snd (run w_ev w_vis w_modf false false w_l st_init w_ops))
  = [Some (RVal 222); Some (RExc 0); Some (RVal (-768)); Some (RVal 223)].
Proof. vm_compute. reflexivity. Qed.
Example w_now_answers :
  map out_ans (snd (run w_ev w_vis w_modf true true w_l st_init w_ops))
  = [Some (RVal 222); Some (RExc 0); Some (RVal 222); Some (RVal 333)].
Proof. vm_compute. reflexivity. Qed.

Lemma history_free_refuted :
  exists (l : list nat) (ops : list (op (X := Z))),
    ~ Forall2 (out_ok w_ev w_vis) (trace w_modf l ops) (snd (run w_ev w_vis w_modf false false l st_init ops)).
Proof.
  exists w_l, w_ops. intro H. vm_compute in H.
  inversion H as [|a b la lb H1 H2]; subst. inversion H2 as [|a' b' la' lb' H3 H4]; subst.
  inversion H4 as [|a2 b2 la2 lb2 H5 H6]; subst. vm_compute in H5. discriminate.
Qed.

Example w_guarded :
  map fst (guarded w_ev w_vis w_modf false w_l 1 false false w_ops) = [false; false; true; true].
Proof. vm_compute. reflexivity. Qed.

(* ---------- /repo today: schedules, visualize through the pool, exception classes ---------- *)
(* a schedule that withholds results: same answer *)
Example w_withheld :
  map out_ans (snd (run w_ev w_vis w_modf true true w_l st_init [OCores 2; OEval 2%Z [[false; true]; [false; false]; [true; false]]]))
  = [Some (RVal 222)].
Proof. vm_compute. reflexivity. Qed.
(* two analyses raise different classes on -9: the schedule decides which one the pool raises *)
Example w_two_classes_first : map out_ans (snd (run w_ev w_vis w_modf true true w_l st_init [OCores 3; OEval (-9)%Z []])) = [Some (RExc 0)].
Proof. vm_compute. reflexivity. Qed.
Example w_two_classes_second :
  map out_ans (snd (run w_ev w_vis w_modf true true w_l st_init [OCores 3; OEval (-9)%Z [[false; true; true]]])) = [Some (RExc 1)].
Proof. vm_compute. reflexivity. Qed.
Example w_two_classes_serial : serial w_ev w_l (-9)%Z = RExc 0.
Proof. vm_compute. reflexivity. Qed.
Example w_not_uniform : ~ uniform w_ev w_l (-9)%Z.
Proof. intro U. specialize (U 1 10 0 1 (or_introl eq_refl) (or_intror (or_introl eq_refl)) eq_refl eq_refl). discriminate. Qed.
Example w_uniform : uniform w_ev w_l (-7)%Z.
Proof.
  intros a b k k' Ha Hb. simpl in Ha, Hb.
  destruct Ha as [Ha|[Ha|[Ha|[]]]], Hb as [Hb|[Hb|[Hb|[]]]]; subst; vm_compute; congruence.
Qed.
(* visualize through a pool that was kept after n_cores went back to 1, one analysis raising;
   the evaluation that follows is not disturbed *)
Example w_map_history :
  snd (run w_ev w_vis w_modf true true w_l st_init [OCores 2; OCores 1; OMap 5%Z [[false; true]]; OEval 2%Z []; OMap 2%Z []])
  = [OutMap (Some (RExc 1)) [(0, 1); (2, 100)]; OutAns (Some (RVal 222)); OutMap (Some (RVal 0)) [(0, 1); (1, 10); (2, 100)]].
Proof. vm_compute. reflexivity. Qed.

(* modify_before_fit with a pool already running: the rebuilt analysis (general.yaml n_cores = 2) evaluates
   the modified members 2, 11, 101; a pool kept from before would still hold 1, 10, 100 *)
Example w_modify_rebuilds :
  map out_ans (snd (run w_ev w_vis w_modf true true w_l st_init [OCores 3; OEval 2%Z []; OModify 1%Z 2; OEval 2%Z []; OCores 1; OEval 2%Z []]))
  = [Some (RVal 222); Some (RVal 228); Some (RVal 228)].
Proof. vm_compute. reflexivity. Qed.
Example w_modify_trace :
  map fst (trace w_modf w_l [OCores 3; OEval 2%Z []; OModify 1%Z 2; OEval 2%Z []]) = [[1; 10; 100]; [2; 11; 101]].
Proof. vm_compute. reflexivity. Qed.

(* 5 analyses on 4 cores: the fourth process holds nothing, the sum is complete *)
Example w_partition : split_procs 4 [1; 2; 3; 4; 5] = [[1; 2]; [3; 4]; [5]; []].
Proof. vm_compute. reflexivity. Qed.

(* ---------- historical: folders through the pool ---------- *)
Lemma folders_refuted : exists (l : list nat) (cores : nat), folders false cores l <> folders_serial l.
Proof. exists [0; 1; 2], 2. vm_compute. discriminate. Qed.
Example w_folders_snapshot : folders false 2 [0; 1; 2] = [(0, 0); (0, 1); (1, 2)].
Proof. vm_compute. reflexivity. Qed.
Example w_folders_partial_hyp : length [0; 1; 2] <= 3.
Proof. simpl. lia. Qed.

(* ---------- free parameters ---------- *)
Example w_free_count : prior_count (modify_free [1; 9] 3 [0; 1; 0]) = 4.
Proof. vm_compute. reflexivity. Qed.
Example w_free_classes : classes (modify_free [1; 9] 3 [0; 1; 0]) = [[0; 1; 0]; [0; 2; 0]; [0; 3; 0]].
Proof. vm_compute. reflexivity. Qed.
Example w_free_formula : length (free_in [1; 9] [0; 1; 0]) * 3 + length (shared_in [1; 9] [0; 1; 0]) = 4.
Proof. vm_compute. reflexivity. Qed.
(* before 1298d8e free parameters over a sum whose first analysis has its own model [3;1;4] dropped that model *)
Definition w_free_own_items := [IIdx 0 true 0; IIdx 1 false 1].
Example w_free_own_round1 :
  fitted_models cfg_round1 KFree w_free_own_items [0; 1; 2] [[3; 1; 4]] [1]
  = [[Orig 0; Fresh 0 1; Orig 2]; [Orig 0; Fresh 1 1; Orig 2]].
Proof. vm_compute. reflexivity. Qed.
Example w_free_own_now :
  fitted_models cfg_now KFree w_free_own_items [0; 1; 2] [[3; 1; 4]] [1]
  = [[Orig 3; Fresh 0 1; Orig 4]; [Orig 0; Fresh 1 1; Orig 2]].
Proof. vm_compute. reflexivity. Qed.
Lemma free_own_legacy_refuted :
  exists its default own free,
    fitted_models cfg_round1 KFree its default own free <> modify_free_own free default own its.
Proof. exists w_free_own_items, [0; 1; 2], [[3; 1; 4]], [1]. vm_compute. discriminate. Qed.

(* ---------- the same analysis written more than once: a + b + a, a + (b + a), (a + b) + (a + b), sum([c, c, c]) ---------- *)
Definition w_aba : expr := Add (Add (Leaf 0 false) (Leaf 1 false)) (Leaf 0 false).
Definition w_a_ba : expr := Add (Leaf 0 false) (Add (Leaf 1 false) (Leaf 0 false)).
Definition w_abab : expr := Add (Add (Leaf 0 false) (Leaf 1 false)) (Add (Leaf 0 false) (Leaf 1 false)).
Definition w_ccc : expr := Add (Add (Leaf 2 false) (Leaf 2 false)) (Leaf 2 false).
Example w_repeated_members :
  map (fun e => map item_id (items_of (eval cfg_now e))) [w_aba; w_a_ba; w_abab; w_ccc]
  = [[0; 1; 0]; [0; 1; 0]; [0; 1; 0; 1]; [2; 2; 2]].
Proof. vm_compute. reflexivity. Qed.
Example w_repeated_hyps : forallb (fun e => nofree e && negb (is_leaf e) && negb (any_model (leaves e))) [w_aba; w_a_ba; w_abab; w_ccc] = true.
Proof. vm_compute. reflexivity. Qed.
Example w_repeated_free_indexed :
  eval cfg_now (Free w_aba) = VComb KFree [IIdx 0 false 0; IIdx 1 false 1; IIdx 0 false 2].
Proof. vm_compute. reflexivity. Qed.
(* analyses 1, 10 (w_ev: x -> a * x): a + b + a on 2 is 2 + 20 + 2, serially and on two cores; 2 occurrences of a *)
Example w_repeated_serial : serial w_ev [1; 10; 1] 2%Z = RVal 24.
Proof. vm_compute. reflexivity. Qed.
Example w_repeated_weighted : weighted Nat.eq_dec w_ev 2%Z [1; 10; 1] (nodup Nat.eq_dec [1; 10; 1]) = 24%Z
                              /\ count_occ Nat.eq_dec [1; 10; 1] 1 = 2 /\ existsb (raises w_ev 2%Z) [1; 10; 1] = false.
Proof. vm_compute. repeat split; reflexivity. Qed.
Example w_repeated_pool :
  map out_ans (snd (run w_ev w_vis w_modf true true [1; 10; 1] st_init
                        [OEval 2%Z []; OCores 2; OEval 2%Z [[false; true]]; OCores 1; OEval 2%Z []; OCores 3; OEval 2%Z []]))
  = [Some (RVal 24); Some (RVal 24); Some (RVal 24); Some (RVal 24)].
Proof. vm_compute. reflexivity. Qed.
(* a sum over the distinct analyses (dict / set keyed by the analysis) gives 22 *)
Example w_repeated_dedup : total w_ev (nodup Nat.eq_dec [1; 10; 1]) 2%Z = 22%Z.
Proof. vm_compute. reflexivity. Qed.
(* free parameter 0 of the model [0; 1] over a + b + a: three copies of prior 0 and one shared prior 1 *)
Example w_repeated_free_count :
  prior_count (fitted_models cfg_now (kind_of (eval cfg_now (Free w_aba))) (items_of (eval cfg_now (Free w_aba))) [0; 1] [] [0]) = 4
  /\ length (free_in [0] [0; 1]) * length (leaves w_aba) + length (shared_in [0] [0; 1]) = 4.
Proof. vm_compute. split; reflexivity. Qed.
(* in-place modify_before_fit by 5, once per position: the object written twice has moved by 10 at both positions *)
Example w_repeated_modify :
  map (fun m => (item_id (fst m), m_off m)) (map (modf_member 5) (fresh_members (items_of (eval cfg_now w_aba))))
  = [(0, 10%Z); (1, 5%Z); (0, 10%Z)].
Proof. vm_compute. reflexivity. Qed.
Example w_repeated_modify_hyps : In (IPlain 0 false) (items_of (eval cfg_now w_aba)) /\ item_hm (IPlain 0 false) = false
                                 /\ occurrences (items_of (eval cfg_now w_aba)) (IPlain 0 false) = 2.
Proof. vm_compute. repeat split. left. reflexivity. Qed.
