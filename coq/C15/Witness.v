(* C15 witnesses: `_refuted` statements (the pinned code violates the full statement) and
   non-vacuity examples for the hypotheses of the theorems in Props.v.  All by vm_compute. *)
From Coq Require Import ZArith List Bool Arith Lia.
From PAFC15 Require Import Model Proofs1 Proofs2 Proofs3.
Import ListNotations.

(* ---------- a + (b + c) holds [b; c; a] ---------- *)
Definition w_right_nested : expr := Add (Leaf 0 false) (Add (Leaf 1 false) (Leaf 2 false)).
Example w_right_nested_value :
  eval cfg_current w_right_nested = VComb KPlain [IPlain 1 false; IPlain 2 false; IPlain 0 false].
Proof. vm_compute. reflexivity. Qed.

Lemma flatten_order_refuted : exists e, eval (mkCfg false true true true) e <> spec_struct e.
Proof. exists w_right_nested. vm_compute. discriminate. Qed.

(* ---------- (a + b) + (c.with_model(m) + d) stays a plain sum with stale wrappers ---------- *)
Definition w_mixed : expr := Add (Add (Leaf 0 false) (Leaf 1 false)) (Add (Leaf 2 true) (Leaf 3 false)).
Example w_mixed_value :
  eval cfg_current w_mixed = VComb KPlain [IPlain 0 false; IPlain 1 false; IIdx 2 true 0; IIdx 3 false 1].
Proof. vm_compute. reflexivity. Qed.

Lemma flatten_models_refuted : exists e, eval (mkCfg true false true true) e <> spec_struct e.
Proof. exists w_mixed. vm_compute. discriminate. Qed.

(* the guard is not vacuous and really excludes the two witnesses *)
Example guard_left_nested : guard cfg_current (Add (Add (Leaf 0 false) (Leaf 1 true)) (Leaf 2 false)) = true.
Proof. vm_compute. reflexivity. Qed.
Example guard_excludes_right_nested : guard cfg_current w_right_nested = false.
Proof. vm_compute. reflexivity. Qed.
Example guard_excludes_mixed : guard cfg_current w_mixed = false.
Proof. vm_compute. reflexivity. Qed.
Example fixed_right_nested :
  eval cfg_fixed w_right_nested = VComb KPlain [IPlain 0 false; IPlain 1 false; IPlain 2 false].
Proof. vm_compute. reflexivity. Qed.
Example fixed_mixed :
  eval cfg_fixed w_mixed = VComb KModel [IIdx 0 false 0; IIdx 1 false 1; IIdx 2 true 2; IIdx 3 false 3].
Proof. vm_compute. reflexivity. Qed.

(* ---------- stale results after a raising evaluation of the pool ---------- *)
(* analysis a maps x to a*x; analysis 1 raises on negative instances *)
Definition w_ev (a : nat) (x : Z) : res :=
  if (x <? 0)%Z && Nat.eqb a 1 then RExc else RVal (Z.of_nat a * x).
Definition w_l : list nat := [1; 10; 100].
Definition w_ops : list (op (X := Z)) := [OCores 3; OEval 2%Z []; OEval (-7)%Z []; OEval 2%Z []; OEval 3%Z []].

Example w_pinned_answers :
  snd (run w_ev false w_l st_init w_ops) = [Some (RVal 222); Some RExc; Some (RVal (-768)); Some (RVal 223)].
Proof. vm_compute. reflexivity. Qed.
Example w_repaired_answers :
  snd (run w_ev true w_l st_init w_ops) = [Some (RVal 222); Some RExc; Some (RVal 222); Some (RVal 333)].
Proof. vm_compute. reflexivity. Qed.

Lemma history_free_refuted :
  exists (l : list nat) (ops : list (op (X := Z))),
    snd (run w_ev false l st_init ops) <> map (fun x => Some (spec_sum w_ev l x)) (evals ops).
Proof. exists w_l, w_ops. vm_compute. discriminate. Qed.

(* the guarantee of the partial theorem on this history: everything up to the raising evaluation *)
Example w_guarded :
  guarded w_ev false w_l 1 false w_ops = [Some (RVal 222); Some RExc; None; None].
Proof. vm_compute. reflexivity. Qed.

(* a schedule that withholds results: same answer (non-vacuity of "for every schedule") *)
Example w_withheld :
  snd (run w_ev false w_l st_init [OCores 2; OEval 2%Z [[false; true]; [false; false]; [true; false]]])
  = [Some (RVal 222)].
Proof. vm_compute. reflexivity. Qed.

(* 5 analyses on 4 cores: the fourth process holds nothing, the sum is complete *)
Example w_partition : split_procs 4 [1; 2; 3; 4; 5] = [[1; 2]; [3; 4]; [5]; []].
Proof. vm_compute. reflexivity. Qed.

(* ---------- folders through the pool ---------- *)
Lemma folders_refuted : exists (l : list nat) (cores : nat), folders cfg_current cores l <> folders_serial l.
Proof. exists [0; 1; 2], 2. vm_compute. discriminate. Qed.
Example w_folders_pinned : folders cfg_current 2 [0; 1; 2] = [(0, 0); (0, 1); (1, 2)].
Proof. vm_compute. reflexivity. Qed.
Example w_folders_partial_hyp : length [0; 1; 2] <= 3.
Proof. simpl. lia. Qed.

(* ---------- free parameters ---------- *)
(* model with priors 0,1,0 along its paths, prior 1 free, three analyses: 3 * 1 + 1 parameters *)
Example w_free_count : prior_count (modify_free [1; 9] 3 [0; 1; 0]) = 4.
Proof. vm_compute. reflexivity. Qed.
Example w_free_classes : classes (modify_free [1; 9] 3 [0; 1; 0]) = [[0; 1; 0]; [0; 2; 0]; [0; 3; 0]].
Proof. vm_compute. reflexivity. Qed.
Example w_free_formula : length (free_in [1; 9] [0; 1; 0]) * 3 + length (shared_in [1; 9] [0; 1; 0]) = 4.
Proof. vm_compute. reflexivity. Qed.
