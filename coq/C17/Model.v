(* C17 model: exponential-family message algebra of autofit/messages.

   One set of definitions, generic in the number type T through an operation record
   `ops T`:  instantiated with binary64 (PrimFloat, bit exact; libm/scipy functions are
   finite oracle tables supplied by the harness) for the correspondence check, and with
   Q and R in Proofs*.v for the theorems.  Executable definitions only.

   Faithful to the pinned code, defects included; the `variant` record switches the two
   defects for which a repair is proposed (proposed_fixes/C17-*.diff); `cur` is the code
   that exists. *)
From Coq Require Import ZArith List Bool.
From Coq Require Import Floats.PrimFloat Floats.FloatOps Floats.SpecFloat.
From PAFCommon Require Import PyFloat Lists.
Import ListNotations.

Record ops (T : Type) := mkops {
  oadd : T -> T -> T; osub : T -> T -> T; omul : T -> T -> T; odiv : T -> T -> T;
  oopp : T -> T; osqrt : T -> T;
  osq : T -> T;                       (* x ** 2 as the message classes compute it *)
  c0 : T; c1 : T; c2 : T; chalf : T;
  olog : T -> T; oexp : T -> T; olog1p : T -> T; omax : T -> T -> T;
  oofnat : nat -> T;
  oinvpsilog : T -> T;                (* autofit.messages.utils.invpsilog *)
  oinvbeta : T -> T -> T * T;         (* autofit.messages.beta.inv_beta_suffstats *)
  c10 : T; olog10 : T -> T;
  ondtri : T -> T;                    (* transform.ndtri (scipy.special.ndtri inside (0,1)) *)
  onormpdf : T -> T;                  (* scipy.stats._continuous_distns._norm_pdf *)
  c4 : T; clogbase : T;               (* NormalMessage.log_base_measure = -0.5 * np.log(2 * np.pi) *)
  ogammaln : T -> T; obetaln : T -> T -> T;   (* scipy.special.gammaln / betaln *)
  onan_to_num : T -> T                (* np.nan_to_num(., nan=-inf): nan -> -inf, +-inf -> +-max float *)
}.
Arguments oadd {T}. Arguments osub {T}. Arguments omul {T}. Arguments odiv {T}.
Arguments oopp {T}. Arguments osqrt {T}. Arguments osq {T}. Arguments c0 {T}.
Arguments c1 {T}. Arguments c2 {T}. Arguments chalf {T}. Arguments olog {T}.
Arguments oexp {T}. Arguments olog1p {T}. Arguments omax {T}. Arguments oofnat {T}.
Arguments oinvpsilog {T}. Arguments oinvbeta {T}. Arguments c10 {T}. Arguments olog10 {T}.
Arguments ondtri {T}. Arguments onormpdf {T}. Arguments c4 {T}. Arguments clogbase {T}.
Arguments ogammaln {T}. Arguments obetaln {T}. Arguments onan_to_num {T}.

Inductive family := FNormal | FNatural | FGamma | FBeta | FFixed.

Definition family_eqb (a b : family) : bool :=
  match a, b with
  | FNormal, FNormal | FNatural, FNatural | FGamma, FGamma | FBeta, FBeta | FFixed, FFixed => true
  | _, _ => false
  end.

(* transforms of a TransformedMessage, applied left to right (phi = ndtri/ndtr) *)
Inductive transform (T : Type) := TPhi | TLog | TLog10 | TExp | TShift (shift scale : T).
Arguments TPhi {T}. Arguments TLog {T}. Arguments TLog10 {T}. Arguments TExp {T}. Arguments TShift {T}.

(* code variants: the code that exists (`cur`) and the proposed repairs *)
Record variant := mkvariant {
  keep_limits : bool;     (* TransformedMessage.with_base passes lower_limit/upper_limit on *)
  tzeros_via_base : bool; (* TransformedMessage.zeros_like = with_base(base.zeros_like()) *)
  beta_project_ok : bool; (* inv_beta_suffstats solves its Newton step (with the installed numpy 2
                             np.linalg.solve rejects the (n,2) right-hand side: every BetaMessage.project raises) *)
  fixed_truediv_noop : bool; (* FixedMessage.__truediv__ = _no_op (the class only defines the py2 name __div__) *)
  product_keeps_lognorm : bool; (* sum_natural_parameters passes log_norm = self.log_norm + sum(other.log_norm) on, and
                                   TransformedMessage.log_norm is the log_norm of its base (proposed, not applied) *)
  tproject_transforms : bool (* TransformedMessage.project fits the base to self._transform(samples) and puts the
                                lower_limit/upper_limit keyword arguments on the result (proposed, not applied) *)
}.
Definition pinned : variant := mkvariant false false false false false false.     (* the pinned tree *)
Definition applied3 : variant := mkvariant true true true false false false.      (* limits, zeros_like, beta fixes applied *)
Definition applied4 : variant := mkvariant true true true true false false.       (* ... and FixedMessage.__truediv__ *)
Definition repaired : variant := mkvariant true true true true true true.         (* all proposed fixes applied *)
(* the code the correspondence check compares with; theorems never mention `cur`, so this is
   the only line to change when a proposed fix is applied to /repo *)
Definition cur : variant := repaired.

(* id -1 stands for "a fresh id drawn from AbstractMessage.ids" *)
Definition fresh_id : Z := (-1)%Z.

Section Generic.
  Context {T : Type} (O : ops T).

  Definition vadd (a b : list T) : list T := map2 (oadd O) a b.
  Definition vsub (a b : list T) : list T := map2 (osub O) a b.
  Definition vscale (k : T) (a : list T) : list T := map (omul O k) a.

  (* calc_natural_parameters of each family on its stored parameters *)
  Definition to_nat (f : family) (p : list T) : list T :=
    match f, p with
    | FNormal, [mu; sg] =>
        let prec := odiv O (c1 O) (osq O sg) in [omul O mu prec; odiv O (oopp O prec) (c2 O)]
    | FNormal, _ => []
    | FNatural, _ => p
    | FGamma, [a; b] => [osub O a (c1 O); oopp O b]
    | FGamma, _ => []
    | FBeta, [a; b] => [osub O a (c1 O); osub O b (c1 O)]
    | FBeta, _ => []
    | FFixed, _ => p
    end.

  (* invert_natural_parameters *)
  Definition of_nat (f : family) (e : list T) : list T :=
    match f, e with
    | FNormal, [e1; e2] =>
        [odiv O (omul O (oopp O (chalf O)) e1) e2; osqrt O (odiv O (oopp O (chalf O)) e2)]
    | FNormal, _ => []
    | FNatural, _ => e
    | FGamma, [e1; e2] => [oadd O e1 (c1 O); oopp O e2]
    | FGamma, _ => []
    | FBeta, [e1; e2] => [oadd O e1 (c1 O); oadd O e2 (c1 O)]
    | FBeta, _ => []
    | FFixed, _ => e
    end.

  (* a message: `elems` holds, for every array element, the tuple of stored parameters *)
  Record msg := mkmsg {
    fam : family; scalar : bool; elems : list (list T); lognorm : T;
    mid : Z; lo : float; hi : float }.

  Definition nat_of (m : msg) : list (list T) := map (to_nat (fam m)) (elems m).
  Definition is_fixed (m : msg) : bool := family_eqb (fam m) FFixed.

  (* MessageInterface.sum_natural_parameters: the result is rebuilt through
     from_natural_parameters with id and limits of self; log_norm is NOT passed on *)
  Definition b_sum (V : variant) (a : msg) (others : list msg) : msg :=
    if is_fixed a then a else
    let etas := fold_left (fun acc b => map2 vadd acc (nat_of b)) others (nat_of a) in
    (* proposed: log_norm = self.log_norm + sum(d.log_norm for d in others)   [Python sum starts at 0] *)
    let ln := if product_keeps_lognorm V
              then oadd O (lognorm a) (fold_left (fun acc b => oadd O acc (lognorm b)) others (c0 O))
              else c0 O in
    mkmsg (fam a) (scalar a) (map (of_nat (fam a)) etas) ln (mid a) (lo a) (hi a).

  (* MessageInterface.sub_natural_parameters *)
  Definition b_div (a b : msg) : msg :=
    if is_fixed a then a else
    mkmsg (fam a) (scalar a) (map (of_nat (fam a)) (map2 vsub (nat_of a) (nat_of b)))
          (osub O (lognorm a) (lognorm b)) (mid a) (lo a) (hi a).

  (* AbstractMessage.__pow__ *)
  Definition b_pow (a : msg) (k : T) : msg :=
    if is_fixed a then a else
    mkmsg (fam a) (scalar a) (map (of_nat (fam a)) (map (vscale k) (nat_of a)))
          (omul O k (lognorm a)) (mid a) (lo a) (hi a).

  (* message * real, real * message, message / real: parameters untouched *)
  Definition b_smul (a : msg) (c : T) : msg :=
    if is_fixed a then a else
    mkmsg (fam a) (scalar a) (elems a) (oadd O (lognorm a) (olog O c)) (mid a) (lo a) (hi a).
  Definition b_sdiv (V : variant) (a : msg) (c : T) : msg :=
    if is_fixed a && fixed_truediv_noop V then a else
    mkmsg (fam a) (scalar a) (elems a) (osub O (lognorm a) (olog O c)) (mid a) (lo a) (hi a).

  (* zeros_like: NormalMessage goes through `.natural` (a NaturalNormal), the others are `** 0.` *)
  Definition b_zeros (a : msg) : msg :=
    match fam a with
    | FNormal =>
        let n0 := mkmsg FNatural (scalar a) (map (vscale (c0 O)) (nat_of a)) (lognorm a) (mid a) (lo a) (hi a) in
        b_pow n0 (c0 O)
    | _ => b_pow a (c0 O)
    end.

  (* type(a).from_natural_parameters(a.natural_parameters, **a._init_kwargs) *)
  Definition b_fromnat (a : msg) : msg :=
    mkmsg (fam a) (scalar a) (map (of_nat (fam a)) (nat_of a)) (lognorm a) (mid a) (lo a) (hi a).

  (* ---------- in-place item assignment and queries ---------- *)
  (* AbstractMessage.__setitem__(i, value): the i-th entry of every parameter array is replaced by the
     parameter of the (scalar) value; nothing else of the message changes; an index outside the array
     leaves it unchanged here (the code raises IndexError; the generator stays inside) *)
  Fixpoint replace_nth {A} (l : list A) (i : nat) (x : A) : list A :=
    match l, i with
    | [], _ => []
    | _ :: r, 0%nat => x :: r
    | y :: r, S j => y :: replace_nth r j x
    end.
  Definition setitem (a : msg) (i : nat) (p : list T) : msg :=
    mkmsg (fam a) (scalar a) (replace_nth (elems a) i p) (lognorm a) (mid a) (lo a) (hi a).

  (* every query is a function of the CURRENT parameters: mean and variance where they are IEEE-exact *)
  Definition q_moments (f : family) (p : list T) : option (T * T) :=
    match f, p with
    | FNormal, [mu; sg] => Some (mu, omul O sg sg)
    | FGamma, [a; b] => Some (odiv O a b, odiv O a (omul O b b))
    | FBeta, [a; b] =>
        let s := oadd O a b in
        Some (odiv O a s, odiv O (odiv O (omul O a b) (omul O s s)) (oadd O s (c1 O)))
    | _, _ => None
    end.

  (* ---------- transformed messages ---------- *)
  Inductive mval :=
  | MB (m : msg)
  | MT (stack : list (transform T)) (tid : option Z) (tlo thi : float) (m : msg).

  Definition base_of (v : mval) : msg := match v with MB m => m | MT _ _ _ _ m => m end.

  (* TransformedMessage.with_base: id kept; limits are not passed to the constructor *)
  Definition rewrap (V : variant) (s : list (transform T)) (i : option Z) (l h : float) (m : msg) : mval :=
    if keep_limits V then MT s i l h m else MT s i neg_infinity infinity m.

  Inductive expr :=
  | EVar (n : nat)
  | EMul (x y : expr) | EDiv (x y : expr) | EPow (x : expr) (k : T)
  | ESMul (x : expr) (c : T) | ESDiv (x : expr) (c : T)
  | ESum3 (x y z : expr)          (* x.sum_natural_parameters(y, z) *)
  | EZeros (x : expr) | EFromNat (x : expr).

  Definition lift1 (V : variant) (f : msg -> msg) (x : mval) : mval :=
    match x with
    | MB a => MB (f a)
    | MT s i l h a => rewrap V s i l h (f a)
    end.

  Fixpoint eval (V : variant) (env : list mval) (e : expr) : option mval :=
    match e with
    | EVar n => nth_error env n
    | EMul x y =>
        match eval V env x, eval V env y with
        | Some vx, Some vy => Some (lift1 V (fun a => b_sum V a [base_of vy]) vx)
        | _, _ => None
        end
    | EDiv x y =>
        match eval V env x, eval V env y with
        | Some (MB a), Some ((MT _ _ _ _ _) as vy) =>
            (* sub_natural_parameters reads other.log_norm, which a TransformedMessage lacks
               (proposed: TransformedMessage.log_norm = log_norm of its base) *)
            if is_fixed a then Some (MB a)
            else if product_keeps_lognorm V then Some (MB (b_div a (base_of vy))) else None
        | Some vx, Some vy => Some (lift1 V (fun a => b_div a (base_of vy)) vx)
        | _, _ => None
        end
    | EPow x k => option_map (lift1 V (fun a => b_pow a k)) (eval V env x)
    | ESMul x c => option_map (lift1 V (fun a => b_smul a c)) (eval V env x)
    | ESDiv x c => option_map (lift1 V (fun a => b_sdiv V a c)) (eval V env x)
    | ESum3 x y z =>
        match eval V env x, eval V env y, eval V env z with
        | Some (MB a), Some vy, Some vz => Some (MB (b_sum V a [base_of vy; base_of vz]))
        | Some (MT s i l h a), Some vy, Some vz =>
            (* inherited MessageInterface.sum_natural_parameters: the kwargs of the
               TRANSFORMED message (its id, its limits) go to the new base message *)
            let r := b_sum V a [base_of vy; base_of vz] in
            let r' := mkmsg (fam r) (scalar r) (elems r) (lognorm r)
                            (match i with Some z => z | None => fresh_id end) l h in
            Some (rewrap V s i l h (if is_fixed a then a else r'))
        | _, _, _ => None
        end
    | EZeros x =>
        match eval V env x with
        | Some (MB a) => Some (MB (b_zeros a))
        | Some (MT s i l h a) =>
            Some (rewrap V s i l h (if tzeros_via_base V then b_zeros a else b_pow a (c0 O)))
        | None => None
        end
    | EFromNat x => option_map (lift1 V b_fromnat) (eval V env x)
    end.

  (* ---------- MessageInterface.logpdf of the base families (one array element, one point) ---------- *)
  Definition log_partition (f : family) (p : list T) : T :=
    match f with
    | FNormal | FNatural =>
        match to_nat f p with
        | [e1; e2] => osub O (odiv O (odiv O (oopp O (osq O e1)) (c4 O)) e2)
                             (odiv O (olog O (omul O (oopp O (c2 O)) e2)) (c2 O))
        | _ => c0 O
        end
    | FGamma =>
        match of_nat FGamma (to_nat FGamma p) with
        | [a; b] => osub O (ogammaln O a) (omul O a (olog O b))
        | _ => c0 O
        end
    | FBeta => match p with [a; b] => obetaln O a b | _ => c0 O end
    | FFixed => c0 O
    end.
  Definition log_base (f : family) : T :=
    match f with FNormal | FNatural => clogbase O | _ => c0 O end.
  (* to_canonical_form at one point; x ** 2 is C pow when x is a Python scalar, x * x on arrays *)
  Definition canon_pt (f : family) (x : T) (x_scalar : bool) : list T :=
    match f with
    | FNormal | FNatural => [x; if x_scalar then osq O x else omul O x x]
    | FGamma => [olog O x; x]
    | FBeta => [olog O x; olog1p O (oopp O x)]
    | FFixed => [x]
    end.
  (* natural_logpdf: nan_to_num(log_base + (eta * t).sum(0) - log_partition) *)
  Definition natural_logpdf (f : family) (p : list T) (x : T) (x_scalar : bool) : T :=
    match to_nat f p, canon_pt f x x_scalar with
    | [e1; e2], [t1; t2] =>
        onan_to_num O (osub O (oadd O (log_base f) (oadd O (oadd O (c0 O) (omul O e1 t1)) (omul O e2 t2)))
                            (log_partition f p))
    | _, _ => c0 O
    end.

  (* ---------- change of variables: TransformedMessage._transform_det / factor ---------- *)
  (* AbstractDensityTransform.transform_det: (f(x), log f'(x)) of one transform *)
  Definition t_apply (t : transform T) (x : T) : T * T :=
    match t with
    | TShift s c => (odiv O (osub O x s) c, omul O (oopp O (olog O c)) (c1 O))
    | TLog => (olog O x, olog O (odiv O (c1 O) x))
    | TExp => (oexp O x, olog O (oexp O x))
    | TLog10 => (olog10 O x, olog O (odiv O (odiv O (c1 O) x) (olog O (c10 O))))
    | TPhi => let f := ondtri O x in (f, olog O (odiv O (c1 O) (onormpdf O f)))
    end.

  (* rs = reversed(self.transforms); the log-determinants are accumulated from 0 *)
  Fixpoint tdet (rs : list (transform T)) (x logd : T) : T * T :=
    match rs with
    | [] => (x, logd)
    | t :: r => let yl := t_apply t x in tdet r (fst yl) (oadd O logd (snd yl))
    end.
  Definition transform_det (stack : list (transform T)) (x : T) : T * T := tdet (rev stack) x (c0 O).
  (* factor(x) = base_message.logpdf(T x) + logd *)
  Definition factor (base_logpdf : T -> T) (stack : list (transform T)) (x : T) : T :=
    let yl := transform_det stack x in oadd O (base_logpdf (fst yl)) (snd yl).

  (* ---------- projection (moment matching) ---------- *)
  Definition seqsum (l : list T) : T := fold_left (oadd O) l (c0 O).
  Definition mean (l : list T) : T := odiv O (seqsum l) (oofnat O (length l)).

  (* to_canonical_form on the sample array *)
  Definition canon (f : family) (xs : list T) : list (list T) :=
    match f with
    | FNormal | FNatural => [xs; map (fun x => omul O x x) xs]
    | FGamma => [map (olog O) xs; xs]
    | FBeta => [map (olog O) xs; map (fun x => olog1p O (oopp O x)) xs]
    | FFixed => [xs]
    end.

  (* invert_sufficient_statistics (to natural parameters) *)
  Definition from_suff (f : family) (s : list T) : list T :=
    match f, s with
    | FNormal, [m1; m2] => to_nat FNormal [m1; osqrt O (osub O m2 (osq O m1))]
    | FNatural, [m1; m2] =>
        let prec := odiv O (c1 O) (osub O m2 (osq O m1)) in
        [omul O m1 prec; odiv O (oopp O prec) (c2 O)]
    | FGamma, [lx; x] =>
        let alpha := oinvpsilog O (osub O lx (olog O x)) in
        to_nat FGamma [alpha; odiv O alpha x]
    | FBeta, [lx; l1x] => let ab := oinvbeta O lx l1x in to_nat FBeta [fst ab; snd ab]
    | FFixed, _ => s
    | _, _ => []
    end.

  (* w /= w.mean(0): weights rescaled to mean one *)
  Definition norm_weights (w : list T) : list T * T :=
    let norm := mean w in (map (fun x => odiv O x norm) w, norm).

  (* (t * w).mean(): one sufficient statistic *)
  Definition wstat (t w' : list T) : T := mean (map2 (omul O) t w').

  (* weights of AbstractMessage.project for one array element *)
  Definition proj_weights (lws : list T) : list T * T * T :=
    let wmax := fold_left (omax O) (tl lws) (hd (c0 O) lws) in
    let w := map (fun l => oexp O (osub O l wmax)) lws in
    let '(w', norm) := norm_weights w in
    (w', norm, wmax).

  Definition suff_stats (f : family) (xs lws : list T) : list T :=
    let w' := fst (fst (proj_weights lws)) in
    map (fun t => wstat t w') (canon f xs).

  (* one array element: (projected parameters, log_norm) *)
  Definition proj_col (f : family) (xs lws : list T) : list T * T :=
    let '(_, norm, wmax) := proj_weights lws in
    (of_nat f (from_suff f (suff_stats f xs lws)), oadd O (olog O norm) wmax).

End Generic.

Arguments mkmsg {T}. Arguments fam {T}. Arguments scalar {T}. Arguments elems {T}.
Arguments lognorm {T}. Arguments mid {T}. Arguments lo {T}. Arguments hi {T}.
Arguments MB {T}. Arguments MT {T}.
Arguments EVar {T}. Arguments EMul {T}. Arguments EDiv {T}. Arguments EPow {T}.
Arguments ESMul {T}. Arguments ESDiv {T}. Arguments ESum3 {T}. Arguments EZeros {T}.
Arguments EFromNat {T}.

(* ---------- binary64 instance with oracle tables ---------- *)
Definition tab1 := list (float * float).
Fixpoint look1 (t : tab1) (x : float) : float :=
  match t with
  | [] => nan
  | (k, v) :: r => if fbits_eqb k x then v else look1 r x
  end.
Fixpoint look2 (t : list (float * float * (float * float))) (x y : float) : float * float :=
  match t with
  | [] => (nan, nan)
  | (k1, k2, v) :: r => if fbits_eqb k1 x && fbits_eqb k2 y then v else look2 r x y
  end.

Record tabs := mktabs {
  t_sq : tab1; t_log : tab1; t_exp : tab1; t_log1p : tab1; t_ipl : tab1;
  t_ib : list (float * float * (float * float));
  t_log10 : tab1; t_ndtri : tab1; t_normpdf : tab1;
  t_gammaln : tab1; t_betaln : list (float * float * float) }.

Fixpoint look3 (t : list (float * float * float)) (x y : float) : float :=
  match t with
  | [] => nan
  | (k1, k2, v) :: r => if fbits_eqb k1 x && fbits_eqb k2 y then v else look3 r x y
  end.

Definition max_float : float := 0x1.fffffffffffffp+1023%float.
Definition f_nan_to_num (x : float) : float :=
  match Prim2SF x with
  | S754_nan => neg_infinity
  | S754_infinity s => if s then PrimFloat.opp max_float else max_float
  | _ => x
  end.

Definition nat2f (n : nat) : float := Z2F (Z.of_nat n).

(* `x ** 2`: C pow() for Python / numpy scalars (oracle table: pow is not correctly
   rounded), np.square = x * x for arrays *)
Definition fops (is_scalar : bool) (tb : tabs) : ops float :=
  mkops float PrimFloat.add PrimFloat.sub PrimFloat.mul PrimFloat.div PrimFloat.opp PrimFloat.sqrt
        (fun x => if is_scalar then look1 (t_sq tb) x else PrimFloat.mul x x)
        0%float 1%float 2%float 0.5%float
        (look1 (t_log tb)) (look1 (t_exp tb)) (look1 (t_log1p tb))
        (fun a b => if PrimFloat.ltb a b then b else a)
        nat2f (look1 (t_ipl tb)) (look2 (t_ib tb))
        10%float (look1 (t_log10 tb)) (look1 (t_ndtri tb)) (look1 (t_normpdf tb))
        4%float (-0x1.d67f1c864beb4p-1)%float (look1 (t_gammaln tb)) (look3 (t_betaln tb)) f_nan_to_num.

(* ---------- observables and comparison ---------- *)
Fixpoint list_eqb {A} (eqb : A -> A -> bool) (a b : list A) : bool :=
  match a, b with
  | [], [] => true
  | x :: a', y :: b' => eqb x y && list_eqb eqb a' b'
  | _, _ => false
  end.
Definition opt_eqb {A} (eqb : A -> A -> bool) (a b : option A) : bool :=
  match a, b with Some x, Some y => eqb x y | None, None => true | _, _ => false end.

Definition transform_eqb (a b : transform float) : bool :=
  match a, b with
  | TPhi, TPhi | TLog, TLog | TLog10, TLog10 | TExp, TExp => true
  | TShift s c, TShift s' c' => fbits_eqb s s' && fbits_eqb c c'
  | _, _ => false
  end.

Definition msg_eqb (a b : msg (T := float)) : bool :=
  family_eqb (fam a) (fam b) && Bool.eqb (scalar a) (scalar b)
  && list_eqb flist_eqb (elems a) (elems b) && fbits_eqb (lognorm a) (lognorm b)
  && Z.eqb (mid a) (mid b) && fbits_eqb (lo a) (lo b) && fbits_eqb (hi a) (hi b).

Definition mval_eqb (a b : mval (T := float)) : bool :=
  match a, b with
  | MB x, MB y => msg_eqb x y
  | MT s i l h x, MT s' i' l' h' y =>
      list_eqb transform_eqb s s' && opt_eqb Z.eqb i i' && fbits_eqb l l' && fbits_eqb h h' && msg_eqb x y
  | _, _ => false
  end.

(* projection of a whole message: one (samples, log-weights) column per array element *)
Definition proj_msg (tb : tabs) (f : family) (is_scalar : bool) (cols : list (list float * list float))
  : list (list float) * list float :=
  let r := map (fun c => proj_col (fops is_scalar tb) f (fst c) (snd c)) cols in
  (map fst r, map snd r).

(* TransformedMessage.project: the samples handed to base_message.project (raw today; self._transform(samples)
   with the proposed repair) *)
Definition tproj_cols (O : ops float) (V : variant) (stack : list (transform float))
           (cols : list (list float * list float)) : list (list float * list float) :=
  if tproject_transforms V
  then map (fun c => (map (fun x => fst (transform_det O stack x)) (fst c), snd c)) cols
  else cols.

(* `assert np.isfinite(suff_stats).all()` of AbstractMessage.project *)
Definition proj_finite (tb : tabs) (f : family) (is_scalar : bool) (cols : list (list float * list float)) : bool :=
  forallb (fun c => forallb ffinite (suff_stats (fops is_scalar tb) f (fst c) (snd c))) cols.

Inductive case :=
(* an abstract program over an environment of messages, and the message the code returned
   (None = the code raised) *)
| CAlg (tb : tabs) (is_scalar : bool) (env : list (mval (T := float))) (e : expr (T := float))
       (observed : option (mval (T := float)))
(* cls.project(samples, log_weights, id_, lower_limit, upper_limit) on a base family *)
| CProj (tb : tabs) (f : family) (is_scalar : bool) (cols : list (list float * list float))
        (id_ : Z) (l h : float)
        (obs_elems : list (list float)) (obs_lognorm : list float) (obs_id : Z) (obs_l obs_h : float)
(* cls.project raised *)
| CProjExc (f : family)
(* TransformedMessage.project raised: the base is projected on the RAW samples, which raises exactly when a
   sufficient statistic of the raw samples is not finite (e.g. log of a sample outside the base support) *)
| CTProjExc (tb : tabs) (f : family) (is_scalar : bool) (stack : list (transform float))
            (cols : list (list float * list float))
(* m.logpdf(x) of a base message: rows of x (one value per array element) and the observed log-densities *)
| CLogpdf (tb : tabs) (f : family) (is_scalar x_scalar : bool) (elems_ : list (list float))
          (xs obs : list (list float))
(* history on an array message: the queries (parameters, natural parameters, mean, variance) observed
   on the initial message and after every in-place `m[i] = value` *)
| CHist (f : family) (elems0 : list (list float)) (steps : list (list nat * list float))
        (obs : list (list (list float) * list (list float) * list (float * float)))
(* m._transform_det(x) = (y, logd) and m.factor(x), given base_message.logpdf(y) as an oracle value *)
| CDet (tb : tabs) (stack : list (transform float)) (x : float) (base_lp : float)
       (obs_y obs_logd obs_factor : float)
(* TransformedMessage.project: the base is projected on the samples AS GIVEN, the result is
   re-wrapped with the same transforms and id; kwargs and limits are dropped *)
| CTProj (tb : tabs) (f : family) (is_scalar : bool) (cols : list (list float * list float))
         (stack : list (transform float)) (tid : option Z) (kw_l kw_h : float)
         (obs_stack : list (transform float)) (obs_tid : option Z) (obs_tl obs_th : float)
         (obs_elems : list (list float)) (obs_lognorm : list float) (obs_id : Z) (obs_l obs_h : float)
(* NormalMessage.value_for (the quantile function) of a scalar or array message: rows of unit values (one per element)
   and, for EVERY ROUTE by which the units were handed over (python float, np.float64, 0-d, 1-element, k-element,
   (k,1), (k,n) arrays, one row per call, again after the array calls), the observed quantiles; erfinv is an oracle
   table keyed by the argument the model computes *)
| CQuant (erfinv_tab : tab1) (elems_ : list (list float)) (us : list (list float)) (obs : list (list (list float))).

Definition fpair_eqb (a b : float * float) : bool := fbits_eqb (fst a) (fst b) && fbits_eqb (snd a) (snd b).

(* model queries of one state; moments are compared only where the model defines them *)
Definition hist_query_ok (O : ops float) (m : msg (T := float))
           (o : list (list float) * list (list float) * list (float * float)) : bool :=
  let '(oe, on, om) := o in
  list_eqb flist_eqb (elems m) oe && list_eqb flist_eqb (nat_of O m) on
  && forallb (fun x => x)
       (map2 (fun p ob => match q_moments O (fam m) p with Some mv => fpair_eqb mv ob | None => true end) (elems m) om)
  && Nat.eqb (length om) (length (elems m)).

(* an int index, a slice or an index array: the same scalar value is written to every selected entry *)
Definition setitem_many {T} (m : msg (T := T)) (idx : list nat) (p : list T) : msg :=
  fold_left (fun a i => setitem a i p) idx m.

Fixpoint hist_ok (O : ops float) (m : msg (T := float)) (steps : list (list nat * list float))
         (obs : list (list (list float) * list (list float) * list (float * float))) : bool :=
  match obs with
  | [] => match steps with [] => true | _ => false end
  | o :: obs' =>
      hist_query_ok O m o &&
      match steps with
      | [] => match obs' with [] => true | _ => false end
      | (i, p) :: steps' => hist_ok O (setitem_many m i p) steps' obs'
      end
  end.

Definition no_tabs : tabs := mktabs [] [] [] [] [] [] [] [] [] [] [].

(* `self.mean + (self.sigma * np.sqrt(2) * inv)`, inv = erfinv(1 - 2.0 * (1.0 - unit)) in BOTH branches of the code *)
Definition sqrt2f : float := 0x1.6a09e667f3bcdp+0%float.
Definition quant_arg (u : float) : float := PrimFloat.sub 1%float (PrimFloat.mul 2%float (PrimFloat.sub 1%float u)).
Definition value_for_f (tb : tab1) (p : list float) (u : float) : float :=
  match p with
  | [mu; sg] => PrimFloat.add mu (PrimFloat.mul (PrimFloat.mul sg sqrt2f) (look1 tb (quant_arg u)))
  | _ => nan
  end.

Definition check_case (c : case) : bool :=
  match c with
  | CQuant tb es us obs =>
      let want := map (fun row => map2 (value_for_f tb) es row) us in
      forallb (fun o => list_eqb flist_eqb want o) obs && negb (Nat.eqb (length obs) 0)
      && forallb (fun row => Nat.eqb (length row) (length es)) us
  | CHist f e0 steps obs =>
      hist_ok (fops false no_tabs) (mkmsg f false e0 0%float 0%Z neg_infinity infinity) steps obs
  | CProjExc f => family_eqb f FBeta && negb (beta_project_ok cur)
  | CTProjExc tb f sc st cols => negb (proj_finite tb f sc (tproj_cols (fops sc tb) cur st cols))
  | CLogpdf tb f sc xsc es xs obs =>
      let O := fops sc tb in
      list_eqb flist_eqb (map (fun row => map2 (fun p x => natural_logpdf O f p x xsc) es row) xs) obs
      && forallb (fun row => Nat.eqb (length row) (length es)) xs
  | CDet tb st x lp oy ol ofac =>
      let O := fops true tb in
      let yl := transform_det O st x in
      fbits_eqb (fst yl) oy && fbits_eqb (snd yl) ol
      && fbits_eqb (factor O (fun _ => lp) st x) ofac
  | CAlg tb sc env e obs => opt_eqb mval_eqb (eval (fops sc tb) cur env e) obs
  | CProj tb f sc cols i l h oe oln oi ol oh =>
      let r := proj_msg tb f sc cols in
      proj_finite tb f sc cols &&
      (negb (family_eqb f FBeta) || beta_project_ok cur) &&
      list_eqb flist_eqb (fst r) oe && flist_eqb (snd r) oln
      && Z.eqb i oi && fbits_eqb l ol && fbits_eqb h oh
  | CTProj tb f sc cols0 st ti kl kh ost oti otl oth oe oln oi ol oh =>
      let cols := tproj_cols (fops sc tb) cur st cols0 in
      let r := proj_msg tb f sc cols in
      proj_finite tb f sc cols &&
      list_eqb flist_eqb (fst r) oe && flist_eqb (snd r) oln
      && list_eqb transform_eqb st ost && opt_eqb Z.eqb ti oti
      && fbits_eqb otl (if tproject_transforms cur then kl else neg_infinity)
      && fbits_eqb oth (if tproject_transforms cur then kh else infinity)
      && Z.eqb oi fresh_id && fbits_eqb ol neg_infinity && fbits_eqb oh infinity
  end.
