(* C17: non-vacuity examples for the theorems over the reals. *)
From Coq Require Import Reals Lra List.
From PAFCommon Require Import Lists.
From PAFC17 Require Import Model ProofsT ProofsR.
Import ListNotations.
Local Open Scope R_scope.

(* a log-uniform-like stack [shift; log] at x = 2 (applied in reverse: log first, then the shift) *)
Example good_stack_log_shift (nd np : R -> R) : good_stack nd np (rev [TShift 1 3; TLog]) 2.
Proof. cbn. repeat split; lra. Qed.

(* a uniform stack [phi; shift] under the assumption that ndtri has derivative 1/pdf at the point *)
Example good_stack_uniform (nd np : R -> R) :
  derivable_pt_lim nd ((2 - 1) / 2) (1 / np (nd ((2 - 1) / 2))) -> 0 < np (nd ((2 - 1) / 2)) ->
  good_stack nd np (rev [TPhi; TShift 1 2]) 2.
Proof. intros D P. cbn. repeat split; try lra; assumption. Qed.

(* a proper normal message and a valid moment pair *)
Example normal_valid_example : normal_valid (mkmsg FNormal true [[1; 1 / 2]] 0 7%Z PrimFloat.neg_infinity PrimFloat.infinity).
Proof. split; [reflexivity|]. repeat constructor. exists 1, (1 / 2). split; [reflexivity | lra]. Qed.

Example moment_hypothesis : 1 * 1 < 2.
Proof. lra. Qed.

(* hypotheses of C17_normal_project_end_to_end hold for two samples 0, 2 with log-weights 0, 0 *)
Example project_hypotheses :
  let W := seqsum Rops (expw [0; 0]) in
  (seqsum Rops (map2 Rmult [0; 2] (expw [0; 0])) / W) * (seqsum Rops (map2 Rmult [0; 2] (expw [0; 0])) / W)
  < seqsum Rops (map2 Rmult (map (fun x => x * x) [0; 2]) (expw [0; 0])) / W.
Proof. cbn. unfold seqsum. cbn. rewrite exp_0. lra. Qed.

(* ----- quantile / cdf inverse pair (Quantile.v): the hypotheses are satisfiable and the side conditions non-empty ----- *)
From PAFC17 Require Import Quantile.
(* erf := identity, erfinv := identity satisfy `erf (erfinv y) = y`: the Section hypothesis is consistent *)
Example erf_hypothesis_satisfiable : forall y : R, -1 < y < 1 -> (fun z : R => z) ((fun z : R => z) y) = y.
Proof. intros y _. reflexivity. Qed.
(* a uniform stack [phi; shift 1 2] and a log-uniform-like stack [shift 1 3; log10] admit every base quantile *)
Example inv_ok_uniform (erf : R -> R) (y : R) : inv_ok erf [TPhi; TShift 1 2] y.
Proof. cbn. repeat split; lra. Qed.
Example inv_ok_loguniform (erf : R -> R) (y : R) : inv_ok erf [TPhi; TShift 1 3; TLog10] y.
Proof. cbn. repeat split; lra. Qed.
(* u = 1/4: both sound argument expressions agree, the mirrored one does not *)
Example arg_code_quarter : arg_code (1 / 4) = 2 * (1 / 4) - 1 /\ arg_simplified (1 / 4) = 2 * (1 / 4) - 1 /\ arg_mirrored (1 / 4) <> 2 * (1 / 4) - 1.
Proof. unfold arg_code, arg_simplified, arg_mirrored. repeat split; lra. Qed.
