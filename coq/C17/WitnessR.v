(* C17: non-vacuity examples for the theorems over the reals. *)
From Coq Require Import Reals Lra List.
From PAFCommon Require Import Lists.
From PAFC17 Require Import Model ProofsT ProofsR.
Import ListNotations.
Local Open Scope R_scope.

(* a log-uniform-like stack [shift; log] at x = 2 (applied in reverse: log first, then the shift) *)
Example good_stack_log_shift (nd np : R -> R) : good_stack nd np (rev [TShift 1 3; TLog]) 2.
Proof. cbn. repeat split; lra. Qed.

(* a uniform stack [phi; shift] under the assumption that ndtri has derivative 1/pdf at the point *)
Example good_stack_uniform (nd np : R -> R) :
  derivable_pt_lim nd ((2 - 1) / 2) (1 / np (nd ((2 - 1) / 2))) -> 0 < np (nd ((2 - 1) / 2)) ->
  good_stack nd np (rev [TPhi; TShift 1 2]) 2.
Proof. intros D P. cbn. repeat split; try lra; assumption. Qed.

(* a proper normal message and a valid moment pair *)
Example normal_valid_example : normal_valid (mkmsg FNormal true [[1; 1 / 2]] 0 7%Z PrimFloat.neg_infinity PrimFloat.infinity).
Proof. split; [reflexivity|]. repeat constructor. exists 1, (1 / 2). split; [reflexivity | lra]. Qed.

Example moment_hypothesis : 1 * 1 < 2.
Proof. lra. Qed.

(* hypotheses of C17_normal_project_end_to_end hold for two samples 0, 2 with log-weights 0, 0 *)
Example project_hypotheses :
  let W := seqsum Rops (expw [0; 0]) in
  (seqsum Rops (map2 Rmult [0; 2] (expw [0; 0])) / W) * (seqsum Rops (map2 Rmult [0; 2] (expw [0; 0])) / W)
  < seqsum Rops (map2 Rmult (map (fun x => x * x) [0; 2]) (expw [0; 0])) / W.
Proof. cbn. unfold seqsum. cbn. rewrite exp_0. lra. Qed.
