(* C17 property theorems: statements only, each closed by `exact`. (stub, replaced below) *)
From Coq Require Import ZArith List.
From PAFC17 Require Import Model.
Theorem C17_stub : cur = mkvariant false false false.
Proof. exact eq_refl. Qed.
