(* C17 property theorems: statements only, each closed by `exact`. *)
From Coq Require Import QArith Reals.
From Coq Require Import ZArith List Bool.
From Coq Require Import Floats.PrimFloat.
From PAFCommon Require Import PyFloat Lists.
From PAFC17 Require Import Model Proofs ProofsT ProofsR Witness Quantile.
Import ListNotations.
Open Scope nat_scope.

(* ===== natural-parameter vectors of any dimension form a Q-module (exact arithmetic) ===== *)
Theorem C17_vec_sub_add : forall a b : list Q, length a = length b ->
  Forall2 Qeq (vsub Qops (vadd Qops a b) b) a.
Proof. exact vsub_vadd. Qed.

Theorem C17_vec_scale_add : forall (j k : Q) (a : list Q),
  Forall2 Qeq (vscale Qops (j + k)%Q a) (vadd Qops (vscale Qops j a) (vscale Qops k a)).
Proof. exact vscale_add. Qed.

Theorem C17_vec_scale_scale : forall (j k : Q) (a : list Q),
  Forall2 Qeq (vscale Qops k (vscale Qops j a)) (vscale Qops (j * k)%Q a).
Proof. exact vscale_mul. Qed.

(* ===== ordinary <-> natural parameters round-trip (natural-normal, gamma, beta) ===== *)
Theorem C17_roundtrip_ordinary : forall (f : family) (p : list Q), exact_family f -> length p = 2%nat ->
  Forall2 Qeq (of_nat Qops f (to_nat Qops f p)) p.
Proof. exact of_to_nat. Qed.

Theorem C17_roundtrip_natural : forall (f : family) (e : list Q), exact_family f -> length e = 2%nat ->
  Forall2 Qeq (to_nat Qops f (of_nat Qops f e)) e.
Proof. exact to_of_nat. Qed.

(* ===== *, /, ** act additively / linearly on natural parameters (any number of array elements) ===== *)
Theorem C17_mul_additive : forall a b : qmsg, exact_family (fam a) -> exact_family (fam b) -> wf a -> wf b ->
  Forall2 (Forall2 Qeq) (nat_of Qops (b_sum Qops pinned a [b])) (map2 (vadd Qops) (nat_of Qops a) (nat_of Qops b)).
Proof. exact sum_additive. Qed.

Theorem C17_div_subtractive : forall a b : qmsg, exact_family (fam a) -> exact_family (fam b) -> wf a -> wf b ->
  Forall2 (Forall2 Qeq) (nat_of Qops (b_div Qops a b)) (map2 (vsub Qops) (nat_of Qops a) (nat_of Qops b)).
Proof. exact div_subtractive. Qed.

Theorem C17_pow_linear : forall (a : qmsg) (k : Q), exact_family (fam a) -> wf a ->
  Forall2 (Forall2 Qeq) (nat_of Qops (b_pow Qops a k)) (map (vscale Qops k) (nat_of Qops a)).
Proof. exact pow_linear. Qed.

(* ===== self-consistency of the code as it is now (fix e239f62: products carry log_norm): the laws hold IN FULL --
   parameters, class, shape, id, limits AND log_norm ===== *)
Theorem C17_div_mul : forall a b : qmsg, exact_family (fam a) -> exact_family (fam b) -> wf a -> wf b -> same_shape a b ->
  msg_equiv (b_div Qops (b_sum Qops cur a [b]) b) a.
Proof. exact (div_mul_full cur eq_refl). Qed.

Theorem C17_mul_div : forall a b : qmsg, exact_family (fam a) -> exact_family (fam b) -> wf a -> wf b -> same_shape a b ->
  msg_equiv (b_sum Qops cur (b_div Qops a b) [b]) a.
Proof. exact (mul_div_full cur eq_refl). Qed.

Theorem C17_pow_add : forall (a : qmsg) (j k : Q), exact_family (fam a) -> wf a ->
  msg_equiv (b_sum Qops cur (b_pow Qops a j) [b_pow Qops a k]) (b_pow Qops a (j + k)%Q).
Proof. exact (pow_add_full cur eq_refl). Qed.

Theorem C17_mul_zeros : forall a : qmsg, exact_family (fam a) -> wf a -> msg_equiv (b_sum Qops cur a [b_zeros Qops a]) a.
Proof. exact (mul_zeros_full cur eq_refl). Qed.

(* the variants of the model differ only in log_norm: every natural-parameter theorem stated for `pinned` below
   (additivity, commutativity, associativity, sum3) is a statement about every variant, `cur` included *)
Theorem C17_sum_variant_indep : forall (V : variant) (a : qmsg) (l : list qmsg),
  meta_eq (b_sum Qops V a l) (b_sum Qops pinned a l) /\ elems (b_sum Qops V a l) = elems (b_sum Qops pinned a l)
  /\ nat_of Qops (b_sum Qops V a l) = nat_of Qops (b_sum Qops pinned a l).
Proof. exact sum_variant_indep. Qed.

Theorem C17_mul_additive_cur : forall a b : qmsg, exact_family (fam a) -> exact_family (fam b) -> wf a -> wf b ->
  Forall2 (Forall2 Qeq) (nat_of Qops (b_sum Qops cur a [b])) (map2 (vadd Qops) (nat_of Qops a) (nat_of Qops b)).
Proof. exact (sum_additive_any cur). Qed.

Theorem C17_mul_comm_nat_cur : forall a b : qmsg, exact_family (fam a) -> exact_family (fam b) -> wf a -> wf b ->
  Forall2 (Forall2 Qeq) (nat_of Qops (b_sum Qops cur a [b])) (nat_of Qops (b_sum Qops cur b [a])).
Proof. exact (mul_comm_nat_any cur). Qed.

(* history: before e239f62 the product dropped log_norm (model variant `pinned`): refutation witnesses and the exact
   description of what the old code returned *)
(* ===== self-consistency. Full statement "(a*b)/b equals a" (parameters, class, shape, id, limits AND
   log_norm): refuted for the pinned code, holds exactly when log_norm a + log_norm b = 0 ===== *)
Theorem C17_div_mul_legacy_refuted : exists a b : qmsg,
  exact_family (fam a) /\ exact_family (fam b) /\ wf a /\ wf b /\ same_shape a b /\
  ~ msg_equiv (b_div Qops (b_sum Qops pinned a [b]) b) a.
Proof. exact div_mul_refuted. Qed.

Theorem C17_div_mul_legacy_partial : forall a b : qmsg, exact_family (fam a) -> exact_family (fam b) -> wf a -> wf b ->
  same_shape a b ->
  msg_equiv_upto_lognorm (b_div Qops (b_sum Qops pinned a [b]) b) a
  /\ (lognorm (b_div Qops (b_sum Qops pinned a [b]) b) == - lognorm b)%Q.
Proof. exact div_mul_partial. Qed.

Theorem C17_div_mul_legacy_full_iff : forall a b : qmsg, exact_family (fam a) -> exact_family (fam b) -> wf a -> wf b ->
  same_shape a b -> (msg_equiv (b_div Qops (b_sum Qops pinned a [b]) b) a <-> (lognorm a + lognorm b == 0)%Q).
Proof. exact div_mul_full_iff. Qed.

Theorem C17_mul_div_legacy_partial : forall a b : qmsg, exact_family (fam a) -> exact_family (fam b) -> wf a -> wf b ->
  same_shape a b ->
  msg_equiv_upto_lognorm (b_sum Qops pinned (b_div Qops a b) [b]) a /\ (lognorm (b_sum Qops pinned (b_div Qops a b) [b]) == 0)%Q.
Proof. exact mul_div_partial. Qed.

(* a**j * a**k vs a**(j+k): same defect *)
Theorem C17_pow_add_legacy_refuted : exists (a : qmsg) (j k : Q), exact_family (fam a) /\ wf a /\
  ~ msg_equiv (b_sum Qops pinned (b_pow Qops a j) [b_pow Qops a k]) (b_pow Qops a (j + k)%Q).
Proof. exact pow_add_refuted. Qed.

Theorem C17_pow_add_legacy_partial : forall (a : qmsg) (j k : Q), exact_family (fam a) -> wf a ->
  msg_equiv_upto_lognorm (b_sum Qops pinned (b_pow Qops a j) [b_pow Qops a k]) (b_pow Qops a (j + k)%Q)
  /\ (lognorm (b_sum Qops pinned (b_pow Qops a j) [b_pow Qops a k]) == 0)%Q
  /\ (lognorm (b_pow Qops a (j + k)%Q) == (j + k) * lognorm a)%Q.
Proof. exact pow_add_partial. Qed.

(* PROPOSED repair (proposed_fixes/C17-product-keeps-lognorm, not applied: the current code is the `_partial` /
   `_refuted` statements above): once the product carries log_norm the self-consistency laws hold IN FULL *)
Theorem C17_div_mul_full_repaired : forall (V : variant), product_keeps_lognorm V = true ->
  forall a b : qmsg, exact_family (fam a) -> exact_family (fam b) -> wf a -> wf b -> same_shape a b ->
  msg_equiv (b_div Qops (b_sum Qops V a [b]) b) a.
Proof. exact div_mul_full. Qed.

Theorem C17_mul_div_full_repaired : forall (V : variant), product_keeps_lognorm V = true ->
  forall a b : qmsg, exact_family (fam a) -> exact_family (fam b) -> wf a -> wf b -> same_shape a b ->
  msg_equiv (b_sum Qops V (b_div Qops a b) [b]) a.
Proof. exact mul_div_full. Qed.

Theorem C17_pow_add_full_repaired : forall (V : variant), product_keeps_lognorm V = true ->
  forall (a : qmsg) (j k : Q), exact_family (fam a) -> wf a ->
  msg_equiv (b_sum Qops V (b_pow Qops a j) [b_pow Qops a k]) (b_pow Qops a (j + k)%Q).
Proof. exact pow_add_full. Qed.

Theorem C17_mul_zeros_full_repaired : forall (V : variant), product_keeps_lognorm V = true ->
  forall a : qmsg, exact_family (fam a) -> wf a -> msg_equiv (b_sum Qops V a [b_zeros Qops a]) a.
Proof. exact mul_zeros_full. Qed.

(* powers of powers and the first power: full statements, log_norm included *)
Theorem C17_pow_mul : forall (a : qmsg) (j k : Q), exact_family (fam a) -> wf a ->
  msg_equiv (b_pow Qops (b_pow Qops a j) k) (b_pow Qops a (j * k)%Q).
Proof. exact pow_mul. Qed.

Theorem C17_pow_one : forall a : qmsg, exact_family (fam a) -> wf a -> msg_equiv (b_pow Qops a 1%Q) a.
Proof. exact pow_one. Qed.

(* zeros_like: all natural parameters zero; unit of the product (up to the log_norm defect) *)
Theorem C17_zeros_nat : forall a : qmsg, exact_family (fam a) -> wf a ->
  Forall2 (Forall2 Qeq) (nat_of Qops (b_zeros Qops a)) (map (map (fun _ => 0%Q)) (nat_of Qops a)).
Proof. exact zeros_nat. Qed.

Theorem C17_mul_zeros_legacy_partial : forall a : qmsg, exact_family (fam a) -> wf a ->
  msg_equiv_upto_lognorm (b_sum Qops pinned a [b_zeros Qops a]) a.
Proof. exact mul_zeros_partial. Qed.

Theorem C17_mul_zeros_legacy_refuted : exists a : qmsg, exact_family (fam a) /\ wf a /\
  ~ msg_equiv (b_sum Qops pinned a [b_zeros Qops a]) a.
Proof. exact mul_zeros_refuted. Qed.

(* commutative / associative on natural parameters; sum_natural_parameters(b, c) = two products *)
Theorem C17_mul_comm_nat : forall a b : qmsg, exact_family (fam a) -> exact_family (fam b) -> wf a -> wf b ->
  Forall2 (Forall2 Qeq) (nat_of Qops (b_sum Qops pinned a [b])) (nat_of Qops (b_sum Qops pinned b [a])).
Proof. exact mul_comm_nat. Qed.

Theorem C17_mul_assoc_nat : forall a b c : qmsg,
  exact_family (fam a) -> exact_family (fam b) -> exact_family (fam c) -> wf a -> wf b -> wf c ->
  Forall2 (Forall2 Qeq) (nat_of Qops (b_sum Qops pinned (b_sum Qops pinned a [b]) [c])) (nat_of Qops (b_sum Qops pinned a [b_sum Qops pinned b [c]])).
Proof. exact mul_assoc_nat. Qed.

Theorem C17_sum3 : forall a b c : qmsg,
  exact_family (fam a) -> exact_family (fam b) -> exact_family (fam c) -> wf a -> wf b -> wf c ->
  msg_equiv (b_sum Qops pinned a [b; c]) (b_sum Qops pinned (b_sum Qops pinned a [b]) [c]).
Proof. exact sum3_is_two_products. Qed.

(* fixed messages: arithmetic is the identity, every law holds with plain equality (any number type) *)
Theorem C17_fixed_laws : forall (T : Type) (O : ops T) (V : variant) (a b : msg (T := T)) (j k : T), fam a = FFixed ->
  b_div O (b_sum O V a [b]) b = a /\ b_sum O V (b_div O a b) [b] = a
  /\ b_sum O V (b_pow O a j) [b_pow O a k] = b_pow O a (oadd O j k) /\ b_sum O V a [b_zeros O a] = a.
Proof. exact @fixed_laws. Qed.

(* the model variant `cur` the correspondence check compares with the code: the four repairs applied to /repo
   are in, the two still proposed (product log_norm, transformed project) are off *)
Theorem C17_code_variant : cur = repaired /\
  keep_limits cur = true /\ tzeros_via_base cur = true /\ beta_project_ok cur = true /\ fixed_truediv_noop cur = true
  /\ product_keeps_lognorm cur = true /\ tproject_transforms cur = true.
Proof. exact (conj eq_refl (conj eq_refl (conj eq_refl (conj eq_refl (conj eq_refl (conj eq_refl eq_refl)))))). Qed.

(* division by a real number is the identity as well (fix 7b98f8b: __truediv__ = _no_op) *)
Theorem C17_fixed_sdiv : forall (T : Type) (O : ops T) (a : msg (T := T)) (c : T),
  fam a = FFixed -> b_sdiv O cur a c = a /\ b_sdiv O cur (b_smul O a c) c = a.
Proof. exact (fun T O a c H => @fixed_sdiv T O cur a c H eq_refl). Qed.

(* history: before that fix only the py2 name __div__ was a no-op and (f * c) / c was not f *)
Theorem C17_fixed_sdiv_legacy_refuted : exists (a : qmsg) (c : Q), fam a = FFixed /\
  b_sdiv Qops pinned (b_smul Qops a c) c <> a /\ b_sdiv Qops applied3 (b_smul Qops a c) c <> a.
Proof. exact fixed_sdiv_refuted. Qed.

Theorem C17_fixed_sdiv_repaired : forall (T : Type) (O : ops T) (V : variant) (a : msg (T := T)) (c : T),
  fam a = FFixed -> fixed_truediv_noop V = true -> b_sdiv O V a c = a /\ b_sdiv O V (b_smul O a c) c = a.
Proof. exact @fixed_sdiv. Qed.

(* ===== whole expression trees: what arithmetic can never change ===== *)
Theorem C17_wrapper_preserved : forall (T : Type) (O : ops T) (V : variant) (env : list (mval (T := T))) (e : expr (T := T)) v,
  eval O V env e = Some v ->
  exists v0, nth_error env (leftvar e) = Some v0 /\ wrapper_of v = wrapper_of v0.
Proof. exact @wrapper_preserved. Qed.

Theorem C17_base_meta_preserved : forall (T : Type) (O : ops T) (V : variant) (env : list (mval (T := T))) (e : expr (T := T)),
  Forall is_base env -> forall v, eval O V env e = Some v ->
  exists m0 m, nth_error env (leftvar e) = Some (MB m0) /\ v = MB m /\ bmeta m = bmeta m0.
Proof. exact @base_meta_preserved. Qed.

(* m[i] = value: pointwise replacement of the parameters; every query is a function of the current
   parameters (no stale state exists in the model -- the history correspondence ties this to the code) *)
Theorem C17_setitem_pointwise : forall (T : Type) (O : ops T) (a : msg (T := T)) (i : nat) (p : list T),
  i < length (elems a) ->
  nth_error (elems (setitem a i p)) i = Some p
  /\ (forall j, j <> i -> nth_error (elems (setitem a i p)) j = nth_error (elems a) j)
  /\ nth_error (nat_of O (setitem a i p)) i = Some (to_nat O (fam a) p)
  /\ (forall j, j <> i -> nth_error (nat_of O (setitem a i p)) j = nth_error (nat_of O a) j)
  /\ length (elems (setitem a i p)) = length (elems a)
  /\ bmeta (setitem a i p) = bmeta a /\ fam (setitem a i p) = fam a /\ lognorm (setitem a i p) = lognorm a.
Proof. exact @setitem_pointwise. Qed.

(* limits of a transformed message survive every expression (fix f7f8cba) *)
Theorem C17_transformed_limits : forall (T : Type) (O : ops T) (env : list (mval (T := T))) (e : expr (T := T)) v,
  eval O cur env e = Some v ->
  exists v0, nth_error env (leftvar e) = Some v0 /\ tlimits v = tlimits v0.
Proof. exact (fun T O env e => @limits_preserved T O cur env e eq_refl). Qed.

(* zeros_like of a transformed message is the zeros_like of its base under the same wrapper (fix 6f95d0b);
   with C17_zeros_nat / C17_normal_zeros its natural parameters are zero and it is the unit of the product *)
Theorem C17_transformed_zeros : forall (T : Type) (O : ops T) s i l h (a : msg (T := T)),
  eval O cur [MT s i l h a] (EZeros (EVar 0)) = Some (MT s i l h (b_zeros O a)).
Proof. exact (fun T O s i l h a => @transformed_zeros T O cur s i l h a eq_refl eq_refl). Qed.

(* history: the pinned code lost the limits (witness + exact description), any variant keeping them is fine *)
Theorem C17_transformed_limits_legacy_refuted : exists (env : list (mval (T := Q))) (e : expr (T := Q)) v v0,
  eval Qops pinned env e = Some v /\ nth_error env (leftvar e) = Some v0 /\ tlimits v <> tlimits v0.
Proof. exact transformed_limits_refuted. Qed.

Theorem C17_transformed_limits_legacy : forall (T : Type) (O : ops T) (V : variant) (env : list (mval (T := T))) (e : expr (T := T)),
  keep_limits V = false -> is_var e = false ->
  forall s i l h m, eval O V env e = Some (MT s i l h m) -> (l, h) = (neg_infinity, infinity).
Proof. exact @limits_dropped. Qed.

Theorem C17_transformed_limits_repaired : forall (T : Type) (O : ops T) (V : variant) (env : list (mval (T := T))) (e : expr (T := T)),
  keep_limits V = true -> forall v, eval O V env e = Some v ->
  exists v0, nth_error env (leftvar e) = Some v0 /\ tlimits v = tlimits v0.
Proof. exact @limits_preserved. Qed.

Theorem C17_transformed_div_mul : forall (T : Type) (O : ops T) (V : variant) s i l h (a : msg (T := T)) s' i' l' h' (b : msg (T := T)),
  eval O V [MT s i l h a; MT s' i' l' h' b] (EDiv (EMul (EVar 0) (EVar 1)) (EVar 1))
  = Some (rewrap V s i l h (b_div O (b_sum O V a [b]) b)).
Proof. exact @transformed_div_mul. Qed.

(* zeros_like of a transformed normal: natural parameters are nan in the pinned code (binary64 witness) *)
Theorem C17_transformed_zeros_legacy_refuted : all_zero (eval (fops true tb0) pinned [un1] (EZeros (EVar 0))) = false.
Proof. exact transformed_zeros_refuted. Qed.

Theorem C17_transformed_zeros_repaired : all_zero (eval (fops true tb0) repaired [un1] (EZeros (EVar 0))) = true.
Proof. exact transformed_zeros_repaired. Qed.

(* ===== normal family over the reals ===== *)
Theorem C17_normal_roundtrip : forall p : list R, pvalid p -> of_nat Rops FNormal (to_nat Rops FNormal p) = p.
Proof. exact normal_of_to. Qed.

Theorem C17_normal_roundtrip_natural : forall e : list R, neg2 e -> to_nat Rops FNormal (of_nat Rops FNormal e) = e.
Proof. exact normal_to_of. Qed.

Theorem C17_normal_mul_additive : forall a b : rmsg, normal_valid a -> nvalid b ->
  nat_of Rops (b_sum Rops pinned a [b]) = map2 (vadd Rops) (nat_of Rops a) (nat_of Rops b) /\ normal_valid (b_sum Rops pinned a [b]).
Proof. exact normal_sum_additive. Qed.

Theorem C17_normal_div_mul : forall a b : rmsg, normal_valid a -> nvalid b -> length (elems a) = length (elems b) ->
  elems (b_div Rops (b_sum Rops pinned a [b]) b) = elems a.
Proof. exact normal_div_mul_elems. Qed.

(* partial: positive exponents only -- NormalMessage is not closed under non-positive powers *)
Theorem C17_normal_pow_partial : forall (a : rmsg) (k : R), normal_valid a -> (0 < k)%R ->
  nat_of Rops (b_pow Rops a k) = map (vscale Rops k) (nat_of Rops a) /\ normal_valid (b_pow Rops a k).
Proof. exact normal_pow_linear. Qed.

Theorem C17_normal_pow_add_partial : forall (a : rmsg) (j k : R), normal_valid a -> (0 < j)%R -> (0 < k)%R ->
  elems (b_sum Rops pinned (b_pow Rops a j) [b_pow Rops a k]) = elems (b_pow Rops a (j + k)%R).
Proof. exact normal_pow_add_elems. Qed.

Theorem C17_normal_pow_mul_partial : forall (a : rmsg) (j k : R), normal_valid a -> (0 < j)%R ->
  elems (b_pow Rops (b_pow Rops a j) k) = elems (b_pow Rops a (j * k)%R).
Proof. exact normal_pow_mul_elems. Qed.

Theorem C17_normal_negative_power_refuted :
  opt_eqb mval_eqb (eval (fops true tb0) pinned [MB n1] (EPow (EPow (EVar 0) (-1)%float) (-1)%float)) (Some (MB n1)) = false.
Proof. exact normal_negative_power_refuted. Qed.

(* (a*b)/b = a in full for NormalMessage in the code as it is now *)
Theorem C17_normal_div_mul_msg : forall a b : rmsg, normal_valid a -> nvalid b -> length (elems a) = length (elems b) ->
  let r := b_div Rops (b_sum Rops cur a [b]) b in
  fam r = FNormal /\ bmeta r = bmeta a /\ elems r = elems a /\ lognorm r = lognorm a.
Proof. exact (fun a b => normal_div_mul_full cur a b eq_refl). Qed.

(* history (variant `pinned`): whole-message statements for NormalMessage: class, id, limits, shape, parameters and the (defective) log_norm *)
Theorem C17_normal_div_mul_msg_legacy_partial : forall a b : rmsg, normal_valid a -> nvalid b -> length (elems a) = length (elems b) ->
  let r := b_div Rops (b_sum Rops pinned a [b]) b in
  fam r = FNormal /\ bmeta r = bmeta a /\ elems r = elems a /\ lognorm r = (- lognorm b)%R.
Proof. exact normal_div_mul_partial. Qed.

Theorem C17_normal_pow_add_msg_legacy_partial : forall (a : rmsg) (j k : R), normal_valid a -> (0 < j)%R -> (0 < k)%R ->
  let l := b_sum Rops pinned (b_pow Rops a j) [b_pow Rops a k] in
  let r := b_pow Rops a (j + k)%R in
  fam l = fam r /\ bmeta l = bmeta r /\ elems l = elems r /\ lognorm l = 0%R /\ lognorm r = ((j + k) * lognorm a)%R.
Proof. exact normal_pow_add_partial. Qed.

(* zeros_like of a NormalMessage: a NaturalNormal with zero natural parameters, unit of the product *)
Theorem C17_normal_zeros : forall a : rmsg, normal_valid a ->
  fam (b_zeros Rops a) = FNatural /\ bmeta (b_zeros Rops a) = bmeta a
  /\ nat_of Rops (b_zeros Rops a) = map (map (fun _ => 0%R)) (nat_of Rops a)
  /\ elems (b_sum Rops pinned a [b_zeros Rops a]) = elems a /\ bmeta (b_sum Rops pinned a [b_zeros Rops a]) = bmeta a.
Proof. exact normal_zeros. Qed.

(* ===== projection: weighted moment matching ===== *)
(* AbstractMessage.project for one element of a normal message, end to end: statistics invariant under the
   stabilising shift by max(lw), member = weighted mean / second moment, log_norm = ln(mean weight) *)
Theorem C17_normal_project_end_to_end : forall xs lws : list R, length xs = length lws -> lws <> [] ->
  let W := seqsum Rops (expw lws) in
  let m1 := (seqsum Rops (map2 Rmult xs (expw lws)) / W)%R in
  let m2 := (seqsum Rops (map2 Rmult (map (fun x => x * x)%R xs) (expw lws)) / W)%R in
  (m1 * m1 < m2)%R ->
  exists sg, proj_col Rops FNormal xs lws = ([m1; sg], ln (W / INR (length lws)))
             /\ (0 < sg)%R /\ (sg * sg + m1 * m1 = m2)%R.
Proof. exact normal_proj_col. Qed.

(* PROPOSED repair (proposed_fixes/C17-transformed-project, not applied): TransformedMessage.project hands
   self._transform(samples) to the base projection, so C17_normal_project_end_to_end applies to the images of the
   samples in the base space; today (`cur`) the raw samples are used *)
Theorem C17_transformed_project_repaired : forall (O : ops float) (V : variant) (stack : list (transform float))
  (cols : list (list float * list float)), tproject_transforms V = true ->
  tproj_cols O V stack cols = map (fun c => (map (fun x => fst (transform_det O stack x)) (fst c), snd c)) cols.
Proof. exact tproj_cols_repaired. Qed.

(* the code as it is now (fix ffa313c) *)
Theorem C17_transformed_project : forall (O : ops float) (stack : list (transform float))
  (cols : list (list float * list float)),
  tproj_cols O cur stack cols = map (fun c => (map (fun x => fst (transform_det O stack x)) (fst c), snd c)) cols.
Proof. exact (fun O stack cols => tproj_cols_repaired O cur stack cols eq_refl). Qed.

(* history: before that fix the raw samples were projected *)
Theorem C17_transformed_project_legacy : forall (O : ops float) (V : variant) (stack : list (transform float))
  (cols : list (list float * list float)), tproject_transforms V = false -> tproj_cols O V stack cols = cols.
Proof. exact tproj_cols_legacy. Qed.

(* gamma moment matching, assuming invpsilog inverts psi(x) - ln x (checked numerically against a root finder) *)
Theorem C17_gamma_project : forall psi invpl : R -> R,
  (forall c, (c < 0)%R -> (psi (invpl c) - ln (invpl c) = c)%R /\ (0 < invpl c)%R) ->
  forall lx x : R, (0 < x)%R -> (lx < ln x)%R ->
  exists alpha beta, of_nat (RopsG invpl) FGamma (from_suff (RopsG invpl) FGamma [lx; x]) = [alpha; beta]
    /\ (0 < alpha)%R /\ (0 < beta)%R /\ (psi alpha - ln beta = lx)%R /\ (alpha / beta = x)%R.
Proof. exact gamma_moment_match. Qed.

Theorem C17_project_weighted_mean : forall t w : list Q, length t = length w -> w <> [] -> ~ (seqsum Qops w == 0)%Q ->
  (wstat Qops t (fst (norm_weights Qops w)) == seqsum Qops (map2 Qmult t w) / seqsum Qops w)%Q.
Proof. exact project_weighted_mean. Qed.

Theorem C17_project_weights_mean_one : forall w : list Q, w <> [] -> ~ (seqsum Qops w == 0)%Q ->
  (mean Qops (fst (norm_weights Qops w)) == 1)%Q.
Proof. exact norm_weights_mean_one. Qed.

Theorem C17_natural_project : forall m1 m2 : Q, ~ (m2 - m1 * m1 == 0)%Q ->
  match from_suff Qops FNatural [m1; m2] with
  | [e1; e2] => (- e1 / (2 * e2) == m1)%Q /\ (- (1 # 1) / (2 * e2) + m1 * m1 == m2)%Q
  | _ => False
  end.
Proof. exact natural_moment_match. Qed.

Theorem C17_normal_project : forall m1 m2 : R, (m1 * m1 < m2)%R ->
  exists sg, of_nat Rops FNormal (from_suff Rops FNormal [m1; m2]) = [m1; sg] /\ (0 < sg)%R /\ (sg * sg + m1 * m1 = m2)%R.
Proof. exact normal_moment_match. Qed.

(* ===== densities: exponential-family form, linear shift, Jacobian bookkeeping of a transform stack ===== *)
Theorem C17_normal_logpdf_closed : forall mu sg x : R, (0 < sg)%R ->
  normal_logpdf mu sg x = (- ln sg - (1 / 2) * ln (2 * PI) - (x - mu) * (x - mu) / (2 * (sg * sg)))%R.
Proof. exact normal_logpdf_closed. Qed.

Theorem C17_shift_density : forall mu sg s c x : R, (0 < sg)%R -> (0 < c)%R ->
  (normal_logpdf mu sg ((x - s) / c) + - ln c)%R = normal_logpdf (s + c * mu)%R (c * sg)%R x.
Proof. exact shift_factor_is_density. Qed.

(* abstract form: any stack of transforms that report the log of their derivative *)
Theorem C17_logdet_chain_rule : forall (p : R -> R) (rs : list rtrans) (x : R), good rs x ->
  exists D, derivable_pt_lim (fun z => fst (ProofsR.tdet rs z)) x D /\ (0 < D)%R /\
            tfactor p rs x = (p (fst (ProofsR.tdet rs x)) + ln D)%R.
Proof. exact tfactor_change_of_variables. Qed.

(* the model's own _transform_det / factor (the definitions compared bit-for-bit with the code),
   over the reals: factor(x) = p(T x) + ln T'(x) for shift / log / log10 / exp / phi stacks
   (for phi the derivative of ndtri is an assumption on the library function, inside good_stack) *)
Theorem C17_transform_density : forall (ndtri npdf : R -> R) (p : R -> R) (stack : list (transform R)) (x : R),
  good_stack ndtri npdf (rev stack) x ->
  exists D, derivable_pt_lim (fun z => fst (transform_det (RopsP ndtri npdf) stack z)) x D /\ (0 < D)%R /\
            Model.factor (RopsP ndtri npdf) p stack x = (p (fst (transform_det (RopsP ndtri npdf) stack x)) + ln D)%R.
Proof. exact model_factor_change_of_variables. Qed.

(* ===== the quantile function and the CDF are an inverse pair on every route (scalar branch / ndarray fallback branch of
   NormalMessage.value_for, vectorised and per-element calls, transformed messages); erf / erfinv / ndtri are library
   functions: Section hypotheses `erf (erfinv y) = y` on (-1, 1) and `ndtri (Phi y) = y` ===== *)
Theorem C17_cdf_value_for : forall (erf erfinv : R -> R), (forall y, (-1 < y < 1)%R -> erf (erfinv y) = y) ->
  forall mu sg u : R, (0 < sg)%R -> (0 < u < 1)%R -> ncdf erf mu sg (vfor erfinv arg_code mu sg u) = u.
Proof. exact cdf_value_for. Qed.

(* a branch inverts the cdf exactly when its erfinv argument is 2u - 1 *)
Theorem C17_quantile_branch_sound_iff : forall (erf erfinv : R -> R), (forall y, (-1 < y < 1)%R -> erf (erfinv y) = y) ->
  forall (arg : R -> R) (mu sg : R), (0 < sg)%R -> (forall u, (0 < u < 1)%R -> (-1 < arg u < 1)%R) ->
  ((forall u, (0 < u < 1)%R -> ncdf erf mu sg (vfor erfinv arg mu sg u) = u) <-> (forall u, (0 < u < 1)%R -> arg u = (2 * u - 1)%R)).
Proof. exact branch_sound_iff. Qed.

(* whatever representation of the unit value selects the branch, the answer is the same quantile *)
Theorem C17_quantile_route_independent : forall (erf erfinv : R -> R), (forall y, (-1 < y < 1)%R -> erf (erfinv y) = y) ->
  forall (a_s a_f : R -> R) (mu sg u : R) (fallback : bool), (0 < sg)%R -> (0 < u < 1)%R ->
  a_s u = (2 * u - 1)%R -> a_f u = (2 * u - 1)%R ->
  ncdf erf mu sg (vfor_route erfinv a_s a_f fallback mu sg u) = u /\
  vfor_route erfinv a_s a_f fallback mu sg u = vfor erfinv arg_code mu sg u.
Proof. exact every_route_inverts. Qed.

Theorem C17_quantile_vectorised : forall (erf erfinv : R -> R), (forall y, (-1 < y < 1)%R -> erf (erfinv y) = y) ->
  forall (mus sgs us : list R) (i : nat), (i < length mus)%nat -> length sgs = length mus -> length us = length mus ->
  (0 < nth i sgs 0)%R -> (0 < nth i us 0 < 1)%R ->
  ncdf erf (nth i mus 0%R) (nth i sgs 0%R) (nth i (vfor_vec erfinv arg_code mus sgs us) 0%R) = nth i us 0%R.
Proof. exact vec_route_inverts. Qed.

(* the mirrored fallback branch (seeded mutation C17r7): the full statement is refuted on the array route *)
Theorem C17_quantile_mirrored_fallback_refuted : forall (erf erfinv : R -> R), (forall y, (-1 < y < 1)%R -> erf (erfinv y) = y) ->
  exists u, (0 < u < 1)%R /\ ncdf erf 0 1 (vfor_route erfinv arg_simplified arg_mirrored true 0 1 u) <> u.
Proof. exact mirrored_route_refuted. Qed.

(* transformed messages: cdf(x) = base.cdf(T x), value_for(u) = T^-1(base.value_for(u)), T the model's _transform_det *)
Theorem C17_transformed_cdf_value_for : forall (erf erfinv : R -> R), (forall y, (-1 < y < 1)%R -> erf (erfinv y) = y) ->
  forall (ndtri npdf : R -> R), (forall y, ndtri (Phi erf y) = y) ->
  forall (stack : list (transform R)) (mu sg u : R) (fallback : bool), (0 < sg)%R -> (0 < u < 1)%R ->
  inv_ok erf stack (vfor erfinv arg_code mu sg u) ->
  tcdf erf ndtri npdf stack mu sg (tinv erf stack (vfor_route erfinv arg_code arg_code fallback mu sg u)) = u.
Proof. exact transformed_cdf_value_for. Qed.

Print Assumptions C17_div_mul.
Print Assumptions C17_wrapper_preserved.
Print Assumptions C17_transformed_zeros_legacy_refuted.
Print Assumptions C17_normal_div_mul.
Print Assumptions C17_transform_density.
Print Assumptions C17_transformed_cdf_value_for.
Print Assumptions C17_quantile_route_independent.
