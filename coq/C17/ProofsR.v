(* C17 lemmas over the reals: the normal family (mean, sigma) <-> natural parameters with sqrt,
   moment matching, and the change-of-variables bookkeeping of transformed messages. *)
From Coq Require Import ZArith List Bool Lia.
From Coq Require Import Floats.PrimFloat.
From PAFCommon Require Import PyFloat Lists.
From PAFC17 Require Import Model ProofsT.
From Coq Require Import Reals Lra.
Import ListNotations.
Local Open Scope R_scope.

(* the inverse normal cdf and the normal pdf used by phi_transform are parameters *)
Definition RopsP (ndtri npdf : R -> R) : ops R :=
  mkops R Rplus Rminus Rmult Rdiv Ropp sqrt (fun x => x * x) 0 1 2 (1 / 2)
        ln exp (fun x => ln (1 + x)) Rmax INR (fun x => x) (fun a b => (a, b))
        10 (fun x => ln x / ln 10) ndtri npdf
        4 (- (1 / 2) * ln (2 * PI)) (fun x => x) (fun a _ => a) (fun x => x).
Definition Rops : ops R := RopsP (fun x => x) (fun x => x).

Notation rmsg := (msg (T := R)).
Notation rto := (to_nat Rops).
Notation rof := (of_nat Rops).
Notation rnat := (nat_of Rops).

(* a valid (mean, sigma) pair / a natural-parameter pair of a proper normal *)
Definition pvalid (p : list R) : Prop := exists mu sg, p = [mu; sg] /\ 0 < sg.
Definition neg2 (e : list R) : Prop := exists e1 e2, e = [e1; e2] /\ e2 < 0.

Lemma normal_to_neg2 (p : list R) : pvalid p -> neg2 (rto FNormal p).
Proof.
  intros (mu & sg & -> & H). cbn. eexists _, _. split; [reflexivity|].
  assert (0 < sg * sg) by (apply Rmult_lt_0_compat; assumption).
  assert (0 < 1 / (sg * sg)) by (apply Rdiv_lt_0_compat; lra).
  lra.
Qed.

Lemma neg_half_div_pos (e2 : R) : e2 < 0 -> 0 < - (1 / 2) / e2.
Proof. intro H. replace (- (1 / 2) / e2) with ((1 / 2) / (- e2)) by (field; lra). apply Rdiv_lt_0_compat; lra. Qed.

Lemma normal_of_pvalid (e : list R) : neg2 e -> pvalid (rof FNormal e).
Proof.
  intros (e1 & e2 & -> & H). cbn. eexists _, _. split; [reflexivity|].
  apply sqrt_lt_R0. apply neg_half_div_pos. exact H.
Qed.

Lemma normal_of_to (p : list R) : pvalid p -> rof FNormal (rto FNormal p) = p.
Proof.
  intros (mu & sg & -> & H). cbn. f_equal; [|f_equal].
  - field. lra.
  - replace (- (1 / 2) / (- (1 / (sg * sg)) / 2)) with (sg * sg) by (field; lra).
    apply sqrt_square. lra.
Qed.

Lemma normal_to_of (e : list R) : neg2 e -> rto FNormal (rof FNormal e) = e.
Proof.
  intros (e1 & e2 & -> & H). cbn.
  assert (P : 0 <= - (1 / 2) / e2) by (left; apply neg_half_div_pos; exact H).
  rewrite (sqrt_sqrt _ P). f_equal; [|f_equal]; field; lra.
Qed.

Lemma neg2_vadd (u v : list R) : neg2 u -> neg2 v -> neg2 (vadd Rops u v).
Proof. intros (a & b & -> & H) (c & d & -> & H'). cbn. eexists _, _. split; [reflexivity | lra]. Qed.

Lemma neg2_vscale (k : R) (u : list R) : 0 < k -> neg2 u -> neg2 (vscale Rops k u).
Proof.
  intros K (a & b & -> & H). cbn. eexists _, _. split; [reflexivity|].
  replace (k * b) with (- (k * - b)) by ring. apply Ropp_lt_gt_0_contravar. apply Rmult_lt_0_compat; lra.
Qed.

Lemma vsub_vadd_R (u v : list R) : length u = length v -> vsub Rops (vadd Rops u v) v = u.
Proof.
  revert v. induction u as [|x u IH]; intros [|y v] H; cbn in *; try discriminate; [reflexivity|].
  f_equal; [ring | apply IH; congruence].
Qed.

Lemma vadd_vscale_R (j k : R) (u : list R) : vadd Rops (vscale Rops j u) (vscale Rops k u) = vscale Rops (j + k) u.
Proof. induction u as [|x u IH]; cbn; [reflexivity|]. f_equal; [ring | exact IH]. Qed.

Lemma vscale_vscale_R (j k : R) (u : list R) : vscale Rops k (vscale Rops j u) = vscale Rops (j * k) u.
Proof. induction u as [|x u IH]; cbn; [reflexivity|]. f_equal; [ring | exact IH]. Qed.

(* messages *)
Definition nvalid (m : rmsg) : Prop := Forall neg2 (rnat m).        (* proper natural parameters *)
Definition normal_valid (m : rmsg) : Prop := fam m = FNormal /\ Forall pvalid (elems m).

Lemma normal_valid_nvalid (m : rmsg) : normal_valid m -> nvalid m.
Proof.
  intros [F V]. unfold nvalid, nat_of. rewrite F. induction V; cbn [map]; constructor;
    [apply normal_to_neg2; assumption | assumption].
Qed.

Lemma rebuild_R (etas : list (list R)) : Forall neg2 etas ->
  map (rto FNormal) (map (rof FNormal) etas) = etas.
Proof. induction 1; cbn [map]; [reflexivity|]. f_equal; [apply normal_to_of; assumption | assumption]. Qed.

Lemma rebuild_pvalid (etas : list (list R)) : Forall neg2 etas -> Forall pvalid (map (rof FNormal) etas).
Proof. induction 1; cbn [map]; constructor; [apply normal_of_pvalid; assumption | assumption]. Qed.

Lemma elems_back_R (ps : list (list R)) : Forall pvalid ps -> map (rof FNormal) (map (rto FNormal) ps) = ps.
Proof. induction 1; cbn [map]; [reflexivity|]. f_equal; [apply normal_of_to; assumption | assumption]. Qed.

Lemma map2_neg2 (x y : list (list R)) : Forall neg2 x -> Forall neg2 y -> Forall neg2 (map2 (vadd Rops) x y).
Proof.
  intro H. revert y. induction H; intros y Hy; destruct Hy; cbn [map2]; constructor;
    [apply neg2_vadd; assumption | auto].
Qed.

Lemma normal_not_fixed (a : rmsg) : fam a = FNormal -> is_fixed a = false.
Proof. intro H. unfold is_fixed. rewrite H. reflexivity. Qed.

(* the product of proper normals: natural parameters add, the result is a proper normal *)
Lemma normal_sum_additive (a b : rmsg) : normal_valid a -> nvalid b ->
  rnat (b_sum Rops pinned a [b]) = map2 (vadd Rops) (rnat a) (rnat b) /\ normal_valid (b_sum Rops pinned a [b]).
Proof.
  intros Va Vb. pose proof (normal_valid_nvalid a Va) as Na. destruct Va as [F V].
  unfold b_sum. rewrite (normal_not_fixed a F). unfold nat_of at 1, normal_valid. cbn [fam elems fold_left].
  rewrite F. split; [apply rebuild_R | split; [reflexivity | apply rebuild_pvalid]]; apply map2_neg2; assumption.
Qed.

Lemma neg2_length (e : list R) : neg2 e -> length e = 2%nat.
Proof. intros (a & b & -> & _). reflexivity. Qed.

(* (a*b)/b has exactly the parameters of a *)
Lemma normal_div_mul_elems (a b : rmsg) : normal_valid a -> nvalid b -> length (elems a) = length (elems b) ->
  elems (b_div Rops (b_sum Rops pinned a [b]) b) = elems a.
Proof.
  intros Va Vb L. destruct (normal_sum_additive a b Va Vb) as [Add [Fab _]].
  pose proof (normal_valid_nvalid a Va) as Na. destruct Va as [F V].
  unfold b_div. rewrite (normal_not_fixed _ Fab). cbn [elems]. rewrite Fab, Add.
  assert (E : map2 (vsub Rops) (map2 (vadd Rops) (rnat a) (rnat b)) (rnat b) = rnat a).
  { assert (L2 : length (rnat a) = length (rnat b)) by (unfold nat_of; rewrite !map_length; exact L).
    revert Na Vb L2. unfold nvalid. generalize (rnat a) (rnat b).
    induction l as [|u x IH]; intros [|v y] Hx Hy L2; cbn in L2; try discriminate; [reflexivity|].
    inversion Hx; inversion Hy; subst. cbn [map2]. f_equal.
    - apply vsub_vadd_R. rewrite !neg2_length; auto.
    - apply IH; auto. }
  rewrite E. unfold nat_of. rewrite F. apply elems_back_R. exact V.
Qed.

(* positive powers scale the natural parameters and stay proper *)
Lemma normal_pow_linear (a : rmsg) (k : R) : normal_valid a -> 0 < k ->
  rnat (b_pow Rops a k) = map (vscale Rops k) (rnat a) /\ normal_valid (b_pow Rops a k).
Proof.
  intros Va K. pose proof (normal_valid_nvalid a Va) as Na. destruct Va as [F V].
  unfold b_pow. rewrite (normal_not_fixed a F). unfold nat_of at 1, normal_valid. cbn [fam elems]. rewrite F.
  assert (N : Forall neg2 (map (vscale Rops k) (rnat a))).
  { unfold nvalid in Na. induction Na; cbn [map]; constructor; [apply neg2_vscale; assumption | assumption]. }
  split; [apply rebuild_R; exact N | split; [reflexivity | apply rebuild_pvalid; exact N]].
Qed.

Lemma normal_pow_add_elems (a : rmsg) (j k : R) : normal_valid a -> 0 < j -> 0 < k ->
  elems (b_sum Rops pinned (b_pow Rops a j) [b_pow Rops a k]) = elems (b_pow Rops a (j + k)).
Proof.
  intros Va J K.
  destruct (normal_pow_linear a j Va J) as [Lj Vj]. destruct (normal_pow_linear a k Va K) as [Lk Vk].
  destruct Va as [F V]. destruct Vj as [Fj _].
  unfold b_sum. rewrite (normal_not_fixed _ Fj). cbn [elems fold_left]. rewrite Fj, Lj, Lk.
  unfold b_pow at 1. rewrite (normal_not_fixed a F). cbn [elems]. rewrite F. f_equal.
  generalize (rnat a). induction l as [|u x IH]; cbn [map map2]; [reflexivity|].
  f_equal; [apply vadd_vscale_R | exact IH].
Qed.

Lemma normal_pow_mul_elems (a : rmsg) (j k : R) : normal_valid a -> 0 < j ->
  elems (b_pow Rops (b_pow Rops a j) k) = elems (b_pow Rops a (j * k)).
Proof.
  intros Va J. destruct (normal_pow_linear a j Va J) as [Lj [Fj _]]. destruct Va as [F V].
  unfold b_pow at 1. rewrite (normal_not_fixed _ Fj). cbn [elems]. rewrite Fj, Lj.
  unfold b_pow at 1. rewrite (normal_not_fixed a F). cbn [elems]. rewrite F. f_equal.
  rewrite map_map. apply map_ext. intro u. apply vscale_vscale_R.
Qed.

(* moment matching: NormalMessage.invert_sufficient_statistics followed by from_natural_parameters
   returns the member with mean m1 and E[x^2] = m2 *)
Lemma normal_moment_match (m1 m2 : R) : m1 * m1 < m2 ->
  exists sg, rof FNormal (from_suff Rops FNormal [m1; m2]) = [m1; sg] /\ 0 < sg /\ sg * sg + m1 * m1 = m2.
Proof.
  intro H. exists (sqrt (m2 - m1 * m1)).
  assert (P : 0 < sqrt (m2 - m1 * m1)) by (apply sqrt_lt_R0; lra).
  split; [|split; [exact P | rewrite sqrt_sqrt; lra]].
  unfold from_suff. cbn [osub osq osqrt Rops]. apply normal_of_to. eexists _, _. split; [reflexivity | exact P].
Qed.

(* ------------------------------------------------------------------ *)
(* densities                                                            *)

(* natural_logpdf of a NormalMessage: log_base_measure + eta . t(x) - log_partition(eta) *)
(* the model's own natural_logpdf (the definition compared bit-for-bit with m.logpdf(x)) over the reals *)
Definition normal_logpdf (mu sg x : R) : R := natural_logpdf Rops FNormal [mu; sg] x false.

Lemma normal_logpdf_closed (mu sg x : R) : 0 < sg ->
  normal_logpdf mu sg x = - ln sg - (1 / 2) * ln (2 * PI) - (x - mu) * (x - mu) / (2 * (sg * sg)).
Proof.
  intro H. unfold normal_logpdf. cbn.
  replace (- (2) * (- (1 / (sg * sg)) / 2)) with (/ (sg * sg)) by (field; lra).
  rewrite ln_Rinv by (apply Rmult_lt_0_compat; assumption). rewrite (ln_mult sg sg) by assumption.
  field. lra.
Qed.

(* TransformedMessage.factor for a LinearShiftTransform over a normal base:
   base.logpdf((x - shift) / scale) - log(scale) is the density of N(shift + scale mu, scale sigma) *)
Lemma shift_factor_is_density (mu sg s c x : R) : 0 < sg -> 0 < c ->
  normal_logpdf mu sg ((x - s) / c) + - ln c = normal_logpdf (s + c * mu) (c * sg) x.
Proof.
  intros Hs Hc. rewrite !normal_logpdf_closed by (try apply Rmult_lt_0_compat; assumption).
  rewrite (ln_mult c sg) by assumption. field. lra.
Qed.

(* the stack of transforms: `_transform_det` accumulates the log-determinants *)
Record rtrans := mkrtrans { tf : R -> R; tder : R -> R; tlogd : R -> R }.

(* rs = reversed(self.transforms), i.e. in the order in which they are applied *)
Fixpoint tdet (rs : list rtrans) (x : R) : R * R :=
  match rs with
  | [] => (x, 0)
  | t :: r => let yl := tdet r (tf t x) in (fst yl, tlogd t x + snd yl)
  end.

Definition tfactor (base_logpdf : R -> R) (rs : list rtrans) (x : R) : R :=
  base_logpdf (fst (tdet rs x)) + snd (tdet rs x).

(* every transform is differentiable with positive derivative at the point it is applied to,
   and reports the log of that derivative *)
Fixpoint good (rs : list rtrans) (x : R) : Prop :=
  match rs with
  | [] => True
  | t :: r => derivable_pt_lim (tf t) x (tder t x) /\ 0 < tder t x /\ tlogd t x = ln (tder t x) /\ good r (tf t x)
  end.

Lemma tdet_fst_cons (t : rtrans) (r : list rtrans) (z : R) : fst (tdet (t :: r) z) = fst (tdet r (tf t z)).
Proof. reflexivity. Qed.

(* chain rule: the accumulated log-determinant is the log of the derivative of the composed map *)
Lemma tdet_chain (rs : list rtrans) : forall x, good rs x ->
  exists D, derivable_pt_lim (fun z => fst (tdet rs z)) x D /\ 0 < D /\ snd (tdet rs x) = ln D.
Proof.
  induction rs as [|t r IH]; intros x G.
  - exists 1. cbn. split; [apply derivable_pt_lim_id | split; [lra | symmetry; apply ln_1]].
  - destruct G as (Dt & Pt & Lt & Gr). destruct (IH (tf t x) Gr) as (D & DD & PD & LD).
    exists (D * tder t x). split; [|split].
    + apply (derivable_pt_lim_comp (tf t) (fun z => fst (tdet r z)) x (tder t x) D); assumption.
    + apply Rmult_lt_0_compat; assumption.
    + cbn [tdet snd]. rewrite Lt, LD, ln_mult by assumption. ring.
Qed.

Lemma tfactor_change_of_variables (p : R -> R) (rs : list rtrans) (x : R) : good rs x ->
  exists D, derivable_pt_lim (fun z => fst (tdet rs z)) x D /\ 0 < D /\
            tfactor p rs x = p (fst (tdet rs x)) + ln D.
Proof.
  intro G. destruct (tdet_chain rs x G) as (D & DD & PD & LD). exists D. unfold tfactor. rewrite LD. auto.
Qed.

(* the transforms of transform.py *)
Definition r_shift (s c : R) : rtrans := mkrtrans (fun x => (x - s) / c) (fun _ => / c) (fun _ => - ln c).
Definition r_log : rtrans := mkrtrans ln (fun x => / x) (fun x => ln (/ x)).
Definition r_exp : rtrans := mkrtrans exp exp (fun x => ln (exp x)).
Definition r_log10 : rtrans := mkrtrans (fun x => ln x / ln 10) (fun x => / x / ln 10) (fun x => ln (/ x / ln 10)).

Lemma good_shift (s c x : R) (r : list rtrans) : 0 < c -> good r ((x - s) / c) -> good (r_shift s c :: r) x.
Proof.
  intros Hc G. cbn. repeat split; try assumption.
  - replace (/ c) with ((1 - 0) * / c) by ring. unfold Rdiv.
    apply (derivable_pt_lim_scal_right (fun z => z - s)).
    apply (derivable_pt_lim_minus id (fun _ => s)); [apply derivable_pt_lim_id | apply derivable_pt_lim_const].
  - apply Rinv_0_lt_compat. exact Hc.
  - rewrite ln_Rinv by exact Hc. reflexivity.
Qed.

Lemma good_log (x : R) (r : list rtrans) : 0 < x -> good r (ln x) -> good (r_log :: r) x.
Proof.
  intros Hx G. cbn. repeat split; try assumption.
  - apply derivable_pt_lim_ln. exact Hx.
  - apply Rinv_0_lt_compat. exact Hx.
Qed.

Lemma good_exp (x : R) (r : list rtrans) : good r (exp x) -> good (r_exp :: r) x.
Proof.
  intro G. cbn. repeat split; try assumption.
  - apply derivable_pt_lim_exp.
  - apply exp_pos.
Qed.

Lemma ln10_pos : 0 < ln 10.
Proof. rewrite <- ln_1. apply ln_increasing; lra. Qed.

Lemma good_log10 (x : R) (r : list rtrans) : 0 < x -> good r (ln x / ln 10) -> good (r_log10 :: r) x.
Proof.
  intros Hx G. cbn. repeat split; try assumption.
  - unfold Rdiv. apply (derivable_pt_lim_scal_right ln). apply derivable_pt_lim_ln. exact Hx.
  - apply Rmult_lt_0_compat; apply Rinv_0_lt_compat; [exact Hx | exact ln10_pos].
Qed.

(* ------------------------------------------------------------------ *)
(* the model's own `t_apply` / `tdet` / `factor` (the definitions compared bit-for-bit with
   TransformedMessage._transform_det and .factor), instantiated over the reals *)
Section ModelDet.
  Variables ndtri npdf : R -> R.
  Notation OP := (RopsP ndtri npdf).

  (* side conditions under which a transform is differentiable at x with positive derivative;
     for phi_transform they are assumptions on the library functions at that point *)
  Definition good_t (t : transform R) (x : R) : Prop :=
    match t with
    | TShift s c => 0 < c
    | TLog | TLog10 => 0 < x
    | TExp => True
    | TPhi => derivable_pt_lim ndtri x (1 / npdf (ndtri x)) /\ 0 < npdf (ndtri x)
    end.

  Definition t_der (t : transform R) (x : R) : R :=
    match t with
    | TShift s c => / c
    | TLog => 1 / x
    | TExp => exp x
    | TLog10 => 1 / x / ln 10
    | TPhi => 1 / npdf (ndtri x)
    end.

  Lemma t_apply_good (t : transform R) (x : R) : good_t t x ->
    derivable_pt_lim (fun z => fst (t_apply OP t z)) x (t_der t x) /\ 0 < t_der t x
    /\ snd (t_apply OP t x) = ln (t_der t x).
  Proof.
    destruct t as [| | | |s c]; cbn; intro G; repeat split.
    - exact (proj1 G).
    - apply Rdiv_lt_0_compat; [lra | exact (proj2 G)].
    - replace (1 / x) with (/ x) by (unfold Rdiv; ring). apply derivable_pt_lim_ln. exact G.
    - apply Rdiv_lt_0_compat; lra.
    - replace (1 / x / ln 10) with (/ x * / ln 10) by (unfold Rdiv; ring).
      apply (derivable_pt_lim_scal_right ln x (/ x) (/ ln 10)). apply derivable_pt_lim_ln. exact G.
    - apply Rdiv_lt_0_compat; [apply Rdiv_lt_0_compat; lra | exact ln10_pos].
    - apply derivable_pt_lim_exp.
    - apply exp_pos.
    - replace (/ c) with ((1 - 0) * / c) by ring.
      apply (derivable_pt_lim_scal_right (fun z => z - s) x (1 - 0) (/ c)).
      apply (derivable_pt_lim_minus id (fun _ => s)); [apply derivable_pt_lim_id | apply derivable_pt_lim_const].
    - apply Rinv_0_lt_compat. exact G.
    - rewrite ln_Rinv by exact G. ring.
  Qed.

  Fixpoint good_stack (rs : list (transform R)) (x : R) : Prop :=
    match rs with
    | [] => True
    | t :: r => good_t t x /\ good_stack r (fst (t_apply OP t x))
    end.

  Lemma tdet_fst_indep (rs : list (transform R)) : forall x l l', fst (Model.tdet OP rs x l) = fst (Model.tdet OP rs x l').
  Proof. induction rs as [|t r IH]; intros x l l'; cbn [Model.tdet]; [reflexivity | apply IH]. Qed.

  Lemma tdet_snd_shift (rs : list (transform R)) : forall x l, snd (Model.tdet OP rs x l) = l + snd (Model.tdet OP rs x 0).
  Proof.
    induction rs as [|t r IH]; intros x l; cbn [Model.tdet snd]; [ring|].
    rewrite (IH _ (oadd OP l _)), (IH _ (oadd OP 0 _)). cbn [oadd RopsP]. ring.
  Qed.

  (* chain rule for the model's accumulated log-determinant *)
  Lemma model_tdet_chain (rs : list (transform R)) : forall x, good_stack rs x ->
    exists D, derivable_pt_lim (fun z => fst (Model.tdet OP rs z 0)) x D /\ 0 < D /\ snd (Model.tdet OP rs x 0) = ln D.
  Proof.
    induction rs as [|t r IH]; intros x G.
    - exists 1. cbn. split; [apply derivable_pt_lim_id | split; [lra | symmetry; apply ln_1]].
    - destruct G as [Gt Gr]. destruct (t_apply_good t x Gt) as (Dt & Pt & Lt).
      destruct (IH _ Gr) as (D & DD & PD & LD).
      exists (D * t_der t x). split; [|split].
      + assert (E : forall z, fst (Model.tdet OP (t :: r) z 0) = (fun y => fst (Model.tdet OP r y 0)) (fst (t_apply OP t z))).
        { intro z. cbn [Model.tdet]. apply tdet_fst_indep. }
        apply (derivable_pt_lim_ext (fun z => (fun y => fst (Model.tdet OP r y 0)) (fst (t_apply OP t z)))).
        * intro z. symmetry. apply E.
        * apply (derivable_pt_lim_comp (fun z => fst (t_apply OP t z)) (fun y => fst (Model.tdet OP r y 0))); assumption.
      + apply Rmult_lt_0_compat; assumption.
      + cbn [Model.tdet]. rewrite tdet_snd_shift, LD, Lt. cbn [oadd RopsP]. rewrite ln_mult by assumption. ring.
  Qed.

  (* factor(x) = p(T x) + ln T'(x): the change-of-variables log-density of the base density p *)
  Lemma model_factor_change_of_variables (p : R -> R) (stack : list (transform R)) (x : R) :
    good_stack (rev stack) x ->
    exists D, derivable_pt_lim (fun z => fst (transform_det OP stack z)) x D /\ 0 < D /\
              Model.factor OP p stack x = p (fst (transform_det OP stack x)) + ln D.
  Proof.
    intro G. destruct (model_tdet_chain (rev stack) x G) as (D & DD & PD & LD).
    exists D. unfold Model.factor, transform_det in *. cbn [c0 RopsP oadd]. rewrite LD. auto.
  Qed.
End ModelDet.

(* ------------------------------------------------------------------ *)
(* full message statements for NormalMessage (parameters, class, id, limits, shape AND log_norm) *)
Lemma normal_div_mul_partial (a b : rmsg) : normal_valid a -> nvalid b -> length (elems a) = length (elems b) ->
  let r := b_div Rops (b_sum Rops pinned a [b]) b in
  fam r = FNormal /\ bmeta r = bmeta a /\ elems r = elems a /\ lognorm r = - lognorm b.
Proof.
  intros Va Vb L r. destruct (normal_sum_additive a b Va Vb) as [_ [Fab _]].
  assert (F : fam a = FNormal) by apply Va.
  repeat split.
  - unfold r, b_div. rewrite (normal_not_fixed _ Fab). exact Fab.
  - unfold r. rewrite b_div_bmeta, b_sum_bmeta. reflexivity.
  - apply normal_div_mul_elems; assumption.
  - unfold r, b_div. rewrite (normal_not_fixed _ Fab). cbn [lognorm]. unfold b_sum. rewrite (normal_not_fixed a F).
    cbn [lognorm c0 osub Rops RopsP product_keeps_lognorm pinned]. ring.
Qed.

Lemma normal_pow_add_partial (a : rmsg) (j k : R) : normal_valid a -> 0 < j -> 0 < k ->
  let l := b_sum Rops pinned (b_pow Rops a j) [b_pow Rops a k] in
  let r := b_pow Rops a (j + k) in
  fam l = fam r /\ bmeta l = bmeta r /\ elems l = elems r /\ lognorm l = 0 /\ lognorm r = (j + k) * lognorm a.
Proof.
  intros Va J K l r. destruct (normal_pow_linear a j Va J) as [_ [Fj _]].
  assert (F : fam a = FNormal) by apply Va.
  repeat split.
  - unfold l, r, b_sum, b_pow. rewrite (normal_not_fixed a F). cbn [fam is_fixed]. rewrite F. reflexivity.
  - unfold l, r. rewrite b_sum_bmeta, !b_pow_bmeta. reflexivity.
  - apply normal_pow_add_elems; assumption.
  - unfold l, b_sum. rewrite (normal_not_fixed _ Fj). reflexivity.
  - unfold r, b_pow. rewrite (normal_not_fixed a F). reflexivity.
Qed.

(* zeros_like of a NormalMessage is the NaturalNormal with natural parameters 0: the unit of the product *)
Lemma vadd_zero_zero_R (u : list R) : vadd Rops u (vscale Rops 0 (vscale Rops 0 u)) = u.
Proof. induction u as [|x u IH]; cbn; [reflexivity|]. f_equal; [ring | exact IH]. Qed.

Lemma normal_zeros (a : rmsg) : normal_valid a ->
  fam (b_zeros Rops a) = FNatural /\ bmeta (b_zeros Rops a) = bmeta a
  /\ rnat (b_zeros Rops a) = map (map (fun _ => 0)) (rnat a)
  /\ elems (b_sum Rops pinned a [b_zeros Rops a]) = elems a /\ bmeta (b_sum Rops pinned a [b_zeros Rops a]) = bmeta a.
Proof.
  intros [F V].
  assert (Z : rnat (b_zeros Rops a) = map (fun u => vscale Rops 0 (vscale Rops 0 u)) (rnat a)).
  { unfold b_zeros. rewrite F. unfold b_pow, is_fixed. cbn [fam family_eqb]. unfold nat_of. cbn [fam elems].
    rewrite !map_map. apply map_ext. intro u. reflexivity. }
  repeat split.
  - unfold b_zeros. rewrite F. reflexivity.
  - apply b_zeros_bmeta.
  - rewrite Z. apply map_ext. intro u. induction u as [|x u IH]; cbn; [reflexivity|]. f_equal; [ring | exact IH].
  - unfold b_sum. rewrite (normal_not_fixed a F). cbn [elems fold_left]. rewrite Z, F.
    assert (E : map2 (vadd Rops) (rnat a) (map (fun u => vscale Rops 0 (vscale Rops 0 u)) (rnat a)) = rnat a).
    { generalize (rnat a). induction l as [|u x IH]; cbn [map map2]; [reflexivity|]. f_equal; [apply vadd_zero_zero_R | exact IH]. }
    rewrite E. unfold nat_of. rewrite F. apply elems_back_R. exact V.
  - apply b_sum_bmeta.
Qed.

(* ------------------------------------------------------------------ *)
(* AbstractMessage.project end to end for one element of a normal message: the weights exp(lw - max lw) give the
   same statistics as exp(lw) (invariance under the stabilising shift), the projected member has the weighted
   mean and second moment of the samples, and log_norm is the log of the mean weight *)
Notation rseqsum := (seqsum Rops).

Lemma fold_add_acc_R (l : list R) (acc : R) : fold_left Rplus l acc = acc + fold_left Rplus l 0.
Proof.
  revert acc. induction l as [|x l IH]; intro acc; cbn; [ring|]. rewrite (IH (acc + x)), (IH (0 + x)). ring.
Qed.
Lemma rseqsum_cons (x : R) (l : list R) : rseqsum (x :: l) = x + rseqsum l.
Proof. unfold seqsum. cbn. rewrite fold_add_acc_R. ring. Qed.
Lemma rseqsum_nil : rseqsum [] = 0.
Proof. reflexivity. Qed.

Lemma rseqsum_scale (l : list R) (k : R) : rseqsum (map (fun x => x * k) l) = rseqsum l * k.
Proof. induction l as [|x l IH]; [cbn; unfold seqsum; cbn; ring|]. cbn [map]. rewrite !rseqsum_cons, IH. ring. Qed.

Lemma rseqsum_map2_scale (t l : list R) (k : R) :
  rseqsum (map2 Rmult t (map (fun x => x * k) l)) = rseqsum (map2 Rmult t l) * k.
Proof.
  revert l. induction t as [|y t IH]; intros [|x l]; cbn [map map2]; rewrite ?rseqsum_nil; try ring.
  rewrite !rseqsum_cons, IH. ring.
Qed.

Lemma rseqsum_pos (l : list R) : l <> [] -> Forall (fun x => 0 < x) l -> 0 < rseqsum l.
Proof.
  intros N H. induction H as [|x l Hx H IH]; [congruence|]. rewrite rseqsum_cons.
  destruct l as [|y l]; [rewrite rseqsum_nil; lra|]. assert (0 < rseqsum (y :: l)) by (apply IH; congruence). lra.
Qed.

Lemma map2_map_length_R (t w : list R) (g : R -> R) : length t = length w -> length (map2 Rmult t (map g w)) = length w.
Proof. revert w. induction t as [|x t IH]; intros [|y w] H; cbn in *; try discriminate; auto. Qed.

(* statistic for weights w rescaled to mean one = weighted average *)
Lemma wstat_weighted_mean_R (t w : list R) : length t = length w -> w <> [] -> 0 < rseqsum w ->
  wstat Rops t (fst (norm_weights Rops w)) = rseqsum (map2 Rmult t w) / rseqsum w.
Proof.
  intros L N P. unfold wstat, norm_weights, mean. cbn [fst omul odiv oofnat Rops RopsP].
  assert (Hn : 0 < INR (length w)) by (destruct w; [congruence | apply lt_0_INR; cbn; lia]).
  replace (map (fun x => x / (rseqsum w / INR (length w))) w) with (map (fun x => x * (INR (length w) / rseqsum w)) w)
    by (apply map_ext; intro x; field; split; lra).
  rewrite map2_map_length_R by exact L. rewrite rseqsum_map2_scale. field. split; lra.
Qed.

Definition expw (lws : list R) : list R := map exp lws.

Lemma proj_weights_shift (lws : list R) : lws <> [] ->
  let '(w', norm, wmax) := proj_weights Rops lws in
  w' = fst (norm_weights Rops (map (fun e => e * exp (- wmax)) (expw lws)))
  /\ norm = rseqsum (expw lws) * exp (- wmax) / INR (length lws).
Proof.
  intro N. unfold proj_weights. cbn [oexp osub omax Rops RopsP].
  set (M := fold_left Rmax (tl lws) _).
  assert (E : map (fun l => exp (l - M)) lws = map (fun e => e * exp (- M)) (expw lws)).
  { unfold expw. rewrite map_map. apply map_ext. intro l. unfold Rminus. apply exp_plus. }
  rewrite E. unfold norm_weights. cbn [fst]. split; [reflexivity|].
  unfold mean. cbn [odiv oofnat Rops RopsP]. rewrite rseqsum_scale, map_length. unfold expw. rewrite map_length. reflexivity.
Qed.

Lemma normal_proj_col (xs lws : list R) : length xs = length lws -> lws <> [] ->
  let W := rseqsum (expw lws) in
  let m1 := rseqsum (map2 Rmult xs (expw lws)) / W in
  let m2 := rseqsum (map2 Rmult (map (fun x => x * x) xs) (expw lws)) / W in
  m1 * m1 < m2 ->
  exists sg, proj_col Rops FNormal xs lws = ([m1; sg], ln (W / INR (length lws)))
             /\ 0 < sg /\ sg * sg + m1 * m1 = m2.
Proof.
  intros L N W m1 m2 Hm.
  assert (PE : Forall (fun x => 0 < x) (expw lws)) by (unfold expw; apply Forall_forall; intros x Hx; apply in_map_iff in Hx; destruct Hx as [l [<- _]]; apply exp_pos).
  assert (NE : expw lws <> []) by (unfold expw; destruct lws; [congruence | discriminate]).
  assert (PW : 0 < W) by (apply rseqsum_pos; assumption).
  pose proof (proj_weights_shift lws N) as S.
  unfold proj_col, suff_stats. destruct (proj_weights Rops lws) as [[w' norm] wmax] eqn:PWs. destruct S as [Sw Sn].
  cbn [fst]. set (k := exp (- wmax)) in *. assert (Pk : 0 < k) by apply exp_pos.
  set (ws := map (fun e => e * k) (expw lws)) in *.
  assert (Lw : length (expw lws) = length lws) by (unfold expw; apply map_length).
  assert (Pws : 0 < rseqsum ws) by (unfold ws; rewrite rseqsum_scale; apply Rmult_lt_0_compat; assumption).
  assert (Nws : ws <> []) by (unfold ws; destruct (expw lws); [congruence | discriminate]).
  assert (St : forall t, length t = length lws -> wstat Rops t w' = rseqsum (map2 Rmult t (expw lws)) / W).
  { intros t Lt. rewrite Sw. rewrite wstat_weighted_mean_R; [| unfold ws; rewrite map_length, Lw; exact Lt | exact Nws | exact Pws].
    unfold ws. rewrite rseqsum_map2_scale, rseqsum_scale. fold W. field. split; lra. }
  cbn [canon map]. rewrite (St xs L), (St (map (fun x => omul Rops x x) xs)) by (rewrite map_length; exact L).
  cbn [omul Rops RopsP]. fold m1 m2.
  destruct (normal_moment_match m1 m2 Hm) as (sg & E & Psg & Q).
  exists sg. split; [|split; assumption]. f_equal; [exact E|].
  cbn [oadd olog Rops RopsP]. rewrite Sn. fold W k.
  replace (W * k / INR (length lws)) with ((W / INR (length lws)) * k) by (unfold Rdiv; ring).
  assert (Hn : 0 < INR (length lws)) by (destruct lws; [congruence | apply lt_0_INR; cbn; lia]).
  rewrite ln_mult; [| apply Rdiv_lt_0_compat; assumption | exact Pk]. unfold k. rewrite ln_exp. ring.
Qed.

(* gamma moment matching under the assumption that invpsilog inverts psi(x) - ln x (a library function; its
   accuracy is checked numerically against an independent root finder): the projected member reproduces the
   statistics (E ln x, E x) it was given *)
Section GammaProject.
  Variables (psi invpl : R -> R).
  Hypothesis invpl_inverts : forall c, c < 0 -> psi (invpl c) - ln (invpl c) = c /\ 0 < invpl c.
  Definition RopsG : ops R :=
    mkops R Rplus Rminus Rmult Rdiv Ropp sqrt (fun x => x * x) 0 1 2 (1 / 2)
          ln exp (fun x => ln (1 + x)) Rmax INR invpl (fun a b => (a, b))
          10 (fun x => ln x / ln 10) (fun x => x) (fun x => x)
          4 (- (1 / 2) * ln (2 * PI)) (fun x => x) (fun a _ => a) (fun x => x).

  (* a Gamma(alpha, beta) member has E ln x = psi(alpha) - ln beta and E x = alpha / beta *)
  Lemma gamma_moment_match (lx x : R) : 0 < x -> lx < ln x ->
    exists alpha beta, of_nat RopsG FGamma (from_suff RopsG FGamma [lx; x]) = [alpha; beta]
      /\ 0 < alpha /\ 0 < beta /\ psi alpha - ln beta = lx /\ alpha / beta = x.
  Proof.
    intros Px Hl. destruct (invpl_inverts (lx - ln x) ltac:(lra)) as [I Pa].
    set (alpha := invpl (lx - ln x)) in *.
    exists alpha, (alpha / x). cbn. fold alpha. repeat split.
    - f_equal; [ring | f_equal; ring].
    - exact Pa.
    - apply Rdiv_lt_0_compat; assumption.
    - unfold Rdiv. rewrite ln_mult by (try apply Rinv_0_lt_compat; assumption). rewrite ln_Rinv by exact Px. lra.
    - field. split; lra.
  Qed.
End GammaProject.

(* ------------------------------------------------------------------ *)
(* the code as it is now (products carry log_norm): (a*b)/b is a in full for NormalMessage *)
Lemma b_sum_variant_indep_R (V : variant) (a : rmsg) (l : list rmsg) :
  fam (b_sum Rops V a l) = fam (b_sum Rops pinned a l) /\ bmeta (b_sum Rops V a l) = bmeta (b_sum Rops pinned a l)
  /\ elems (b_sum Rops V a l) = elems (b_sum Rops pinned a l).
Proof. unfold b_sum, bmeta. destruct (is_fixed a); cbn; repeat split; reflexivity. Qed.

Lemma b_div_cong_R (x y b : rmsg) : fam x = fam y -> bmeta x = bmeta y -> elems x = elems y ->
  fam (b_div Rops x b) = fam (b_div Rops y b) /\ bmeta (b_div Rops x b) = bmeta (b_div Rops y b)
  /\ elems (b_div Rops x b) = elems (b_div Rops y b).
Proof.
  destruct x as [fx sx ex lx ix lox hix], y as [fy sy ey ly iy loy hiy]. unfold bmeta. cbn.
  intros F M E. inversion M; subst. unfold b_div, is_fixed, nat_of. cbn.
  destruct (family_eqb fy FFixed); cbn; repeat split; reflexivity.
Qed.

Lemma normal_div_mul_full (V : variant) (a b : rmsg) : product_keeps_lognorm V = true ->
  normal_valid a -> nvalid b -> length (elems a) = length (elems b) ->
  let r := b_div Rops (b_sum Rops V a [b]) b in
  fam r = FNormal /\ bmeta r = bmeta a /\ elems r = elems a /\ lognorm r = lognorm a.
Proof.
  intros K Va Vb L r. destruct (normal_div_mul_partial a b Va Vb L) as (F & M & E & _).
  destruct (b_sum_variant_indep_R V a [b]) as (F1 & M1 & E1).
  destruct (b_div_cong_R _ _ b F1 M1 E1) as (F2 & M2 & E2).
  assert (Fa : fam a = FNormal) by apply Va.
  repeat split.
  - unfold r. rewrite F2. exact F.
  - unfold r. rewrite M2. exact M.
  - unfold r. rewrite E2. exact E.
  - unfold r, b_div. assert (NF : is_fixed (b_sum Rops V a [b]) = false).
    { unfold is_fixed. rewrite F1. unfold b_sum. rewrite (normal_not_fixed a Fa). cbn [fam]. rewrite Fa. reflexivity. }
    rewrite NF. cbn [lognorm]. unfold b_sum. rewrite (normal_not_fixed a Fa), K.
    cbn [lognorm c0 oadd osub fold_left Rops RopsP]. ring.
Qed.
