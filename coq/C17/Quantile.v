(* C17: the quantile function (NormalMessage.value_for, TransformedMessage.value_for) and the CDF are an inverse
   pair ON EVERY ROUTE.  value_for has two textual branches -- the cython erfinv for python / numpy scalars and the
   scipy fallback for ndarrays (vectorised calls, array-valued messages, np.float32) -- each with its own expression
   for the erfinv argument.  The model carries the argument expression of each branch explicitly; the theorems hold
   for every dispatch between the branches, and characterise the argument expressions that are sound. *)
From Coq Require Import Reals Lra List Bool.
From PAFC17 Require Import Model ProofsR.
Import ListNotations.
Local Open Scope R_scope.

Section Quantile.
  Variables erf erfinv : R -> R.
  Hypothesis erf_erfinv : forall y, -1 < y < 1 -> erf (erfinv y) = y.

  (* scipy.stats.norm.cdf(x, loc, scale) written with erf *)
  Definition ncdf (mu sg x : R) : R := (1 + erf ((x - mu) / (sg * sqrt 2))) / 2.

  (* NormalMessage.value_for: `mean + sigma * sqrt(2) * inv`, inv = erfinv(<arg>(unit)) *)
  Definition vfor (arg : R -> R) (mu sg u : R) : R := mu + sg * sqrt 2 * erfinv (arg u).

  Definition arg_code (u : R) : R := 1 - 2 * (1 - u).      (* both branches of the pinned code *)
  Definition arg_simplified (u : R) : R := 2 * u - 1.
  Definition arg_mirrored (u : R) : R := 1 - 2 * u.        (* the mirrored quantile *)

  (* the two branches and the dispatch on the representation of the argument (true = ndarray / fallback branch) *)
  Definition vfor_route (a_scalar a_fallback : R -> R) (fallback : bool) (mu sg u : R) : R :=
    if fallback then vfor a_fallback mu sg u else vfor a_scalar mu sg u.

  Lemma sqrt2_pos : 0 < sqrt 2.
  Proof. apply sqrt_lt_R0. lra. Qed.

  Lemma ncdf_vfor (arg : R -> R) (mu sg u : R) : 0 < sg -> -1 < arg u < 1 ->
    ncdf mu sg (vfor arg mu sg u) = (1 + arg u) / 2.
  Proof.
    intros Hs Ha. unfold ncdf, vfor.
    replace ((mu + sg * sqrt 2 * erfinv (arg u) - mu) / (sg * sqrt 2)) with (erfinv (arg u)).
    - rewrite erf_erfinv by exact Ha. reflexivity.
    - pose proof sqrt2_pos. field. split; lra.
  Qed.

  (* the branch written in the code inverts the cdf *)
  Lemma cdf_value_for (mu sg u : R) : 0 < sg -> 0 < u < 1 -> ncdf mu sg (vfor arg_code mu sg u) = u.
  Proof.
    intros Hs Hu. rewrite ncdf_vfor; unfold arg_code; [lra | exact Hs | lra].
  Qed.

  (* a branch (whose argument stays inside (-1, 1)) inverts the cdf exactly when its argument is 2u - 1 *)
  Lemma branch_sound_iff (arg : R -> R) (mu sg : R) : 0 < sg ->
    (forall u, 0 < u < 1 -> -1 < arg u < 1) ->
    ((forall u, 0 < u < 1 -> ncdf mu sg (vfor arg mu sg u) = u) <-> (forall u, 0 < u < 1 -> arg u = 2 * u - 1)).
  Proof.
    intros Hs Hr. split; intros H u Hu.
    - specialize (H u Hu). rewrite ncdf_vfor in H by auto. lra.
    - rewrite ncdf_vfor by auto. rewrite (H u Hu). lra.
  Qed.

  (* every dispatch between two sound branches is an inverse of the cdf: the answer does not depend on the route *)
  Lemma every_route_inverts (a_s a_f : R -> R) (mu sg u : R) (fallback : bool) : 0 < sg -> 0 < u < 1 ->
    a_s u = 2 * u - 1 -> a_f u = 2 * u - 1 ->
    ncdf mu sg (vfor_route a_s a_f fallback mu sg u) = u /\
    vfor_route a_s a_f fallback mu sg u = vfor arg_code mu sg u.
  Proof.
    intros Hs Hu E1 E2. unfold vfor_route.
    assert (Ec : arg_code u = 2 * u - 1) by (unfold arg_code; lra).
    destruct fallback; (split; [rewrite ncdf_vfor by (rewrite ?E1, ?E2; lra); rewrite ?E1, ?E2; lra
                                | unfold vfor; rewrite ?E1, ?E2, Ec; reflexivity]).
  Qed.

  (* the mirrored fallback: cdf(value_for(u)) = 1 - u on the array route *)
  Lemma mirrored_route (a_s : R -> R) (mu sg u : R) : 0 < sg -> 0 < u < 1 ->
    ncdf mu sg (vfor_route a_s arg_mirrored true mu sg u) = 1 - u.
  Proof.
    intros Hs Hu. unfold vfor_route. rewrite ncdf_vfor; unfold arg_mirrored; [lra | exact Hs | lra].
  Qed.

  Lemma mirrored_route_refuted : exists u, 0 < u < 1 /\
    ncdf 0 1 (vfor_route arg_simplified arg_mirrored true 0 1 u) <> u.
  Proof.
    exists (1 / 4). split; [lra|]. rewrite mirrored_route by lra. lra.
  Qed.

  (* vectorised call on a scalar message / one unit per element of an array message *)
  Definition vfor_vec (arg : R -> R) (mus sgs us : list R) : list R :=
    map (fun p => vfor arg (fst (fst p)) (snd (fst p)) (snd p)) (combine (combine mus sgs) us).

  Lemma vfor_vec_elementwise (arg : R -> R) (mus sgs us : list R) (i : nat) :
    (i < length mus)%nat -> length sgs = length mus -> length us = length mus ->
    nth i (vfor_vec arg mus sgs us) 0 = vfor arg (nth i mus 0) (nth i sgs 0) (nth i us 0).
  Proof.
    intros Hi Hs Hu. unfold vfor_vec.
    set (f := fun p : R * R * R => vfor arg (fst (fst p)) (snd (fst p)) (snd p)).
    assert (Hl : (i < length (combine (combine mus sgs) us))%nat)
      by (rewrite !combine_length, Hs, Hu, !Nat.min_id; exact Hi).
    rewrite (nth_indep _ 0 (f (0, 0, 0))) by (rewrite map_length; exact Hl).
    rewrite map_nth. unfold f. rewrite !combine_nth; [reflexivity | auto | rewrite combine_length, Hs, Nat.min_id; auto].
  Qed.

  Lemma vec_route_inverts (mus sgs us : list R) (i : nat) :
    (i < length mus)%nat -> length sgs = length mus -> length us = length mus ->
    0 < nth i sgs 0 -> 0 < nth i us 0 < 1 ->
    ncdf (nth i mus 0) (nth i sgs 0) (nth i (vfor_vec arg_code mus sgs us) 0) = nth i us 0.
  Proof.
    intros Hi Hs Hu Hp Hr. rewrite vfor_vec_elementwise by auto. apply cdf_value_for; auto.
  Qed.

  (* ---------- transformed messages: cdf(x) = base.cdf(T x), value_for(u) = T^-1 (base.value_for(u)) ---------- *)
  Variables ndtri npdf : R -> R.
  Definition Phi (y : R) : R := ncdf 0 1 y.
  Hypothesis ndtri_Phi : forall y, ndtri (Phi y) = y.
  Let OP := RopsP ndtri npdf.

  (* AbstractDensityTransform.inv_transform of one transform *)
  Definition inv1 (t : transform R) (y : R) : R :=
    match t with
    | TShift s c => y * c + s
    | TLog => exp y
    | TLog10 => exp (y * ln 10)
    | TExp => ln y
    | TPhi => Phi y
    end.
  (* TransformedMessage._inverse_transform: the transforms in order *)
  Fixpoint tinv (stack : list (transform R)) (y : R) : R :=
    match stack with
    | [] => y
    | t :: s => tinv s (inv1 t y)
    end.
  (* TransformedMessage._transform (the first component of the model's _transform_det) *)
  Definition tfwd (stack : list (transform R)) (x : R) : R := fst (transform_det OP stack x).

  Definition ok1 (t : transform R) (y : R) : Prop :=
    match t with
    | TShift _ c => c <> 0
    | TExp => 0 < y
    | _ => True
    end.
  Fixpoint inv_ok (stack : list (transform R)) (y : R) : Prop :=
    match stack with
    | [] => True
    | t :: s => ok1 t y /\ inv_ok s (inv1 t y)
    end.

  Lemma ln10_pos : 0 < ln 10.
  Proof. rewrite <- ln_1. apply ln_increasing; lra. Qed.

  Lemma t_apply_inv1 (t : transform R) (y : R) : ok1 t y -> fst (t_apply OP t (inv1 t y)) = y.
  Proof.
    destruct t; cbn; intros H.
    - apply ndtri_Phi.
    - apply ln_exp.
    - rewrite ln_exp. pose proof ln10_pos. field. lra.
    - apply exp_ln. exact H.
    - field. exact H.
  Qed.

  Lemma tdet_app (rs : list (transform R)) (t : transform R) : forall x l,
    fst (Model.tdet OP (rs ++ [t]) x l) = fst (t_apply OP t (fst (Model.tdet OP rs x l))).
  Proof.
    induction rs as [|r rs IH]; intros x l; cbn; [reflexivity|]. apply IH.
  Qed.

  Lemma tfwd_cons (t : transform R) (s : list (transform R)) (x : R) :
    tfwd (t :: s) x = fst (t_apply OP t (tfwd s x)).
  Proof. unfold tfwd, transform_det. cbn [rev]. apply tdet_app. Qed.

  Lemma tfwd_tinv (stack : list (transform R)) : forall y, inv_ok stack y -> tfwd stack (tinv stack y) = y.
  Proof.
    induction stack as [|t s IH]; intros y H.
    - reflexivity.
    - destruct H as [H1 H2]. rewrite tfwd_cons. cbn [tinv]. rewrite IH by exact H2. apply t_apply_inv1. exact H1.
  Qed.

  Definition tcdf (stack : list (transform R)) (mu sg x : R) : R := ncdf mu sg (tfwd stack x).
  Definition tvfor (arg : R -> R) (stack : list (transform R)) (mu sg u : R) : R := tinv stack (vfor arg mu sg u).

  (* the inverse pair of a transformed message, on either branch of the base quantile *)
  Lemma transformed_cdf_value_for (stack : list (transform R)) (mu sg u : R) (fallback : bool) :
    0 < sg -> 0 < u < 1 -> inv_ok stack (vfor arg_code mu sg u) ->
    tcdf stack mu sg (tinv stack (vfor_route arg_code arg_code fallback mu sg u)) = u.
  Proof.
    intros Hs Hu Hok. unfold tcdf.
    replace (vfor_route arg_code arg_code fallback mu sg u) with (vfor arg_code mu sg u) by (destruct fallback; reflexivity).
    rewrite tfwd_tinv by exact Hok. apply cdf_value_for; auto.
  Qed.
End Quantile.
