(* C17 lemmas on transformed messages and on whole expression trees (any number type):
   which parts of a message arithmetic can and cannot change. *)
From Coq Require Import ZArith List Bool Lia.
From Coq Require Import Floats.PrimFloat Floats.SpecFloat.
From PAFCommon Require Import PyFloat Lists.
From PAFC17 Require Import Model.
Import ListNotations.

Section Structure.
  Context {T : Type} (O : ops T).
  Notation msgT := (msg (T := T)).
  Notation mvalT := (mval (T := T)).
  Notation exprT := (expr (T := T)).

  Fixpoint leftvar (e : exprT) : nat :=
    match e with
    | EVar n => n
    | EMul x _ | EDiv x _ | EPow x _ | ESMul x _ | ESDiv x _ | ESum3 x _ _ | EZeros x | EFromNat x => leftvar x
    end.
  Definition is_var (e : exprT) : bool := match e with EVar _ => true | _ => false end.

  Definition wrapper_of (v : mvalT) : option (list (transform T) * option Z) :=
    match v with MB _ => None | MT s i _ _ _ => Some (s, i) end.
  Definition tlimits (v : mvalT) : option (float * float) :=
    match v with MB _ => None | MT _ _ l h _ => Some (l, h) end.

  (* id, limits and shape of a base message *)
  Definition bmeta (m : msgT) : Z * float * float * bool := (mid m, lo m, hi m, scalar m).

  Lemma b_sum_bmeta V (a : msgT) l : bmeta (b_sum O V a l) = bmeta a.
  Proof. unfold b_sum. destruct (is_fixed a); reflexivity. Qed.
  Lemma b_div_bmeta (a b : msgT) : bmeta (b_div O a b) = bmeta a.
  Proof. unfold b_div. destruct (is_fixed a); reflexivity. Qed.
  Lemma b_pow_bmeta (a : msgT) k : bmeta (b_pow O a k) = bmeta a.
  Proof. unfold b_pow. destruct (is_fixed a); reflexivity. Qed.
  Lemma b_smul_bmeta (a : msgT) c : bmeta (b_smul O a c) = bmeta a.
  Proof. unfold b_smul. destruct (is_fixed a); reflexivity. Qed.
  Lemma b_sdiv_bmeta V (a : msgT) c : bmeta (b_sdiv O V a c) = bmeta a.
  Proof. unfold b_sdiv. destruct (is_fixed a && fixed_truediv_noop V); reflexivity. Qed.
  Lemma b_zeros_bmeta (a : msgT) : bmeta (b_zeros O a) = bmeta a.
  Proof. unfold b_zeros. destruct (fam a); try apply b_pow_bmeta. rewrite b_pow_bmeta. reflexivity. Qed.
  Lemma b_fromnat_bmeta (a : msgT) : bmeta (b_fromnat O a) = bmeta a.
  Proof. reflexivity. Qed.

  Lemma wrapper_rewrap V s i l h m : wrapper_of (rewrap V s i l h m) = Some (s, i).
  Proof. unfold rewrap. destruct (keep_limits V); reflexivity. Qed.
  Lemma wrapper_lift1 V f (x : mvalT) : wrapper_of (lift1 V f x) = wrapper_of x.
  Proof. destruct x; simpl; [reflexivity | apply wrapper_rewrap]. Qed.

  (* arithmetic never changes the transforms or the id of a transformed message, and never
     wraps or unwraps: the wrapper of the result is the wrapper of the leftmost operand *)
  Lemma wrapper_preserved V (env : list mvalT) (e : exprT) : forall v,
    eval O V env e = Some v ->
    exists v0, nth_error env (leftvar e) = Some v0 /\ wrapper_of v = wrapper_of v0.
  Proof.
    induction e as [n|x IHx y IHy|x IHx y IHy|x IHx k|x IHx c|x IHx c|x IHx y IHy z IHz|x IHx|x IHx];
      intros v H; simpl in H; simpl leftvar.
    - exists v. split; [exact H | reflexivity].
    - destruct (eval O V env x) as [vx|] eqn:Ex; [|discriminate].
      destruct (eval O V env y) as [vy|]; [|discriminate]. inversion H; subst.
      destruct (IHx vx eq_refl) as [v0 [N W]]. exists v0. split; [exact N|]. rewrite wrapper_lift1. exact W.
    - destruct (eval O V env x) as [vx|] eqn:Ex; [|discriminate].
      destruct (eval O V env y) as [vy|]; [|destruct vx; discriminate].
      destruct (IHx vx eq_refl) as [v0 [N W]]. exists v0. split; [exact N|].
      destruct vx as [a|s i l h a]; destruct vy as [b|s' i' l' h' b]; simpl in H;
        try (destruct (is_fixed a); [|destruct (product_keeps_lognorm V); [|discriminate]]); inversion H; subst; simpl; rewrite ?wrapper_rewrap; exact W.
    - destruct (eval O V env x) as [vx|] eqn:Ex; [|discriminate]. inversion H; subst.
      destruct (IHx vx eq_refl) as [v0 [N W]]. exists v0. split; [exact N|]. rewrite wrapper_lift1. exact W.
    - destruct (eval O V env x) as [vx|] eqn:Ex; [|discriminate]. inversion H; subst.
      destruct (IHx vx eq_refl) as [v0 [N W]]. exists v0. split; [exact N|]. rewrite wrapper_lift1. exact W.
    - destruct (eval O V env x) as [vx|] eqn:Ex; [|discriminate]. inversion H; subst.
      destruct (IHx vx eq_refl) as [v0 [N W]]. exists v0. split; [exact N|]. rewrite wrapper_lift1. exact W.
    - destruct (eval O V env x) as [vx|] eqn:Ex; [|discriminate].
      destruct (IHx vx eq_refl) as [v0 [N W]]. exists v0. split; [exact N|].
      destruct vx as [a|s i l h a]; destruct (eval O V env y) as [vy|]; try discriminate;
        destruct (eval O V env z) as [vz|]; try discriminate; inversion H; subst; rewrite ?wrapper_rewrap; exact W.
    - destruct (eval O V env x) as [vx|] eqn:Ex; [|discriminate].
      destruct (IHx vx eq_refl) as [v0 [N W]]. exists v0. split; [exact N|].
      destruct vx as [a|s i l h a]; inversion H; subst; rewrite ?wrapper_rewrap; exact W.
    - destruct (eval O V env x) as [vx|] eqn:Ex; [|discriminate]. inversion H; subst.
      destruct (IHx vx eq_refl) as [v0 [N W]]. exists v0. split; [exact N|]. rewrite wrapper_lift1. exact W.
  Qed.

  Lemma tlimits_rewrap_keep V s i l h m : keep_limits V = true -> tlimits (rewrap V s i l h m) = Some (l, h).
  Proof. intro K. unfold rewrap. rewrite K. reflexivity. Qed.
  Lemma tlimits_rewrap_drop V s i l h m : keep_limits V = false ->
    tlimits (rewrap V s i l h m) = Some (neg_infinity, infinity).
  Proof. intro K. unfold rewrap. rewrite K. reflexivity. Qed.
  Lemma tlimits_lift1_keep V f (x : mvalT) : keep_limits V = true -> tlimits (lift1 V f x) = tlimits x.
  Proof. intro K. destruct x; simpl; [reflexivity | apply tlimits_rewrap_keep; exact K]. Qed.

  (* REPAIRED code (with_base passes the limits on): the limits of a transformed message
     survive every expression *)
  Lemma limits_preserved V (env : list mvalT) (e : exprT) : keep_limits V = true -> forall v,
    eval O V env e = Some v ->
    exists v0, nth_error env (leftvar e) = Some v0 /\ tlimits v = tlimits v0.
  Proof.
    intro K.
    induction e as [n|x IHx y IHy|x IHx y IHy|x IHx k|x IHx c|x IHx c|x IHx y IHy z IHz|x IHx|x IHx];
      intros v H; simpl in H; simpl leftvar.
    - exists v. split; [exact H | reflexivity].
    - destruct (eval O V env x) as [vx|] eqn:Ex; [|discriminate].
      destruct (eval O V env y) as [vy|]; [|discriminate]. inversion H; subst.
      destruct (IHx vx eq_refl) as [v0 [N W]]. exists v0. split; [exact N|]. rewrite tlimits_lift1_keep by exact K. exact W.
    - destruct (eval O V env x) as [vx|] eqn:Ex; [|discriminate].
      destruct (eval O V env y) as [vy|]; [|destruct vx; discriminate].
      destruct (IHx vx eq_refl) as [v0 [N W]]. exists v0. split; [exact N|].
      destruct vx as [a|s i l h a]; destruct vy as [b|s' i' l' h' b]; simpl in H;
        try (destruct (is_fixed a); [|destruct (product_keeps_lognorm V); [|discriminate]]); inversion H; subst; simpl;
        rewrite ?tlimits_rewrap_keep by exact K; exact W.
    - destruct (eval O V env x) as [vx|] eqn:Ex; [|discriminate]. inversion H; subst.
      destruct (IHx vx eq_refl) as [v0 [N W]]. exists v0. split; [exact N|]. rewrite tlimits_lift1_keep by exact K. exact W.
    - destruct (eval O V env x) as [vx|] eqn:Ex; [|discriminate]. inversion H; subst.
      destruct (IHx vx eq_refl) as [v0 [N W]]. exists v0. split; [exact N|]. rewrite tlimits_lift1_keep by exact K. exact W.
    - destruct (eval O V env x) as [vx|] eqn:Ex; [|discriminate]. inversion H; subst.
      destruct (IHx vx eq_refl) as [v0 [N W]]. exists v0. split; [exact N|]. rewrite tlimits_lift1_keep by exact K. exact W.
    - destruct (eval O V env x) as [vx|] eqn:Ex; [|discriminate].
      destruct (IHx vx eq_refl) as [v0 [N W]]. exists v0. split; [exact N|].
      destruct vx as [a|s i l h a]; destruct (eval O V env y) as [vy|]; try discriminate;
        destruct (eval O V env z) as [vz|]; try discriminate; inversion H; subst;
        rewrite ?tlimits_rewrap_keep by exact K; exact W.
    - destruct (eval O V env x) as [vx|] eqn:Ex; [|discriminate].
      destruct (IHx vx eq_refl) as [v0 [N W]]. exists v0. split; [exact N|].
      destruct vx as [a|s i l h a]; inversion H; subst; rewrite ?tlimits_rewrap_keep by exact K; exact W.
    - destruct (eval O V env x) as [vx|] eqn:Ex; [|discriminate]. inversion H; subst.
      destruct (IHx vx eq_refl) as [v0 [N W]]. exists v0. split; [exact N|]. rewrite tlimits_lift1_keep by exact K. exact W.
  Qed.

  (* CURRENT code: every arithmetic result on a transformed message has limits (-inf, inf) *)
  Lemma limits_dropped V (env : list mvalT) (e : exprT) : keep_limits V = false -> is_var e = false ->
    forall s i l h m, eval O V env e = Some (MT s i l h m) -> (l, h) = (neg_infinity, infinity).
  Proof.
    intros K NV s i l h m H.
    assert (R : forall s0 i0 l0 h0 m0, rewrap V s0 i0 l0 h0 m0 = MT s i l h m -> (l, h) = (neg_infinity, infinity)).
    { intros s0 i0 l0 h0 m0 E. unfold rewrap in E. rewrite K in E. inversion E; reflexivity. }
    assert (L : forall f (x : mvalT), lift1 V f x = MT s i l h m -> (l, h) = (neg_infinity, infinity)).
    { intros f [a|s0 i0 l0 h0 a] E; simpl in E; [discriminate | eapply R; exact E]. }
    destruct e as [n|x y|x y|x k|x c|x c|x y z|x|x]; simpl in NV; try discriminate; simpl in H.
    - destruct (eval O V env x) as [vx|]; [|discriminate]. destruct (eval O V env y) as [vy|]; [|discriminate].
      inversion H as [E]. eapply L; exact E.
    - destruct (eval O V env x) as [vx|]; [|discriminate].
      destruct (eval O V env y) as [vy|]; [|destruct vx; discriminate].
      destruct vx as [a|s0 i0 l0 h0 a]; destruct vy as [b|s' i' l' h' b]; simpl in H;
        try (destruct (is_fixed a)); try (destruct (product_keeps_lognorm V)); try discriminate; inversion H as [E]; eapply R; exact E.
    - destruct (eval O V env x) as [vx|]; [|discriminate]. inversion H as [E]. eapply L; exact E.
    - destruct (eval O V env x) as [vx|]; [|discriminate]. inversion H as [E]. eapply L; exact E.
    - destruct (eval O V env x) as [vx|]; [|discriminate]. inversion H as [E]. eapply L; exact E.
    - destruct (eval O V env x) as [vx|]; [|discriminate].
      destruct vx as [a|s0 i0 l0 h0 a]; destruct (eval O V env y) as [vy|]; try discriminate;
        destruct (eval O V env z) as [vz|]; try discriminate; inversion H as [E]. eapply R; exact E.
    - destruct (eval O V env x) as [vx|]; [|discriminate].
      destruct vx as [a|s0 i0 l0 h0 a]; inversion H as [E]. eapply R; exact E.
    - destruct (eval O V env x) as [vx|]; [|discriminate]. inversion H as [E]. eapply L; exact E.
  Qed.

  (* base messages: id, limits and shape of the leftmost operand survive every expression *)
  Definition is_base (v : mvalT) : Prop := match v with MB _ => True | MT _ _ _ _ _ => False end.

  Lemma base_meta_preserved V (env : list mvalT) (e : exprT) : Forall is_base env -> forall v,
    eval O V env e = Some v ->
    exists m0 m, nth_error env (leftvar e) = Some (MB m0) /\ v = MB m /\ bmeta m = bmeta m0.
  Proof.
    intro B.
    assert (NB : forall n v, nth_error env n = Some v -> exists m, v = MB m).
    { intros n v H. apply nth_error_In in H. rewrite Forall_forall in B. specialize (B v H).
      destruct v as [m|]; [exists m; reflexivity | destruct B]. }
    induction e as [n|x IHx y IHy|x IHx y IHy|x IHx k|x IHx c|x IHx c|x IHx y IHy z IHz|x IHx|x IHx];
      intros v H; simpl in H; simpl leftvar.
    - destruct (NB n v H) as [m ->]. exists m, m. auto.
    - destruct (eval O V env x) as [vx|] eqn:Ex; [|discriminate].
      destruct (eval O V env y) as [vy|]; [|discriminate]. inversion H; subst.
      destruct (IHx vx eq_refl) as (m0 & m & N & -> & M). exists m0, (b_sum O V m [base_of vy]).
      simpl. rewrite b_sum_bmeta. auto.
    - destruct (eval O V env x) as [vx|] eqn:Ex; [|discriminate].
      destruct (IHx vx eq_refl) as (m0 & m & N & -> & M).
      destruct (eval O V env y) as [vy|]; [|discriminate].
      destruct vy as [b|s' i' l' h' b].
      + inversion H; subst. exists m0, (b_div O m b). simpl. rewrite b_div_bmeta. auto.
      + destruct (is_fixed m); [inversion H; subst; exists m0, m; auto|].
        destruct (product_keeps_lognorm V); [|discriminate]. inversion H; subst.
        exists m0, (b_div O m b). rewrite b_div_bmeta. auto.
    - destruct (eval O V env x) as [vx|] eqn:Ex; [|discriminate]. inversion H; subst.
      destruct (IHx vx eq_refl) as (m0 & m & N & -> & M). exists m0, (b_pow O m k). simpl. rewrite b_pow_bmeta. auto.
    - destruct (eval O V env x) as [vx|] eqn:Ex; [|discriminate]. inversion H; subst.
      destruct (IHx vx eq_refl) as (m0 & m & N & -> & M). exists m0, (b_smul O m c). simpl. rewrite b_smul_bmeta. auto.
    - destruct (eval O V env x) as [vx|] eqn:Ex; [|discriminate]. inversion H; subst.
      destruct (IHx vx eq_refl) as (m0 & m & N & -> & M). exists m0, (b_sdiv O V m c). simpl. rewrite b_sdiv_bmeta. auto.
    - destruct (eval O V env x) as [vx|] eqn:Ex; [|discriminate].
      destruct (IHx vx eq_refl) as (m0 & m & N & -> & M).
      destruct (eval O V env y) as [vy|]; try discriminate; destruct (eval O V env z) as [vz|]; try discriminate.
      inversion H; subst. exists m0, (b_sum O V m [base_of vy; base_of vz]). rewrite b_sum_bmeta. auto.
    - destruct (eval O V env x) as [vx|] eqn:Ex; [|discriminate].
      destruct (IHx vx eq_refl) as (m0 & m & N & -> & M). inversion H; subst.
      exists m0, (b_zeros O m). rewrite b_zeros_bmeta. auto.
    - destruct (eval O V env x) as [vx|] eqn:Ex; [|discriminate]. inversion H; subst.
      destruct (IHx vx eq_refl) as (m0 & m & N & -> & M). exists m0, (b_fromnat O m). simpl. auto.
  Qed.

  (* in-place item assignment is pointwise replacement: entry i becomes the new parameters, every
     other entry and all meta data are unchanged, so every query (a function of the parameters of
     the entry) equals the query on a fresh message with the current parameters *)
  Lemma replace_nth_same {A} (l : list A) (i : nat) (x : A) : (i < length l)%nat ->
    nth_error (replace_nth l i x) i = Some x.
  Proof. revert i. induction l as [|y l IH]; intros [|i] H; simpl in *; try lia; [reflexivity | apply IH; lia]. Qed.
  Lemma replace_nth_other {A} (l : list A) (i j : nat) (x : A) : i <> j ->
    nth_error (replace_nth l i x) j = nth_error l j.
  Proof. revert i j. induction l as [|y l IH]; intros [|i] [|j] H; simpl; try reflexivity; try congruence. apply IH. congruence. Qed.
  Lemma replace_nth_length {A} (l : list A) (i : nat) (x : A) : length (replace_nth l i x) = length l.
  Proof. revert i. induction l as [|y l IH]; intros [|i]; simpl; auto. Qed.

  Lemma setitem_pointwise (a : msgT) (i : nat) (p : list T) : (i < length (elems a))%nat ->
    nth_error (elems (setitem a i p)) i = Some p
    /\ (forall j, j <> i -> nth_error (elems (setitem a i p)) j = nth_error (elems a) j)
    /\ nth_error (nat_of O (setitem a i p)) i = Some (to_nat O (fam a) p)
    /\ (forall j, j <> i -> nth_error (nat_of O (setitem a i p)) j = nth_error (nat_of O a) j)
    /\ length (elems (setitem a i p)) = length (elems a)
    /\ bmeta (setitem a i p) = bmeta a /\ fam (setitem a i p) = fam a /\ lognorm (setitem a i p) = lognorm a.
  Proof.
    intro H. unfold setitem, nat_of; simpl. repeat split.
    - apply replace_nth_same. exact H.
    - intros j Hj. apply replace_nth_other. congruence.
    - rewrite nth_error_map, replace_nth_same by exact H. reflexivity.
    - intros j Hj. rewrite !nth_error_map, replace_nth_other by congruence. reflexivity.
    - apply replace_nth_length.
  Qed.

  (* zeros_like of a transformed message delegates to the base message (tzeros_via_base) *)
  Lemma transformed_zeros V s i l h (a : msgT) : tzeros_via_base V = true -> keep_limits V = true ->
    eval O V [MT s i l h a] (EZeros (EVar 0)) = Some (MT s i l h (b_zeros O a)).
  Proof. intros Z K. simpl. unfold rewrap. rewrite Z, K. reflexivity. Qed.

  (* the arithmetic of a transformed message is the arithmetic of its base *)
  Lemma transformed_div_mul V s i l h (a : msgT) s' i' l' h' (b : msgT) :
    eval O V [MT s i l h a; MT s' i' l' h' b] (EDiv (EMul (EVar 0) (EVar 1)) (EVar 1))
    = Some (rewrap V s i l h (b_div O (b_sum O V a [b]) b)).
  Proof.
    simpl. unfold rewrap. destruct (keep_limits V) eqn:K; simpl; unfold rewrap; rewrite K; reflexivity.
  Qed.
End Structure.

(* proposed repair of TransformedMessage.project: the samples are transformed before the base projection *)
Lemma tproj_cols_repaired (O : ops float) (V : variant) (stack : list (transform float))
  (cols : list (list float * list float)) : tproject_transforms V = true ->
  tproj_cols O V stack cols = map (fun c => (map (fun x => fst (transform_det O stack x)) (fst c), snd c)) cols.
Proof. intro H. unfold tproj_cols. rewrite H. reflexivity. Qed.

Lemma tproj_cols_legacy (O : ops float) (V : variant) (stack : list (transform float))
  (cols : list (list float * list float)) : tproject_transforms V = false -> tproj_cols O V stack cols = cols.
Proof. intro H. unfold tproj_cols. rewrite H. reflexivity. Qed.
