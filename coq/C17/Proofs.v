(* C17 lemmas over exact rationals: the generic model of Model.v instantiated with Q.
   Vectors of natural parameters have any length, messages any number of array elements. *)
From Coq Require Import ZArith List Bool Lia.
From Coq Require Import Floats.PrimFloat.
From PAFCommon Require Import PyFloat Lists.
From PAFC17 Require Import Model.
From Coq Require Import QArith Qfield Lqa Setoid Morphisms.
Import ListNotations.
Local Open Scope Q_scope.

Definition Qmaxf (a b : Q) : Q := if Qlt_le_dec a b then b else a.

(* libm/scipy functions do not occur in the algebraic laws: they are instantiated by
   placeholders here and by oracle tables in the binary64 instance *)
Definition Qops : ops Q :=
  mkops Q Qplus Qminus Qmult Qdiv Qopp (fun x => x) (fun x => x * x) 0 1 2 (1 # 2)
        (fun x => x) (fun x => x) (fun x => x) Qmaxf (fun n => inject_Z (Z.of_nat n))
        (fun x => x) (fun a b => (a, b)) 10 (fun x => x) (fun x => x) (fun x => x)
        4 0 (fun x => x) (fun a _ => a) (fun x => x).

Notation qmsg := (msg (T := Q)).
Notation veq := (Forall2 Qeq).
Notation eeq := (Forall2 (Forall2 Qeq)).

(* ------------------------------------------------------------------ *)
(* pointwise equality of vectors                                       *)

Lemma veq_refl (a : list Q) : veq a a.
Proof. induction a; constructor; [reflexivity | assumption]. Qed.

Lemma veq_sym (a b : list Q) : veq a b -> veq b a.
Proof. induction 1; constructor; [symmetry; assumption | assumption]. Qed.

Lemma veq_trans (a b c : list Q) : veq a b -> veq b c -> veq a c.
Proof.
  intro H. revert c. induction H; intros c Hc; inversion Hc; subst; constructor.
  - etransitivity; eassumption.
  - apply IHForall2. assumption.
Qed.

Lemma veq_length (a b : list Q) : veq a b -> length a = length b.
Proof. induction 1; cbn; congruence. Qed.

Lemma eeq_refl (a : list (list Q)) : eeq a a.
Proof. induction a; constructor; [apply veq_refl | assumption]. Qed.

Lemma eeq_sym (a b : list (list Q)) : eeq a b -> eeq b a.
Proof. induction 1; constructor; [apply veq_sym; assumption | assumption]. Qed.

Lemma eeq_trans (a b c : list (list Q)) : eeq a b -> eeq b c -> eeq a c.
Proof.
  intro H. revert c. induction H; intros c Hc; inversion Hc; subst; constructor.
  - eapply veq_trans; eassumption.
  - apply IHForall2. assumption.
Qed.

(* ------------------------------------------------------------------ *)
(* module laws of natural-parameter vectors, any dimension             *)

Notation qadd := (vadd Qops).
Notation qsub := (vsub Qops).
Notation qscale := (vscale Qops).

Lemma vadd_length (a b : list Q) : length a = length b -> length (qadd a b) = length a.
Proof.
  revert b. induction a as [|x a IH]; intros [|y b] H; cbn in *; try discriminate; auto.
  f_equal. apply IH. congruence.
Qed.

Lemma vsub_vadd (a b : list Q) : length a = length b -> veq (qsub (qadd a b) b) a.
Proof.
  revert b. induction a as [|x a IH]; intros [|y b] H; cbn in *; try discriminate; constructor.
  - ring.
  - apply IH. congruence.
Qed.

Lemma vadd_vsub (a b : list Q) : length a = length b -> veq (qadd (qsub a b) b) a.
Proof.
  revert b. induction a as [|x a IH]; intros [|y b] H; cbn in *; try discriminate; constructor.
  - ring.
  - apply IH. congruence.
Qed.

Lemma vadd_comm (a b : list Q) : veq (qadd a b) (qadd b a).
Proof.
  revert b. induction a as [|x a IH]; intros [|y b]; cbn; constructor.
  - ring.
  - apply IH.
Qed.

Lemma vadd_assoc (a b c : list Q) : veq (qadd (qadd a b) c) (qadd a (qadd b c)).
Proof.
  revert b c. induction a as [|x a IH]; intros [|y b] [|z c]; cbn; constructor.
  - ring.
  - apply IH.
Qed.

Lemma vscale_add (j k : Q) (a : list Q) : veq (qscale (j + k) a) (qadd (qscale j a) (qscale k a)).
Proof. induction a as [|x a IH]; cbn; constructor; [ring | exact IH]. Qed.

Lemma vscale_mul (j k : Q) (a : list Q) : veq (qscale k (qscale j a)) (qscale (j * k) a).
Proof. induction a as [|x a IH]; cbn; constructor; [ring | exact IH]. Qed.

Lemma vscale_one (a : list Q) : veq (qscale 1 a) a.
Proof. induction a as [|x a IH]; cbn; constructor; [ring | exact IH]. Qed.

Lemma vscale_zero (a : list Q) : veq (qscale 0 a) (map (fun _ => 0) a).
Proof. induction a as [|x a IH]; cbn; constructor; [ring | exact IH]. Qed.

Lemma vadd_zero (a z : list Q) : length a = length z -> Forall (fun x => x == 0) z -> veq (qadd a z) a.
Proof.
  revert z. induction a as [|x a IH]; intros [|y z] H Hz; cbn in *; try discriminate; constructor.
  - inversion Hz; subst. rewrite H2. ring.
  - apply IH; [congruence | inversion Hz; assumption].
Qed.

Lemma vadd_compat (a a' b b' : list Q) : veq a a' -> veq b b' -> veq (qadd a b) (qadd a' b').
Proof.
  intro H. revert b b'. induction H; intros b b' Hb; inversion Hb; subst; cbn; constructor.
  - cbn. rewrite H, H1. reflexivity.
  - apply IHForall2. assumption.
Qed.

Lemma vsub_compat (a a' b b' : list Q) : veq a a' -> veq b b' -> veq (qsub a b) (qsub a' b').
Proof.
  intro H. revert b b'. induction H; intros b b' Hb; inversion Hb; subst; cbn; constructor.
  - cbn. rewrite H, H1. reflexivity.
  - apply IHForall2. assumption.
Qed.

Lemma vscale_compat (k : Q) (a a' : list Q) : veq a a' -> veq (qscale k a) (qscale k a').
Proof. induction 1; cbn; constructor; [rewrite H; reflexivity | assumption]. Qed.

(* ------------------------------------------------------------------ *)
(* ordinary <-> natural parameters: the affine families                *)

Definition exact_family (f : family) : Prop := f = FNatural \/ f = FGamma \/ f = FBeta.

Notation qto := (to_nat Qops).
Notation qof := (of_nat Qops).

Lemma to_nat_length (f : family) (p : list Q) : exact_family f -> length p = 2%nat -> length (qto f p) = 2%nat.
Proof.
  intros [-> | [-> | ->]] H; destruct p as [|x [|y [|z p]]]; cbn in *; try discriminate; reflexivity.
Qed.

Lemma of_nat_length (f : family) (e : list Q) : exact_family f -> length e = 2%nat -> length (qof f e) = 2%nat.
Proof.
  intros [-> | [-> | ->]] H; destruct e as [|x [|y [|z e]]]; cbn in *; try discriminate; reflexivity.
Qed.

Lemma of_to_nat (f : family) (p : list Q) : exact_family f -> length p = 2%nat -> veq (qof f (qto f p)) p.
Proof.
  intros [-> | [-> | ->]] H; destruct p as [|x [|y [|z p]]]; cbn in *; try discriminate;
    repeat constructor; cbn; ring.
Qed.

Lemma to_of_nat (f : family) (e : list Q) : exact_family f -> length e = 2%nat -> veq (qto f (qof f e)) e.
Proof.
  intros [-> | [-> | ->]] H; destruct e as [|x [|y [|z e]]]; cbn in *; try discriminate;
    repeat constructor; cbn; ring.
Qed.

Lemma of_nat_compat (f : family) (e e' : list Q) : exact_family f -> veq e e' -> veq (qof f e) (qof f e').
Proof.
  intros [-> | [-> | ->]] H; cbn; try assumption;
    (destruct H as [|x x' e e' Hx H]; [constructor|];
     destruct H as [|y y' e e' Hy H]; [constructor|];
     destruct H as [|z z' e e' Hz H]; [|constructor]);
    repeat constructor; cbn; try rewrite Hx; try rewrite Hy; reflexivity.
Qed.

Lemma to_nat_compat (f : family) (p p' : list Q) : exact_family f -> veq p p' -> veq (qto f p) (qto f p').
Proof.
  intros [-> | [-> | ->]] H; cbn; try assumption;
    (destruct H as [|x x' e e' Hx H]; [constructor|];
     destruct H as [|y y' e e' Hy H]; [constructor|];
     destruct H as [|z z' e e' Hz H]; [|constructor]);
    repeat constructor; cbn; try rewrite Hx; try rewrite Hy; reflexivity.
Qed.

(* ------------------------------------------------------------------ *)
(* messages                                                            *)

Definition wf (m : qmsg) : Prop := Forall (fun p => length p = 2%nat) (elems m).
Definition same_shape (a b : qmsg) : Prop := length (elems a) = length (elems b).

(* equality of messages: parameters pointwise, everything else exactly *)
Definition meta_eq (a b : qmsg) : Prop :=
  fam a = fam b /\ scalar a = scalar b /\ mid a = mid b /\ lo a = lo b /\ hi a = hi b.
Definition msg_equiv_upto_lognorm (a b : qmsg) : Prop := meta_eq a b /\ eeq (elems a) (elems b).
Definition msg_equiv (a b : qmsg) : Prop := msg_equiv_upto_lognorm a b /\ lognorm a == lognorm b.

Notation qnat := (nat_of Qops).
Notation qsum := (b_sum Qops pinned).
Notation qdiv := (b_div Qops).
Notation qpow := (b_pow Qops).
Notation qzeros := (b_zeros Qops).

Lemma exact_not_fixed (a : qmsg) : exact_family (fam a) -> is_fixed a = false.
Proof. unfold is_fixed. intros [-> | [-> | ->]]; reflexivity. Qed.

Lemma nat_of_wf (a : qmsg) : exact_family (fam a) -> wf a -> Forall (fun e => length e = 2%nat) (qnat a).
Proof.
  intros Hf H. unfold nat_of. apply Forall_forall. intros e He. apply in_map_iff in He.
  destruct He as [p [<- Hp]]. apply to_nat_length; [exact Hf|]. unfold wf in H. rewrite Forall_forall in H. auto.
Qed.

Lemma nat_of_length (a : qmsg) : length (qnat a) = length (elems a).
Proof. unfold nat_of. apply map_length. Qed.

(* generic: rebuilding through of_nat and reading the natural parameters back *)
Lemma rebuild_nat (f : family) (etas : list (list Q)) : exact_family f ->
  Forall (fun e => length e = 2%nat) etas -> eeq (map (qto f) (map (qof f) etas)) etas.
Proof.
  intros Hf H. induction H; cbn; constructor; [apply to_of_nat; assumption | assumption].
Qed.

Lemma map2_vadd_len (x y : list (list Q)) :
  Forall (fun e => length e = 2%nat) x -> Forall (fun e => length e = 2%nat) y ->
  Forall (fun e => length e = 2%nat) (map2 qadd x y).
Proof.
  intro H. revert y. induction H; intros y Hy; destruct Hy; cbn; constructor.
  - rewrite vadd_length; congruence.
  - apply IHForall. assumption.
Qed.

Lemma vsub_length (a b : list Q) : length a = length b -> length (qsub a b) = length a.
Proof.
  revert b. induction a as [|x a IH]; intros [|y b] H; cbn in *; try discriminate; auto.
  f_equal. apply IH. congruence.
Qed.

Lemma map2_vsub_len (x y : list (list Q)) :
  Forall (fun e => length e = 2%nat) x -> Forall (fun e => length e = 2%nat) y ->
  Forall (fun e => length e = 2%nat) (map2 qsub x y).
Proof.
  intro H. revert y. induction H; intros y Hy; destruct Hy; cbn; constructor.
  - rewrite vsub_length; congruence.
  - apply IHForall. assumption.
Qed.

Lemma map_vscale_len (k : Q) (x : list (list Q)) :
  Forall (fun e => length e = 2%nat) x -> Forall (fun e => length e = 2%nat) (map (qscale k) x).
Proof. induction 1; cbn; constructor; [unfold vscale; rewrite map_length; assumption | assumption]. Qed.

(* additivity / linearity on natural parameters, through the ordinary-parameter round trip *)
Lemma sum_additive (a b : qmsg) : exact_family (fam a) -> exact_family (fam b) -> wf a -> wf b ->
  eeq (qnat (qsum a [b])) (map2 qadd (qnat a) (qnat b)).
Proof.
  intros Ha Hb Wa Wb. unfold b_sum. rewrite exact_not_fixed by exact Ha. unfold nat_of at 1. cbn.
  apply rebuild_nat; [exact Ha|]. apply map2_vadd_len; apply nat_of_wf; assumption.
Qed.

Lemma div_subtractive (a b : qmsg) : exact_family (fam a) -> exact_family (fam b) -> wf a -> wf b ->
  eeq (qnat (qdiv a b)) (map2 qsub (qnat a) (qnat b)).
Proof.
  intros Ha Hb Wa Wb. unfold b_div. rewrite exact_not_fixed by exact Ha. unfold nat_of at 1. cbn.
  apply rebuild_nat; [exact Ha|]. apply map2_vsub_len; apply nat_of_wf; assumption.
Qed.

Lemma pow_linear (a : qmsg) (k : Q) : exact_family (fam a) -> wf a ->
  eeq (qnat (qpow a k)) (map (qscale k) (qnat a)).
Proof.
  intros Ha Wa. unfold b_pow. rewrite exact_not_fixed by exact Ha. unfold nat_of at 1. cbn.
  apply rebuild_nat; [exact Ha|]. apply map_vscale_len. apply nat_of_wf; assumption.
Qed.

(* well-formedness is preserved *)
Lemma of_nat_wf (f : family) (etas : list (list Q)) : exact_family f ->
  Forall (fun e => length e = 2%nat) etas -> Forall (fun p => length p = 2%nat) (map (qof f) etas).
Proof. intros Hf H. induction H; cbn; constructor; [apply of_nat_length; assumption | assumption]. Qed.

Lemma sum_wf (a b : qmsg) : exact_family (fam a) -> exact_family (fam b) -> wf a -> wf b -> wf (qsum a [b]).
Proof.
  intros Ha Hb Wa Wb. unfold wf, b_sum. rewrite exact_not_fixed by exact Ha. cbn.
  apply of_nat_wf; [exact Ha|]. apply map2_vadd_len; apply nat_of_wf; assumption.
Qed.

Lemma pow_wf (a : qmsg) (k : Q) : exact_family (fam a) -> wf a -> wf (qpow a k).
Proof.
  intros Ha Wa. unfold wf, b_pow. rewrite exact_not_fixed by exact Ha. cbn.
  apply of_nat_wf; [exact Ha|]. apply map_vscale_len. apply nat_of_wf; assumption.
Qed.

Lemma div_wf (a b : qmsg) : exact_family (fam a) -> exact_family (fam b) -> wf a -> wf b -> wf (qdiv a b).
Proof.
  intros Ha Hb Wa Wb. unfold wf, b_div. rewrite exact_not_fixed by exact Ha. cbn.
  apply of_nat_wf; [exact Ha|]. apply map2_vsub_len; apply nat_of_wf; assumption.
Qed.

Lemma sum_fam (a b : qmsg) : fam (qsum a [b]) = fam a.
Proof. unfold b_sum. destruct (is_fixed a); reflexivity. Qed.
Lemma div_fam (a b : qmsg) : fam (qdiv a b) = fam a.
Proof. unfold b_div. destruct (is_fixed a); reflexivity. Qed.
Lemma pow_fam (a : qmsg) (k : Q) : fam (qpow a k) = fam a.
Proof. unfold b_pow. destruct (is_fixed a); reflexivity. Qed.

(* projections of the results *)
Lemma sum_elems (a b : qmsg) : exact_family (fam a) ->
  elems (qsum a [b]) = map (qof (fam a)) (map2 qadd (qnat a) (qnat b)).
Proof. intro H. unfold b_sum. rewrite exact_not_fixed by exact H. reflexivity. Qed.
Lemma sum3_elems (a b c : qmsg) : exact_family (fam a) ->
  elems (qsum a [b; c]) = map (qof (fam a)) (map2 qadd (map2 qadd (qnat a) (qnat b)) (qnat c)).
Proof. intro H. unfold b_sum. rewrite exact_not_fixed by exact H. reflexivity. Qed.
Lemma div_elems (a b : qmsg) : exact_family (fam a) ->
  elems (qdiv a b) = map (qof (fam a)) (map2 qsub (qnat a) (qnat b)).
Proof. intro H. unfold b_div. rewrite exact_not_fixed by exact H. reflexivity. Qed.
Lemma pow_elems (a : qmsg) (k : Q) : exact_family (fam a) ->
  elems (qpow a k) = map (qof (fam a)) (map (qscale k) (qnat a)).
Proof. intro H. unfold b_pow. rewrite exact_not_fixed by exact H. reflexivity. Qed.
Lemma sum_lognorm (a : qmsg) (l : list qmsg) : exact_family (fam a) -> lognorm (qsum a l) = 0.
Proof. intro H. unfold b_sum. rewrite exact_not_fixed by exact H. reflexivity. Qed.
Lemma div_lognorm (a b : qmsg) : exact_family (fam a) -> lognorm (qdiv a b) = lognorm a - lognorm b.
Proof. intro H. unfold b_div. rewrite exact_not_fixed by exact H. reflexivity. Qed.
Lemma pow_lognorm (a : qmsg) (k : Q) : exact_family (fam a) -> lognorm (qpow a k) = k * lognorm a.
Proof. intro H. unfold b_pow. rewrite exact_not_fixed by exact H. reflexivity. Qed.
Lemma sum_meta (a : qmsg) (l : list qmsg) : meta_eq (qsum a l) a.
Proof. unfold meta_eq, b_sum. destruct (is_fixed a); cbn; repeat split; reflexivity. Qed.
Lemma div_meta (a b : qmsg) : meta_eq (qdiv a b) a.
Proof. unfold meta_eq, b_div. destruct (is_fixed a); cbn; repeat split; reflexivity. Qed.
Lemma pow_meta (a : qmsg) (k : Q) : meta_eq (qpow a k) a.
Proof. unfold meta_eq, b_pow. destruct (is_fixed a); cbn; repeat split; reflexivity. Qed.
Lemma meta_trans (a b c : qmsg) : meta_eq a b -> meta_eq b c -> meta_eq a c.
Proof. unfold meta_eq. intros (A1 & A2 & A3 & A4 & A5) (B1 & B2 & B3 & B4 & B5). repeat split; congruence. Qed.
Lemma meta_sym (a b : qmsg) : meta_eq a b -> meta_eq b a.
Proof. unfold meta_eq. intros (A1 & A2 & A3 & A4 & A5). repeat split; congruence. Qed.

(* elementwise lifting of vector identities *)
Lemma map2_pointwise (x y z : list (list Q)) (f g : list Q -> list Q -> list Q) :
  length x = length y ->
  Forall (fun e => length e = 2%nat) x -> Forall (fun e => length e = 2%nat) y ->
  (forall u v, length u = 2%nat -> length v = 2%nat -> veq (f (g u v) v) u) ->
  (forall u u' v, veq u u' -> veq (f u v) (f u' v)) ->
  eeq z (map2 g x y) -> eeq (map2 f z y) x.
Proof.
  intros L Hx Hy Hfg Hc. revert y z L Hy. induction Hx as [|u x Hu Hx IH]; intros [|v y] z L Hy Hz; cbn in *; try discriminate.
  - inversion Hz; subst. cbn. constructor.
  - inversion Hz; subst. inversion Hy; subst. cbn. constructor.
    + eapply veq_trans; [apply Hc; eassumption | apply Hfg; assumption].
    + apply IH; [congruence | assumption | assumption].
Qed.

Lemma params_from_nat (a : qmsg) (etas : list (list Q)) : exact_family (fam a) -> wf a ->
  eeq etas (qnat a) -> eeq (map (qof (fam a)) etas) (elems a).
Proof.
  intros Ha Wa H. unfold nat_of in H. unfold wf in Wa. revert etas H.
  induction Wa as [|p ps Hp Wa IH]; intros etas H; inversion H; subst; cbn; constructor.
  - eapply veq_trans; [apply of_nat_compat; [exact Ha | eassumption] | apply of_to_nat; assumption].
  - apply IH. assumption.
Qed.

(* (a*b)/b: parameters, class, shape, id and limits of a; log_norm = -log_norm b (DEFECT:
   the product does not carry log_norm) *)
Lemma div_mul_partial (a b : qmsg) : exact_family (fam a) -> exact_family (fam b) -> wf a -> wf b ->
  same_shape a b ->
  msg_equiv_upto_lognorm (qdiv (qsum a [b]) b) a /\ lognorm (qdiv (qsum a [b]) b) == - lognorm b.
Proof.
  intros Ha Hb Wa Wb S.
  assert (Hab : exact_family (fam (qsum a [b]))) by (rewrite sum_fam; exact Ha).
  assert (Wab : wf (qsum a [b])) by (apply sum_wf; assumption).
  pose proof (sum_additive a b Ha Hb Wa Wb) as Add.
  split; [split|].
  - eapply meta_trans; [apply div_meta | apply sum_meta].
  - rewrite div_elems by exact Hab. rewrite sum_fam.
    apply params_from_nat; [exact Ha | exact Wa |].
    apply (map2_pointwise (qnat a) (qnat b) (qnat (qsum a [b])) qsub qadd).
    + rewrite !nat_of_length. exact S.
    + apply nat_of_wf; assumption.
    + apply nat_of_wf; assumption.
    + intros u v Lu Lv. apply vsub_vadd. congruence.
    + intros u u' v Hu. apply vsub_compat; [exact Hu | apply veq_refl].
    + exact Add.
  - rewrite div_lognorm by exact Hab. rewrite sum_lognorm by exact Ha. ring.
Qed.

Lemma div_mul_full_iff (a b : qmsg) : exact_family (fam a) -> exact_family (fam b) -> wf a -> wf b ->
  same_shape a b -> (msg_equiv (qdiv (qsum a [b]) b) a <-> lognorm a + lognorm b == 0).
Proof.
  intros Ha Hb Wa Wb S. destruct (div_mul_partial a b Ha Hb Wa Wb S) as [P L]. unfold msg_equiv. split.
  - intros [_ E]. rewrite L in E. rewrite <- E. ring.
  - intro E. split; [exact P|]. rewrite L. lra.
Qed.

Lemma mul_div_partial (a b : qmsg) : exact_family (fam a) -> exact_family (fam b) -> wf a -> wf b ->
  same_shape a b ->
  msg_equiv_upto_lognorm (qsum (qdiv a b) [b]) a /\ lognorm (qsum (qdiv a b) [b]) == 0.
Proof.
  intros Ha Hb Wa Wb S.
  assert (Hab : exact_family (fam (qdiv a b))) by (rewrite div_fam; exact Ha).
  assert (Wab : wf (qdiv a b)) by (apply div_wf; assumption).
  pose proof (div_subtractive a b Ha Hb Wa Wb) as Sub.
  split; [split|].
  - eapply meta_trans; [apply sum_meta | apply div_meta].
  - rewrite sum_elems by exact Hab. rewrite div_fam.
    apply params_from_nat; [exact Ha | exact Wa |].
    apply (map2_pointwise (qnat a) (qnat b) (qnat (qdiv a b)) qadd qsub).
    + rewrite !nat_of_length. exact S.
    + apply nat_of_wf; assumption.
    + apply nat_of_wf; assumption.
    + intros u v Lu Lv. apply vadd_vsub. congruence.
    + intros u u' v Hu. apply vadd_compat; [exact Hu | apply veq_refl].
    + exact Sub.
  - rewrite sum_lognorm by exact Hab. reflexivity.
Qed.

Lemma eeq_map_compat (f : list Q -> list Q) (x y : list (list Q)) :
  (forall u u', veq u u' -> veq (f u) (f u')) -> eeq x y -> eeq (map f x) (map f y).
Proof. intros Hc H. induction H; cbn [map]; constructor; [apply Hc; assumption | assumption]. Qed.

Lemma eeq_map2_compat (f : list Q -> list Q -> list Q) (x x' y y' : list (list Q)) :
  (forall u u' v v', veq u u' -> veq v v' -> veq (f u v) (f u' v')) ->
  eeq x x' -> eeq y y' -> eeq (map2 f x y) (map2 f x' y').
Proof.
  intros Hc H. revert y y'. induction H as [|u u' x x' Hu H IH]; intros y0 y0' Hy; inversion Hy; subst; cbn [map2]; constructor.
  - apply Hc; assumption.
  - apply IH. assumption.
Qed.

Lemma elems_of_nat_compat (f : family) (x y : list (list Q)) : exact_family f -> eeq x y ->
  eeq (map (qof f) x) (map (qof f) y).
Proof. intros Hf H. apply eeq_map_compat; [intros; apply of_nat_compat; assumption | exact H]. Qed.

Lemma pow_one (a : qmsg) : exact_family (fam a) -> wf a -> msg_equiv (qpow a 1) a.
Proof.
  intros Ha Wa. split; [split|].
  - apply pow_meta.
  - rewrite pow_elems by exact Ha. apply params_from_nat; [exact Ha | exact Wa |].
    clear. induction (qnat a) as [|u x IH]; cbn [map]; constructor; [apply vscale_one | exact IH].
  - rewrite pow_lognorm by exact Ha. ring.
Qed.

Lemma pow_mul (a : qmsg) (j k : Q) : exact_family (fam a) -> wf a ->
  msg_equiv (qpow (qpow a j) k) (qpow a (j * k)).
Proof.
  intros Ha Wa.
  assert (Hj : exact_family (fam (qpow a j))) by (rewrite pow_fam; exact Ha).
  pose proof (pow_linear a j Ha Wa) as Lin.
  split; [split|].
  - eapply meta_trans; [apply pow_meta|]. eapply meta_trans; [apply pow_meta | apply meta_sym, pow_meta].
  - rewrite (pow_elems (qpow a j)) by exact Hj. rewrite pow_fam. rewrite (pow_elems a (j * k)) by exact Ha.
    apply elems_of_nat_compat; [exact Ha|].
    eapply eeq_trans; [apply eeq_map_compat; [apply vscale_compat | exact Lin]|].
    rewrite map_map. clear. induction (qnat a) as [|u x IH]; cbn [map]; constructor; [apply vscale_mul | exact IH].
  - rewrite !pow_lognorm by assumption. ring.
Qed.

(* a**j * a**k: parameters, class, id, limits of a**(j+k); log_norm 0 instead of (j+k) log_norm a *)
Lemma pow_add_partial (a : qmsg) (j k : Q) : exact_family (fam a) -> wf a ->
  msg_equiv_upto_lognorm (qsum (qpow a j) [qpow a k]) (qpow a (j + k))
  /\ lognorm (qsum (qpow a j) [qpow a k]) == 0 /\ lognorm (qpow a (j + k)) == (j + k) * lognorm a.
Proof.
  intros Ha Wa.
  assert (Hj : exact_family (fam (qpow a j))) by (rewrite pow_fam; exact Ha).
  assert (Hk : exact_family (fam (qpow a k))) by (rewrite pow_fam; exact Ha).
  pose proof (pow_linear a j Ha Wa) as Lj. pose proof (pow_linear a k Ha Wa) as Lk.
  split; [split|split].
  - eapply meta_trans; [apply sum_meta|]. eapply meta_trans; [apply pow_meta | apply meta_sym, pow_meta].
  - rewrite sum_elems by exact Hj. rewrite pow_fam. rewrite (pow_elems a (j + k)) by exact Ha.
    apply elems_of_nat_compat; [exact Ha|].
    eapply eeq_trans; [apply eeq_map2_compat; [apply vadd_compat | exact Lj | exact Lk]|].
    clear. induction (qnat a) as [|u x IH]; cbn [map map2]; constructor; [apply veq_sym, vscale_add | exact IH].
  - rewrite sum_lognorm by exact Hj. reflexivity.
  - rewrite pow_lognorm by exact Ha. reflexivity.
Qed.

(* zeros_like: natural parameters all zero, and it is the unit of the product on parameters *)
Lemma zeros_is_pow0 (a : qmsg) : exact_family (fam a) -> qzeros a = qpow a 0.
Proof. intros [H|[H|H]]; unfold b_zeros; rewrite H; reflexivity. Qed.

Lemma zeros_nat (a : qmsg) : exact_family (fam a) -> wf a ->
  eeq (qnat (qzeros a)) (map (map (fun _ => 0)) (qnat a)).
Proof.
  intros Ha Wa. rewrite zeros_is_pow0 by exact Ha. eapply eeq_trans; [apply pow_linear; assumption|].
  clear. induction (qnat a) as [|u x IH]; cbn [map]; constructor; [apply vscale_zero | exact IH].
Qed.

Lemma mul_zeros_partial (a : qmsg) : exact_family (fam a) -> wf a ->
  msg_equiv_upto_lognorm (qsum a [qzeros a]) a.
Proof.
  intros Ha Wa. rewrite zeros_is_pow0 by exact Ha.
  pose proof (pow_linear a 0 Ha Wa) as L0.
  split.
  - apply sum_meta.
  - rewrite sum_elems by exact Ha. apply params_from_nat; [exact Ha | exact Wa |].
    pose proof (nat_of_wf a Ha Wa) as W2. revert L0. generalize (qnat (qpow a 0)).
    induction W2 as [|u x Hu W2 IH]; intros z Hz; inversion Hz; subst; cbn [map map2]; constructor.
    + eapply veq_trans; [apply vadd_compat; [apply veq_refl | eassumption]|].
      apply vadd_zero.
      * unfold vscale. rewrite map_length. reflexivity.
      * unfold vscale. apply Forall_forall. intros q Hq. apply in_map_iff in Hq. destruct Hq as [y [<- _]]. cbn. ring.
    + apply IH. assumption.
Qed.

(* commutativity / associativity on natural parameters (ids and limits are those of the left operand) *)
Lemma mul_comm_nat (a b : qmsg) : exact_family (fam a) -> exact_family (fam b) -> wf a -> wf b ->
  eeq (qnat (qsum a [b])) (qnat (qsum b [a])).
Proof.
  intros Ha Hb Wa Wb.
  eapply eeq_trans; [apply sum_additive; assumption|].
  eapply eeq_trans; [|apply eeq_sym, sum_additive; assumption].
  generalize (qnat a) (qnat b). clear. induction l as [|u x IH]; intros [|v y]; cbn [map2]; constructor.
  - apply vadd_comm.
  - apply IH.
Qed.

Lemma mul_assoc_nat (a b c : qmsg) : exact_family (fam a) -> exact_family (fam b) -> exact_family (fam c) ->
  wf a -> wf b -> wf c ->
  eeq (qnat (qsum (qsum a [b]) [c])) (qnat (qsum a [qsum b [c]])).
Proof.
  intros Ha Hb Hc Wa Wb Wc.
  assert (Hab : exact_family (fam (qsum a [b]))) by (rewrite sum_fam; exact Ha).
  assert (Hbc : exact_family (fam (qsum b [c]))) by (rewrite sum_fam; exact Hb).
  eapply eeq_trans; [apply sum_additive; try assumption; apply sum_wf; assumption|].
  eapply eeq_trans; [|apply eeq_sym, sum_additive; try assumption; apply sum_wf; assumption].
  eapply eeq_trans; [apply eeq_map2_compat; [apply vadd_compat | apply sum_additive; assumption | apply eeq_refl]|].
  eapply eeq_trans; [|apply eeq_map2_compat; [apply vadd_compat | apply eeq_refl | apply eeq_sym, sum_additive; assumption]].
  generalize (qnat a) (qnat b) (qnat c). clear.
  induction l as [|u x IH]; intros [|v y] [|w z]; cbn [map2]; constructor.
  - apply vadd_assoc.
  - apply IH.
Qed.

(* sum_natural_parameters(b, c) is the product taken twice *)
Lemma sum3_is_two_products (a b c : qmsg) : exact_family (fam a) -> exact_family (fam b) -> exact_family (fam c) ->
  wf a -> wf b -> wf c ->
  msg_equiv (qsum a [b; c]) (qsum (qsum a [b]) [c]).
Proof.
  intros Ha Hb Hc Wa Wb Wc.
  assert (Hab : exact_family (fam (qsum a [b]))) by (rewrite sum_fam; exact Ha).
  pose proof (sum_additive a b Ha Hb Wa Wb) as Add.
  split; [split|].
  - eapply meta_trans; [apply sum_meta|]. apply meta_sym. eapply meta_trans; apply sum_meta.
  - rewrite sum3_elems by exact Ha. rewrite (sum_elems (qsum a [b]) c) by exact Hab. rewrite sum_fam.
    apply elems_of_nat_compat; [exact Ha|].
    apply eeq_map2_compat; [apply vadd_compat | apply eeq_sym; exact Add | apply eeq_refl].
  - rewrite !sum_lognorm by assumption. reflexivity.
Qed.

(* ------------------------------------------------------------------ *)
(* fixed messages: arithmetic is the identity (any number type)        *)

Section Fixed.
  Context {T : Type} (O : ops T) (V : variant).
  Lemma fixed_sum (a : msg (T := T)) (l : list msg) : fam a = FFixed -> b_sum O V a l = a.
  Proof. intro H. unfold b_sum, is_fixed. rewrite H. reflexivity. Qed.
  Lemma fixed_div (a b : msg (T := T)) : fam a = FFixed -> b_div O a b = a.
  Proof. intro H. unfold b_div, is_fixed. rewrite H. reflexivity. Qed.
  Lemma fixed_pow (a : msg (T := T)) (k : T) : fam a = FFixed -> b_pow O a k = a.
  Proof. intro H. unfold b_pow, is_fixed. rewrite H. reflexivity. Qed.
  (* with `__truediv__ = _no_op` (proposed) division by a real is the identity too *)
  Lemma fixed_sdiv (a : msg (T := T)) (c : T) : fam a = FFixed -> fixed_truediv_noop V = true ->
    b_sdiv O V a c = a /\ b_sdiv O V (b_smul O a c) c = a.
  Proof.
    intros H K. assert (S : b_smul O a c = a) by (unfold b_smul, is_fixed; rewrite H; reflexivity).
    rewrite S. unfold b_sdiv, is_fixed. rewrite H, K. split; reflexivity.
  Qed.
  Lemma fixed_zeros (a : msg (T := T)) : fam a = FFixed -> b_zeros O a = a.
  Proof. intro H. unfold b_zeros. rewrite H. apply fixed_pow. exact H. Qed.
  Lemma fixed_laws (a b : msg (T := T)) (j k : T) : fam a = FFixed ->
    b_div O (b_sum O V a [b]) b = a /\ b_sum O V (b_div O a b) [b] = a
    /\ b_sum O V (b_pow O a j) [b_pow O a k] = b_pow O a (oadd O j k) /\ b_sum O V a [b_zeros O a] = a.
  Proof.
    intro H. repeat split.
    - rewrite (fixed_sum a [b] H). apply fixed_div. exact H.
    - rewrite (fixed_div a b H). apply fixed_sum. exact H.
    - rewrite !(fixed_pow a _ H). apply fixed_sum. exact H.
    - apply fixed_sum. exact H.
  Qed.
End Fixed.

(* ------------------------------------------------------------------ *)
(* moment matching                                                      *)

Notation qseqsum := (seqsum Qops).
Notation qmean := (mean Qops).

Lemma fold_add_acc (l : list Q) (acc : Q) : fold_left Qplus l acc == acc + fold_left Qplus l 0.
Proof.
  revert acc. induction l as [|x l IH]; intro acc; cbn; [ring|].
  rewrite (IH (acc + x)), (IH (0 + x)). ring.
Qed.

Lemma seqsum_cons (x : Q) (l : list Q) : qseqsum (x :: l) == x + qseqsum l.
Proof. unfold seqsum. cbn. rewrite fold_add_acc. ring. Qed.

Lemma seqsum_scaled (t w : list Q) (c : Q) : ~ c == 0 ->
  qseqsum (map2 Qmult t (map (fun x => x / c) w)) == qseqsum (map2 Qmult t w) / c.
Proof.
  intro Hc. revert w. induction t as [|x t IH]; intros [|y w]; cbn [map2].
  - unfold seqsum. cbn. field. exact Hc.
  - unfold seqsum. cbn. field. exact Hc.
  - unfold seqsum. cbn. field. exact Hc.
  - cbn [map]. cbn [map2]. rewrite !seqsum_cons, IH. field. exact Hc.
Qed.

Lemma map2_map_length {A B C D} (f : A -> B -> C) (g : D -> B) (t : list A) (w : list D) :
  length t = length w -> length (map2 f t (map g w)) = length w.
Proof.
  revert w. induction t as [|x t IH]; intros [|y w] H; cbn in *; try discriminate; auto.
Qed.

Lemma inject_nat_nonzero (n : nat) : n <> O -> ~ inject_Z (Z.of_nat n) == 0.
Proof. intros H E. unfold Qeq in E. cbn in E. lia. Qed.

(* the statistic computed by project is the weighted average  sum(t_i w_i) / sum(w_i) *)
Lemma project_weighted_mean (t w : list Q) : length t = length w -> w <> [] -> ~ qseqsum w == 0 ->
  wstat Qops t (fst (norm_weights Qops w)) == qseqsum (map2 Qmult t w) / qseqsum w.
Proof.
  intros L Hw Hs. unfold wstat, norm_weights, mean. cbn [fst omul odiv oofnat Qops].
  rewrite map2_map_length by exact L.
  assert (Ln : ~ inject_Z (Z.of_nat (length w)) == 0).
  { apply inject_nat_nonzero. destruct w; [congruence | discriminate]. }
  set (n := inject_Z (Z.of_nat (length w))) in *.
  assert (Hn : ~ qseqsum w / n == 0).
  { intro E. apply Hs. setoid_replace (qseqsum w) with (qseqsum w / n * n) by (field; exact Ln). rewrite E. ring. }
  rewrite seqsum_scaled by exact Hn. field. split; assumption.
Qed.

(* the rescaled weights have mean one *)
Lemma norm_weights_mean_one (w : list Q) : w <> [] -> ~ qseqsum w == 0 ->
  qmean (fst (norm_weights Qops w)) == 1.
Proof.
  intros Hw Hs.
  assert (E : qmean (fst (norm_weights Qops w)) == wstat Qops (map (fun _ => 1) w) (fst (norm_weights Qops w))).
  { unfold wstat, norm_weights. cbn [fst omul odiv Qops]. generalize (mean Qops w). intro c.
    assert (M : forall l : list Q, veq (map (fun x => x / c) l) (map2 Qmult (map (fun _ => 1) l) (map (fun x => x / c) l))).
    { induction l as [|x l IH]; cbn; constructor; [ring | exact IH]. }
    unfold mean. specialize (M w). rewrite (veq_length _ _ M).
    assert (S : forall l l', veq l l' -> qseqsum l == qseqsum l').
    { induction 1 as [|x y l l' Hxy Hl IH]; [reflexivity|]. rewrite !seqsum_cons, Hxy, IH. reflexivity. }
    rewrite (S _ _ M). reflexivity. }
  rewrite E, project_weighted_mean; [| rewrite map_length; reflexivity | exact Hw | exact Hs].
  assert (O1 : forall l : list Q, qseqsum (map2 Qmult (map (fun _ => 1) l) l) == qseqsum l).
  { induction l as [|x l IH]; [reflexivity|]. cbn [map map2]. rewrite !seqsum_cons, IH. ring. }
  rewrite O1. field. exact Hs.
Qed.

(* NaturalNormal.invert_sufficient_statistics: the member has mean m1 and second moment m2 *)
Lemma natural_moment_match (m1 m2 : Q) : ~ m2 - m1 * m1 == 0 ->
  match from_suff Qops FNatural [m1; m2] with
  | [e1; e2] => - e1 / (2 * e2) == m1 /\ - (1 # 1) / (2 * e2) + m1 * m1 == m2
  | _ => False
  end.
Proof. intro H. cbn. split; field; auto. Qed.

(* ------------------------------------------------------------------ *)
(* PROPOSED repair (proposed_fixes/C17-product-keeps-lognorm): sum_natural_parameters carries log_norm.
   For every variant with that flag the self-consistency laws hold in full, log_norm included. *)
Section KeepLognorm.
  Variable V : variant.
  Hypothesis K : product_keeps_lognorm V = true.
  Notation ksum := (b_sum Qops V).

  Lemma ksum_fields (a : qmsg) (l : list qmsg) :
    meta_eq (ksum a l) (qsum a l) /\ elems (ksum a l) = elems (qsum a l).
  Proof. unfold meta_eq, b_sum. destruct (is_fixed a); cbn; repeat split; reflexivity. Qed.

  Lemma ksum_lognorm (a b : qmsg) : exact_family (fam a) -> lognorm (ksum a [b]) == lognorm a + lognorm b.
  Proof. intro H. unfold b_sum. rewrite exact_not_fixed by exact H. rewrite K. cbn. ring. Qed.

  Lemma ksum_upto (a : qmsg) (l : list qmsg) : msg_equiv_upto_lognorm (ksum a l) (qsum a l).
  Proof. destruct (ksum_fields a l) as [M E]. split; [exact M | rewrite E; apply eeq_refl]. Qed.

  Lemma upto_trans (a b c : qmsg) : msg_equiv_upto_lognorm a b -> msg_equiv_upto_lognorm b c -> msg_equiv_upto_lognorm a c.
  Proof. intros [M1 E1] [M2 E2]. split; [eapply meta_trans; eassumption | eapply eeq_trans; eassumption]. Qed.

  (* division only looks at class, parameters and meta data of its left operand *)
  Lemma div_cong (x y b : qmsg) : meta_eq x y -> elems x = elems y ->
    meta_eq (qdiv x b) (qdiv y b) /\ elems (qdiv x b) = elems (qdiv y b).
  Proof.
    destruct x as [fx sx ex lx ix lox hix], y as [fy sy ey ly iy loy hiy]. unfold meta_eq. cbn.
    intros (F & S & I & L & H) E. subst. unfold b_div, is_fixed, nat_of. cbn.
    destruct (family_eqb fy FFixed); cbn; repeat split; reflexivity.
  Qed.

  Lemma div_mul_full (a b : qmsg) : exact_family (fam a) -> exact_family (fam b) -> wf a -> wf b ->
    same_shape a b -> msg_equiv (qdiv (ksum a [b]) b) a.
  Proof.
    intros Ha Hb Wa Wb S. destruct (div_mul_partial a b Ha Hb Wa Wb S) as [P _].
    destruct (ksum_fields a [b]) as [M E]. destruct (div_cong _ _ b M E) as [M' E'].
    assert (Hk : exact_family (fam (ksum a [b]))).
    { destruct M as [F _]. rewrite F, sum_fam. exact Ha. }
    split.
    - eapply upto_trans; [|exact P]. split; [exact M' | rewrite E'; apply eeq_refl].
    - rewrite div_lognorm by exact Hk. rewrite ksum_lognorm by exact Ha. ring.
  Qed.

  Lemma mul_div_full (a b : qmsg) : exact_family (fam a) -> exact_family (fam b) -> wf a -> wf b ->
    same_shape a b -> msg_equiv (ksum (qdiv a b) [b]) a.
  Proof.
    intros Ha Hb Wa Wb S. destruct (mul_div_partial a b Ha Hb Wa Wb S) as [P _].
    assert (Hd : exact_family (fam (qdiv a b))) by (rewrite div_fam; exact Ha).
    split.
    - eapply upto_trans; [apply ksum_upto | exact P].
    - rewrite ksum_lognorm by exact Hd. rewrite div_lognorm by exact Ha. ring.
  Qed.

  Lemma pow_add_full (a : qmsg) (j k : Q) : exact_family (fam a) -> wf a ->
    msg_equiv (ksum (qpow a j) [qpow a k]) (qpow a (j + k)).
  Proof.
    intros Ha Wa. destruct (pow_add_partial a j k Ha Wa) as [P _].
    assert (Hj : exact_family (fam (qpow a j))) by (rewrite pow_fam; exact Ha).
    split.
    - eapply upto_trans; [apply ksum_upto | exact P].
    - rewrite ksum_lognorm by exact Hj. rewrite !pow_lognorm by exact Ha. ring.
  Qed.

  Lemma mul_zeros_full (a : qmsg) : exact_family (fam a) -> wf a -> msg_equiv (ksum a [qzeros a]) a.
  Proof.
    intros Ha Wa. split.
    - eapply upto_trans; [apply ksum_upto | apply mul_zeros_partial; assumption].
    - rewrite ksum_lognorm by exact Ha. rewrite zeros_is_pow0 by exact Ha. rewrite pow_lognorm by exact Ha. ring.
  Qed.
End KeepLognorm.

(* the variants differ only in log_norm: class, parameters, natural parameters and meta data of a product are
   those of the pinned variant, so every natural-parameter theorem above holds for every variant *)
Lemma sum_variant_indep (V : variant) (a : qmsg) (l : list qmsg) :
  meta_eq (b_sum Qops V a l) (qsum a l) /\ elems (b_sum Qops V a l) = elems (qsum a l)
  /\ qnat (b_sum Qops V a l) = qnat (qsum a l).
Proof.
  unfold meta_eq, nat_of, b_sum. destruct (is_fixed a); cbn; repeat split; reflexivity.
Qed.

Lemma sum_additive_any (V : variant) (a b : qmsg) : exact_family (fam a) -> exact_family (fam b) -> wf a -> wf b ->
  eeq (qnat (b_sum Qops V a [b])) (map2 qadd (qnat a) (qnat b)).
Proof. intros. destruct (sum_variant_indep V a [b]) as (_ & _ & E). rewrite E. apply sum_additive; assumption. Qed.

Lemma mul_comm_nat_any (V : variant) (a b : qmsg) : exact_family (fam a) -> exact_family (fam b) -> wf a -> wf b ->
  eeq (qnat (b_sum Qops V a [b])) (qnat (b_sum Qops V b [a])).
Proof.
  intros. destruct (sum_variant_indep V a [b]) as (_ & _ & E). destruct (sum_variant_indep V b [a]) as (_ & _ & E').
  rewrite E, E'. apply mul_comm_nat; assumption.
Qed.
