(* C17: refutation witnesses for the defects of the pinned code (vm_compute) and non-vacuity
   examples for the hypotheses of the theorems. *)
From Coq Require Import ZArith List Bool Lia.
From Coq Require Import Floats.PrimFloat Floats.FloatOps Floats.SpecFloat.
From PAFCommon Require Import PyFloat Lists.
From PAFC17 Require Import Model Proofs ProofsT.
From Coq Require Import QArith Lqa.
Import ListNotations.
Local Open Scope Q_scope.

(* a gamma message Gamma(2, 3) with log_norm 1 and a two-element gamma array message *)
Definition g1 : qmsg := mkmsg FGamma true [[2; 3]] 1 1000%Z neg_infinity infinity.
Definition g2 : qmsg := mkmsg FGamma true [[3 # 2; 1 # 2]] (1 # 4) 1001%Z 0%float 1%float.
Definition ga : qmsg := mkmsg FGamma false [[2; 3]; [5; 1 # 2]] 0 1002%Z neg_infinity infinity.

Example g1_hyps : exact_family (fam g1) /\ wf g1 /\ exact_family (fam g2) /\ wf g2 /\ same_shape g1 g2.
Proof. repeat split; try (right; left; reflexivity); repeat constructor. Qed.
Example ga_hyps : exact_family (fam ga) /\ wf ga.
Proof. repeat split; try (right; left; reflexivity); repeat constructor. Qed.

(* the model really computes: Gamma(2,3) * Gamma(3/2,1/2) = Gamma(5/2, 7/2) *)
Example g1_times_g2 : map (map Qred) (elems (b_sum Qops pinned g1 [g2])) = [[5 # 2; 7 # 2]].
Proof. vm_compute. reflexivity. Qed.

(* DEFECT 1: the product forgets log_norm, so (a*b)/b is not a *)
Lemma div_mul_refuted : exists a b : qmsg,
  exact_family (fam a) /\ exact_family (fam b) /\ wf a /\ wf b /\ same_shape a b /\
  ~ msg_equiv (b_div Qops (b_sum Qops pinned a [b]) b) a.
Proof.
  exists g1, g2. destruct g1_hyps as (A & B & C & D & E). repeat split; try assumption.
  intro H. apply (div_mul_full_iff g1 g2 A C B D E) in H. vm_compute in H. discriminate.
Qed.

Lemma pow_add_refuted : exists (a : qmsg) (j k : Q),
  exact_family (fam a) /\ wf a /\ ~ msg_equiv (b_sum Qops pinned (b_pow Qops a j) [b_pow Qops a k]) (b_pow Qops a (j + k)).
Proof.
  exists g1, 1, 2. destruct g1_hyps as (A & B & _). repeat split; try assumption.
  intros [_ H]. destruct (pow_add_partial g1 1 2 A B) as (_ & L0 & L1). rewrite L0, L1 in H.
  vm_compute in H. discriminate.
Qed.

Lemma mul_zeros_refuted : exists a : qmsg,
  exact_family (fam a) /\ wf a /\ ~ msg_equiv (b_sum Qops pinned a [b_zeros Qops a]) a.
Proof.
  exists g1. destruct g1_hyps as (A & B & _). repeat split; try assumption.
  intros [_ H]. vm_compute in H. discriminate.
Qed.

(* DEFECT: FixedMessage only defines the py2 name __div__; `/ real` goes through AbstractMessage.__truediv__
   and subtracts log(real) from log_norm, whereas `* real` is the identity: (f * c) / c is not f *)
Definition fx : qmsg := mkmsg FFixed true [[2]] (1 # 2) 9%Z neg_infinity infinity.
Lemma fixed_sdiv_refuted : exists (a : qmsg) (c : Q), fam a = FFixed /\
  b_sdiv Qops pinned (b_smul Qops a c) c <> a /\ b_sdiv Qops applied3 (b_smul Qops a c) c <> a.
Proof. exists fx, 3. split; [reflexivity|]. split; intro H; apply (f_equal lognorm) in H; vm_compute in H; discriminate. Qed.

(* DEFECT 2: arithmetic on a transformed message loses its limits *)
Lemma float_neq (a b : float) : fbits_eqb a b = false -> a <> b.
Proof. intros H E. subst. unfold fbits_eqb in H. destruct (Prim2SF b) as [s|s| |s m e]; simpl in H;
  rewrite ?Bool.eqb_reflx, ?Pos.eqb_refl, ?Z.eqb_refl in H; discriminate. Qed.

Definition u13 : mval (T := Q) :=
  MT [TPhi; TShift 1 2] None 1%float 3%float (mkmsg FNormal true [[0; 1]] 0 0%Z neg_infinity infinity).

Lemma transformed_limits_refuted : exists (env : list (mval (T := Q))) (e : expr (T := Q)) v v0,
  eval Qops pinned env e = Some v /\ nth_error env (leftvar e) = Some v0 /\ tlimits v <> tlimits v0.
Proof.
  exists [u13], (EPow (EVar 0) 1), (MT [TPhi; TShift 1 2] None neg_infinity infinity
                                  (b_pow Qops (mkmsg FNormal true [[0; 1]] 0 0%Z neg_infinity infinity) 1)), u13.
  split; [reflexivity | split; [reflexivity|]].
  cbn. intro H. injection H as H1 H2. revert H1. apply float_neq. vm_compute. reflexivity.
Qed.

(* the repaired variant keeps them on the same input *)
Example transformed_limits_repaired :
  option_map tlimits (eval Qops repaired [u13] (EPow (EVar 0) 1)) = Some (Some (1%float, 3%float)).
Proof. vm_compute. reflexivity. Qed.

(* ---------- binary64 witnesses ---------- *)
Local Close Scope Q_scope.
Definition tb0 : tabs :=
  mktabs [(0.5%float, 0.25%float); (0.25%float, 0.0625%float); (1%float, 1%float); (2%float, 4%float); (infinity, infinity)] [] [] [] [] [] [] [] [] [] [].
Definition n1 : msg (T := float) := mkmsg FNormal true [[1%float; 0.5%float]] 0%float 7%Z neg_infinity infinity.
Definition un1 : mval (T := float) := MT [TPhi] None neg_infinity infinity n1.

Definition all_zero (v : option (mval (T := float))) : bool :=
  match v with
  | Some w => forallb (forallb (fun x => fbits_eqb x 0%float || fbits_eqb x (-0)%float))
                      (nat_of (fops true tb0) (base_of w))
  | None => false
  end.

(* DEFECT 3: zeros_like of a transformed normal is `** 0.`: mean nan, sigma inf, natural parameters nan *)
Lemma transformed_zeros_refuted : all_zero (eval (fops true tb0) pinned [un1] (EZeros (EVar 0))) = false.
Proof. vm_compute. reflexivity. Qed.
Example transformed_zeros_repaired : all_zero (eval (fops true tb0) repaired [un1] (EZeros (EVar 0))) = true.
Proof. vm_compute. reflexivity. Qed.
Example base_zeros_ok : all_zero (eval (fops true tb0) pinned [MB n1] (EZeros (EVar 0))) = true.
Proof. vm_compute. reflexivity. Qed.

(* NormalMessage is not closed under non-positive powers: (a ** -1) ** -1 is not a (sigma is nan) *)
Lemma normal_negative_power_refuted :
  opt_eqb mval_eqb (eval (fops true tb0) pinned [MB n1] (EPow (EPow (EVar 0) (-1)%float) (-1)%float)) (Some (MB n1)) = false.
Proof. vm_compute. reflexivity. Qed.
(* ... whereas positive powers come back *)
Example normal_positive_power_back :
  opt_eqb mval_eqb (eval (fops true tb0) pinned [MB n1] (EPow (EPow (EVar 0) 4%float) 0.25%float)) (Some (MB n1)) = true.
Proof. vm_compute. reflexivity. Qed.


(* the model computes: Normal(0,1) * Normal(0,1) = Normal(0, sqrt(1/2)) bit for bit *)
Example n_times_n :
  elems (b_sum (fops true tb0) pinned (mkmsg FNormal true [[0%float; 1%float]] 0%float 1%Z neg_infinity infinity)
               [mkmsg FNormal true [[0%float; 1%float]] 0%float 2%Z neg_infinity infinity])
  = [[0%float; 0x1.6a09e667f3bcdp-1%float]].
Proof. vm_compute. reflexivity. Qed.
