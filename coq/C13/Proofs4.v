(* C13 proofs, part 4: freeze reaches every prior-model descendant; effects of accepted
   modifications on Model / Collection; deepcopy facts. *)
From Coq Require Import ZArith List String Bool Arith Lia.
From PAFC13 Require Import Model Proofs1 Proofs2 Proofs3.
Import ListNotations.
Open Scope list_scope.
Local Opaque FUEL.

Definition frozen_at (st : state) (t : nat) : Prop := exists tb, get st t = Some tb /\ ofrozen tb = true.

(* reachability through prior-model (Model / Collection) children only: what freeze follows *)
Inductive PMReach (st : state) : nat -> nat -> Prop :=
| PM_refl : forall o, PMReach st o o
| PM_step : forall o ob k c cb t, get st o = Some ob -> In (k, VRef c) (oattrs ob) -> get st c = Some cb ->
            is_pm_kind (okind cb) = true -> PMReach st c t -> PMReach st o t.

Lemma thaw_eq_get : forall s st t, thaw s = thaw st ->
  match get s t, get st t with
  | Some a, Some b => okind a = okind b /\ oattrs a = oattrs b
  | None, None => True
  | _, _ => False
  end.
Proof.
  intros s st t H. pose proof (get_thaw s t) as E1. pose proof (get_thaw st t) as E2. rewrite H in E1. rewrite E1 in E2.
  destruct (get s t) as [a|], (get st t) as [b|]; simpl in E2; try discriminate; auto.
  unfold thaw_obj in E2. inversion E2. auto.
Qed.

Lemma PMReach_thaw : forall s st a b, thaw s = thaw st -> PMReach st a b -> PMReach s a b.
Proof.
  intros s st a b H R. induction R as [o|o ob k c cb t G I Gc K R IH]; [apply PM_refl|].
  pose proof (thaw_eq_get s st o H) as E1. rewrite G in E1. destruct (get s o) as [ob'|] eqn:G'; [|contradiction].
  pose proof (thaw_eq_get s st c H) as E2. rewrite Gc in E2. destruct (get s c) as [cb'|] eqn:Gc'; [|contradiction].
  destruct E1 as [_ A1]. destruct E2 as [K2 _].
  apply (PM_step s o ob' k c cb' t); auto; congruence.
Qed.

(* freezing never clears a flag *)
Definition Mono {A} (c : M A) : Prop :=
  forall st t, frozen_at st t -> frozen_at (fst (c st)) t.

Lemma Mono_ret : forall {A} (a : A), Mono (ret a).
Proof. intros A a st t H. exact H. Qed.
Lemma Mono_raise : forall {A} e, Mono (@raise A e).
Proof. intros A e st t H. exact H. Qed.
Lemma Mono_bind : forall {A B} (c : M A) (f : A -> M B), Mono c -> (forall a, Mono (f a)) -> Mono (bind c f).
Proof.
  intros A B c f Hc Hf st t H. unfold bind. pose proof (Hc st t H) as H1. destruct (c st) as [st1 [a|e]]; simpl in *; auto.
  now apply Hf.
Qed.
Lemma Mono_mapM : forall {A B} (f : A -> M B) l, (forall a, Mono (f a)) -> Mono (mapM f l).
Proof.
  induction l as [|x l IH]; intros H; simpl; [apply Mono_ret|].
  apply Mono_bind; [apply H|]. intros y. apply Mono_bind; [now apply IH|]. intros; apply Mono_ret.
Qed.

Lemma frozen_at_put : forall st o ob ob' t, get st o = Some ob -> (ofrozen ob = true -> ofrozen ob' = true) ->
  frozen_at st t -> frozen_at (put st o ob') t.
Proof.
  intros st o ob ob' t G Hf (tb & Gt & Ft). destruct (Nat.eq_dec o t) as [->|Hne].
  - exists ob'. split; [now apply (get_put_eq st t ob' ob)|]. apply Hf. congruence.
  - exists tb. split; auto. now rewrite get_put_neq.
Qed.

Lemma Mono_call_direct : forall o d, Mono (call_direct o d).
Proof.
  intros o d st t H. unfold call_direct, cached, body_direct, gets.
  destruct (get st o) as [ob|] eqn:G; simpl; auto.
  destruct (ofrozen ob); simpl; auto. destruct (lookup _ _); simpl; auto.
  unfold store. rewrite G. apply (frozen_at_put st o ob); auto.
Qed.

Lemma Mono_as_list : forall c, Mono (as_list c).
Proof. intros [l|]; [apply Mono_ret|apply Mono_raise]. Qed.

Lemma Mono_set_frozen : forall o, Mono (modify o (fun ob => with_frozen ob true)).
Proof.
  intros o st t H. unfold modify. destruct (get st o) as [ob|] eqn:G; simpl; auto.
  apply (frozen_at_put st o ob); auto.
Qed.

Lemma Mono_freeze : forall n o, Mono (freeze n o).
Proof.
  induction n as [|n IH]; intros o; simpl; [apply Mono_raise|].
  apply Mono_bind; [apply Mono_call_direct|]. intros c. apply Mono_bind; [apply Mono_as_list|]. intros l.
  apply Mono_bind; [|intros; apply Mono_set_frozen].
  apply Mono_mapM. intros it. destruct (Nat.eqb (item_oid it) o); [apply Mono_ret|apply IH].
Qed.

Lemma direct_items_pm_in : forall st l k c cb, In (k, VRef c) l -> get st c = Some cb -> is_pm_kind (okind cb) = true ->
  In ([k], LObj c) (direct_items st DAbstractModel l).
Proof.
  induction l as [|[k' v] l IH]; intros k c cb Hin G K; [contradiction|].
  cbn [direct_items]. destruct Hin as [E|Hin].
  - injection E as -> ->. cbn [direct_match]. rewrite G, K. left. reflexivity.
  - destruct (direct_match st DAbstractModel v); [right|]; now apply (IH k c cb).
Qed.

Definition freeze_spec (n : nat) : Prop :=
  forall o st, Inv st -> snd (freeze n o st) = Ok tt -> forall t, PMReach st o t -> frozen_at (fst (freeze n o st)) t.

Lemma freeze_children : forall n, freeze_spec n -> forall o l s,
  Inv s ->
  (exists r, snd (mapM (fun it : item => if Nat.eqb (item_oid it) o then ret tt else freeze n (item_oid it)) l s) = Ok r) ->
  forall it, In it l -> item_oid it <> o -> forall t, PMReach s (item_oid it) t ->
  frozen_at (fst (mapM (fun it : item => if Nat.eqb (item_oid it) o then ret tt else freeze n (item_oid it)) l s)) t.
Proof.
  intros n Hn o. set (f := fun it : item => if Nat.eqb (item_oid it) o then ret tt else freeze n (item_oid it)).
  assert (Pf : forall x, Pres (f x)).
  { intros x. unfold f. destruct (Nat.eqb (item_oid x) o); [apply Pres_ret|apply Pres_freeze]. }
  assert (Mf : forall x, Mono (f x)).
  { intros x. unfold f. destruct (Nat.eqb (item_oid x) o); [apply Mono_ret|apply Mono_freeze]. }
  induction l as [|x l IH]; intros s HI [r Hr] it Hin Hne t R; [contradiction|].
  simpl in *. unfold bind in *.
  destruct (Pf x s HI) as (I1 & T1).
  destruct (f x s) as [s1 [y|e]] eqn:Ex; simpl in *; [|discriminate].
  destruct (mapM f l s1) as [s2 [ys|e]] eqn:Em; simpl in *; [|discriminate].
  destruct Hin as [<-|Hin].
  - (* the first child: frozen by its own freeze, kept by the rest *)
    assert (F1 : frozen_at s1 t).
    { unfold f in Ex. apply Nat.eqb_neq in Hne. rewrite Hne in Ex.
      pose proof (Hn (item_oid x) s HI) as Hs. rewrite Ex in Hs. simpl in Hs. destruct y. apply Hs; auto. }
    pose proof (Mono_mapM f l Mf s1 t F1) as F2. rewrite Em in F2. exact F2.
  - pose proof (IH s1 I1) as IH1. rewrite Em in IH1. simpl in IH1.
    apply (IH1 (ex_intro _ ys eq_refl) it Hin Hne). now apply (PMReach_thaw s1 s).
Qed.

Theorem freeze_reaches_all : forall n, freeze_spec n.
Proof.
  induction n as [|n IHn]; intros o st HI Hok t R; [simpl in Hok; discriminate|].
  simpl in *. unfold bind in *.
  (* direct children, from the cache or not, are the current ones *)
  destruct (Coh_call_direct o DAbstractModel st HI) as (I1 & S1 & T1).
  pose proof (call_key_thaw st o (KDirect DAbstractModel)) as C. cbn [call_key pure_key] in C. rewrite C in T1. clear C.
  destruct (call_direct o DAbstractModel st) as [st1 r1] eqn:E1. simpl in *.
  injection T1 as T1. subst r1.
  unfold p_direct in Hok |- *. destruct (get st o) as [ob|] eqn:G; [|discriminate].
  cbn [as_list ret] in *.
  set (l := direct_items st DAbstractModel (oattrs ob)) in *.
  set (f := fun it : item => if Nat.eqb (item_oid it) o then ret tt else freeze n (item_oid it)) in *.
  destruct (mapM f l st1) as [st2 [ys|e]] eqn:Em; simpl in *; [|discriminate].
  assert (Tst1 : thaw st1 = thaw st) by (now apply skel_thaw).
  assert (Pf : forall x, Pres (f x)).
  { intros x. unfold f. destruct (Nat.eqb (item_oid x) o); [apply Pres_ret|apply Pres_freeze]. }
  destruct (Pres_mapM f l Pf st1 I1) as (I2 & T2). rewrite Em in I2, T2. simpl in I2, T2.
  assert (G2 : exists ob2, get st2 o = Some ob2).
  { pose proof (thaw_eq_get st2 st o) as E. rewrite G in E. destruct (get st2 o) as [ob2|]; [now exists ob2|].
    exfalso. apply E. congruence. }
  destruct G2 as (ob2 & G2).
  assert (Claim : forall a, PMReach st a t -> a = o -> frozen_at (fst (modify o (fun ob => with_frozen ob true) st2)) t).
  { intros a Ra. induction Ra as [a|a ab k c cb t Ga Ia Gc Kc Rc IHc]; intros ->.
    - unfold modify. rewrite G2. simpl. exists (with_frozen ob2 true). split; [now apply (get_put_eq st2 o _ ob2)|reflexivity].
    - destruct (Nat.eq_dec c o) as [->|Hne]; [now apply IHc|].
      apply Mono_set_frozen.
      rewrite G in Ga. injection Ga as <-.
      assert (Hin : In ([k], LObj c) l) by (now apply (direct_items_pm_in st (oattrs ob) k c cb)).
      pose proof (freeze_children n IHn o l st1 I1) as FC. unfold f in Em. rewrite Em in FC. simpl in FC.
      apply (FC (ex_intro _ ys eq_refl) ([k], LObj c) Hin); auto.
      now apply (PMReach_thaw st1 st). }
  apply (Claim o R eq_refl).
Qed.

(* ------------------------------------------------------------------ effects of accepted modifications *)
Theorem setattr_model_effect : forall cfg st o ob cls name v,
  get st o = Some ob -> okind ob = KModel cls -> ofrozen ob = false -> frozen_pm st v = false -> has_us name = false ->
  let st' := fst (step cfg (OSet o name v) st) in
  comp_at st' o = Some (KModel cls, set_attr name v (oattrs ob), onitems ob) /\
  (forall t, t <> o -> comp_at st' t = comp_at st t) /\
  snd (step cfg (OSet o name v) st) = Ok AUnit.
Proof.
  intros cfg st o ob cls name v G K F Fv U. cbn [step]. unfold unit_ans, op_set, bind, gets, modify, ret.
  rewrite G, K, F, Fv, U. rewrite G. simpl. split; [|split; auto].
  - unfold comp_at. rewrite (get_put_eq _ _ _ _ G). simpl. now rewrite K.
  - intros t Ht. unfold comp_at. rewrite get_put_neq by auto. reflexivity.
Qed.

(* a frozen model refuses to become the component of a Model (the `label` assignment hits its guard) *)
Theorem setattr_model_frozen_value : forall cfg st o ob cls name v,
  get st o = Some ob -> okind ob = KModel cls -> ofrozen ob = false -> frozen_pm st v = true ->
  step cfg (OSet o name v) st = (st, Exn EAssertion).
Proof.
  intros cfg st o ob cls name v G K F Fv. cbn [step]. unfold unit_ans, op_set, bind, gets.
  rewrite G, K, F, Fv. reflexivity.
Qed.

Theorem append_effect : forall cfg st o ob v,
  get st o = Some ob -> okind ob = KColl -> ofrozen ob = false ->
  let st' := fst (step cfg (OAppend o v) st) in
  comp_at st' o = Some (KColl, set_attr (string_of_nat (onitems ob)) v (oattrs ob), S (onitems ob)) /\
  (forall t, t <> o -> comp_at st' t = comp_at st t) /\
  snd (step cfg (OAppend o v) st) = Ok AUnit.
Proof.
  intros cfg st o ob v G K F. cbn [step]. unfold unit_ans, op_append, bind, gets, modify, ret.
  rewrite G, K, F. rewrite G. simpl. split; [|split; auto].
  - unfold comp_at. rewrite (get_put_eq _ _ _ _ G). simpl. now rewrite K.
  - intros t Ht. unfold comp_at. rewrite get_put_neq by auto. reflexivity.
Qed.

(* delattr is accepted whatever the frozen flag says *)
Theorem delattr_effect : forall cfg st o ob name w,
  get st o = Some ob -> sassoc name (oattrs ob) = Some w ->
  let st' := fst (step cfg (ODel o name) st) in
  comp_at st' o = Some (okind ob, del_attr name (oattrs ob), onitems ob) /\
  (forall t, t <> o -> comp_at st' t = comp_at st t) /\
  snd (step cfg (ODel o name) st) = Ok AUnit.
Proof.
  intros cfg st o ob name w G S. cbn [step]. unfold unit_ans, op_del, bind, gets, modify, ret.
  rewrite G, S. rewrite G. simpl. split; [|split; auto].
  - unfold comp_at. now rewrite (get_put_eq _ _ _ _ G).
  - intros t Ht. unfold comp_at. rewrite get_put_neq by auto. reflexivity.
Qed.

(* a frozen collection rejects item assignment before any id is touched *)
Theorem frozen_rejects_setitem : forall cfg st o ob key v,
  get st o = Some ob -> okind ob = KColl -> ofrozen ob = true ->
  step cfg (OSetItem o key v) st = (st, Exn EAssertion).
Proof.
  intros cfg st o ob key v G K F. cbn [step]. unfold unit_ans, op_setitem, bind, gets. rewrite G, K, F. reflexivity.
Qed.

(* history-level form of "a frozen model rejects assignment of components": after a successful
   freeze every Model / Collection below it rejects setattr *)
Theorem frozen_rejects_at_depth : forall cfg st o t name v, Inv st ->
  snd (freeze FUEL o st) = Ok tt -> PMReach st o t ->
  (exists tb, get st t = Some tb /\ okind tb <> KTuple) ->
  let st' := fst (step cfg (OFreeze o) st) in
  step cfg (OSet t name v) st' = (st', Exn EAssertion).
Proof.
  intros cfg st o t name v HI Hok R (tb & Gt & Kt). cbn [step]. rewrite fst_unit_ans.
  destruct (freeze_reaches_all FUEL o st HI Hok t R) as (tb' & G' & F').
  apply (frozen_rejects_setattr cfg _ t tb' name v G'); auto.
  destruct (Pres_freeze FUEL o st HI) as (_ & T).
  pose proof (thaw_eq_get (fst (freeze FUEL o st)) st t T) as E. rewrite G', Gt in E. destruct E as [E _]. congruence.
Qed.

(* ------------------------------------------------------------------ locality of an assignment *)
Lemma agree_if_unreached : forall st st' o t,
  (forall x, x <> t -> comp_at st' x = comp_at st x) -> ptab st' = ptab st -> ~ Reach st o t -> agree st st' o.
Proof.
  intros st st' o t Hc Hp Hn. split.
  - intros x R. apply Hc. intros ->. now apply Hn.
  - intros p _. unfold pid_of. now rewrite Hp.
Qed.

(* setattr on a collection cannot change what the cached functions of an object that does not
   contain it compute *)
Theorem setattr_is_local : forall cfg st c ob name v o k,
  get st c = Some ob -> okind ob = KColl -> ofrozen ob = false -> ~ Reach st o c ->
  pure_key (fst (step cfg (OSet c name v) st)) o k = pure_key st o k.
Proof.
  intros cfg st c ob name v o k G K F Hn.
  destruct (setattr_effect cfg st c ob name v G K F) as (_ & Hc & _).
  apply pure_key_local.
  - cbn [step]. unfold unit_ans, op_set, bind, gets, modify, ret. rewrite G, K, F. rewrite G. reflexivity.
  - apply (agree_if_unreached _ _ o c); auto.
    cbn [step]. unfold unit_ans, op_set, bind, gets, modify, ret. rewrite G, K, F. rewrite G. reflexivity.
Qed.

(* the same statement for item assignment -- false on the pinned code, see Witness.setitem_leaks *)
Definition setitem_is_local (cfg : config) : Prop :=
  forall pre c key v o q,
    ~ Reach (fst (run cfg pre (init cfg))) o c ->
    snd (run_query cfg o q (fst (step cfg (OSetItem c key v) (fst (run cfg pre (init cfg)))))) =
    snd (run_query cfg o q (fst (run cfg pre (init cfg)))).

(* "prior passing is a query": it leaves every frozen flag alone -- false on the pinned code *)
Definition derive_keeps_flags (cfg : config) : Prop :=
  forall pre o, map ofrozen (heap (fst (step cfg (ODerive o) (fst (run cfg pre (init cfg)))))) =
                map ofrozen (heap (fst (run cfg pre (init cfg)))).

(* "freeze protects everything below": false for TuplePrior members *)
Definition freeze_protects_all (cfg : config) : Prop :=
  forall pre o t name v,
    Reach (fst (run cfg (pre ++ [OFreeze o]) (init cfg))) o t ->
    snd (step cfg (OSet t name v) (fst (run cfg (pre ++ [OFreeze o]) (init cfg)))) = Exn EAssertion.

(* what prior passing does keep: the composition and the invariant *)
Theorem derive_keeps_composition : forall cfg st o, Inv st ->
  Inv (fst (step cfg (ODerive o) st)) /\ fresh (fst (step cfg (ODerive o) st)) = fresh st.
Proof.
  intros cfg st o HI. cbn [step]. destruct (Pres_unit_ans _ (Pres_op_derive cfg o) st HI) as (I & T).
  split; auto. now apply fresh_of_thaw.
Qed.

(* ------------------------------------------------------------------ the repaired behaviours (b8214a7, 6df133a) *)
(* item assignment without id transfer is the dict assignment on that collection and nothing else:
   neither another object nor any prior id changes *)
Theorem setitem_effect : forall cfg st o ob key v,
  itransfers cfg = false -> get st o = Some ob -> okind ob = KColl -> ofrozen ob = false ->
  let st' := fst (step cfg (OSetItem o key v) st) in
  comp_at st' o = Some (KColl, set_attr key v (oattrs ob), onitems ob) /\
  (forall t, t <> o -> comp_at st' t = comp_at st t) /\
  ptab st' = ptab st /\ inflight st' = inflight st /\
  snd (step cfg (OSetItem o key v) st) = Ok AUnit.
Proof.
  intros cfg st o ob key v Ht G K F. cbn [step]. unfold unit_ans, op_setitem, bind, gets, modify, ret.
  rewrite G, K, F, Ht. destruct v; rewrite G; simpl; (split; [|split; [|split; [|split]]]); auto;
    try (unfold comp_at; rewrite (get_put_eq _ _ _ _ G); simpl; now rewrite K);
    try (intros t Hne; unfold comp_at; rewrite get_put_neq by auto; reflexivity).
Qed.

Theorem setitem_is_local_now : forall cfg st c ob key v o k,
  itransfers cfg = false -> get st c = Some ob -> okind ob = KColl -> ofrozen ob = false -> ~ Reach st o c ->
  pure_key (fst (step cfg (OSetItem c key v) st)) o k = pure_key st o k.
Proof.
  intros cfg st c ob key v o k Ht G K F Hn.
  destruct (setitem_effect cfg st c ob key v Ht G K F) as (_ & Hc & Hp & Hi & _).
  apply pure_key_local; auto. now apply (agree_if_unreached _ _ o c).
Qed.

(* prior passing that works on a copy is an ordinary query: it is coherent, i.e. it changes
   nothing but caches -- composition, prior ids and every frozen flag stay *)
Lemma Coh_derive : forall cfg, dthaws cfg = false -> forall n idf a o, Coh (derive cfg n idf a o).
Proof.
  intros cfg Hd. induction n as [|n IH]; intros idf a o; simpl; [apply Coh_raise|].
  assert (Hneed : forall p, Coh (if memb (idf p) a then ret tt else raise EKeyError)).
  { intros p. destruct (memb (idf p) a); [apply Coh_ret|apply Coh_raise]. }
  apply Coh_bind; [apply Coh_gets; intros; apply view_thaw|].
  intros [[[cls| |] attrs]|]; [| |apply Coh_ret|apply Coh_raise].
  - rewrite Hd. apply Coh_bind; [apply Coh_ret|]. intros _.
    apply Coh_bind; [apply Coh_call_direct|]. intros pc.
    apply Coh_bind; [apply Coh_as_list|]. intros pl.
    apply Coh_bind. { apply Coh_mapM. intros it _. apply Hneed. } intros _.
    apply Coh_bind; [apply Coh_call_direct|]. intros tc.
    apply Coh_bind; [apply Coh_as_list|]. intros tl.
    apply Coh_bind.
    { apply Coh_mapM. intros it _. apply Coh_bind; [apply Coh_gets; intros; apply view_thaw|]. intros [[kk tattrs]|]; [|apply Coh_ret].
      apply Coh_bind; [|intros; apply Coh_ret].
      apply Coh_mapM. intros [mk mv] _. simpl. destruct mv; try apply Coh_ret. apply Hneed. }
    intros _.
    apply Coh_bind; [apply Coh_call_direct|]. intros fc.
    apply Coh_bind; [apply Coh_as_list|]. intros _.
    apply Coh_bind; [apply Coh_call_direct|]. intros mc.
    apply Coh_bind; [apply Coh_as_list|]. intros ml.
    apply Coh_bind; [|intros; apply Coh_ret]. apply Coh_mapM. intros it _. apply IH.
  - apply Coh_bind; [|intros; apply Coh_ret].
    apply Coh_mapM. intros [k v] _. simpl. destruct v as [p|c|c]; [apply Hneed|apply Coh_ret|].
    apply Coh_bind; [apply Coh_gets; intros; apply is_pm_thaw|]. intros [|]; [apply IH|apply Coh_ret].
Qed.

Theorem derive_is_a_query : forall cfg st o, dthaws cfg = false -> Inv st ->
  let st' := fst (step cfg (ODerive o) st) in
  Inv st' /\ skel st' = skel st /\ map ofrozen (heap st') = map ofrozen (heap st).
Proof.
  intros cfg st o Hd HI. cbn [step].
  assert (C : Coh (unit_ans (op_derive cfg o))).
  { unfold unit_ans, op_derive. apply Coh_bind; [|intros; apply Coh_ret].
    apply Coh_bind; [apply Coh_call_attr|]. intros c. apply Coh_bind; [apply Coh_as_list|]. intros l.
    apply Coh_bind; [apply Coh_pid|]. intros idf. now apply Coh_derive. }
  destruct (C st HI) as (I & S & _). split; auto. split; auto.
  unfold skel in S. injection S as S1 _ _.
  assert (E : forall l1 l2 : list obj, map skel_obj l1 = map skel_obj l2 -> map ofrozen l1 = map ofrozen l2).
  { induction l1 as [|a l1 IH]; intros [|b l2] H; simpl in *; try discriminate; auto.
    injection H as _ _ _ _ Hf Hr. f_equal; auto. }
  now apply E.
Qed.
