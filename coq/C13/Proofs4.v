(* C13 proofs, part 4: freeze reaches every prior-model descendant; effects of accepted
   modifications on Model / Collection; deepcopy facts. *)
From Coq Require Import ZArith List String Bool Arith Lia.
From PAFC13 Require Import Model Proofs1 Proofs2 Proofs3.
Import ListNotations.
Open Scope list_scope.
Local Opaque FUEL.

Definition frozen_at (st : state) (t : nat) : Prop := exists tb, get st t = Some tb /\ ofrozen tb = true.

(* reachability through prior-model (Model / Collection) children only: what freeze follows *)
Inductive PMReach (st : state) : nat -> nat -> Prop :=
| PM_refl : forall o, PMReach st o o
| PM_step : forall o ob k c cb t, get st o = Some ob -> In (k, VRef c) (oattrs ob) -> get st c = Some cb ->
            is_pm_kind (okind cb) = true -> PMReach st c t -> PMReach st o t.

Lemma thaw_eq_get : forall s st t, thaw s = thaw st ->
  match get s t, get st t with
  | Some a, Some b => okind a = okind b /\ oattrs a = oattrs b
  | None, None => True
  | _, _ => False
  end.
Proof.
  intros s st t H. pose proof (get_thaw s t) as E1. pose proof (get_thaw st t) as E2. rewrite H in E1. rewrite E1 in E2.
  destruct (get s t) as [a|], (get st t) as [b|]; simpl in E2; try discriminate; auto.
  unfold thaw_obj in E2. inversion E2. auto.
Qed.

Lemma PMReach_thaw : forall s st a b, thaw s = thaw st -> PMReach st a b -> PMReach s a b.
Proof.
  intros s st a b H R. induction R as [o|o ob k c cb t G I Gc K R IH]; [apply PM_refl|].
  pose proof (thaw_eq_get s st o H) as E1. rewrite G in E1. destruct (get s o) as [ob'|] eqn:G'; [|contradiction].
  pose proof (thaw_eq_get s st c H) as E2. rewrite Gc in E2. destruct (get s c) as [cb'|] eqn:Gc'; [|contradiction].
  destruct E1 as [_ A1]. destruct E2 as [K2 _].
  apply (PM_step s o ob' k c cb' t); auto; congruence.
Qed.

(* freezing never clears a flag *)
Definition Mono {A} (c : M A) : Prop :=
  forall st t, frozen_at st t -> frozen_at (fst (c st)) t.

Lemma Mono_ret : forall {A} (a : A), Mono (ret a).
Proof. intros A a st t H. exact H. Qed.
Lemma Mono_raise : forall {A} e, Mono (@raise A e).
Proof. intros A e st t H. exact H. Qed.
Lemma Mono_bind : forall {A B} (c : M A) (f : A -> M B), Mono c -> (forall a, Mono (f a)) -> Mono (bind c f).
Proof.
  intros A B c f Hc Hf st t H. unfold bind. pose proof (Hc st t H) as H1. destruct (c st) as [st1 [a|e]]; simpl in *; auto.
  now apply Hf.
Qed.
Lemma Mono_mapM : forall {A B} (f : A -> M B) l, (forall a, Mono (f a)) -> Mono (mapM f l).
Proof.
  induction l as [|x l IH]; intros H; simpl; [apply Mono_ret|].
  apply Mono_bind; [apply H|]. intros y. apply Mono_bind; [now apply IH|]. intros; apply Mono_ret.
Qed.

Lemma frozen_at_put : forall st o ob ob' t, get st o = Some ob -> (ofrozen ob = true -> ofrozen ob' = true) ->
  frozen_at st t -> frozen_at (put st o ob') t.
Proof.
  intros st o ob ob' t G Hf (tb & Gt & Ft). destruct (Nat.eq_dec o t) as [->|Hne].
  - exists ob'. split; [now apply (get_put_eq st t ob' ob)|]. apply Hf. congruence.
  - exists tb. split; auto. now rewrite get_put_neq.
Qed.

Lemma Mono_call_direct : forall o d, Mono (call_direct o d).
Proof.
  intros o d st t H. unfold call_direct, cached, body_direct, gets.
  destruct (get st o) as [ob|] eqn:G; simpl; auto.
  destruct (ofrozen ob); simpl; auto. destruct (lookup _ _); simpl; auto.
  unfold store. rewrite G. apply (frozen_at_put st o ob); auto.
Qed.

Lemma Mono_as_list : forall c, Mono (as_list c).
Proof. intros [l|]; [apply Mono_ret|apply Mono_raise]. Qed.

Lemma Mono_set_frozen : forall o, Mono (modify o (fun ob => with_frozen ob true)).
Proof.
  intros o st t H. unfold modify. destruct (get st o) as [ob|] eqn:G; simpl; auto.
  apply (frozen_at_put st o ob); auto.
Qed.

Lemma Mono_gets : forall {A} (f : state -> A), Mono (gets f).
Proof. intros A f st t H. exact H. Qed.

Definition tuple_step (kv : string * value) : M unit :=
  match snd kv with
  | VRef t => k <- gets (fun st => is_tuple st t) ;; if k then modify t (fun tb => with_frozen tb true) else ret tt
  | _ => ret tt
  end.

Lemma Mono_tuple_step : forall kv, Mono (tuple_step kv).
Proof.
  intros [k v]. unfold tuple_step. simpl. destruct v; try apply Mono_ret.
  apply Mono_bind; [apply Mono_gets|]. intros [|]; [apply Mono_set_frozen|apply Mono_ret].
Qed.

Lemma Mono_freeze_tuples : forall cfg o, Mono (freeze_tuples cfg o).
Proof.
  intros cfg o. unfold freeze_tuples. destruct (gtuple cfg); [|apply Mono_ret].
  apply Mono_bind; [apply Mono_gets|]. intros [[k attrs]|]; [|apply Mono_ret].
  apply Mono_bind; [|intros; apply Mono_ret]. apply Mono_mapM. intros kv. apply (Mono_tuple_step kv).
Qed.

Lemma Mono_freeze : forall cfg n o, Mono (freeze cfg n o).
Proof.
  intros cfg. induction n as [|n IH]; intros o; simpl; [apply Mono_raise|].
  apply Mono_bind; [apply Mono_call_direct|]. intros c. apply Mono_bind; [apply Mono_as_list|]. intros l.
  apply Mono_bind.
  { apply Mono_mapM. intros it. destruct (Nat.eqb (item_oid it) o); [apply Mono_ret|apply IH]. }
  intros _. apply Mono_bind; [apply Mono_freeze_tuples|]. intros; apply Mono_set_frozen.
Qed.

Lemma direct_items_pm_in : forall st l k c cb, In (k, VRef c) l -> get st c = Some cb -> is_pm_kind (okind cb) = true ->
  In ([k], LObj c) (direct_items st DAbstractModel l).
Proof.
  induction l as [|[k' v] l IH]; intros k c cb Hin G K; [contradiction|].
  cbn [direct_items]. destruct Hin as [E|Hin].
  - injection E as -> ->. cbn [direct_match]. rewrite G, K. left. reflexivity.
  - destruct (direct_match st DAbstractModel v); [right|]; now apply (IH k c cb).
Qed.

Lemma thaw_eq_view : forall s st t, thaw s = thaw st -> view s t = view st t.
Proof.
  intros s st t H. pose proof (thaw_eq_get s st t H) as E. unfold view.
  destruct (get s t) as [a|], (get st t) as [b|]; try contradiction; auto. destruct E as [-> ->]. reflexivity.
Qed.

(* the TuplePrior members of t (proposed repair gtuple) *)
Definition tuples_frozen_at (cfg : config) (st st' : state) (t : nat) : Prop :=
  gtuple cfg = true -> forall kd attrs k u, view st t = Some (kd, attrs) -> In (k, VRef u) attrs -> is_tuple st u = true ->
  frozen_at st' u.

Lemma tuples_frozen_at_thaw : forall cfg s st st' t, thaw s = thaw st ->
  tuples_frozen_at cfg s st' t -> tuples_frozen_at cfg st st' t.
Proof.
  intros cfg s st st' t H T Hg kd attrs k u V I Tu. apply (T Hg kd attrs k u); auto.
  - now rewrite (thaw_eq_view s st t H).
  - unfold is_tuple in *. now rewrite (thaw_eq_view s st u H).
Qed.

Lemma is_tuple_frozen_step : forall s t x tb, get s t = Some tb ->
  is_tuple (put s t (with_frozen tb true)) x = is_tuple s x.
Proof.
  intros s t x tb G. unfold is_tuple, view. destruct (Nat.eq_dec t x) as [->|Hne].
  - rewrite (get_put_eq _ _ _ _ G), G. reflexivity.
  - now rewrite get_put_neq.
Qed.

Lemma tuple_step_keeps : forall kv s x, is_tuple (fst (tuple_step kv s)) x = is_tuple s x.
Proof.
  intros [k v] s x. unfold tuple_step. simpl. destruct v as [p|c|t]; auto.
  unfold bind, gets. simpl. destruct (is_tuple s t); simpl; auto.
  unfold modify. destruct (get s t) as [tb|] eqn:G; simpl; auto. now apply is_tuple_frozen_step.
Qed.

Lemma tuple_steps_freeze : forall attrs s k u, In (k, VRef u) attrs -> is_tuple s u = true ->
  frozen_at (fst (mapM tuple_step attrs s)) u.
Proof.
  induction attrs as [|kv attrs IH]; intros s k u Hin Tu; [contradiction|].
  simpl. unfold bind.
  destruct (tuple_step kv s) as [s1 [y|e]] eqn:E1.
  2:{ exfalso. destruct kv as [kk v]. unfold tuple_step in E1. simpl in E1. destruct v; try discriminate.
      unfold bind, gets in E1. simpl in E1. destruct (is_tuple s oid); [|discriminate].
      unfold modify in E1. destruct (get s oid); discriminate. }
  assert (K1 : is_tuple s1 u = true).
  { pose proof (tuple_step_keeps kv s u) as K. rewrite E1 in K. simpl in K. congruence. }
  destruct Hin as [->|Hin].
  - assert (F1 : frozen_at s1 u).
    { unfold tuple_step in E1. simpl in E1. unfold bind, gets in E1. simpl in E1. rewrite Tu in E1.
      unfold modify in E1. unfold is_tuple, view in Tu. destruct (get s u) as [tb|] eqn:G; [|discriminate].
      injection E1 as <- _. exists (with_frozen tb true). split; [now apply (get_put_eq s u _ tb)|reflexivity]. }
    pose proof (Mono_mapM tuple_step attrs Mono_tuple_step s1 u F1) as F2.
    destruct (mapM tuple_step attrs s1) as [s2 [ys|e]]; simpl in *; exact F2.
  - pose proof (IH s1 k u Hin K1) as F2.
    destruct (mapM tuple_step attrs s1) as [s2 [ys|e]]; simpl in *; exact F2.
Qed.

Lemma freeze_tuples_freezes : forall cfg o s, tuples_frozen_at cfg s (fst (freeze_tuples cfg o s)) o.
Proof.
  intros cfg o s Hg kd attrs k u V I Tu. unfold freeze_tuples. rewrite Hg. unfold bind, gets. simpl. rewrite V.
  pose proof (tuple_steps_freeze attrs s k u I Tu) as F. unfold tuple_step in F.
  destruct (mapM _ attrs s) as [s1 [ys|e]]; simpl in *; exact F.
Qed.

Definition freeze_spec (cfg : config) (n : nat) : Prop :=
  forall o st, Inv st -> snd (freeze cfg n o st) = Ok tt -> forall t, PMReach st o t ->
    frozen_at (fst (freeze cfg n o st)) t /\ tuples_frozen_at cfg st (fst (freeze cfg n o st)) t.

Lemma tuples_frozen_mono : forall cfg st s1 s2 t, (forall u, frozen_at s1 u -> frozen_at s2 u) ->
  tuples_frozen_at cfg st s1 t -> tuples_frozen_at cfg st s2 t.
Proof. intros cfg st s1 s2 t M T Hg kd attrs k u V I Tu. apply M. now apply (T Hg kd attrs k u). Qed.

Lemma freeze_children : forall cfg n, freeze_spec cfg n -> forall o l s,
  Inv s ->
  (exists r, snd (mapM (fun it : item => if Nat.eqb (item_oid it) o then ret tt else freeze cfg n (item_oid it)) l s) = Ok r) ->
  forall it, In it l -> item_oid it <> o -> forall t, PMReach s (item_oid it) t ->
  let s' := fst (mapM (fun it : item => if Nat.eqb (item_oid it) o then ret tt else freeze cfg n (item_oid it)) l s) in
  frozen_at s' t /\ tuples_frozen_at cfg s s' t.
Proof.
  intros cfg n Hn o. set (f := fun it : item => if Nat.eqb (item_oid it) o then ret tt else freeze cfg n (item_oid it)).
  assert (Pf : forall x, Pres (f x)).
  { intros x. unfold f. destruct (Nat.eqb (item_oid x) o); [apply Pres_ret|apply Pres_freeze]. }
  assert (Mf : forall x, Mono (f x)).
  { intros x. unfold f. destruct (Nat.eqb (item_oid x) o); [apply Mono_ret|apply Mono_freeze]. }
  induction l as [|x l IH]; intros s HI [r Hr] it Hin Hne t R; [contradiction|].
  simpl in *. unfold bind in *.
  destruct (Pf x s HI) as (I1 & T1).
  destruct (f x s) as [s1 [y|e]] eqn:Ex; simpl in *; [|discriminate].
  destruct (mapM f l s1) as [s2 [ys|e]] eqn:Em; simpl in *; [|discriminate].
  assert (M12 : forall u, frozen_at s1 u -> frozen_at s2 u).
  { intros u F1. pose proof (Mono_mapM f l Mf s1 u F1) as F2. now rewrite Em in F2. }
  destruct Hin as [<-|Hin].
  - unfold f in Ex. apply Nat.eqb_neq in Hne. rewrite Hne in Ex.
    pose proof (Hn (item_oid x) s HI) as Hs. rewrite Ex in Hs. simpl in Hs. destruct y.
    destruct (Hs eq_refl t R) as (F1 & TF1). split; [now apply M12|now apply (tuples_frozen_mono cfg s s1 s2)].
  - pose proof (IH s1 I1) as IH1. rewrite Em in IH1. simpl in IH1.
    destruct (IH1 (ex_intro _ ys eq_refl) it Hin Hne t (PMReach_thaw s1 s _ _ T1 R)) as (F2 & TF2).
    split; auto. now apply (tuples_frozen_at_thaw cfg s1 s).
Qed.

Theorem freeze_reaches_all : forall cfg n, freeze_spec cfg n.
Proof.
  intros cfg. induction n as [|n IHn]; intros o st HI Hok t R; [simpl in Hok; discriminate|].
  simpl in *. unfold bind in *.
  (* direct children, from the cache or not, are the current ones *)
  destruct (Coh_call_direct o DAbstractModel st HI) as (I1 & S1 & T1).
  pose proof (call_key_thaw st o (KDirect DAbstractModel)) as C. cbn [call_key pure_key] in C. rewrite C in T1. clear C.
  destruct (call_direct o DAbstractModel st) as [st1 r1] eqn:E1. simpl in *.
  injection T1 as T1. subst r1.
  unfold p_direct in Hok |- *. destruct (get st o) as [ob|] eqn:G; [|discriminate].
  cbn [as_list ret] in *.
  set (l := direct_items st DAbstractModel (oattrs ob)) in *.
  set (f := fun it : item => if Nat.eqb (item_oid it) o then ret tt else freeze cfg n (item_oid it)) in *.
  destruct (mapM f l st1) as [st2 [ys|e]] eqn:Em; simpl in *; [|discriminate].
  assert (Tst1 : thaw st1 = thaw st) by (now apply skel_thaw).
  assert (Pf : forall x, Pres (f x)).
  { intros x. unfold f. destruct (Nat.eqb (item_oid x) o); [apply Pres_ret|apply Pres_freeze]. }
  destruct (Pres_mapM f l Pf st1 I1) as (I2 & T2). rewrite Em in I2, T2. simpl in I2, T2.
  destruct (Pres_freeze_tuples cfg o st2 I2) as (I3 & T3).
  pose proof (freeze_tuples_freezes cfg o st2) as TF3.
  pose proof (Mono_freeze_tuples cfg o st2) as M23.
  destruct (freeze_tuples cfg o st2) as [st3 [u3|e3]] eqn:E3; simpl in *; [|discriminate].
  assert (T3s : thaw st3 = thaw st) by congruence.
  assert (G3 : exists ob3, get st3 o = Some ob3).
  { pose proof (thaw_eq_get st3 st o T3s) as E. rewrite G in E. destruct (get st3 o) as [ob3|]; [now exists ob3|contradiction]. }
  destruct G3 as (ob3 & G3).
  set (fin := fst (modify o (fun ob => with_frozen ob true) st3)).
  assert (M3f : forall u, frozen_at st3 u -> frozen_at fin u) by (intros u; apply Mono_set_frozen).
  assert (Claim : forall a, PMReach st a t -> a = o -> frozen_at fin t /\ tuples_frozen_at cfg st fin t).
  { intros a Ra. induction Ra as [a|a ab k c cb t Ga Ia Gc Kc Rc IHc]; intros ->.
    - split.
      + unfold fin, modify. rewrite G3. simpl. exists (with_frozen ob3 true). split; [now apply (get_put_eq st3 o _ ob3)|reflexivity].
      + apply (tuples_frozen_at_thaw cfg st2 st); [congruence|]. now apply (tuples_frozen_mono cfg st2 st3 fin).
    - destruct (Nat.eq_dec c o) as [->|Hne]; [now apply IHc|].
      rewrite G in Ga. injection Ga as <-.
      assert (Hin : In ([k], LObj c) l) by (now apply (direct_items_pm_in st (oattrs ob) k c cb)).
      pose proof (freeze_children cfg n IHn o l st1 I1) as FC. unfold f in Em. rewrite Em in FC. simpl in FC.
      destruct (FC (ex_intro _ ys eq_refl) ([k], LObj c) Hin Hne t (PMReach_thaw st1 st _ _ Tst1 Rc)) as (F2 & TF2).
      split; [apply M3f; now apply M23|].
      apply (tuples_frozen_at_thaw cfg st1 st); auto.
      apply (tuples_frozen_mono cfg st1 st2 fin); auto; intros u Fu; apply M3f; now apply M23. }
  apply (Claim o R eq_refl).
Qed.

(* ------------------------------------------------------------------ effects of accepted modifications *)
Theorem setattr_model_effect : forall cfg st o ob cls name v,
  get st o = Some ob -> okind ob = KModel cls -> ofrozen ob = false -> frozen_pm cfg st v = false -> has_us name = false ->
  let st' := fst (step cfg (OSet o name v) st) in
  comp_at st' o = Some (KModel cls, set_attr name v (oattrs ob), onitems ob) /\
  (forall t, t <> o -> comp_at st' t = comp_at st t) /\
  snd (step cfg (OSet o name v) st) = Ok AUnit.
Proof.
  intros cfg st o ob cls name v G K F Fv U. cbn [step].
  rewrite (lift_ok cfg _ _ st (put st o (with_attrs ob (set_attr name v (oattrs ob))))).
  2:{ unfold op_set, bind, gets, modify. rewrite G, K, F, Fv, U. rewrite G. reflexivity. }
  simpl. split; [|split; auto].
  - rewrite comp_at_maybe_clear. unfold comp_at. rewrite (get_put_eq _ _ _ _ G). simpl. now rewrite K.
  - intros t Ht. rewrite comp_at_maybe_clear. unfold comp_at. rewrite get_put_neq by auto. reflexivity.
Qed.

(* a frozen model refuses to become the component of a Model (the `label` assignment hits its guard) *)
Theorem setattr_model_frozen_value : forall cfg st o ob cls name v,
  get st o = Some ob -> okind ob = KModel cls -> ofrozen ob = false -> frozen_pm cfg st v = true ->
  step cfg (OSet o name v) st = (st, Exn EAssertion).
Proof.
  intros cfg st o ob cls name v G K F Fv. cbn [step]. apply lift_exn. unfold op_set, bind, gets.
  rewrite G, K, F, Fv. reflexivity.
Qed.

Theorem append_effect : forall cfg st o ob v,
  get st o = Some ob -> okind ob = KColl -> ofrozen ob = false ->
  let st' := fst (step cfg (OAppend o v) st) in
  comp_at st' o = Some (KColl, set_attr (string_of_nat (onitems ob)) v (oattrs ob), S (onitems ob)) /\
  (forall t, t <> o -> comp_at st' t = comp_at st t) /\
  snd (step cfg (OAppend o v) st) = Ok AUnit.
Proof.
  intros cfg st o ob v G K F. cbn [step].
  rewrite (lift_ok cfg (fun _ => true) _ st
             (put st o (with_nitems (with_attrs ob (set_attr (string_of_nat (onitems ob)) v (oattrs ob))) (S (onitems ob))))).
  2:{ unfold op_append, bind, gets, modify. rewrite G, K, F. rewrite G. reflexivity. }
  simpl. split; [|split; auto].
  - rewrite comp_at_maybe_clear. unfold comp_at. rewrite (get_put_eq _ _ _ _ G). simpl. now rewrite K.
  - intros t Ht. rewrite comp_at_maybe_clear. unfold comp_at. rewrite get_put_neq by auto. reflexivity.
Qed.

(* code as it is (gdel = false): delattr is accepted whatever the frozen flag says;
   with the proposed guard it is accepted exactly on objects that are not frozen models / collections *)
Theorem delattr_effect : forall cfg st o ob name w,
  get st o = Some ob -> sassoc name (oattrs ob) = Some w ->
  del_guarded cfg (okind ob) && ofrozen ob = false ->
  let st' := fst (step cfg (ODel o name) st) in
  comp_at st' o = Some (okind ob, del_attr name (oattrs ob), onitems ob) /\
  (forall t, t <> o -> comp_at st' t = comp_at st t) /\
  snd (step cfg (ODel o name) st) = Ok AUnit.
Proof.
  intros cfg st o ob name w G S Hg. cbn [step].
  rewrite (lift_ok cfg _ _ st (put st o (with_attrs ob (del_attr name (oattrs ob))))).
  2:{ unfold op_del, bind, gets, modify. rewrite G, Hg, S. rewrite G. reflexivity. }
  simpl. split; [|split; auto].
  - rewrite comp_at_maybe_clear. unfold comp_at. now rewrite (get_put_eq _ _ _ _ G).
  - intros t Ht. rewrite comp_at_maybe_clear. unfold comp_at. rewrite get_put_neq by auto. reflexivity.
Qed.

(* proposed C13-delattr-guard *)
Theorem frozen_rejects_delattr : forall cfg st o ob name,
  gdel cfg = true -> get st o = Some ob -> okind ob <> KTuple -> ofrozen ob = true ->
  step cfg (ODel o name) st = (st, Exn EAssertion).
Proof.
  intros cfg st o ob name Hg G K F. cbn [step]. apply lift_exn. unfold op_del, bind, gets. rewrite G, F.
  unfold del_guarded. destruct (okind ob); try congruence; rewrite Hg; reflexivity.
Qed.

(* proposed C13-tuple-prior-frozen *)
Theorem frozen_tuple_rejects_setattr : forall cfg st t tb name v,
  gtuple cfg = true -> get st t = Some tb -> okind tb = KTuple -> ofrozen tb = true ->
  step cfg (OSet t name v) st = (st, Exn EAssertion).
Proof.
  intros cfg st t tb name v Hg G K F. cbn [step]. apply lift_exn. unfold op_set, bind, gets. rewrite G, K, Hg, F. reflexivity.
Qed.

(* a frozen collection rejects item assignment before any id is touched *)
Theorem frozen_rejects_setitem : forall cfg st o ob key v,
  get st o = Some ob -> okind ob = KColl -> ofrozen ob = true ->
  step cfg (OSetItem o key v) st = (st, Exn EAssertion).
Proof.
  intros cfg st o ob key v G K F. cbn [step]. apply (lift_exn cfg (fun _ => true)).
  unfold op_setitem, bind, gets. rewrite G, K, F. reflexivity.
Qed.

(* history-level form of "a frozen model rejects assignment of components": after a successful
   freeze every Model / Collection below it rejects setattr -- and, with the proposed gtuple repair,
   so does every TuplePrior member of those *)
Theorem frozen_rejects_at_depth : forall cfg st o t name v, Inv st ->
  snd (freeze cfg FUEL o st) = Ok tt -> PMReach st o t ->
  (exists tb, get st t = Some tb /\ okind tb <> KTuple) ->
  let st' := fst (step cfg (OFreeze o) st) in
  step cfg (OSet t name v) st' = (st', Exn EAssertion).
Proof.
  intros cfg st o t name v HI Hok R (tb & Gt & Kt). cbn [step]. rewrite fst_unit_ans.
  destruct (freeze_reaches_all cfg FUEL o st HI Hok t R) as ((tb' & G' & F') & _).
  apply (frozen_rejects_setattr cfg _ t tb' name v G'); auto.
  destruct (Pres_freeze cfg FUEL o st HI) as (_ & T).
  pose proof (thaw_eq_get (fst (freeze cfg FUEL o st)) st t T) as E. rewrite G', Gt in E. destruct E as [E _]. congruence.
Qed.

Theorem frozen_tuples_reject_at_depth : forall cfg st o t kd attrs k u name v, Inv st -> gtuple cfg = true ->
  snd (freeze cfg FUEL o st) = Ok tt -> PMReach st o t ->
  view st t = Some (kd, attrs) -> In (k, VRef u) attrs -> is_tuple st u = true ->
  let st' := fst (step cfg (OFreeze o) st) in
  step cfg (OSet u name v) st' = (st', Exn EAssertion).
Proof.
  intros cfg st o t kd attrs k u name v HI Hg Hok R V I Tu. cbn [step]. rewrite fst_unit_ans.
  destruct (freeze_reaches_all cfg FUEL o st HI Hok t R) as (_ & TF).
  destruct (TF Hg kd attrs k u V I Tu) as (ub & Gu & Fu).
  apply (frozen_tuple_rejects_setattr cfg _ u ub name v Hg Gu); auto.
  destruct (Pres_freeze cfg FUEL o st HI) as (_ & T).
  pose proof (thaw_eq_view (fst (freeze cfg FUEL o st)) st u T) as E. unfold is_tuple in Tu. rewrite <- E in Tu.
  unfold view in Tu. rewrite Gu in Tu. destruct (okind ub); try discriminate. reflexivity.
Qed.

(* ------------------------------------------------------------------ locality of an assignment *)
Lemma agree_if_unreached : forall st st' o t,
  (forall x, x <> t -> comp_at st' x = comp_at st x) -> ptab st' = ptab st -> ~ Reach st o t -> agree st st' o.
Proof.
  intros st st' o t Hc Hp Hn. split.
  - intros x R. apply Hc. intros ->. now apply Hn.
  - intros p _. unfold pid_of. now rewrite Hp.
Qed.

(* setattr on a collection cannot change what the cached functions of an object that does not
   contain it compute *)
Theorem setattr_is_local : forall cfg st c ob name v o k,
  get st c = Some ob -> okind ob = KColl -> ofrozen ob = false -> ~ Reach st o c ->
  pure_key (fst (step cfg (OSet c name v) st)) o k = pure_key st o k.
Proof.
  intros cfg st c ob name v o k G K F Hn.
  destruct (setattr_effect cfg st c ob name v G K F) as (_ & Hc & Hp & Hi & _).
  apply pure_key_local; auto. now apply (agree_if_unreached _ _ o c).
Qed.

(* the same statement for item assignment -- false on the pinned code, see Witness.setitem_leaks *)
Definition setitem_is_local (cfg : config) : Prop :=
  forall pre c key v o q,
    ~ Reach (fst (run cfg pre (init cfg))) o c ->
    snd (run_query cfg o q (fst (step cfg (OSetItem c key v) (fst (run cfg pre (init cfg)))))) =
    snd (run_query cfg o q (fst (run cfg pre (init cfg)))).

(* "prior passing is a query": it leaves every frozen flag alone -- false on the pinned code *)
Definition derive_keeps_flags (cfg : config) : Prop :=
  forall pre o, map ofrozen (heap (fst (step cfg (ODerive o) (fst (run cfg pre (init cfg)))))) =
                map ofrozen (heap (fst (run cfg pre (init cfg)))).

(* "freeze protects everything below": false for TuplePrior members *)
Definition freeze_protects_all (cfg : config) : Prop :=
  forall pre o t name v,
    Reach (fst (run cfg (pre ++ [OFreeze o]) (init cfg))) o t ->
    snd (step cfg (OSet t name v) (fst (run cfg (pre ++ [OFreeze o]) (init cfg)))) = Exn EAssertion.

(* what prior passing does keep: the composition and the invariant *)
Theorem derive_keeps_composition : forall cfg st o, Inv st ->
  Inv (fst (step cfg (ODerive o) st)) /\ fresh (fst (step cfg (ODerive o) st)) = fresh st.
Proof.
  intros cfg st o HI. cbn [step]. destruct (Pres_unit_ans _ (Pres_op_derive cfg o) st HI) as (I & T).
  split; auto. now apply fresh_of_thaw.
Qed.

(* ------------------------------------------------------------------ the repaired behaviours (b8214a7, 6df133a) *)
(* item assignment without id transfer is the dict assignment on that collection and nothing else:
   neither another object nor any prior id changes *)
Theorem setitem_effect : forall cfg st o ob key v,
  itransfers cfg = false -> get st o = Some ob -> okind ob = KColl -> ofrozen ob = false ->
  let st' := fst (step cfg (OSetItem o key v) st) in
  comp_at st' o = Some (KColl, set_attr key v (oattrs ob), onitems ob) /\
  (forall t, t <> o -> comp_at st' t = comp_at st t) /\
  ptab st' = ptab st /\ inflight st' = inflight st /\
  snd (step cfg (OSetItem o key v) st) = Ok AUnit.
Proof.
  intros cfg st o ob key v Ht G K F. cbn [step].
  rewrite (lift_ok cfg (fun _ => true) _ st (put st o (with_attrs ob (set_attr key v (oattrs ob))))).
  2:{ unfold op_setitem, bind, gets, modify, ret. rewrite G, K, F, Ht. destruct v; rewrite G; reflexivity. }
  simpl. rewrite ptab_maybe_clear, inflight_maybe_clear. split; [|split; [|split; [|split]]]; auto.
  - rewrite comp_at_maybe_clear. unfold comp_at. rewrite (get_put_eq _ _ _ _ G). simpl. now rewrite K.
  - intros t Hne. rewrite comp_at_maybe_clear. unfold comp_at. rewrite get_put_neq by auto. reflexivity.
Qed.

Theorem setitem_is_local_now : forall cfg st c ob key v o k,
  itransfers cfg = false -> get st c = Some ob -> okind ob = KColl -> ofrozen ob = false -> ~ Reach st o c ->
  pure_key (fst (step cfg (OSetItem c key v) st)) o k = pure_key st o k.
Proof.
  intros cfg st c ob key v o k Ht G K F Hn.
  destruct (setitem_effect cfg st c ob key v Ht G K F) as (_ & Hc & Hp & Hi & _).
  apply pure_key_local; auto. now apply (agree_if_unreached _ _ o c).
Qed.

(* prior passing that works on a copy is an ordinary query: it is coherent, i.e. it changes
   nothing but caches -- composition, prior ids and every frozen flag stay *)
Lemma Coh_derive : forall cfg, dthaws cfg = false -> forall n idf a o, Coh (derive cfg n idf a o).
Proof.
  intros cfg Hd. induction n as [|n IH]; intros idf a o; simpl; [apply Coh_raise|].
  assert (Hneed : forall p, Coh (if memb (idf p) a then ret tt else raise EKeyError)).
  { intros p. destruct (memb (idf p) a); [apply Coh_ret|apply Coh_raise]. }
  apply Coh_bind; [apply Coh_gets; intros; apply view_thaw|].
  intros [[[cls| |] attrs]|]; [| |apply Coh_ret|apply Coh_raise].
  - rewrite Hd. apply Coh_bind; [apply Coh_ret|]. intros _.
    apply Coh_bind; [apply Coh_call_direct|]. intros pc.
    apply Coh_bind; [apply Coh_as_list|]. intros pl.
    apply Coh_bind. { apply Coh_mapM. intros it _. apply Hneed. } intros _.
    apply Coh_bind; [apply Coh_call_direct|]. intros tc.
    apply Coh_bind; [apply Coh_as_list|]. intros tl.
    apply Coh_bind.
    { apply Coh_mapM. intros it _. apply Coh_bind; [apply Coh_gets; intros; apply view_thaw|]. intros [[kk tattrs]|]; [|apply Coh_ret].
      apply Coh_bind; [|intros; apply Coh_ret].
      apply Coh_mapM. intros [mk mv] _. simpl. destruct mv; try apply Coh_ret. apply Hneed. }
    intros _.
    apply Coh_bind; [apply Coh_call_direct|]. intros fc.
    apply Coh_bind; [apply Coh_as_list|]. intros _.
    apply Coh_bind; [apply Coh_call_direct|]. intros mc.
    apply Coh_bind; [apply Coh_as_list|]. intros ml.
    apply Coh_bind; [|intros; apply Coh_ret]. apply Coh_mapM. intros it _. apply IH.
  - apply Coh_bind; [|intros; apply Coh_ret].
    apply Coh_mapM. intros [k v] _. simpl. destruct v as [p|c|c]; [apply Hneed|apply Coh_ret|].
    apply Coh_bind; [apply Coh_gets; intros; apply is_pm_thaw|]. intros [|]; [apply IH|apply Coh_ret].
Qed.

Theorem derive_is_a_query : forall cfg st o, dthaws cfg = false -> Inv st ->
  let st' := fst (step cfg (ODerive o) st) in
  Inv st' /\ skel st' = skel st /\ map ofrozen (heap st') = map ofrozen (heap st).
Proof.
  intros cfg st o Hd HI. cbn [step].
  assert (C : Coh (unit_ans (op_derive cfg o))).
  { unfold unit_ans, op_derive. apply Coh_bind; [|intros; apply Coh_ret].
    apply Coh_bind; [apply Coh_call_attr|]. intros c. apply Coh_bind; [apply Coh_as_list|]. intros l.
    apply Coh_bind; [apply Coh_pid|]. intros idf. now apply Coh_derive. }
  destruct (C st HI) as (I & S & _). split; auto. split; auto.
  unfold skel in S. injection S as S1 _ _.
  assert (E : forall l1 l2 : list obj, map skel_obj l1 = map skel_obj l2 -> map ofrozen l1 = map ofrozen l2).
  { induction l1 as [|a l1 IH]; intros [|b l2] H; simpl in *; try discriminate; auto.
    injection H as _ _ _ _ Hf Hr. f_equal; auto. }
  now apply E.
Qed.

(* ------------------------------------------------------------------ all proposed repairs together: the FULL statement *)
Definition all_repaired (cfg : config) : Prop :=
  cleanup cfg = true /\ gdel cfg = true /\ gtuple cfg = true /\ epochs cfg = true.

(* an operation that raises has not touched the state *)
Definition ExnSame {A} (c : M A) : Prop := forall st e, snd (c st) = Exn e -> fst (c st) = st.
Definition AlwaysOk {A} (c : M A) : Prop := forall st, exists a, snd (c st) = Ok a.

Lemma ExnSame_raise : forall {A} e, ExnSame (@raise A e).
Proof. intros A e st e' H. reflexivity. Qed.
Lemma ExnSame_ok : forall {A} (c : M A), AlwaysOk c -> ExnSame c.
Proof. intros A c H st e E. destruct (H st) as (a & Ha). congruence. Qed.
Lemma AlwaysOk_modify : forall o f, AlwaysOk (modify o f).
Proof. intros o f st. unfold modify. destruct (get st o); eexists; reflexivity. Qed.
Lemma AlwaysOk_ret : forall {A} (a : A), AlwaysOk (ret a).
Proof. intros A a st. eexists; reflexivity. Qed.
Lemma ExnSame_gets : forall {A B} (f : state -> A) (k : A -> M B), (forall a, ExnSame (k a)) -> ExnSame (bind (gets f) k).
Proof. intros A B f k H st e E. unfold bind, gets in *. simpl in *. now apply (H (f st) st e). Qed.
Lemma ExnSame_then_ok : forall {A B} (c : M A) (k : A -> M B), ExnSame c -> (forall a, AlwaysOk (k a)) -> ExnSame (bind c k).
Proof.
  intros A B c k Hc Hk st e E. unfold bind in *. pose proof (Hc st) as H1. destruct (c st) as [s1 [a|e1]]; simpl in *.
  - destruct (Hk a s1) as (b & Hb). congruence.
  - now apply (H1 e1).
Qed.

Lemma ExnSame_op_set : forall cfg o name v, ExnSame (op_set cfg o name v).
Proof.
  intros. unfold op_set. apply ExnSame_gets. intros [ob|]; [|apply ExnSame_raise].
  destruct (okind ob).
  - destruct (ofrozen ob); [apply ExnSame_raise|]. apply ExnSame_gets. intros [|]; [apply ExnSame_raise|].
    destruct (has_us name); [|apply ExnSame_ok, AlwaysOk_modify].
    apply ExnSame_gets. intros tl. destruct (filter _ tl); [apply ExnSame_ok, AlwaysOk_modify|].
    destruct (smemb _ _); [apply ExnSame_ok, AlwaysOk_modify|].
    apply ExnSame_gets. intros tf. destruct (gtuple cfg && tf); [apply ExnSame_raise|apply ExnSame_ok, AlwaysOk_modify].
  - destruct (ofrozen ob); [apply ExnSame_raise|apply ExnSame_ok, AlwaysOk_modify].
  - destruct (gtuple cfg && ofrozen ob); [apply ExnSame_raise|apply ExnSame_ok, AlwaysOk_modify].
Qed.

Lemma ExnSame_op_append : forall o v, ExnSame (op_append o v).
Proof.
  intros. unfold op_append. apply ExnSame_gets. intros [ob|]; [|apply ExnSame_raise].
  destruct (okind ob); try apply ExnSame_raise. destruct (ofrozen ob); [apply ExnSame_raise|apply ExnSame_ok, AlwaysOk_modify].
Qed.

Lemma ExnSame_op_del : forall cfg o name, ExnSame (op_del cfg o name).
Proof.
  intros. unfold op_del. apply ExnSame_gets. intros [ob|]; [|apply ExnSame_raise].
  destruct (del_guarded cfg (okind ob) && ofrozen ob); [apply ExnSame_raise|].
  destruct (sassoc name (oattrs ob)); [apply ExnSame_ok, AlwaysOk_modify|apply ExnSame_raise].
Qed.

Lemma ExnSame_op_setitem : forall cfg o key v, ExnSame (op_setitem cfg o key v).
Proof.
  intros. unfold op_setitem. apply ExnSame_gets. intros [ob|]; [|apply ExnSame_raise].
  destruct (okind ob); try apply ExnSame_raise. destruct (ofrozen ob); [apply ExnSame_raise|].
  apply ExnSame_gets. intros old. apply ExnSame_then_ok; [|intros; apply AlwaysOk_modify].
  destruct (if itransfers cfg then old else None) as [i|]; [|destruct v; apply ExnSame_ok, AlwaysOk_ret].
  destruct v as [p|c|c].
  - apply ExnSame_ok. intros st. unfold set_pid. destruct (nth_error (ptab st) p) as [[j l]|]; eexists; reflexivity.
  - apply ExnSame_ok, AlwaysOk_ret.
  - apply ExnSame_gets. intros [|]; [apply ExnSame_raise|apply ExnSame_ok, AlwaysOk_modify].
Qed.

Lemma ExnSame_op_new : forall cfg k a ni, ExnSame (op_new cfg k a ni).
Proof.
  intros cfg k a ni st e E. unfold op_new in *. destruct k; simpl in *; try discriminate.
  destruct (existsb _ a); simpl in *; [reflexivity|discriminate].
Qed.

Lemma ExnSame_op_copy : forall cfg o, ExnSame (op_copy cfg o).
Proof. intros cfg o st e E. unfold op_copy in E. destruct (copy_val _ _ _ _ _). simpl in E. discriminate. Qed.

Lemma ExnSame_op_restore : forall cfg o m, ExnSame (op_restore cfg o m).
Proof.
  intros cfg o m st e E. unfold op_restore in *. destruct m.
  - destruct (get st o); simpl in *; [discriminate|reflexivity].
  - destruct (copy_val _ _ _ _ _) as [cs v]. destruct (gtuple cfg && negb (trestore cfg) && cbad cs); simpl in *; [reflexivity|discriminate].
Qed.

Lemma bump_uncounted_exn : forall cfg b c st, ExnSame c -> (exists e, snd (c st) = Exn e) -> fst (bump cfg b c st) = st.
Proof.
  intros cfg b c st Hc (e & E). unfold bump. pose proof (Hc st e E) as H. destruct (c st) as [s1 [u|e1]]; simpl in *; congruence.
Qed.

(* with the wrapper repaired, deletion guarded, tuple priors frozen with their owner and the
   modification counter, EVERY operation keeps the invariant: no guard is left *)
Lemma step_ok_repaired : forall cfg x st, all_repaired cfg -> Inv st ->
  Inv (fst (step cfg x st)) /\ inflight (fst (step cfg x st)) = inflight st.
Proof.
  intros cfg x st (Hc & Hd & Ht & He) HI.
  assert (Hcnt : forall b c, Frm c -> ExnSame c -> (b = true \/ exists e, snd (c st) = Exn e) ->
                 Inv (fst (bump cfg b c st)) /\ inflight (fst (bump cfg b c st)) = inflight st).
  { intros b c Hf Hx [->|Hex].
    - apply bump_ok_counted; auto. intros e. apply Hx.
    - rewrite (bump_uncounted_exn cfg b c st Hx Hex). auto. }
  destruct x; try (apply step_ok; auto; cbn [guard]; auto; fail); cbn [step]; rewrite fst_unit_ans.
  - apply Hcnt; auto; [apply Frm_op_new|apply ExnSame_op_new].
  - apply Hcnt; [apply Frm_op_set|apply ExnSame_op_set|].
    unfold counted_target. rewrite Ht. destruct (get st o) as [ob|] eqn:G.
    + left. apply orb_true_r.
    + right. exists EAttribute. unfold op_set, bind, gets. simpl. now rewrite G.
  - apply Hcnt; auto; [apply Frm_op_setitem|apply ExnSame_op_setitem].
  - apply Hcnt; auto; [apply Frm_op_append|apply ExnSame_op_append].
  - apply Hcnt; [apply Frm_op_del|apply ExnSame_op_del|].
    destruct (get st o) as [ob|] eqn:G.
    + left. unfold del_guarded. rewrite Hd, Ht. destruct (okind ob); reflexivity.
    + right. exists EAttribute. unfold op_del, bind, gets. simpl. now rewrite G.
  - apply Hcnt; auto; [apply Frm_op_copy|apply ExnSame_op_copy].
  - apply Hcnt; auto; [apply Frm_op_restore|apply ExnSame_op_restore].
Qed.

Lemma run_ok_repaired : forall cfg ops st, all_repaired cfg -> Inv st -> inflight st = [] ->
  Inv (fst (run cfg ops st)) /\ inflight (fst (run cfg ops st)) = [].
Proof.
  intros cfg ops. induction ops as [|x r IH]; intros st HA HI Hi; [simpl; auto|].
  rewrite run_cons. simpl. destruct (step_ok_repaired cfg x st HA HI) as (I1 & F1). apply IH; auto. congruence.
Qed.

Theorem coherent_when_repaired : forall cfg, all_repaired cfg -> coherent_everywhere cfg.
Proof.
  intros cfg HA pre o q. rewrite run_app. simpl.
  destruct (run_ok_repaired cfg pre (init cfg) HA (Inv_init cfg) eq_refl) as (I & Hi).
  destruct (query_coherent cfg (fst (run cfg pre (init cfg))) o q I Hi) as (E & _).
  destruct (run_query cfg o q (fst (run cfg pre (init cfg)))) as [st1 a]. simpl in *. now rewrite E.
Qed.

(* ------------------------------------------------------------------ restoring stored state (916e580) *)
(* rebuilding from the database form never raises; a shallow copy raises only for a missing object *)
Theorem restore_never_raises : forall cfg st o,
  trestore cfg = true -> snd (step cfg (ORestore o RDatabase) st) = Ok AUnit.
Proof.
  intros cfg st o Ht. cbn [step]. unfold unit_ans, bind, bump, op_restore.
  destruct (copy_val cfg true FUEL (VRef o) (copy_start st)) as [cs v]. rewrite Ht.
  rewrite andb_false_r. reflexivity.
Qed.

Theorem restore_shallow_ok : forall cfg st o ob, get st o = Some ob ->
  snd (step cfg (ORestore o RShallow) st) = Ok AUnit.
Proof. intros cfg st o ob G. cbn [step]. unfold unit_ans, bind, bump, op_restore. rewrite G. reflexivity. Qed.

(* _set_tuple_priors_frozen gives every TuplePrior among the attributes the flag b *)
Lemma retuple_one_kind : forall b base h kv x, option_map okind (nth_error (retuple_one b base h kv) x) = option_map okind (nth_error h x).
Proof.
  intros b base h [k v] x. unfold retuple_one. simpl. destruct v as [p|c|u]; auto.
  destruct (Nat.leb base u); auto. destruct (nth_error h u) as [ub|] eqn:G; auto. destruct (okind ub) eqn:K; auto.
  destruct (Nat.eq_dec u x) as [->|Hne].
  - rewrite nth_error_update_eq by (apply nth_error_Some; congruence). rewrite G. simpl. now rewrite K.
  - now rewrite nth_error_update_neq.
Qed.

Definition flagged (b : bool) (h : list obj) (x : nat) : Prop :=
  exists xb, nth_error h x = Some xb /\ okind xb = KTuple /\ ofrozen xb = b.

Lemma retuple_one_keeps : forall b base h kv x, flagged b h x -> flagged b (retuple_one b base h kv) x.
Proof.
  intros b base h [k v] x (xb & G & K & F). unfold retuple_one. simpl. destruct v as [p|c|u]; try (exists xb; auto; fail).
  destruct (Nat.leb base u); [|exists xb; auto]. destruct (nth_error h u) as [ub|] eqn:Gu; [|exists xb; auto].
  destruct (okind ub) eqn:Ku; try (exists xb; auto; fail).
  destruct (Nat.eq_dec u x) as [->|Hne].
  - exists (with_cache (with_frozen ub b) []). rewrite nth_error_update_eq by (apply nth_error_Some; congruence). auto.
  - exists xb. rewrite nth_error_update_neq by auto. auto.
Qed.

Lemma retuple_sets : forall b base attrs h k u ub, In (k, VRef u) attrs -> base <= u ->
  nth_error h u = Some ub -> okind ub = KTuple -> flagged b (retuple b base h attrs) u.
Proof.
  intros b base. unfold retuple. induction attrs as [|kv attrs IH]; intros h k u ub Hin Hb G K; [contradiction|]. simpl.
  assert (Keep : forall h0, flagged b h0 u -> flagged b (fold_left (retuple_one b base) attrs h0) u).
  { clear. induction attrs as [|kv attrs IH]; intros h0 F; simpl; auto. apply IH. now apply retuple_one_keeps. }
  destruct Hin as [->|Hin].
  - apply Keep. unfold retuple_one. simpl. apply Nat.leb_le in Hb. rewrite Hb, G, K.
    exists (with_cache (with_frozen ub b) []). rewrite nth_error_update_eq by (apply nth_error_Some; congruence). auto.
  - pose proof (retuple_one_kind b base h kv u) as Hk. rewrite G in Hk. simpl in Hk.
    destruct (nth_error (retuple_one b base h kv) u) as [ub1|] eqn:G1; [|discriminate]. simpl in Hk. injection Hk as Hk.
    apply (IH _ k u ub1); auto. congruence.
Qed.

Lemma retuple_one_keeps_pm : forall b base h kv x xb, nth_error h x = Some xb -> okind xb <> KTuple ->
  nth_error (retuple_one b base h kv) x = Some xb.
Proof.
  intros b base h [k v] x xb G K. unfold retuple_one. simpl. destruct v as [p|c|u]; auto.
  destruct (Nat.leb base u); auto. destruct (nth_error h u) as [ub|] eqn:Gu; auto. destruct (okind ub) eqn:Ku; auto.
  destruct (Nat.eq_dec u x) as [->|Hne]; [congruence|]. now rewrite nth_error_update_neq.
Qed.
Lemma retuple_keeps_pm : forall b base attrs h x xb, nth_error h x = Some xb -> okind xb <> KTuple ->
  nth_error (retuple b base h attrs) x = Some xb.
Proof.
  intros b base. unfold retuple. induction attrs as [|kv attrs IH]; intros h x xb G K; simpl; auto.
  apply IH; auto. now apply retuple_one_keeps_pm.
Qed.

(* copy.copy of a model: the shared TuplePriors carry the flag of the (equally flagged) copy *)
Theorem restore_shallow_tuple_flags : forall cfg st o ob k u ub,
  gtuple cfg = true -> trestore cfg = true -> epochs cfg = false ->
  get st o = Some ob -> is_pm_kind (okind ob) = true -> In (k, VRef u) (oattrs ob) -> get st u = Some ub -> okind ub = KTuple ->
  let st' := fst (step cfg (ORestore o RShallow) st) in
  get st' (List.length (heap st)) = Some (with_cache ob []) /\ flagged (ofrozen ob) (heap st') u.
Proof.
  intros cfg st o ob k u ub Hg Ht He G Kp Hin Gu Ku. cbn [step]. rewrite fst_unit_ans. unfold bump, op_restore.
  rewrite G, Hg, Ht, Kp, He. simpl.
  assert (Gu1 : nth_error (heap st ++ [with_cache ob []]) u = Some ub).
  { unfold get in Gu. rewrite nth_error_app1; auto. apply nth_error_Some. congruence. }
  assert (Gn : nth_error (heap st ++ [with_cache ob []]) (List.length (heap st)) = Some (with_cache ob [])).
  { rewrite nth_error_app2 by lia. rewrite Nat.sub_diag. reflexivity. }
  split.
  - unfold get. simpl. apply retuple_keeps_pm; auto. simpl. destruct (okind ob); simpl in Kp; congruence.
  - apply (retuple_sets _ 0 (oattrs ob) _ k u ub); auto. lia.
Qed.
