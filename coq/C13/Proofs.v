From Coq Require Import ZArith List String Bool Arith.
From PAFC13 Require Import Model.
Import ListNotations.
Lemma run_nil : forall cfg st, run cfg [] st = (st, []).
Proof. reflexivity. Qed.
